package main

// Alpha-renaming self-test: every local variable (parameters, results, receivers, locals, closure
// parameters, type-switch variables) of every non-generated file of the packages a property loads is
// renamed consistently by object. The program is unchanged up to alpha-equivalence, so every rule must
// report exactly what it reports on the original. Two modes: "suffix" keeps the old name as a prefix
// (name → nameZq; catches rules keyed on exact names), "opaque" replaces it (name → zqN; also catches
// rules keyed on substrings of names).

import (
	"fmt"
	"go/ast"
	"go/types"
	"os"
	"sort"
	"strings"
)

type alphaEdit struct {
	off, end int
	name     string
}

func isLocalVar(o types.Object) bool {
	v, ok := o.(*types.Var)
	if !ok || v.IsField() || v.Name() == "_" || v.Name() == "" {
		return false
	}
	sc := v.Parent()
	if sc == nil || sc == types.Universe || sc.Parent() == types.Universe {
		return false // package-level (own or imported package)
	}
	return true
}

// alphaOverlay builds the renamed sources for all files of the root packages of the given programs.
func alphaOverlay(progs map[string]*Prog, mode string) (map[string][]byte, int, error) {
	overlay := map[string][]byte{}
	renamed := 0
	keys := make([]string, 0, len(progs))
	for k := range progs {
		keys = append(keys, k)
	}
	sort.Strings(keys)
	for _, k := range keys {
		p := progs[k]
		if p == nil {
			continue
		}
		for _, pk := range p.Roots {
			info := pk.TypesInfo
			for _, f := range pk.Syntax {
				tf := p.Fset.File(f.Pos())
				if tf == nil {
					continue
				}
				name := tf.Name()
				if !strings.HasPrefix(name, repoDir+"/") || strings.HasSuffix(name, ".pb.go") || strings.HasSuffix(name, ".capnp.go") {
					continue
				}
				if _, done := overlay[name]; done {
					continue
				}
				src, err := os.ReadFile(name)
				if err != nil {
					return nil, 0, err
				}
				if len(src) != tf.Size() {
					return nil, 0, fmt.Errorf("%s changed while loading", name)
				}
				newName := map[types.Object]string{}
				pick := func(o types.Object) string {
					if n, ok := newName[o]; ok {
						return n
					}
					var n string
					if mode == "opaque" {
						n = fmt.Sprintf("zq%d", len(newName)+1)
					} else {
						n = o.Name() + "Zq"
					}
					newName[o] = n
					return n
				}
				var edits []alphaEdit
				add := func(id *ast.Ident, n string) {
					edits = append(edits, alphaEdit{tf.Offset(id.Pos()), tf.Offset(id.End()), n})
				}
				// the symbolic variable of a type switch has no object of its own: one implicit object per clause
				tsName := map[*ast.Ident]string{}
				ast.Inspect(f, func(n ast.Node) bool {
					ts, ok := n.(*ast.TypeSwitchStmt)
					if !ok {
						return true
					}
					as, ok := ts.Assign.(*ast.AssignStmt)
					if !ok || len(as.Lhs) != 1 {
						return true
					}
					id, ok := as.Lhs[0].(*ast.Ident)
					if !ok || id.Name == "_" {
						return true
					}
					var nn string
					if mode == "opaque" {
						nn = fmt.Sprintf("zqts%d", len(tsName)+1)
					} else {
						nn = id.Name + "Zq"
					}
					tsName[id] = nn
					for _, cl := range ts.Body.List {
						if o := info.Implicits[cl]; o != nil {
							newName[o] = nn
						}
					}
					return true
				})
				ast.Inspect(f, func(n ast.Node) bool {
					id, ok := n.(*ast.Ident)
					if !ok {
						return true
					}
					if nn, ok := tsName[id]; ok {
						add(id, nn)
						return true
					}
					o := info.Defs[id]
					if o == nil {
						o = info.Uses[id]
					}
					if o != nil && isLocalVar(o) {
						add(id, pick(o))
					}
					return true
				})
				if len(edits) == 0 {
					continue
				}
				sort.Slice(edits, func(i, j int) bool { return edits[i].off < edits[j].off })
				var b strings.Builder
				last := 0
				for _, e := range edits {
					if e.off < last {
						continue
					}
					b.Write(src[last:e.off])
					b.WriteString(e.name)
					last = e.end
				}
				b.Write(src[last:])
				overlay[name] = []byte(b.String())
				renamed += len(newName)
			}
		}
	}
	return overlay, renamed, nil
}

// runAlpha runs the property on the alpha-renamed tree and compares with the base run.
func runAlpha(p *Property, tags string, modes ...string) []mutantResult {
	c := runRules(p, "quick", tags, nil)
	base := map[string]string{}
	for _, o := range c.Obls {
		base[o.Key+"|"+o.Descriptor] = o.Status
	}
	var out []mutantResult
	for _, mode := range modes {
		id := "alpha-" + mode
		overlay, n, err := alphaOverlay(c.progs, mode)
		if err != nil {
			out = append(out, mutantResult{ID: id, Verdict: "BROKEN", Detail: err.Error()})
			continue
		}
		if len(overlay) == 0 {
			out = append(out, mutantResult{ID: id, Verdict: "SKIPPED", Detail: "the property loads no source packages"})
			continue
		}
		if d := os.Getenv("TVC_ALPHA_DUMP"); d != "" {
			for name, src := range overlay {
				out := d + "/" + mode + strings.TrimPrefix(name, repoDir)
				_ = os.MkdirAll(out[:strings.LastIndex(out, "/")], 0o755)
				_ = os.WriteFile(out, src, 0o644)
			}
		}
		c2 := runRules(p, "quick", tags, overlay)
		res := mutantResult{ID: id, Verdict: "QUIET", Detail: fmt.Sprintf("%d variables renamed in %d files", n, len(overlay))}
		var alarms []string
		for _, o := range c2.Obls {
			if o.Rule == "load" && o.Status == StIncomplete {
				res = mutantResult{ID: id, Verdict: "BROKEN", Detail: "renamed tree does not compile: " + o.Reason}
				alarms = nil
				break
			}
			if o.Status != StViolation && o.Status != StIncomplete {
				continue
			}
			if st, was := base[o.Key+"|"+o.Descriptor]; was && (st == StViolation || st == StIncomplete) {
				continue
			}
			r := o.Reason
			if len(r) > 220 {
				r = r[:220] + "…"
			}
			alarms = append(alarms, o.Key+": "+r)
		}
		if len(alarms) > 0 {
			res = mutantResult{ID: id, Verdict: "ALARM", Detail: fmt.Sprintf("%d new: ", len(alarms)) + strings.Join(alarms, "\n      ")}
		}
		out = append(out, res)
	}
	return out
}
