package main

// Benign variants: behaviour-preserving edits of the anchored code (renamed locals, reordered
// independent statements, equivalent spellings) kept in benign/Cxx.jsonl. The rules must stay quiet on
// each of them. An ALARM is a defect of the checker (a rule keyed on something that is not part of
// the property), reported as checker-regression in the thorough tier.

import (
	"bufio"
	"encoding/json"
	"fmt"
	"os"
	"path/filepath"
	"runtime"
	"strings"
)

type benignVariant struct {
	ID    string `json:"id"`
	Edits []struct {
		File    string `json:"file"`
		Find    string `json:"find"`
		Replace string `json:"replace"`
		All     bool   `json:"all"` // replace every occurrence (renames)
	} `json:"edits"`
	Why string `json:"why"`
}

func loadBenign(id string) ([]benignVariant, error) {
	f, err := os.Open(filepath.Join(verifDir, "benign", id+".jsonl"))
	if err != nil {
		if os.IsNotExist(err) {
			return nil, nil
		}
		return nil, err
	}
	defer f.Close()
	var out []benignVariant
	sc := bufio.NewScanner(f)
	sc.Buffer(make([]byte, 1<<20), 1<<20)
	for sc.Scan() {
		line := strings.TrimSpace(sc.Text())
		if line == "" || strings.HasPrefix(line, "#") {
			continue
		}
		var v benignVariant
		if err := json.Unmarshal([]byte(line), &v); err != nil {
			return nil, fmt.Errorf("benign/%s.jsonl: %v", id, err)
		}
		out = append(out, v)
	}
	return out, sc.Err()
}

// runBenign applies each variant and requires that no new violation / incomplete obligation appears.
func runBenign(p *Property, tags string) []mutantResult {
	vs, err := loadBenign(p.ID)
	if err != nil {
		return []mutantResult{{ID: "load", Verdict: "BROKEN", Detail: err.Error()}}
	}
	if len(vs) == 0 {
		return nil
	}
	base := map[string]string{}
	c := runRules(p, "quick", tags, nil)
	for _, o := range c.Obls {
		base[o.Key+"|"+o.Descriptor] = o.Status
	}
	runtime.GC()
	var out []mutantResult
	for _, v := range vs {
		overlay := map[string][]byte{}
		skipped := ""
		for _, e := range v.Edits {
			abs := filepath.Join(repoDir, e.File)
			src, ok := overlay[abs]
			if !ok {
				b, err := os.ReadFile(abs)
				if err != nil {
					skipped = "file missing: " + e.File
					break
				}
				src = b
			}
			n := strings.Count(string(src), e.Find)
			if n == 0 || (!e.All && n != 1) {
				skipped = fmt.Sprintf("find text occurs %d times in %s", n, e.File)
				break
			}
			if e.All {
				overlay[abs] = []byte(strings.ReplaceAll(string(src), e.Find, e.Replace))
			} else {
				overlay[abs] = []byte(strings.Replace(string(src), e.Find, e.Replace, 1))
			}
		}
		if skipped != "" {
			out = append(out, mutantResult{ID: v.ID, Verdict: "SKIPPED", Detail: skipped})
			continue
		}
		c := runRules(p, "quick", tags, overlay)
		res := mutantResult{ID: v.ID, Verdict: "QUIET"}
		for _, o := range c.Obls {
			if o.Rule == "load" && o.Status == StIncomplete {
				res = mutantResult{ID: v.ID, Verdict: "BROKEN", Detail: "variant does not compile: " + o.Reason}
				break
			}
			if o.Status != StViolation && o.Status != StIncomplete {
				continue
			}
			if st, was := base[o.Key+"|"+o.Descriptor]; was && (st == StViolation || st == StIncomplete) {
				continue
			}
			res = mutantResult{ID: v.ID, Verdict: "ALARM", Detail: o.Key + ": " + o.Reason}
			break
		}
		out = append(out, res)
		runtime.GC()
	}
	return out
}
