package main

import (
	"fmt"
	"go/ast"
	"go/token"
	"go/types"
	"sort"
	"strings"
)

// Boolean-shape extraction (engines E12 and part of E9): a function that decides something by
// nested loops, flags and early exits is summarised — statically, by structural recursion over
// its statements — into a quantified boolean formula over opaque atoms. The formula is then
// compared with a specification formula on every small finite model (domain sizes 0..N and all
// truth assignments of the ground atoms): a truth table over an abstraction of an extracted
// expression, not an execution of thanos code.

const (
	bT = iota
	bF
	bAtom
	bNot
	bAnd
	bOr
	bAll
	bAny
	bEmpty // domain is empty
	bVar   // placeholder for the incoming value of a flag (loop summarisation only)
)

type BF struct {
	K    int
	A    []*BF
	Name string   // atom: classified name; quantifier: bound variable id; bVar: flag name
	Dom  string   // quantifier / bEmpty: classified domain name
	Vars []string // atom / domain: ids of bound variables mentioned, outermost first
	Text string   // original text (diagnostics)
}

var (
	bfTrue  = &BF{K: bT}
	bfFalse = &BF{K: bF}
)

func bfNot(a *BF) *BF {
	switch a.K {
	case bT:
		return bfFalse
	case bF:
		return bfTrue
	case bNot:
		return a.A[0]
	}
	return &BF{K: bNot, A: []*BF{a}}
}
func bfAnd(a, b *BF) *BF {
	if a.K == bF || b.K == bF {
		return bfFalse
	}
	if a.K == bT {
		return b
	}
	if b.K == bT {
		return a
	}
	return &BF{K: bAnd, A: []*BF{a, b}}
}
func bfOr(a, b *BF) *BF {
	if a.K == bT || b.K == bT {
		return bfTrue
	}
	if a.K == bF {
		return b
	}
	if b.K == bF {
		return a
	}
	return &BF{K: bOr, A: []*BF{a, b}}
}
func bfIte(c, a, b *BF) *BF { return bfOr(bfAnd(c, a), bfAnd(bfNot(c), b)) }

func (f *BF) String() string {
	switch f.K {
	case bT:
		return "true"
	case bF:
		return "false"
	case bAtom:
		return f.Name + "(" + strings.Join(f.Vars, ",") + ")"
	case bNot:
		return "!" + f.A[0].String()
	case bAnd:
		return "(" + f.A[0].String() + " && " + f.A[1].String() + ")"
	case bOr:
		return "(" + f.A[0].String() + " || " + f.A[1].String() + ")"
	case bAll:
		return "ALL " + f.Name + ":" + f.Dom + "(" + strings.Join(f.Vars, ",") + ")." + f.A[0].String()
	case bAny:
		return "ANY " + f.Name + ":" + f.Dom + "(" + strings.Join(f.Vars, ",") + ")." + f.A[0].String()
	case bEmpty:
		return "empty " + f.Dom + "(" + strings.Join(f.Vars, ",") + ")"
	case bVar:
		return "<" + f.Name + ">"
	}
	return "?"
}

func (f *BF) mentions(k int, name string) bool {
	if f.K == k && (name == "" || f.Name == name) {
		return true
	}
	for _, a := range f.A {
		if a.mentions(k, name) {
			return true
		}
	}
	return false
}

func (f *BF) mentionsVarID(id string) bool {
	for _, v := range f.Vars {
		if v == id {
			return true
		}
	}
	for _, a := range f.A {
		if a.mentionsVarID(id) {
			return true
		}
	}
	return false
}

func (f *BF) subst(flag string, by *BF) *BF {
	if f.K == bVar && f.Name == flag {
		return by
	}
	if len(f.A) == 0 {
		return f
	}
	n := *f
	n.A = make([]*BF, len(f.A))
	for i, a := range f.A {
		n.A[i] = a.subst(flag, by)
	}
	switch n.K {
	case bNot:
		return bfNot(n.A[0])
	case bAnd:
		return bfAnd(n.A[0], n.A[1])
	case bOr:
		return bfOr(n.A[0], n.A[1])
	}
	return &n
}

// ---------- extraction ----------

// bfClassifier maps an opaque condition / domain text (bound variables printed as $id) to a
// canonical name used by the specification. Returning "" means "do not know" and fails the
// extraction (fail closed).
type bfClassifier struct {
	Atom   func(text string) (name string, negated bool)
	Domain func(text string) string
}

type bfPath struct {
	cond  *BF
	kind  int // pFall, pRet, pBrk, pCont
	label string
	env   map[types.Object]*BF
	ret   *BF
}

const (
	pFall = iota
	pRet
	pBrk
	pCont
)

type bfExtractor struct {
	p       *Prog
	cls     bfClassifier
	bound   map[types.Object]string // range variables -> id
	order   map[string]int          // id -> nesting order
	defs    map[types.Object]ast.Expr
	nextID  int
	depth   int
	resIdx  int
	errs    []string
	curInfo *types.Info
	curFn   *Fn
	NLoops  int
	NAtoms  int
	Inlined []string
	retHook func(ex *bfExtractor, ret *ast.ReturnStmt) *BF // optional: classify non-bool returns
	frozenM map[string]map[string]bool                     // printed argument text -> bound ids it mentions
	domDeps map[string][]string                            // bound id -> ids its domain depends on
}

func (x *bfExtractor) fail(pos token.Pos, format string, a ...any) {
	x.errs = append(x.errs, x.p.Pos(pos)+": "+fmt.Sprintf(format, a...))
}

func cloneEnv(e map[types.Object]*BF) map[types.Object]*BF {
	o := make(map[types.Object]*BF, len(e))
	for k, v := range e {
		o[k] = v
	}
	return o
}

// text prints e with bound variables as $id and single-definition locals / parameters
// substituted; mentioned collects the bound ids.
func (x *bfExtractor) text(e ast.Expr, mentioned map[string]bool) string {
	info := x.curInfo
	var pr func(e ast.Expr) string
	pr = func(e ast.Expr) string {
		switch v := e.(type) {
		case *ast.Ident:
			o := objOf(info, v)
			if o == nil {
				for id := range x.frozenM[v.Name] {
					mentioned[id] = true
				}
			}
			if o != nil {
				if id, ok := x.bound[o]; ok {
					mentioned[id] = true
					return "$" + id
				}
				if d, ok := x.defs[o]; ok && d != nil {
					saved := x.defs[o]
					delete(x.defs, o) // guard against cycles
					s := pr(d)
					x.defs[o] = saved
					return s
				}
			}
			return v.Name
		case *ast.ParenExpr:
			return pr(v.X)
		case *ast.SelectorExpr:
			return pr(v.X) + "." + v.Sel.Name
		case *ast.StarExpr:
			return "*" + pr(v.X)
		case *ast.UnaryExpr:
			return v.Op.String() + pr(v.X)
		case *ast.BinaryExpr:
			return pr(v.X) + v.Op.String() + pr(v.Y)
		case *ast.IndexExpr:
			return pr(v.X) + "[" + pr(v.Index) + "]"
		case *ast.BasicLit:
			return v.Value
		case *ast.CallExpr:
			var args []string
			for _, a := range v.Args {
				args = append(args, pr(a))
			}
			return pr(v.Fun) + "(" + strings.Join(args, ",") + ")"
		case *ast.SliceExpr:
			s := pr(v.X) + "["
			if v.Low != nil {
				s += pr(v.Low)
			}
			s += ":"
			if v.High != nil {
				s += pr(v.High)
			}
			return s + "]"
		case *ast.TypeAssertExpr:
			return pr(v.X) + ".(type)"
		}
		return types.ExprString(e)
	}
	return pr(e)
}

func (x *bfExtractor) sortedIDs(m map[string]bool) []string {
	// a bound variable drawn from a domain that itself depends on outer variables depends on them too
	for changed := true; changed; {
		changed = false
		for id := range m {
			for _, d := range x.domDeps[id] {
				if !m[d] {
					m[d] = true
					changed = true
				}
			}
		}
	}
	var ids []string
	for id := range m {
		ids = append(ids, id)
	}
	sort.Slice(ids, func(i, j int) bool { return x.order[ids[i]] < x.order[ids[j]] })
	return ids
}

func isBoolType(t types.Type) bool {
	b, ok := t.Underlying().(*types.Basic)
	return ok && b.Info()&types.IsBoolean != 0
}

// formula of a boolean expression
func (x *bfExtractor) formula(e ast.Expr, env map[types.Object]*BF) *BF {
	info := x.curInfo
	e = unparen(e)
	if tv, ok := info.Types[e]; ok && tv.Value != nil && isBoolType(tv.Type) {
		if tv.Value.ExactString() == "true" {
			return bfTrue
		}
		return bfFalse
	}
	switch v := e.(type) {
	case *ast.Ident:
		if o := objOf(info, v); o != nil {
			if f, ok := env[o]; ok {
				return f
			}
			if d, ok := x.defs[o]; ok && d != nil {
				if tv, ok := info.Types[v]; ok && isBoolType(tv.Type) {
					saved := d
					delete(x.defs, o)
					f := x.formula(saved, env)
					x.defs[o] = saved
					return f
				}
			}
		}
	case *ast.UnaryExpr:
		if v.Op == token.NOT {
			return bfNot(x.formula(v.X, env))
		}
	case *ast.BinaryExpr:
		switch v.Op {
		case token.LAND:
			return bfAnd(x.formula(v.X, env), x.formula(v.Y, env))
		case token.LOR:
			return bfOr(x.formula(v.X, env), x.formula(v.Y, env))
		case token.EQL, token.NEQ, token.GTR, token.LSS, token.GEQ, token.LEQ:
			// len(X) ? 0
			if f := x.emptiness(v, env); f != nil {
				return f
			}
			// bool == bool
			if tv, ok := info.Types[v.X]; ok && isBoolType(tv.Type) && (v.Op == token.EQL || v.Op == token.NEQ) {
				a, b := x.formula(v.X, env), x.formula(v.Y, env)
				eq := bfOr(bfAnd(a, b), bfAnd(bfNot(a), bfNot(b)))
				if v.Op == token.NEQ {
					return bfNot(eq)
				}
				return eq
			}
		}
	case *ast.CallExpr:
		if f := x.inlineCall(v, env); f != nil {
			return f
		}
	}
	// opaque atom
	m := map[string]bool{}
	txt := x.text(e, m)
	name, neg := x.cls.Atom(txt)
	if name == "" {
		x.fail(e.Pos(), "unclassified condition %q", txt)
		return &BF{K: bAtom, Name: "?" + txt, Vars: x.sortedIDs(m), Text: txt}
	}
	x.NAtoms++
	var f *BF = &BF{K: bAtom, Name: name, Vars: x.sortedIDs(m), Text: txt}
	if neg {
		f = bfNot(f)
	}
	return f
}

// emptiness recognises len(X) == 0, len(X) != 0, len(X) > 0, len(X) < 1, 0 == len(X) ...
func (x *bfExtractor) emptiness(b *ast.BinaryExpr, env map[types.Object]*BF) *BF {
	info := x.curInfo
	constOf := func(e ast.Expr) (int64, bool) {
		if tv, ok := info.Types[e]; ok && tv.Value != nil {
			s := tv.Value.ExactString()
			var n int64
			if _, err := fmt.Sscanf(s, "%d", &n); err == nil {
				return n, true
			}
		}
		return 0, false
	}
	l, r, op := b.X, b.Y, b.Op
	if _, ok := constOf(l); ok {
		l, r = r, l
		switch op {
		case token.GTR:
			op = token.LSS
		case token.LSS:
			op = token.GTR
		case token.GEQ:
			op = token.LEQ
		case token.LEQ:
			op = token.GEQ
		}
	}
	c := lenArg(info, l)
	k, ok := constOf(r)
	if c == nil || !ok {
		return nil
	}
	m := map[string]bool{}
	txt := x.text(c, m)
	dom := x.cls.Domain(txt)
	if dom == "" {
		return nil
	}
	empty := &BF{K: bEmpty, Dom: dom, Vars: x.sortedIDs(m), Text: txt}
	switch {
	case op == token.EQL && k == 0, op == token.LSS && k == 1, op == token.LEQ && k == 0:
		return empty
	case op == token.NEQ && k == 0, op == token.GTR && k == 0, op == token.GEQ && k == 1:
		return bfNot(empty)
	}
	return nil
}

// inlineCall summarises a call to a function with a body in the loaded packages whose only
// result is a bool (depth bounded).
func (x *bfExtractor) inlineCall(call *ast.CallExpr, env map[types.Object]*BF) *BF {
	info := x.curInfo
	callee := calleeOf(info, call)
	if callee == nil || callee.Pkg() == nil || x.depth >= 3 {
		return nil
	}
	sig := callee.Type().(*types.Signature)
	if sig.Results().Len() != 1 || !isBoolType(sig.Results().At(0).Type()) {
		return nil
	}
	var target *Fn
	for _, pk := range x.p.Roots {
		if pk.Types != callee.Pkg() {
			continue
		}
		for _, f := range pk.Syntax {
			for _, d := range f.Decls {
				if fd, ok := d.(*ast.FuncDecl); ok && fd.Body != nil && pk.TypesInfo.Defs[fd.Name] == callee {
					target = &Fn{Pkg: pk, Decl: fd, Obj: callee, Name: fnDisplayName(fd)}
				}
			}
		}
	}
	if target == nil {
		return nil
	}
	// bind parameters (and receiver) to argument expressions, printed in the caller's scope
	type saved struct {
		o types.Object
		e ast.Expr
		h bool
	}
	var restore []saved
	bind := func(o types.Object, e ast.Expr) {
		old, had := x.defs[o]
		restore = append(restore, saved{o, old, had})
		// freeze the caller-side text now: wrap as an identifier carrying the printed text
		m := map[string]bool{}
		txt := x.text(e, m)
		x.defs[o] = &ast.Ident{Name: txt, NamePos: e.Pos()}
		for id := range m {
			x.frozen(txt, id)
		}
	}
	if sig.Recv() != nil {
		if sel, ok := unparen(call.Fun).(*ast.SelectorExpr); ok && target.Decl.Recv != nil && len(target.Decl.Recv.List[0].Names) == 1 {
			bind(target.Pkg.TypesInfo.Defs[target.Decl.Recv.List[0].Names[0]], sel.X)
		}
	}
	i := 0
	for _, f := range target.Decl.Type.Params.List {
		for _, nm := range f.Names {
			if i < len(call.Args) {
				bind(target.Pkg.TypesInfo.Defs[nm], call.Args[i])
			}
			i++
		}
	}
	savedInfo, savedFn, savedIdx := x.curInfo, x.curFn, x.resIdx
	x.curInfo, x.curFn, x.resIdx = target.Pkg.TypesInfo, target, 0
	x.depth++
	f := x.funcFormula(target)
	x.depth--
	x.curInfo, x.curFn, x.resIdx = savedInfo, savedFn, savedIdx
	for j := len(restore) - 1; j >= 0; j-- {
		if restore[j].h {
			x.defs[restore[j].o] = restore[j].e
		} else {
			delete(x.defs, restore[j].o)
		}
	}
	x.Inlined = append(x.Inlined, target.Name)
	return f
}

// frozen remembers which bound ids a frozen (already printed) argument text mentions.
func (x *bfExtractor) frozen(txt, id string) {
	if x.frozenM[txt] == nil {
		x.frozenM[txt] = map[string]bool{}
	}
	x.frozenM[txt][id] = true
}

func (x *bfExtractor) funcFormula(fn *Fn) *BF {
	paths := x.stmts(fn.Body().List, map[types.Object]*BF{})
	res := bfFalse
	for _, p := range paths {
		switch p.kind {
		case pRet:
			res = bfOr(res, bfAnd(p.cond, p.ret))
		case pFall:
			// falling off the end of a bool function cannot happen (compiler), for closures without
			// result treat as false
		default:
			x.fail(fn.Node().Pos(), "break/continue escapes function %s", fn.Name)
		}
	}
	return res
}

func (x *bfExtractor) stmts(list []ast.Stmt, env map[types.Object]*BF) []bfPath {
	cur := []bfPath{{cond: bfTrue, kind: pFall, env: env}}
	for _, s := range list {
		var next []bfPath
		for _, p := range cur {
			if p.kind != pFall {
				next = append(next, p)
				continue
			}
			for _, q := range x.stmt(s, p.env, "") {
				q.cond = bfAnd(p.cond, q.cond)
				if q.cond.K == bF {
					continue
				}
				next = append(next, q)
			}
		}
		cur = next
		if len(cur) > 256 {
			x.fail(s.Pos(), "too many paths")
			return cur
		}
	}
	return cur
}

func (x *bfExtractor) stmt(s ast.Stmt, env map[types.Object]*BF, label string) []bfPath {
	info := x.curInfo
	fall := func(e map[types.Object]*BF) []bfPath { return []bfPath{{cond: bfTrue, kind: pFall, env: e}} }
	switch v := s.(type) {
	case *ast.ReturnStmt:
		if x.retHook != nil {
			if f := x.retHook(x, v); f != nil {
				return []bfPath{{cond: bfTrue, kind: pRet, env: env, ret: f}}
			}
		}
		if x.resIdx >= len(v.Results) {
			x.fail(v.Pos(), "return without the designated result")
			return []bfPath{{cond: bfTrue, kind: pRet, env: env, ret: bfFalse}}
		}
		return []bfPath{{cond: bfTrue, kind: pRet, env: env, ret: x.formula(v.Results[x.resIdx], env)}}
	case *ast.BlockStmt:
		return x.stmts(v.List, env)
	case *ast.LabeledStmt:
		return x.stmt(v.Stmt, env, v.Label.Name)
	case *ast.BranchStmt:
		lb := ""
		if v.Label != nil {
			lb = v.Label.Name
		}
		switch v.Tok {
		case token.BREAK:
			return []bfPath{{cond: bfTrue, kind: pBrk, label: lb, env: env}}
		case token.CONTINUE:
			return []bfPath{{cond: bfTrue, kind: pCont, label: lb, env: env}}
		}
		x.fail(v.Pos(), "unsupported branch statement %s", v.Tok)
		return fall(env)
	case *ast.IfStmt:
		e := env
		if v.Init != nil {
			ps := x.stmt(v.Init, env, "")
			if len(ps) != 1 || ps[0].kind != pFall {
				x.fail(v.Pos(), "unsupported if-init")
				return fall(env)
			}
			e = ps[0].env
		}
		c := x.formula(v.Cond, e)
		var out []bfPath
		for _, q := range x.stmts(v.Body.List, e) {
			q.cond = bfAnd(c, q.cond)
			out = append(out, q)
		}
		if v.Else != nil {
			for _, q := range x.stmt(v.Else, e, "") {
				q.cond = bfAnd(bfNot(c), q.cond)
				out = append(out, q)
			}
		} else {
			out = append(out, bfPath{cond: bfNot(c), kind: pFall, env: e})
		}
		return out
	case *ast.SwitchStmt:
		if v.Init != nil || v.Tag != nil {
			x.fail(v.Pos(), "unsupported switch form")
			return fall(env)
		}
		var out []bfPath
		none := bfTrue
		var def *ast.CaseClause
		for _, cl := range v.Body.List {
			cc := cl.(*ast.CaseClause)
			if cc.List == nil {
				def = cc
				continue
			}
			c := bfFalse
			for _, e := range cc.List {
				c = bfOr(c, x.formula(e, env))
			}
			for _, q := range x.stmts(cc.Body, env) {
				q.cond = bfAnd(bfAnd(none, c), q.cond)
				if q.kind == pBrk && q.label == "" {
					q.kind = pFall
				}
				out = append(out, q)
			}
			none = bfAnd(none, bfNot(c))
		}
		if def != nil {
			for _, q := range x.stmts(def.Body, env) {
				q.cond = bfAnd(none, q.cond)
				if q.kind == pBrk && q.label == "" {
					q.kind = pFall
				}
				out = append(out, q)
			}
		} else {
			out = append(out, bfPath{cond: none, kind: pFall, env: env})
		}
		return out
	case *ast.DeclStmt:
		gd, ok := v.Decl.(*ast.GenDecl)
		if !ok || gd.Tok != token.VAR {
			return fall(env)
		}
		e := env
		for _, sp := range gd.Specs {
			vs := sp.(*ast.ValueSpec)
			for i, nm := range vs.Names {
				o := info.Defs[nm]
				if o == nil {
					continue
				}
				if isBoolType(o.Type()) {
					if e2 := cloneEnv(e); true {
						if i < len(vs.Values) {
							e2[o] = x.formula(vs.Values[i], e)
						} else {
							e2[o] = bfFalse
						}
						e = e2
					}
				} else if i < len(vs.Values) {
					x.defs[o] = vs.Values[i]
				}
			}
		}
		return fall(e)
	case *ast.AssignStmt:
		e := env
		for i, l := range v.Lhs {
			o := objOf(info, l)
			if o == nil {
				continue
			}
			if _, isVar := o.(*types.Var); !isVar {
				continue
			}
			if isBoolType(o.Type()) && len(v.Lhs) == len(v.Rhs) {
				if _, isIdent := unparen(l).(*ast.Ident); isIdent {
					e = cloneEnv(e)
					switch v.Tok {
					case token.ASSIGN, token.DEFINE:
						e[o] = x.formula(v.Rhs[i], env)
					default:
						x.fail(v.Pos(), "unsupported bool assignment operator")
					}
					continue
				}
			}
			if _, isIdent := unparen(l).(*ast.Ident); isIdent {
				if v.Tok == token.DEFINE && len(v.Lhs) == len(v.Rhs) && !x.reassigned(o) {
					x.defs[o] = v.Rhs[i]
				} else if _, had := x.defs[o]; had {
					x.defs[o] = nil // value no longer known
				}
			}
		}
		return fall(e)
	case *ast.RangeStmt:
		return x.loop(v, v.X, v.Key, v.Value, v.Body, env, label)
	case *ast.ForStmt:
		// counted loop over a container: for i := 0; i < len(X); i++
		if init, ok := v.Init.(*ast.AssignStmt); ok && len(init.Lhs) == 1 && v.Cond != nil {
			if c, ok := unparen(v.Cond).(*ast.BinaryExpr); ok && c.Op == token.LSS && sameObjExpr(info, c.X, init.Lhs[0]) {
				if cont := lenArg(info, c.Y); cont != nil {
					return x.loop(v, cont, init.Lhs[0], nil, v.Body, env, label)
				}
			}
		}
		x.fail(v.Pos(), "unsupported for-loop form")
		return fall(env)
	case *ast.ExprStmt, *ast.IncDecStmt, *ast.DeferStmt, *ast.GoStmt, *ast.SendStmt, *ast.EmptyStmt:
		return fall(env)
	}
	x.fail(s.Pos(), "unsupported statement %T", s)
	return fall(env)
}

// reassigned reports whether object o is assigned more than once in the current function.
func (x *bfExtractor) reassigned(o types.Object) bool {
	n := 0
	ast.Inspect(x.curFn.Body(), func(nd ast.Node) bool {
		switch s := nd.(type) {
		case *ast.AssignStmt:
			for _, l := range s.Lhs {
				if objOf(x.curInfo, l) == o {
					n++
				}
			}
		case *ast.IncDecStmt:
			if objOf(x.curInfo, s.X) == o {
				n++
			}
		}
		return true
	})
	return n > 1
}

func (x *bfExtractor) loop(node ast.Node, cont ast.Expr, key, val ast.Expr, body *ast.BlockStmt, env map[types.Object]*BF, label string) []bfPath {
	info := x.curInfo
	x.NLoops++
	m := map[string]bool{}
	domTxt := x.text(cont, m)
	dom := x.cls.Domain(domTxt)
	if dom == "" {
		x.fail(node.Pos(), "unclassified loop domain %q", domTxt)
		dom = "?" + domTxt
	}
	domVars := x.sortedIDs(m)
	x.nextID++
	id := fmt.Sprintf("v%d", x.nextID)
	x.order[id] = x.nextID
	x.domDeps[id] = domVars
	var boundObjs []types.Object
	for _, kv := range []ast.Expr{key, val} {
		if kv == nil {
			continue
		}
		if o := objOf(info, kv); o != nil && o.Name() != "_" {
			x.bound[o] = id
			boundObjs = append(boundObjs, o)
		}
	}
	defer func() {
		for _, o := range boundObjs {
			delete(x.bound, o)
		}
	}()
	// incoming flags become placeholders so that per-iteration updates can be recognised
	inEnv := cloneEnv(env)
	names := map[types.Object]string{}
	for o := range env {
		nm := fmt.Sprintf("%s@%d", o.Name(), o.Pos())
		names[o] = nm
		inEnv[o] = &BF{K: bVar, Name: nm}
	}
	paths := x.stmts(body.List, inEnv)
	var nexts, exits []bfPath
	for _, p := range paths {
		if p.kind == pFall || (p.kind == pCont && (p.label == "" || p.label == label)) {
			nexts = append(nexts, p)
		} else {
			exits = append(exits, p)
		}
	}
	mk := func(k int, body *BF) *BF {
		if body.K == bT && k == bAll {
			return bfTrue
		}
		if body.K == bF && k == bAny {
			return bfFalse
		}
		return &BF{K: k, Name: id, Dom: dom, Vars: domVars, A: []*BF{body}, Text: domTxt}
	}
	outEnv := cloneEnv(env)
	// fold flag updates over the next-paths
	for o, nm := range names {
		mode := 0 // 0 unchanged, 1 or-fold, 2 and-fold
		acc := bfFalse
		for _, p := range nexts {
			u := p.env[o]
			switch {
			case u.K == bVar && u.Name == nm:
				continue
			case u.K == bT:
				if mode == 2 {
					mode = -1
				} else {
					mode = 1
					acc = bfOr(acc, p.cond)
				}
			case u.K == bF:
				if mode == 1 {
					mode = -1
				} else {
					mode = 2
					acc = bfOr(acc, p.cond) // falsifying condition
				}
			case u.K == bOr && u.A[0].K == bVar && u.A[0].Name == nm && !u.A[1].mentions(bVar, nm):
				if mode == 2 {
					mode = -1
				} else {
					mode = 1
					acc = bfOr(acc, bfAnd(p.cond, u.A[1]))
				}
			case u.K == bOr && u.A[1].K == bVar && u.A[1].Name == nm && !u.A[0].mentions(bVar, nm):
				if mode == 2 {
					mode = -1
				} else {
					mode = 1
					acc = bfOr(acc, bfAnd(p.cond, u.A[0]))
				}
			case u.K == bAnd && u.A[0].K == bVar && u.A[0].Name == nm && !u.A[1].mentions(bVar, nm):
				if mode == 1 {
					mode = -1
				} else {
					mode = 2
					acc = bfOr(acc, bfAnd(p.cond, bfNot(u.A[1])))
				}
			default:
				mode = -1
			}
			if p.cond.mentions(bVar, nm) {
				mode = -1
			}
		}
		switch mode {
		case -1:
			x.fail(node.Pos(), "flag %s is updated in the loop in a form that is neither an OR-fold nor an AND-fold", o.Name())
		case 1:
			if len(exits) > 0 {
				x.fail(node.Pos(), "flag %s folded in a loop that also has early exits", o.Name())
			}
			outEnv[o] = bfOr(env[o], mk(bAny, acc))
		case 2:
			if len(exits) > 0 {
				x.fail(node.Pos(), "flag %s folded in a loop that also has early exits", o.Name())
			}
			outEnv[o] = bfAnd(env[o], mk(bAll, bfNot(acc)))
		}
	}
	if len(exits) == 0 {
		return []bfPath{{cond: bfTrue, kind: pFall, env: outEnv}}
	}
	// all early exits must have the same outcome, independent of the loop variable
	first := exits[0]
	exitCond := bfFalse
	sameEnv := func(a, b map[types.Object]*BF) bool {
		for o := range names {
			if a[o].String() != b[o].String() {
				return false
			}
		}
		return true
	}
	for _, p := range exits {
		exitCond = bfOr(exitCond, p.cond)
		if p.kind != first.kind || p.label != first.label || !sameEnv(p.env, first.env) ||
			(p.kind == pRet && p.ret.String() != first.ret.String()) {
			x.fail(node.Pos(), "early exits of the loop have different outcomes (first-match order would matter)")
		}
		if p.kind == pRet && p.ret.mentionsVarID(id) {
			x.fail(node.Pos(), "early return value depends on the loop variable")
		}
	}
	if exitCond.mentions(bVar, "") {
		x.fail(node.Pos(), "early exit condition depends on a flag updated in the loop")
	}
	some := mk(bAny, exitCond)
	exitEnv := cloneEnv(env)
	for o, nm := range names {
		u := first.env[o]
		switch {
		case u.K == bVar && u.Name == nm:
		case !u.mentions(bVar, "") && !u.mentionsVarID(id):
			exitEnv[o] = u
		default:
			exitEnv[o] = u.subst(nm, env[o])
			if exitEnv[o].mentionsVarID(id) || exitEnv[o].mentions(bVar, "") {
				x.fail(node.Pos(), "flag %s at early exit depends on the loop variable", o.Name())
			}
		}
	}
	exitPath := bfPath{cond: some, kind: first.kind, label: first.label, env: exitEnv, ret: first.ret}
	if first.kind == pBrk && (first.label == "" || first.label == label) {
		exitPath.kind, exitPath.label = pFall, ""
	}
	return []bfPath{exitPath, {cond: bfNot(some), kind: pFall, env: outEnv}}
}

// extractBF summarises fn's designated bool result.
func extractBF(p *Prog, fn *Fn, resIdx int, cls bfClassifier) (*BF, *bfExtractor) {
	x := &bfExtractor{p: p, cls: cls, bound: map[types.Object]string{}, order: map[string]int{}, defs: map[types.Object]ast.Expr{},
		frozenM: map[string]map[string]bool{}, domDeps: map[string][]string{},
		resIdx: resIdx, curInfo: fn.Info(), curFn: fn}
	f := x.funcFormula(fn)
	return f, x
}

// ---------- finite-model comparison ----------

type bfModel struct {
	vals  map[string]int // ground key -> value (atoms: 0/1, domains: size)
	need  string
	needN int // number of values for the needed key
	maxD  int
}

func groundKey(name string, vars []string, asg map[string]int) string {
	s := name + "["
	for i, v := range vars {
		if i > 0 {
			s += ","
		}
		s += fmt.Sprint(asg[v])
	}
	return s + "]"
}

func (m *bfModel) get(key string, n int) (int, bool) {
	if v, ok := m.vals[key]; ok {
		return v, true
	}
	if m.need == "" {
		m.need, m.needN = key, n
	}
	return 0, false
}

// eval returns (value, ok); ok=false when an unassigned ground key was needed.
func (f *BF) eval(m *bfModel, asg map[string]int) (bool, bool) {
	switch f.K {
	case bT:
		return true, true
	case bF:
		return false, true
	case bAtom:
		v, ok := m.get("a:"+groundKey(f.Name, f.Vars, asg), 2)
		return v == 1, ok
	case bEmpty:
		v, ok := m.get("d:"+groundKey(f.Dom, f.Vars, asg), m.maxD+1)
		return v == 0, ok
	case bNot:
		v, ok := f.A[0].eval(m, asg)
		return !v, ok
	case bAnd:
		a, ok := f.A[0].eval(m, asg)
		if !ok {
			return false, false
		}
		if !a {
			return false, true
		}
		return f.A[1].eval(m, asg)
	case bOr:
		a, ok := f.A[0].eval(m, asg)
		if !ok {
			return false, false
		}
		if a {
			return true, true
		}
		return f.A[1].eval(m, asg)
	case bAll, bAny:
		n, ok := m.get("d:"+groundKey(f.Dom, f.Vars, asg), m.maxD+1)
		if !ok {
			return false, false
		}
		old, had := asg[f.Name]
		defer func() {
			if had {
				asg[f.Name] = old
			} else {
				delete(asg, f.Name)
			}
		}()
		for i := 0; i < n; i++ {
			asg[f.Name] = i
			v, ok := f.A[0].eval(m, asg)
			if !ok {
				return false, false
			}
			if f.K == bAll && !v {
				return false, true
			}
			if f.K == bAny && v {
				return true, true
			}
		}
		return f.K == bAll, true
	}
	panic("eval: unexpected node " + f.String())
}

// bfEquivalent compares two closed formulas on every model with domain sizes 0..maxD.
// Returns the number of models examined and a counterexample description ("" if equivalent).
func bfEquivalent(a, b *BF, maxD int) (int, string) {
	m := &bfModel{vals: map[string]int{}, maxD: maxD}
	count := 0
	var rec func() string
	rec = func() string {
		m.need = ""
		va, oka := a.eval(m, map[string]int{})
		vb, okb := true, true
		if oka {
			vb, okb = b.eval(m, map[string]int{})
		}
		if oka && okb {
			count++
			if va != vb {
				var ks []string
				for k, v := range m.vals {
					ks = append(ks, fmt.Sprintf("%s=%d", k, v))
				}
				sort.Strings(ks)
				return fmt.Sprintf("code=%v spec=%v on model {%s}", va, vb, strings.Join(ks, " "))
			}
			return ""
		}
		key, n := m.need, m.needN
		for v := 0; v < n; v++ {
			m.vals[key] = v
			if cx := rec(); cx != "" {
				return cx
			}
		}
		delete(m.vals, key)
		return ""
	}
	cx := rec()
	return count, cx
}

// spec constructors
func sAtom(name string, vars ...string) *BF { return &BF{K: bAtom, Name: name, Vars: vars} }
func sEmpty(dom string, vars ...string) *BF { return &BF{K: bEmpty, Dom: dom, Vars: vars} }
func sAll(v, dom string, domVars []string, body *BF) *BF {
	return &BF{K: bAll, Name: v, Dom: dom, Vars: domVars, A: []*BF{body}}
}
func sAny(v, dom string, domVars []string, body *BF) *BF {
	return &BF{K: bAny, Name: v, Dom: dom, Vars: domVars, A: []*BF{body}}
}
