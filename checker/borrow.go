package main

// Borrowed-slice write analysis (ownership / effect rule).
//
// A decoder must not write into memory it does not own: the bytes it was given (a cache entry shared
// between readers) and slices cut from them. Write operations are: append(x, …) (writes behind len(x)
// when capacity allows), copy(x, …), x[i] = …, and Decode(x, …) of the snappy/s2 packages.
//
// Taint (flow-insensitive, per function): slice parameters, fields named by the caller as holding
// borrowed bytes, and every local defined from a (re)slice of a tainted expression.
// For a parameter that the function conditionally replaces by a private copy
// (`if len(p) > 0 { c := make(…); c = append(c, p...); p = c }`) a small path-sensitive typestate
// over {borrowed, fresh} × {len>0, len==0, unknown} is run so that the later, equally guarded write
// is accepted exactly when the copy happened on every path that reaches it.

import (
	"go/ast"
	"go/token"
	"go/types"
	"strings"
)

type borrowFinding struct {
	pos  token.Pos
	what string
}

type borrowCfg struct {
	// taintedField reports whether a selector denotes a field that holds borrowed bytes.
	taintedField func(info *types.Info, sel *ast.SelectorExpr) bool
}

type bwState uint8 // bit (own*3+len): own 0 borrowed 1 fresh ; len 0 zero 1 pos 2 unknown

func bwBit(own, ln int) bwState { return 1 << uint(own*3+ln) }

func (s bwState) mapPairs(f func(own, ln int) (int, int, bool)) bwState {
	var o bwState
	for ow := 0; ow < 2; ow++ {
		for l := 0; l < 3; l++ {
			if s&bwBit(ow, l) != 0 {
				if no, nl, keep := f(ow, l); keep {
					o |= bwBit(no, nl)
				}
			}
		}
	}
	return o
}

func (s bwState) mayBeBorrowed() bool { return s&(bwBit(0, 0)|bwBit(0, 1)|bwBit(0, 2)) != 0 }

func isByteSlice(t types.Type) bool {
	if t == nil {
		return false
	}
	sl, ok := t.Underlying().(*types.Slice)
	if !ok {
		return false
	}
	b, ok := sl.Elem().Underlying().(*types.Basic)
	return ok && b.Kind() == types.Byte
}

// checkBorrowedWrites analyses one function.
func checkBorrowedWrites(p *Prog, fn *Fn, cfgc borrowCfg) (findings []borrowFinding, writes int) {
	info := fn.Info()
	params := map[types.Object]bool{}
	if fn.Decl != nil {
		for _, f := range fn.Decl.Type.Params.List {
			for _, nm := range f.Names {
				if o := info.Defs[nm]; o != nil && isByteSlice(o.Type()) {
					params[o] = true
				}
			}
		}
	}
	// locals: fresh (only make / append-to-self-or-fresh / nil) or tainted (some definition derives from tainted)
	type localInfo struct{ fresh, tainted bool }
	locals := map[types.Object]*localInfo{}
	var tainted func(e ast.Expr, depth int) bool
	tainted = func(e ast.Expr, depth int) bool {
		if depth > 6 {
			return false
		}
		e = unparen(e)
		switch v := e.(type) {
		case *ast.Ident:
			o := objOf(info, v)
			if params[o] {
				return true
			}
			if li := locals[o]; li != nil {
				return li.tainted
			}
		case *ast.SelectorExpr:
			if cfgc.taintedField != nil && cfgc.taintedField(info, v) {
				return true
			}
		case *ast.SliceExpr:
			return tainted(v.X, depth+1)
		case *ast.CallExpr:
			if id, ok := v.Fun.(*ast.Ident); ok && id.Name == "append" && len(v.Args) > 0 {
				return tainted(v.Args[0], depth+1)
			}
		}
		return false
	}
	isFreshExpr := func(e ast.Expr, self types.Object) bool {
		e = unparen(e)
		if isNil(info, e) {
			return true
		}
		switch v := e.(type) {
		case *ast.CallExpr:
			if id, ok := v.Fun.(*ast.Ident); ok {
				if id.Name == "make" {
					return true
				}
				if id.Name == "append" && len(v.Args) > 0 {
					if o := objOf(info, v.Args[0]); o != nil && (o == self || (locals[o] != nil && locals[o].fresh)) {
						return true
					}
				}
			}
		case *ast.CompositeLit:
			return true
		}
		return false
	}
	// two rounds so that taint/freshness propagates through chains of locals
	for round := 0; round < 3; round++ {
		ast.Inspect(fn.Body(), func(n ast.Node) bool {
			as, ok := n.(*ast.AssignStmt)
			if !ok {
				return true
			}
			for i, lh := range as.Lhs {
				id, ok := unparen(lh).(*ast.Ident)
				if !ok {
					continue
				}
				o := objOf(info, id)
				if o == nil || params[o] || !isByteSlice(o.Type()) {
					continue
				}
				li := locals[o]
				if li == nil {
					li = &localInfo{fresh: true}
					locals[o] = li
				}
				if len(as.Lhs) != len(as.Rhs) {
					li.fresh = false
					continue
				}
				if !isFreshExpr(as.Rhs[i], o) {
					li.fresh = false
				}
				if tainted(as.Rhs[i], 0) {
					li.tainted = true
				}
			}
			return true
		})
	}

	// write destinations
	type wr struct {
		dst ast.Expr
		pos token.Pos
		how string
	}
	writesOf := func(n ast.Node) []wr {
		var out []wr
		inspectNoLit(n, func(x ast.Node) bool {
			switch v := x.(type) {
			case *ast.CallExpr:
				if id, ok := v.Fun.(*ast.Ident); ok {
					if _, isB := info.Uses[id].(*types.Builtin); isB && len(v.Args) > 0 {
						switch id.Name {
						case "append":
							if isByteSlice(info.TypeOf(v.Args[0])) {
								out = append(out, wr{v.Args[0], v.Pos(), "append"})
							}
						case "copy":
							out = append(out, wr{v.Args[0], v.Pos(), "copy"})
						}
					}
				}
				if f := calleeOf(info, v); f != nil && f.Pkg() != nil && f.Name() == "Decode" && len(v.Args) == 2 &&
					(strings.HasSuffix(f.Pkg().Path(), "/s2") || strings.HasSuffix(f.Pkg().Path(), "/snappy")) {
					out = append(out, wr{v.Args[0], v.Pos(), "Decode into"})
				}
			case *ast.AssignStmt:
				for _, lh := range v.Lhs {
					if ix, ok := unparen(lh).(*ast.IndexExpr); ok && isByteSlice(info.TypeOf(ix.X)) {
						out = append(out, wr{ix.X, v.Pos(), "element write to"})
					}
				}
			}
			return true
		})
		return out
	}

	// per-parameter typestate
	paramState := map[types.Object]*FlowResult[bwState]{}
	for o := range params {
		o := o
		isV := func(e ast.Expr) bool { return objOf(info, unparen(e)) == o }
		transfer := func(n ast.Node, s bwState) bwState {
			as, ok := n.(*ast.AssignStmt)
			if !ok {
				return s
			}
			for i, lh := range as.Lhs {
				if !isV(lh) {
					continue
				}
				if len(as.Lhs) != len(as.Rhs) {
					return bwBit(0, 2)
				}
				r := unparen(as.Rhs[i])
				switch {
				case isFreshExpr(r, nil):
					return bwBit(1, 2)
				case func() bool { ro := objOf(info, r); return ro != nil && locals[ro] != nil && locals[ro].fresh }():
					return bwBit(1, 2)
				case func() bool {
					if sl, ok := r.(*ast.SliceExpr); ok {
						return isV(sl.X)
					}
					return false
				}():
					return s.mapPairs(func(ow, _ int) (int, int, bool) { return ow, 2, true })
				case tainted(r, 0):
					return bwBit(0, 2)
				default:
					return bwBit(1, 2) // owned elsewhere (not borrowed)
				}
			}
			return s
		}
		branch := func(cond ast.Expr, truth bool, s bwState) bwState {
			refine(cond, truth, func(atom ast.Expr, t bool) {
				be, ok := unparen(atom).(*ast.BinaryExpr)
				if !ok {
					return
				}
				c, ok := unparen(be.X).(*ast.CallExpr)
				if !ok || len(c.Args) != 1 {
					return
				}
				if id, ok := c.Fun.(*ast.Ident); !ok || id.Name != "len" || !isV(c.Args[0]) {
					return
				}
				z, isZ := constInt(info, be.Y)
				if !isZ || z != 0 {
					return
				}
				pos, known := false, false
				switch be.Op {
				case token.GTR, token.NEQ:
					pos, known = t, true
				case token.EQL, token.LEQ:
					pos, known = !t, true
				}
				if !known {
					return
				}
				s = s.mapPairs(func(ow, l int) (int, int, bool) {
					if pos {
						if l == 0 {
							return 0, 0, false
						}
						return ow, 1, true
					}
					if l == 1 {
						return 0, 0, false
					}
					return ow, 0, true
				})
			})
			return s
		}
		paramState[o] = runFlow(p, fn, FlowSpec[bwState]{
			Entry:    bwBit(0, 2),
			Transfer: transfer,
			Branch:   branch,
			Join:     func(a, b bwState) bwState { return a | b },
			Equal:    func(a, b bwState) bool { return a == b },
		})
	}

	seen := map[token.Pos]bool{}
	report := func(w wr, why string) {
		if seen[w.pos] {
			return
		}
		seen[w.pos] = true
		findings = append(findings, borrowFinding{w.pos, w.how + " " + canon(w.dst) + ": " + why})
	}
	for _, r := range paramState {
		_ = r
	}
	// walk CFG nodes of any one flow result (or build one) to visit statements with their states
	g := buildCFG(fn)
	for _, b := range g.Blocks {
		for _, n := range b.Nodes {
			for _, w := range writesOf(n) {
				writes++
				root := unparen(w.dst)
				for {
					if sl, ok := root.(*ast.SliceExpr); ok {
						root = unparen(sl.X)
						continue
					}
					break
				}
				if o := objOf(info, root); o != nil && params[o] {
					st, ok := paramState[o].Before(n)
					if !ok {
						continue // unreachable
					}
					if st.mayBeBorrowed() {
						report(w, "the slice still is the caller's memory on some path to this write (it must be replaced by a private copy first)")
					}
					continue
				}
				if tainted(w.dst, 0) {
					report(w, "the destination is cut from the bytes the decoder was given")
				}
			}
		}
	}
	return findings, writes
}
