package main

import (
	"go/ast"
	"go/token"
	"go/types"
	"strings"
)

// Borrowed results: a method hands out a slice that is (or may be) the receiver's own storage.
// Callers may read it or copy it (`append(dst, res...)`) but must not reorder or overwrite it in place:
// no sort / reverse / shuffle over it, no element assignment, no copy into it, no append through it
// (which writes into spare capacity). Aliases made by assignment and reslicing are followed inside one
// function, flow-insensitively (any variable that can hold the borrowed slice counts on every path).

type borrowViolation struct {
	Pos  token.Pos
	What string
}

func borrowedResultWrites(p *Prog, fn *Fn, isSource func(info *types.Info, call *ast.CallExpr) bool) (sources int, out []borrowViolation) {
	info := fn.Info()
	tainted := map[types.Object]bool{}
	var isTainted func(e ast.Expr) bool
	isTainted = func(e ast.Expr) bool {
		e = unparen(e)
		switch v := e.(type) {
		case *ast.Ident:
			return tainted[objOf(info, v)]
		case *ast.SliceExpr:
			return isTainted(v.X)
		case *ast.CallExpr:
			if isSource(info, v) {
				return true
			}
			// append(borrowed, …) may write into the spare capacity and returns an alias
			if id, ok := v.Fun.(*ast.Ident); ok && id.Name == "append" && len(v.Args) > 0 {
				if _, isB := info.Uses[id].(*types.Builtin); isB {
					return isTainted(v.Args[0])
				}
			}
		}
		return false
	}
	nodes := []ast.Node{fn.Body()}
	for changed := true; changed; {
		changed = false
		for _, root := range nodes {
			ast.Inspect(root, func(n ast.Node) bool {
				switch v := n.(type) {
				case *ast.AssignStmt:
					if len(v.Lhs) == len(v.Rhs) {
						for i, r := range v.Rhs {
							if isTainted(r) {
								if o := objOf(info, v.Lhs[i]); o != nil && !tainted[o] {
									if _, isId := unparen(v.Lhs[i]).(*ast.Ident); isId {
										tainted[o] = true
										changed = true
									}
								}
							}
						}
					}
				case *ast.ValueSpec:
					if len(v.Names) == len(v.Values) {
						for i, r := range v.Values {
							if isTainted(r) {
								if o := info.Defs[v.Names[i]]; o != nil && !tainted[o] {
									tainted[o] = true
									changed = true
								}
							}
						}
					}
				}
				return true
			})
		}
	}
	ast.Inspect(fn.Body(), func(n ast.Node) bool {
		switch v := n.(type) {
		case *ast.CallExpr:
			if isSource(info, v) {
				sources++
			}
			f := calleeOf(info, v)
			if f != nil && f.Pkg() != nil {
				pk, name := f.Pkg().Path(), f.Name()
				mutating := (pk == "sort" && (name == "Slice" || name == "SliceStable" || name == "Sort" || name == "Stable")) ||
					(pk == "slices" && (strings.HasPrefix(name, "Sort") || name == "Reverse")) ||
					(strings.HasSuffix(pk, "math/rand") && name == "Shuffle") ||
					strings.HasSuffix(pk, "natsort")
				if mutating {
					for _, a := range v.Args {
						if isTainted(a) {
							out = append(out, borrowViolation{v.Pos(), pk + "." + name + " reorders " + canon(a) + " in place"})
						}
						// sort.Sort(wrapper(x))
						if c2, ok := unparen(a).(*ast.CallExpr); ok && len(c2.Args) == 1 && isTainted(c2.Args[0]) {
							if tv, ok := info.Types[c2.Fun]; ok && tv.IsType() {
								out = append(out, borrowViolation{v.Pos(), pk + "." + name + " reorders " + canon(c2.Args[0]) + " in place"})
							}
						}
					}
				}
			}
			if id, ok := v.Fun.(*ast.Ident); ok {
				if _, isB := info.Uses[id].(*types.Builtin); isB {
					switch id.Name {
					case "copy":
						if len(v.Args) == 2 && isTainted(v.Args[0]) {
							out = append(out, borrowViolation{v.Pos(), "copy writes into " + canon(v.Args[0])})
						}
					case "append":
						if len(v.Args) > 1 && isTainted(v.Args[0]) {
							out = append(out, borrowViolation{v.Pos(), "append through " + canon(v.Args[0]) + " can write into its spare capacity"})
						}
					case "clear":
						if len(v.Args) == 1 && isTainted(v.Args[0]) {
							out = append(out, borrowViolation{v.Pos(), "clear overwrites " + canon(v.Args[0])})
						}
					}
				}
			}
		case *ast.AssignStmt:
			for _, l := range v.Lhs {
				if ix, ok := unparen(l).(*ast.IndexExpr); ok && isTainted(ix.X) {
					out = append(out, borrowViolation{v.Pos(), "element assignment to " + canon(ix.X)})
				}
			}
		case *ast.IncDecStmt:
			if ix, ok := unparen(v.X).(*ast.IndexExpr); ok && isTainted(ix.X) {
				out = append(out, borrowViolation{v.Pos(), "element update of " + canon(ix.X)})
			}
		}
		return true
	})
	return sources, out
}
