package main

// Canonical local names.
//
// Many rules spell small expressions of the anchored functions ("offset+length > attrs.Size"). The
// names of locals, parameters and receivers are not part of a function's meaning, so before the rules run
// every function that is alpha-equivalent to its reference version — same syntax tree, same binding
// structure, only local variable names differ — is given the reference's local names back (in memory, as an
// overlay). The rules then see the names they were written against. The reference (names_ref.json: per
// function a hash of its shape and the list of its local names in order of first occurrence) is generated
// with `tvc names-ref` from the tree the rules were confirmed on; it is a naming aid only: a function whose
// shape differs from the reference is analysed exactly as it is written.
//
// The renamed program is alpha-equivalent to the one on disk, so every verdict on it is a verdict on the
// tree under analysis.

import (
	"crypto/sha256"
	"encoding/hex"
	"encoding/json"
	"fmt"
	"go/ast"
	"go/token"
	"go/types"
	"os"
	"path/filepath"
	"sort"
	"strings"

	"golang.org/x/tools/go/packages"
)

type fnShape struct {
	Hash  string   `json:"hash"`
	Names []string `json:"names"`
}

type localOcc struct {
	id  *ast.Ident
	idx int // index of the variable in order of first occurrence
}

// shapeOfFunc computes the shape hash of a declaration and the occurrences of its local variables.
func shapeOfFunc(info *types.Info, fd *ast.FuncDecl) (fnShape, []localOcc, map[string]bool) {
	objIdx := map[types.Object]int{}
	tsIdx := map[*ast.Ident]int{} // type-switch symbolic variables (no object of their own)
	var names []string
	idxOf := func(o types.Object, name string) int {
		if i, ok := objIdx[o]; ok {
			return i
		}
		objIdx[o] = len(names)
		names = append(names, name)
		return len(names) - 1
	}
	// pre-pass: bind the implicit per-clause objects of a type switch to its symbolic variable
	ast.Inspect(fd, func(n ast.Node) bool {
		ts, ok := n.(*ast.TypeSwitchStmt)
		if !ok {
			return true
		}
		as, ok := ts.Assign.(*ast.AssignStmt)
		if !ok || len(as.Lhs) != 1 {
			return true
		}
		id, ok := as.Lhs[0].(*ast.Ident)
		if !ok || id.Name == "_" {
			return true
		}
		// the index is assigned when the walk reaches the identifier; remember the clause objects
		tsIdx[id] = -1
		return true
	})
	var occ []localOcc
	nonLocal := map[string]bool{}
	h := sha256.New()
	w := func(s string) { h.Write([]byte(s)); h.Write([]byte{0}) }
	ast.Inspect(fd, func(n ast.Node) bool {
		if n == nil {
			w(")")
			return true
		}
		w(fmt.Sprintf("%T", n))
		switch v := n.(type) {
		case *ast.Ident:
			if _, isTS := tsIdx[v]; isTS {
				i := len(names)
				names = append(names, v.Name)
				tsIdx[v] = i
				// clause objects share the index
				ast.Inspect(fd, func(m ast.Node) bool {
					if ts, ok := m.(*ast.TypeSwitchStmt); ok {
						if as, ok := ts.Assign.(*ast.AssignStmt); ok && len(as.Lhs) == 1 && as.Lhs[0] == ast.Expr(v) {
							for _, cl := range ts.Body.List {
								if o := info.Implicits[cl]; o != nil {
									objIdx[o] = i
								}
							}
						}
					}
					return true
				})
				occ = append(occ, localOcc{v, i})
				w(fmt.Sprintf("L%d", i))
				return true
			}
			o := info.Defs[v]
			if o == nil {
				o = info.Uses[v]
			}
			if o != nil && isLocalVar(o) {
				i := idxOf(o, v.Name)
				occ = append(occ, localOcc{v, i})
				w(fmt.Sprintf("L%d", i))
			} else {
				w(v.Name)
				// names a local could capture: package-level objects, imported packages, builtins — not fields,
				// methods or labels, which are never looked up in the local scope
				switch x := o.(type) {
				case *types.Var:
					if !x.IsField() {
						nonLocal[v.Name] = true
					}
				case *types.Func:
					if sig, ok := x.Type().(*types.Signature); ok && sig.Recv() == nil {
						nonLocal[v.Name] = true
					}
				case *types.Label, nil:
				default:
					nonLocal[v.Name] = true
				}
			}
		case *ast.BasicLit:
			w(v.Value)
		case *ast.BinaryExpr:
			w(v.Op.String())
		case *ast.UnaryExpr:
			w(v.Op.String())
		case *ast.AssignStmt:
			w(v.Tok.String())
		case *ast.IncDecStmt:
			w(v.Tok.String())
		case *ast.BranchStmt:
			w(v.Tok.String())
		case *ast.RangeStmt:
			w(v.Tok.String())
		case *ast.GenDecl:
			w(v.Tok.String())
		case *ast.ChanType:
			w(fmt.Sprint(v.Dir))
		case *ast.CallExpr:
			w(fmt.Sprint(v.Ellipsis.IsValid()))
		case *ast.SliceExpr:
			w(fmt.Sprint(v.Slice3))
		}
		return true
	})
	return fnShape{Hash: hex.EncodeToString(h.Sum(nil))[:24], Names: names}, occ, nonLocal
}

func fnRefKey(pkgPath string, fd *ast.FuncDecl) string {
	return pkgPath + "|" + recvTypeName(fd) + "|" + fd.Name.Name
}

var namesRefCache map[string]fnShape

func loadNamesRef() map[string]fnShape {
	if namesRefCache != nil {
		return namesRefCache
	}
	namesRefCache = map[string]fnShape{}
	b, err := os.ReadFile(filepath.Join(verifDir, "names_ref.json"))
	if err != nil {
		return namesRefCache
	}
	_ = json.Unmarshal(b, &namesRefCache)
	return namesRefCache
}

// canonicalNamesOverlay: for every function of the loaded root packages whose shape equals the reference's
// but whose local names differ, the source with the reference names. sources gives the text the packages were
// loaded from (overlay content, else the file on disk).
func canonicalNamesOverlay(pkgs []*packages.Package, given map[string][]byte) (map[string][]byte, int) {
	ref := loadNamesRef()
	if len(ref) == 0 || os.Getenv("TVC_NO_CANON_NAMES") != "" {
		return nil, 0
	}
	out := map[string][]byte{}
	nFns := 0
	for _, pk := range pkgs {
		if pk.TypesInfo == nil {
			continue
		}
		for _, f := range pk.Syntax {
			tf := pk.Fset.File(f.Pos())
			if tf == nil || isGenerated(tf.Name()) {
				continue
			}
			var edits []alphaEdit
			for _, d := range f.Decls {
				fd, ok := d.(*ast.FuncDecl)
				if !ok || fd.Body == nil {
					continue
				}
				r, ok := ref[fnRefKey(pk.PkgPath, fd)]
				if !ok {
					continue
				}
				sh, occ, nonLocal := shapeOfFunc(pk.TypesInfo, fd)
				if sh.Hash != r.Hash || len(sh.Names) != len(r.Names) {
					if os.Getenv("TVC_DEBUG") != "" {
						fmt.Fprintf(os.Stderr, "canon-names: %s shape differs from the reference (%d vs %d locals)\n", fnRefKey(pk.PkgPath, fd), len(sh.Names), len(r.Names))
					}
					continue
				}
				same := true
				for i := range sh.Names {
					if sh.Names[i] != r.Names[i] {
						same = false
					}
				}
				if same {
					continue
				}
				// a reference name that is also used as a non-local name here would capture it
				capture := false
				for i, n := range r.Names {
					if n != sh.Names[i] && nonLocal[n] {
						capture = true
						if os.Getenv("TVC_DEBUG") != "" {
							fmt.Fprintf(os.Stderr, "canon-names: %s not renamed: reference local %q is also a non-local name here\n", fnRefKey(pk.PkgPath, fd), n)
						}
					}
				}
				// (not an obstacle: the shape hash covers every non-local identifier by name and position, so with the
				// reference names the function is, token for token, the reference function — whatever it shadowed
				// there it shadows here)
				_ = capture
				nFns++
				for _, o := range occ {
					if o.id.Name != r.Names[o.idx] {
						edits = append(edits, alphaEdit{tf.Offset(o.id.Pos()), tf.Offset(o.id.End()), r.Names[o.idx]})
					}
				}
			}
			if len(edits) == 0 {
				continue
			}
			src, ok := given[tf.Name()]
			if !ok {
				b, err := os.ReadFile(tf.Name())
				if err != nil {
					continue
				}
				src = b
			}
			if len(src) != tf.Size() {
				continue
			}
			sort.Slice(edits, func(i, j int) bool { return edits[i].off < edits[j].off })
			var b strings.Builder
			last := 0
			for _, e := range edits {
				if e.off < last {
					continue
				}
				b.Write(src[last:e.off])
				b.WriteString(e.name)
				last = e.end
			}
			b.Write(src[last:])
			out[tf.Name()] = []byte(b.String())
		}
	}
	return out, nFns
}

// writeNamesRef generates names_ref.json from the tree under repoDir.
func writeNamesRef() error {
	cfg := &packages.Config{Mode: packages.LoadSyntax | packages.NeedModule, Dir: repoDir, Env: goEnv(), BuildFlags: []string{"-tags=slicelabels"}}
	pkgs, err := packages.Load(cfg, "./pkg/...", "./cmd/...", "./internal/...")
	if err != nil {
		return err
	}
	ref := map[string]fnShape{}
	for _, pk := range pkgs {
		if pk.TypesInfo == nil || len(pk.Errors) > 0 {
			continue
		}
		for _, f := range pk.Syntax {
			tf := pk.Fset.File(f.Pos())
			if tf == nil || isGenerated(tf.Name()) || !strings.HasPrefix(tf.Name(), repoDir+"/") {
				continue
			}
			for _, d := range f.Decls {
				if fd, ok := d.(*ast.FuncDecl); ok && fd.Body != nil {
					sh, _, _ := shapeOfFunc(pk.TypesInfo, fd)
					if len(sh.Names) > 0 {
						ref[fnRefKey(pk.PkgPath, fd)] = sh
					}
				}
			}
		}
	}
	b, err := json.Marshal(ref)
	if err != nil {
		return err
	}
	fmt.Printf("names_ref.json: %d functions\n", len(ref))
	return os.WriteFile(filepath.Join(verifDir, "names_ref.json"), b, 0o644)
}

var _ = token.NoPos
