package main

// Canonical form of unchanged functions.
//
// Many rules spell small expressions of the anchored functions ("offset+length > attrs.Size"). The names of
// locals, the orientation of a comparison (a < b vs b > a) and the spelling of an increment (x++ vs x += 1)
// are not part of a function's meaning. Before the rules run, every function that equals its reference
// version up to exactly these three things is replaced, in an in-memory overlay, by the reference text of
// that function; the packages are then loaded once more. The rules see the spelling they were written
// against. The reference (funcs_ref.json: per function a normalised structural hash and its source text)
// is generated with `tvc names-ref` from the tree the rules were confirmed on. It is a spelling aid only:
// a function whose normalised hash differs from the reference is analysed exactly as it is written.
//
// Soundness of the normalisation: the hash is a Merkle hash over the syntax tree in which (1) every local
// variable is replaced by the index of its declaration (so equal hashes imply the same binding structure —
// alpha-equivalence), (2) a comparison whose operands are free of calls, receives and function literals is
// hashed with its operands in a fixed order (mirroring such a comparison does not change its value or any
// effect), (3) x++ / x-- hash like x += 1 / x -= 1, parentheses are transparent. Everything else — node
// kinds, operators, literals, every non-local identifier, which optional parts are present — goes into the
// hash unchanged. The substituted text is therefore a program equivalent to the one on disk.

import (
	"crypto/sha256"
	"encoding/hex"
	"encoding/json"
	"fmt"
	"go/ast"
	"go/token"
	"go/types"
	"os"
	"path/filepath"
	"sort"
	"strings"

	"golang.org/x/tools/go/packages"
)

type fnRef struct {
	Hash string `json:"h"`
	Src  string `json:"s"`
}

func hs(parts ...string) string {
	h := sha256.New()
	for _, p := range parts {
		h.Write([]byte(p))
		h.Write([]byte{0})
	}
	return hex.EncodeToString(h.Sum(nil))[:20]
}

// normHash computes the normalised hash of a function declaration.
func normHash(info *types.Info, fd *ast.FuncDecl) string {
	// local variables by order of declaration
	var objs []types.Object
	seen := map[types.Object]bool{}
	addObj := func(o types.Object) {
		if o != nil && isLocalVar(o) && !seen[o] {
			seen[o] = true
			objs = append(objs, o)
		}
	}
	tsVar := map[*ast.Ident]token.Pos{}
	ast.Inspect(fd, func(n ast.Node) bool {
		switch v := n.(type) {
		case *ast.Ident:
			addObj(info.Defs[v])
			addObj(info.Uses[v])
		case *ast.TypeSwitchStmt:
			if as, ok := v.Assign.(*ast.AssignStmt); ok && len(as.Lhs) == 1 {
				if id, ok := as.Lhs[0].(*ast.Ident); ok && id.Name != "_" {
					tsVar[id] = id.Pos()
					for _, cl := range v.Body.List {
						addObj(info.Implicits[cl])
					}
				}
			}
		}
		return true
	})
	sort.SliceStable(objs, func(i, j int) bool { return objs[i].Pos() < objs[j].Pos() })
	idx := map[types.Object]int{}
	posIdx := map[token.Pos]int{}
	n := 0
	for _, o := range objs {
		if k, ok := posIdx[o.Pos()]; ok { // the per-clause objects of a type switch share one declaration
			idx[o] = k
			continue
		}
		posIdx[o.Pos()] = n
		idx[o] = n
		n++
	}
	var h func(nd ast.Node) string
	h = func(nd ast.Node) string {
		if nd == nil {
			return "nil"
		}
		switch v := nd.(type) {
		case *ast.ParenExpr:
			return h(v.X)
		case *ast.Ident:
			if p, ok := tsVar[v]; ok {
				if k, ok := posIdx[p]; ok {
					return fmt.Sprintf("L%d", k)
				}
				return "Lts"
			}
			o := info.Defs[v]
			if o == nil {
				o = info.Uses[v]
			}
			if o != nil && isLocalVar(o) {
				return fmt.Sprintf("L%d", idx[o])
			}
			return "I:" + v.Name
		case *ast.BasicLit:
			return "B:" + v.Kind.String() + ":" + v.Value
		case *ast.BinaryExpr:
			x, y := h(v.X), h(v.Y)
			if pureExpr(v.X) && pureExpr(v.Y) {
				switch v.Op {
				case token.LSS:
					return hs("LT", x, y)
				case token.GTR:
					return hs("LT", y, x)
				case token.LEQ:
					return hs("LE", x, y)
				case token.GEQ:
					return hs("LE", y, x)
				case token.EQL, token.NEQ:
					if y < x {
						x, y = y, x
					}
					return hs(v.Op.String(), x, y)
				}
			}
			return hs("bin", v.Op.String(), x, y)
		case *ast.IncDecStmt:
			op := "+="
			if v.Tok == token.DEC {
				op = "-="
			}
			return hs("assign", op, hs("list", h(v.X)), hs("list", "B:INT:1"))
		case *ast.AssignStmt:
			var l, r []string
			for _, e := range v.Lhs {
				l = append(l, h(e))
			}
			for _, e := range v.Rhs {
				r = append(r, h(e))
			}
			return hs("assign", v.Tok.String(), hs(append([]string{"list"}, l...)...), hs(append([]string{"list"}, r...)...))
		}
		parts := []string{fmt.Sprintf("%T", nd)}
		switch v := nd.(type) {
		case *ast.UnaryExpr:
			parts = append(parts, v.Op.String())
		case *ast.BranchStmt:
			parts = append(parts, v.Tok.String())
		case *ast.RangeStmt:
			parts = append(parts, v.Tok.String(), fmt.Sprint(v.Key != nil, v.Value != nil))
		case *ast.GenDecl:
			parts = append(parts, v.Tok.String())
		case *ast.ChanType:
			parts = append(parts, fmt.Sprint(v.Dir))
		case *ast.CallExpr:
			parts = append(parts, fmt.Sprint(v.Ellipsis.IsValid()))
		case *ast.SliceExpr:
			parts = append(parts, fmt.Sprint(v.Slice3, v.Low != nil, v.High != nil, v.Max != nil))
		case *ast.ForStmt:
			parts = append(parts, fmt.Sprint(v.Init != nil, v.Cond != nil, v.Post != nil))
		case *ast.IfStmt:
			parts = append(parts, fmt.Sprint(v.Init != nil, v.Else != nil))
		case *ast.SwitchStmt:
			parts = append(parts, fmt.Sprint(v.Init != nil, v.Tag != nil))
		case *ast.TypeSwitchStmt:
			parts = append(parts, fmt.Sprint(v.Init != nil))
		case *ast.CaseClause:
			parts = append(parts, fmt.Sprint(v.List == nil, len(v.List)))
		case *ast.CommClause:
			parts = append(parts, fmt.Sprint(v.Comm == nil))
		case *ast.ValueSpec:
			parts = append(parts, fmt.Sprint(v.Type != nil, len(v.Names), len(v.Values)))
		case *ast.Field:
			parts = append(parts, fmt.Sprint(len(v.Names), v.Tag != nil))
		case *ast.FuncDecl:
			parts = append(parts, fmt.Sprint(v.Recv != nil))
		case *ast.FuncType:
			parts = append(parts, fmt.Sprint(v.TypeParams != nil, v.Params != nil, v.Results != nil))
		case *ast.TypeAssertExpr:
			parts = append(parts, fmt.Sprint(v.Type != nil))
		case *ast.KeyValueExpr, *ast.SelectorExpr, *ast.IndexExpr, *ast.StarExpr, *ast.CompositeLit:
		case *ast.ReturnStmt:
			parts = append(parts, fmt.Sprint(len(v.Results)))
		case *ast.LabeledStmt, *ast.DeferStmt, *ast.GoStmt, *ast.SendStmt, *ast.ExprStmt, *ast.BlockStmt, *ast.DeclStmt, *ast.EmptyStmt, *ast.SelectStmt:
		case *ast.CommentGroup, *ast.Comment:
			return "" // comments are not part of the program
		}
		for _, ch := range childNodes(nd) {
			if s := h(ch); s != "" {
				parts = append(parts, s)
			}
		}
		return hs(parts...)
	}
	return h(fd)
}

func fnRefKey(pkgPath string, fd *ast.FuncDecl) string {
	return pkgPath + "|" + recvTypeName(fd) + "|" + fd.Name.Name
}

var funcsRefCache map[string]fnRef

func loadFuncsRef() map[string]fnRef {
	if funcsRefCache != nil {
		return funcsRefCache
	}
	funcsRefCache = map[string]fnRef{}
	b, err := os.ReadFile(filepath.Join(verifDir, "funcs_ref.json"))
	if err != nil {
		return funcsRefCache
	}
	_ = json.Unmarshal(b, &funcsRefCache)
	return funcsRefCache
}

// declText: the source text of a declaration without its doc comment.
func declText(tf *token.File, src []byte, fd *ast.FuncDecl) (int, int, string) {
	off, end := tf.Offset(fd.Pos()), tf.Offset(fd.End())
	return off, end, string(src[off:end])
}

// canonicalNamesOverlay: for every function of the loaded root packages whose normalised hash equals the
// reference's but whose text differs, the file with the reference text of that function.
func canonicalNamesOverlay(pkgs []*packages.Package, given map[string][]byte) (map[string][]byte, int) {
	ref := loadFuncsRef()
	if len(ref) == 0 || os.Getenv("TVC_NO_CANON_NAMES") != "" {
		return nil, 0
	}
	out := map[string][]byte{}
	nFns := 0
	done := map[string]bool{}
	for _, pk := range pkgs {
		if pk.TypesInfo == nil || len(pk.Errors) > 0 {
			continue
		}
		for _, f := range pk.Syntax {
			tf := pk.Fset.File(f.Pos())
			if tf == nil || isGenerated(tf.Name()) || done[tf.Name()] {
				continue
			}
			done[tf.Name()] = true
			src, ok := given[tf.Name()]
			if !ok {
				b, err := os.ReadFile(tf.Name())
				if err != nil {
					continue
				}
				src = b
			}
			if len(src) != tf.Size() {
				continue
			}
			var edits []alphaEdit
			for _, d := range f.Decls {
				fd, ok := d.(*ast.FuncDecl)
				if !ok || fd.Body == nil {
					continue
				}
				r, ok := ref[fnRefKey(pk.PkgPath, fd)]
				if !ok {
					continue
				}
				off, end, cur := declText(tf, src, fd)
				if cur == r.Src {
					continue
				}
				if normHash(pk.TypesInfo, fd) != r.Hash {
					if os.Getenv("TVC_DEBUG") != "" {
						fmt.Fprintf(os.Stderr, "canon: %s differs from the reference in more than spelling\n", fnRefKey(pk.PkgPath, fd))
					}
					continue
				}
				nFns++
				edits = append(edits, alphaEdit{off, end, r.Src})
			}
			if len(edits) == 0 {
				continue
			}
			sort.Slice(edits, func(i, j int) bool { return edits[i].off < edits[j].off })
			var b strings.Builder
			last := 0
			for _, e := range edits {
				b.Write(src[last:e.off])
				b.WriteString(e.name)
				last = e.end
			}
			b.Write(src[last:])
			out[tf.Name()] = []byte(b.String())
		}
	}
	return out, nFns
}

// writeNamesRef generates funcs_ref.json from the tree under repoDir.
func writeNamesRef() error {
	ref := map[string]fnRef{}
	dup := map[string]bool{}
	for _, tags := range []string{"slicelabels", ""} {
		cfg := &packages.Config{Mode: packages.LoadSyntax | packages.NeedModule, Dir: repoDir, Env: goEnv()}
		if tags != "" {
			cfg.BuildFlags = []string{"-tags=" + tags}
		}
		pkgs, err := packages.Load(cfg, "./pkg/...", "./cmd/...", "./internal/...")
		if err != nil {
			return err
		}
		for _, pk := range pkgs {
			if pk.TypesInfo == nil || len(pk.Errors) > 0 {
				continue
			}
			for _, f := range pk.Syntax {
				tf := pk.Fset.File(f.Pos())
				if tf == nil || isGenerated(tf.Name()) || !strings.HasPrefix(tf.Name(), repoDir+"/") {
					continue
				}
				src, err := os.ReadFile(tf.Name())
				if err != nil || len(src) != tf.Size() {
					continue
				}
				for _, d := range f.Decls {
					fd, ok := d.(*ast.FuncDecl)
					if !ok || fd.Body == nil {
						continue
					}
					k := fnRefKey(pk.PkgPath, fd)
					_, _, txt := declText(tf, src, fd)
					if prev, ok := ref[k]; ok && prev.Src != txt {
						dup[k] = true // several functions share the key (init, build-tagged twins): no reference
						continue
					}
					ref[k] = fnRef{Hash: normHash(pk.TypesInfo, fd), Src: txt}
				}
			}
		}
	}
	for k := range dup {
		delete(ref, k)
	}
	b, err := json.Marshal(ref)
	if err != nil {
		return err
	}
	fmt.Printf("funcs_ref.json: %d functions\n", len(ref))
	return os.WriteFile(filepath.Join(verifDir, "funcs_ref.json"), b, 0o644)
}
