package main

import (
	"bufio"
	"encoding/json"
	"fmt"
	"go/token"
	"os"
	"path/filepath"
	"sort"
	"strings"
	"time"
)

var verifDir = func() string {
	if d := os.Getenv("TVC_VERIF"); d != "" {
		return d
	}
	return "/verif"
}()

// Status of one obligation.
const (
	StOK         = "discharged"
	StViolation  = "violation"
	StKnown      = "known-finding"
	StObserve    = "observation"
	StIncomplete = "analysis-incomplete"
)

// Obligation is one rule instance decided on one construct.
type Obligation struct {
	Key        string   `json:"obligation"` // rule@construct, position independent
	Rule       string   `json:"rule"`
	Pos        string   `json:"pos"`
	Status     string   `json:"status"`
	Descriptor string   `json:"descriptor,omitempty"` // normalised description of the failing construct
	Reason     string   `json:"reason,omitempty"`
	Path       []string `json:"path,omitempty"`
	Config     string   `json:"config,omitempty"`
}

type KnownFinding struct {
	Property   string `json:"property"`
	Rule       string `json:"rule"`
	Obligation string `json:"obligation"`
	Descriptor string `json:"descriptor"`
	What       string `json:"what"`
	Witness    string `json:"witness"`
	Status     string `json:"status"` // known | fixed
	Commit     string `json:"commit,omitempty"`
}

// Ctx carries one run of one property's rules under one configuration.
type Ctx struct {
	Prop    string
	Tier    string
	Tags    string
	Overlay map[string][]byte
	Obls    []Obligation
	Stats   map[string]int
	progs   map[string]*Prog
	seen    map[string]int
	rules   map[string]string // rule id -> text
	mins    map[string]int    // rule id -> minimum instance count
	counts  map[string]int
}

func newCtx(prop, tier, tags string, overlay map[string][]byte) *Ctx {
	return &Ctx{Prop: prop, Tier: tier, Tags: tags, Overlay: overlay, Stats: map[string]int{},
		progs: map[string]*Prog{}, seen: map[string]int{}, rules: map[string]string{}, mins: map[string]int{}, counts: map[string]int{}}
}

// Load returns the program for the given package set (cached per ctx).
func (c *Ctx) Load(patterns ...string) *Prog {
	key := strings.Join(patterns, ",")
	if p, ok := c.progs[key]; ok {
		return p
	}
	p, err := loadProg(c.Tags, c.Overlay, patterns...)
	if err != nil {
		c.add(Obligation{Key: "load@" + key, Rule: "load", Status: StIncomplete, Reason: err.Error()})
		c.progs[key] = nil
		return nil
	}
	c.Stats["packages"] += len(p.Roots)
	c.progs[key] = p
	return p
}

// Rule registers the text of a rule and its minimum instance count on today's tree.
func (c *Ctx) Rule(id, text string, min int) {
	c.rules[id] = text
	c.mins[id] = min
}

func (c *Ctx) add(o Obligation) {
	// obligation keys must be unique within a run: disambiguate repeats by ordinal
	n := c.seen[o.Key]
	c.seen[o.Key] = n + 1
	if n > 0 {
		o.Key = fmt.Sprintf("%s#%d", o.Key, n)
	}
	o.Config = c.Tags
	c.counts[o.Rule]++
	c.Obls = append(c.Obls, o)
}

func (c *Ctx) OK(rule, construct, pos string, reason string) {
	c.add(Obligation{Key: rule + "@" + construct, Rule: rule, Pos: pos, Status: StOK, Reason: reason})
}
func (c *Ctx) Bad(rule, construct, pos, descriptor, reason string, path ...string) {
	c.add(Obligation{Key: rule + "@" + construct, Rule: rule, Pos: pos, Status: StViolation, Descriptor: descriptor, Reason: reason, Path: path})
}
func (c *Ctx) Observe(rule, construct, pos, reason string) {
	c.add(Obligation{Key: rule + "@" + construct, Rule: rule, Pos: pos, Status: StObserve, Reason: reason})
}
func (c *Ctx) Incomplete(rule, construct, pos, reason string) {
	c.add(Obligation{Key: rule + "@" + construct, Rule: rule, Pos: pos, Status: StIncomplete, Reason: reason})
}

// Check records ok/violation.
func (c *Ctx) Check(ok bool, rule, construct, pos, descriptor, reason string) bool {
	if ok {
		c.OK(rule, construct, pos, "")
	} else {
		c.Bad(rule, construct, pos, descriptor, reason)
	}
	return ok
}

// finish applies vacuity guards.
func (c *Ctx) finish() {
	ids := make([]string, 0, len(c.mins))
	for id := range c.mins {
		ids = append(ids, id)
	}
	sort.Strings(ids)
	for _, id := range ids {
		if c.counts[id] < c.mins[id] {
			c.add(Obligation{Key: "vacuity@" + id, Rule: id, Status: StIncomplete,
				Reason: fmt.Sprintf("rule %s matched %d instances, fewer than the %d confirmed by hand on the pinned tree (anchor moved or rule went vacuous)", id, c.counts[id], c.mins[id])})
		}
	}
}

func loadKnown() ([]KnownFinding, error) {
	f, err := os.Open(filepath.Join(verifDir, "known-findings.jsonl"))
	if err != nil {
		if os.IsNotExist(err) {
			return nil, nil
		}
		return nil, err
	}
	defer f.Close()
	var out []KnownFinding
	sc := bufio.NewScanner(f)
	sc.Buffer(make([]byte, 1<<20), 1<<20)
	for sc.Scan() {
		line := strings.TrimSpace(sc.Text())
		if line == "" || strings.HasPrefix(line, "#") || strings.HasPrefix(line, "fixed:") {
			continue
		}
		var k KnownFinding
		if err := json.Unmarshal([]byte(line), &k); err != nil {
			return nil, fmt.Errorf("known-findings.jsonl: %v", err)
		}
		out = append(out, k)
	}
	return out, sc.Err()
}

// applyKnown downgrades violations that are listed (status known) in the known-findings file.
func applyKnown(prop string, obls []Obligation, known []KnownFinding) {
	for i := range obls {
		o := &obls[i]
		if o.Status != StViolation {
			continue
		}
		for _, k := range known {
			if k.Status == "known" && k.Property == prop && k.Rule == o.Rule && k.Obligation == o.Key && k.Descriptor == o.Descriptor {
				o.Status = StKnown
				o.Reason = k.What + " | " + o.Reason
				break
			}
		}
	}
}

type evidence struct {
	PropertyID  string         `json:"property_id"`
	Tier        string         `json:"tier"`
	Seed        int            `json:"seed"`
	Level       string         `json:"level"`
	Coverage    map[string]any `json:"coverage"`
	Assumptions []string       `json:"assumptions"`
	WallS       float64        `json:"wall_s"`
	Violations  int            `json:"violations"`
}

type propResult struct {
	Obls      []Obligation
	Stats     map[string]int
	Rules     map[string]string
	Configs   []string
	Mutants   []mutantResult
	Controls  []controlResult
	Wall      time.Duration
	ExitCode  int
	Explain   string
	Assume    []string
	replayIDs []string
}

func sortObls(o []Obligation) {
	sort.SliceStable(o, func(i, j int) bool {
		if o[i].Config != o[j].Config {
			return o[i].Config < o[j].Config
		}
		fi, li := splitPos(o[i].Pos)
		fj, lj := splitPos(o[j].Pos)
		if fi != fj {
			return fi < fj
		}
		if li != lj {
			return li < lj
		}
		return o[i].Key < o[j].Key
	})
}

func splitPos(p string) (string, int) {
	i := strings.LastIndex(p, ":")
	if i < 0 {
		return p, 0
	}
	n := 0
	fmt.Sscanf(p[i+1:], "%d", &n)
	return p[:i], n
}

func writeJSON(path string, v any) error {
	b, err := json.MarshalIndent(v, "", " ")
	if err != nil {
		return err
	}
	if err := os.MkdirAll(filepath.Dir(path), 0o755); err != nil {
		return err
	}
	return os.WriteFile(path, append(b, '\n'), 0o644)
}

var _ = token.NoPos
