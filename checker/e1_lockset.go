package main

import (
	"fmt"
	"go/ast"
	"go/token"
	"go/types"
	"sort"
	"strings"
)

// E1 lock discipline: forward lockset dataflow over go/cfg.
// State: lock path ("r.readerMx") -> level (0 unlocked, 1 read, 2 write); join = minimum, so an
// access reported as unprotected is unprotected on some real CFG path.

type deferAct struct {
	path, op string
	lit      *ast.FuncLit
}

type lockState struct {
	lv  map[string]int8
	dfr []deferAct // deferred unlocks / literals in registration order (run LIFO at exits)
}

func (s lockState) clone() lockState {
	n := lockState{lv: make(map[string]int8, len(s.lv)), dfr: append([]deferAct(nil), s.dfr...)}
	for k, v := range s.lv {
		n.lv[k] = v
	}
	return n
}

func (s lockState) String() string {
	var ks []string
	for k, v := range s.lv {
		if v > 0 {
			ks = append(ks, fmt.Sprintf("%s:%s", k, []string{"U", "R", "W"}[v]))
		}
	}
	sort.Strings(ks)
	return "{" + strings.Join(ks, " ") + "}"
}

// guardSpec: field Field of struct type Pkg.Type is protected by the sibling mutex field Lock.
type guardSpec struct {
	Pkg, Type, Field, Lock string
}

func isMutexType(t types.Type) bool {
	if p, ok := t.(*types.Pointer); ok {
		t = p.Elem()
	}
	s := types.TypeString(t, nil)
	return s == "sync.Mutex" || s == "sync.RWMutex"
}

// lockOp: if call is X.Lock()/RLock()/Unlock()/RUnlock() on a mutex returns path and op.
func lockOp(info *types.Info, call *ast.CallExpr) (path string, op string) {
	sel, ok := unparen(call.Fun).(*ast.SelectorExpr)
	if !ok {
		return "", ""
	}
	switch sel.Sel.Name {
	case "Lock", "RLock", "Unlock", "RUnlock", "TryLock", "TryRLock":
	default:
		return "", ""
	}
	tv, ok := info.Types[sel.X]
	if !ok || !isMutexType(tv.Type) {
		// embedded mutex: X.Lock() where method comes from sync
		f := calleeOf(info, call)
		if f == nil || f.Pkg() == nil || f.Pkg().Path() != "sync" {
			return "", ""
		}
	}
	return exprString(unparen(sel.X)), sel.Sel.Name
}

type lockAccess struct {
	node  ast.Node
	base  string // receiver expression text
	field string
	lock  string // required lock path
	write bool
}

type locksetCfg struct {
	Rule   string
	Guards []guardSpec
	// HeldOnEntry: function display name ("(*LazyBinaryReader).load") -> lock field -> level;
	// callers are checked to hold it.
	HeldOnEntry map[string]map[string]int8
	// MayExitWith: functions allowed to return holding locks different from entry (none by default)
}

// guardsLock reports whether path names a lock field of the configuration (base.field).
func (cfg *locksetCfg) guardsLock(path string) bool {
	i := strings.LastIndex(path, ".")
	if i < 0 {
		return false
	}
	for _, g := range cfg.Guards {
		if g.Lock == path[i+1:] {
			return true
		}
	}
	return false
}

func (cfg *locksetCfg) guardFor(info *types.Info, sel *ast.SelectorExpr) *guardSpec {
	s := info.Selections[sel]
	if s == nil || s.Kind() != types.FieldVal {
		return nil
	}
	n := namedOf(s.Recv())
	if n == nil || n.Obj().Pkg() == nil {
		return nil
	}
	for i := range cfg.Guards {
		g := &cfg.Guards[i]
		if g.Field == sel.Sel.Name && g.Type == n.Obj().Name() && expandName(g.Pkg) == n.Obj().Pkg().Path() {
			return g
		}
	}
	return nil
}

// accessesOf lists guarded-field accesses in CFG node n (not inside nested literals).
func (cfg *locksetCfg) accessesOf(info *types.Info, n ast.Node) []lockAccess {
	var out []lockAccess
	writes := map[*ast.SelectorExpr]bool{}
	markWrite := func(e ast.Expr) {
		e = unparen(e)
		for {
			switch x := e.(type) {
			case *ast.IndexExpr:
				e = unparen(x.X)
				continue
			case *ast.StarExpr:
				e = unparen(x.X)
				continue
			}
			break
		}
		if sel, ok := e.(*ast.SelectorExpr); ok {
			writes[sel] = true
		}
	}
	inspectNoLit(n, func(x ast.Node) bool {
		switch s := x.(type) {
		case *ast.AssignStmt:
			for _, l := range s.Lhs {
				markWrite(l)
			}
		case *ast.IncDecStmt:
			markWrite(s.X)
		case *ast.CallExpr:
			if id, ok := s.Fun.(*ast.Ident); ok && (id.Name == "delete" || id.Name == "clear") && len(s.Args) > 0 {
				if _, isB := info.Uses[id].(*types.Builtin); isB {
					markWrite(s.Args[0])
				}
			}
		}
		return true
	})
	inspectNoLit(n, func(x ast.Node) bool {
		sel, ok := x.(*ast.SelectorExpr)
		if !ok {
			return true
		}
		g := cfg.guardFor(info, sel)
		if g == nil {
			return true
		}
		base := exprString(unparen(sel.X))
		out = append(out, lockAccess{node: sel, base: base, field: g.Field, lock: base + "." + g.Lock, write: writes[sel]})
		return true
	})
	return out
}

type locksetResult struct {
	Accesses int
	Funcs    int
}

// checkLockset analyses fn (and, recursively, literals that run synchronously in place) from the
// given entry state.
func checkLockset(c *Ctx, p *Prog, cfg *locksetCfg, fn *Fn, entry lockState, res *locksetResult) {
	checkLocksetRet(c, p, cfg, fn, entry, res, 0)
}

// checkLocksetRet returns the joined lock levels at the function's exits (after its defers).
func checkLocksetRet(c *Ctx, p *Prog, cfg *locksetCfg, fn *Fn, entry lockState, res *locksetResult, depth int) map[string]int8 {
	info := fn.Info()
	construct := relPkg(fn.Pkg.PkgPath) + "." + fn.Name
	if entry.lv == nil {
		entry = lockState{lv: map[string]int8{}}
	}
	// receiver-relative preset
	if pre, ok := cfg.HeldOnEntry[fn.Name]; ok && fn.Decl != nil && fn.Decl.Recv != nil && len(fn.Decl.Recv.List[0].Names) == 1 {
		entry = entry.clone()
		for lf, lv := range pre {
			entry.lv[fn.Decl.Recv.List[0].Names[0].Name+"."+lf] = lv
		}
	}
	apply := func(s lockState, path, op string, deferred bool) lockState {
		s = s.clone()
		if deferred {
			if op == "Unlock" || op == "RUnlock" {
				s.dfr = append(s.dfr, deferAct{path: path, op: op})
			}
			return s
		}
		switch op {
		case "Lock":
			s.lv[path] = 2
		case "RLock":
			s.lv[path] = 1
		case "Unlock", "RUnlock":
			s.lv[path] = 0
		}
		return s
	}
	spec := FlowSpec[lockState]{
		Entry: entry,
		Transfer: func(n ast.Node, s lockState) lockState {
			if d, ok := n.(*ast.DeferStmt); ok {
				if path, op := lockOp(info, d.Call); op != "" {
					return apply(s, path, op, true)
				}
				if lit, ok := unparen(d.Call.Fun).(*ast.FuncLit); ok {
					s = s.clone()
					s.dfr = append(s.dfr, deferAct{lit: lit})
				}
				return s
			}
			if _, ok := n.(*ast.GoStmt); ok {
				return s
			}
			inspectNoLit(n, func(x ast.Node) bool {
				if call, ok := x.(*ast.CallExpr); ok {
					if path, op := lockOp(info, call); op != "" {
						s = apply(s, path, op, false)
					}
					// sync.Cond.Wait releases and re-acquires: level unchanged at return
				}
				return true
			})
			return s
		},
		// `if mu.TryLock() {` / `if !mu.TryRLock() { return }`: the lock is held on the succeeding edge only
		Branch: func(cond ast.Expr, truth bool, s lockState) lockState {
			e := unparen(cond)
			for {
				u, ok := e.(*ast.UnaryExpr)
				if !ok || u.Op != token.NOT {
					break
				}
				e, truth = unparen(u.X), !truth
			}
			call, ok := e.(*ast.CallExpr)
			if !ok || !truth {
				return s
			}
			switch path, op := lockOp(info, call); op {
			case "TryLock":
				s = s.clone()
				s.lv[path] = 2
			case "TryRLock":
				s = s.clone()
				s.lv[path] = 1
			}
			return s
		},
		Join: func(a, b lockState) lockState {
			o := lockState{lv: map[string]int8{}}
			for k, v := range a.lv {
				if w, ok := b.lv[k]; ok {
					if w < v {
						v = w
					}
					if v > 0 {
						o.lv[k] = v
					}
				}
			}
			for i := 0; i < len(a.dfr) && i < len(b.dfr) && a.dfr[i] == b.dfr[i]; i++ {
				o.dfr = append(o.dfr, a.dfr[i])
			}
			return o
		},
		Equal: func(a, b lockState) bool {
			cnt := func(m map[string]int8) int {
				n := 0
				for _, v := range m {
					if v > 0 {
						n++
					}
				}
				return n
			}
			if cnt(a.lv) != cnt(b.lv) || len(a.dfr) != len(b.dfr) {
				return false
			}
			for k, v := range a.lv {
				if v > 0 && b.lv[k] != v {
					return false
				}
			}
			for i := range a.dfr {
				if a.dfr[i] != b.dfr[i] {
					return false
				}
			}
			return true
		},
	}
	r := runFlow(p, fn, spec)
	res.Funcs++
	// obligations on accesses and on calls to held-on-entry functions; literals that run in place
	for _, b := range r.G.Blocks {
		if !r.Seen[b] {
			continue
		}
		s := r.In[b]
		for _, n := range b.Nodes {
			for _, a := range cfg.accessesOf(info, n) {
				res.Accesses++
				need := int8(1)
				kind := "read"
				if a.write {
					need, kind = 2, "write"
				}
				// state within the node: lock ops inside the same statement are rare; use state before
				have := s.lv[a.lock]
				key := fmt.Sprintf("%s#%s.%s", construct, a.base, a.field)
				if have >= need {
					c.OK(cfg.Rule, key, p.Pos(a.node.Pos()), "")
				} else {
					c.Bad(cfg.Rule, key, p.Pos(a.node.Pos()), fmt.Sprintf("%s-without-lock:%s.%s", kind, a.base, a.field),
						fmt.Sprintf("%s of guarded field %s.%s needs %s on %s but the lockset here is %s on some path", kind, a.base, a.field, []string{"", "a read lock", "the write lock"}[need], a.lock, s))
				}
			}
			// an unlock needs the lock: releasing a lock that is not held on some path either crashes the
			// process or takes the lock away from another goroutine
			if _, isDefer := n.(*ast.DeferStmt); !isDefer {
				inspectNoLit(n, func(x ast.Node) bool {
					call, ok := x.(*ast.CallExpr)
					if !ok {
						return true
					}
					path, op := lockOp(info, call)
					if op != "Unlock" && op != "RUnlock" || !cfg.guardsLock(path) {
						return true
					}
					res.Accesses++
					key := fmt.Sprintf("%s#%s.%s", construct, path, op)
					if s.lv[path] > 0 {
						c.OK(cfg.Rule, key, p.Pos(call.Pos()), "")
					} else {
						c.Bad(cfg.Rule, key, p.Pos(call.Pos()), "unlock-without-lock:"+path,
							fmt.Sprintf("%s.%s() is reached on a path where %s is not held (lockset %s): the runtime aborts, or the lock is released under another goroutine that holds it", path, op, path, s))
					}
					return true
				})
			}
			// calls to functions that must be entered with a lock held
			inspectNoLit(n, func(x ast.Node) bool {
				call, ok := x.(*ast.CallExpr)
				if !ok {
					return true
				}
				sel, ok := unparen(call.Fun).(*ast.SelectorExpr)
				if !ok {
					return true
				}
				f := calleeOf(info, call)
				if f == nil {
					return true
				}
				for name, pre := range cfg.HeldOnEntry {
					if !strings.HasSuffix(name, ")."+f.Name()) {
						continue
					}
					rn := namedOf(f.Type().(*types.Signature).Recv().Type())
					if rn == nil || !strings.Contains(name, rn.Obj().Name()+")") {
						continue
					}
					base := exprString(unparen(sel.X))
					for lf, lv := range pre {
						res.Accesses++
						key := fmt.Sprintf("%s#call:%s", construct, f.Name())
						if s.lv[base+"."+lf] >= lv {
							c.OK(cfg.Rule, key, p.Pos(call.Pos()), "")
						} else {
							c.Bad(cfg.Rule, key, p.Pos(call.Pos()), "call-without-lock:"+f.Name(),
								fmt.Sprintf("%s must be entered holding %s.%s (level %d); lockset here is %s", f.Name(), base, lf, lv, s))
						}
					}
				}
				return true
			})
			// literals evaluated in place inherit the current lockset
			for _, lit := range inPlaceLits(info, n) {
				if _, isDefer := n.(*ast.DeferStmt); isDefer {
					continue // deferred literals run at the exits
				}
				sub := &Fn{Pkg: fn.Pkg, Lit: lit, Name: fmt.Sprintf("%s$lit", fn.Name)}
				inner := s.clone()
				inner.dfr = nil
				if depth < 4 {
					checkLocksetRet(c, p, cfg, sub, inner, res, depth+1)
				}
			}
			for _, lit := range spawnedLits(info, n) {
				sub := &Fn{Pkg: fn.Pkg, Lit: lit, Name: fmt.Sprintf("%s$go", fn.Name)}
				if depth < 4 {
					checkLocksetRet(c, p, cfg, sub, lockState{}, res, depth+1)
				}
			}
			s = spec.Transfer(n, s)
		}
	}
	// exits: run the deferred actions LIFO, then check lock balance
	var joined map[string]int8
	for _, ex := range r.Exits() {
		if ex.Panic {
			continue
		}
		st := ex.State
		if ex.Ret != nil {
			st = spec.Transfer(ex.Ret, st)
		}
		st = st.clone()
		for i := len(st.dfr) - 1; i >= 0; i-- {
			a := st.dfr[i]
			if a.lit != nil {
				sub := &Fn{Pkg: fn.Pkg, Lit: a.lit, Name: fmt.Sprintf("%s$defer", fn.Name)}
				if depth < 4 {
					out := checkLocksetRet(c, p, cfg, sub, lockState{lv: st.lv}, res, depth+1)
					st.lv = map[string]int8{}
					for k, v := range out {
						st.lv[k] = v
					}
				}
				continue
			}
			st.lv[a.path] = 0
		}
		if joined == nil {
			joined = map[string]int8{}
			for k, v := range st.lv {
				joined[k] = v
			}
		} else {
			for k, v := range joined {
				if w := st.lv[k]; w < v {
					joined[k] = w
				}
			}
		}
		if fn.Lit != nil {
			continue // balance is judged on the enclosing function
		}
		for path, lv := range st.lv {
			want := entry.lv[path]
			if lv != want {
				c.Bad(cfg.Rule, construct+"#balance", p.Pos(ex.Pos), "lock-imbalance:"+path,
					fmt.Sprintf("function exit with %s at level %d, entered at level %d", path, lv, want))
			}
		}
		for path, want := range entry.lv {
			if want > 0 && st.lv[path] != want {
				c.Bad(cfg.Rule, construct+"#balance", p.Pos(ex.Pos), "lock-imbalance:"+path,
					fmt.Sprintf("function exit with %s at level %d, entered at level %d", path, st.lv[path], want))
			}
		}
	}
	if joined == nil {
		joined = map[string]int8{}
	}
	return joined
}

// inPlaceLits: function literals in node n that run synchronously where they appear: deferred
// literals, immediately-invoked literals, literals passed as call arguments (sort.Slice,
// tracing.DoInSpan, Range callbacks ...) except to goroutine spawners.
func inPlaceLits(info *types.Info, n ast.Node) []*ast.FuncLit {
	var out []*ast.FuncLit
	if _, ok := n.(*ast.GoStmt); ok {
		return nil
	}
	spawned := map[*ast.FuncLit]bool{}
	for _, l := range spawnedLits(info, n) {
		spawned[l] = true
	}
	inspectNoLit(n, func(x ast.Node) bool {
		call, ok := x.(*ast.CallExpr)
		if !ok {
			return true
		}
		if l, ok := unparen(call.Fun).(*ast.FuncLit); ok && !spawned[l] {
			out = append(out, l)
		}
		for _, a := range call.Args {
			if l, ok := unparen(a).(*ast.FuncLit); ok && !spawned[l] {
				out = append(out, l)
			}
		}
		return true
	})
	return out
}

func spawnedLits(info *types.Info, n ast.Node) []*ast.FuncLit {
	var out []*ast.FuncLit
	if g, ok := n.(*ast.GoStmt); ok {
		if l, ok := unparen(g.Call.Fun).(*ast.FuncLit); ok {
			out = append(out, l)
		}
		for _, a := range g.Call.Args {
			if l, ok := unparen(a).(*ast.FuncLit); ok {
				out = append(out, l)
			}
		}
		return out
	}
	inspectNoLit(n, func(x ast.Node) bool {
		call, ok := x.(*ast.CallExpr)
		if !ok {
			return true
		}
		switch funcFullName(calleeOf(info, call)) {
		case "(golang.org/x/sync/errgroup.Group).Go", "(sync.WaitGroup).Go", "time.AfterFunc",
			"(github.com/oklog/run.Group).Add", "(" + thanosMod + "/pkg/pool.WorkerPool).Go":
			for _, a := range call.Args {
				if l, ok := unparen(a).(*ast.FuncLit); ok {
					out = append(out, l)
				}
			}
		}
		return true
	})
	return out
}

// lockedRegionHas reports whether node `inner` textually lies between pos a and b.
func within(n ast.Node, lo, hi token.Pos) bool { return n.Pos() >= lo && n.End() <= hi }
