package main

import (
	"fmt"
	"go/ast"
	"go/types"
	"sort"
	"strings"
)

// E2(a) gate pairing: typestate of every gate.Gate user.
//
// states (bitset, join = union)
const (
	gNone     = 1 << iota // no Start on this path
	gPending              // Start executed, error not yet tested
	gHeld                 // Start returned nil, Done not yet arranged
	gDeferred             // Start returned nil, Done registered with defer
	gReleased             // Done called
	gFailed               // Start returned an error
	gUnknown              // error variable overwritten before the test
	gNil                  // the gate value itself is nil on this path (guarded use)
)

func gateStateString(s int) string {
	var out []string
	for i, n := range []string{"not-started", "start-error-untested", "held", "held+deferred-Done", "released", "start-failed", "unknown", "gate-is-nil"} {
		if s&(1<<i) != 0 {
			out = append(out, n)
		}
	}
	return "{" + strings.Join(out, ",") + "}"
}

func isGateType(t types.Type) bool {
	if t == nil {
		return false
	}
	ms := types.NewMethodSet(t)
	if _, ok := t.(*types.Pointer); !ok {
		if _, isIface := t.Underlying().(*types.Interface); !isIface {
			ms = types.NewMethodSet(types.NewPointer(t))
		}
	}
	var start, done *types.Func
	for i := 0; i < ms.Len(); i++ {
		f, _ := ms.At(i).Obj().(*types.Func)
		if f == nil {
			continue
		}
		switch f.Name() {
		case "Start":
			start = f
		case "Done":
			done = f
		}
	}
	if start == nil || done == nil {
		return false
	}
	ss := start.Type().(*types.Signature)
	ds := done.Type().(*types.Signature)
	if ss.Params().Len() != 1 || ss.Results().Len() != 1 || ds.Params().Len() != 0 || ds.Results().Len() != 0 {
		return false
	}
	if ss.Params().At(0).Type().String() != "context.Context" || ss.Results().At(0).Type().String() != "error" {
		return false
	}
	return true
}

// gateMethod: if e is `X.Start` / `X.Done` on a gate-typed X, returns X and the method name.
func gateMethod(info *types.Info, e ast.Expr) (ast.Expr, string) {
	sel, ok := unparen(e).(*ast.SelectorExpr)
	if !ok || (sel.Sel.Name != "Start" && sel.Sel.Name != "Done") {
		return nil, ""
	}
	tv, ok := info.Types[sel.X]
	if !ok || !isGateType(tv.Type) {
		return nil, ""
	}
	if _, isFunc := info.Uses[sel.Sel].(*types.Func); !isFunc {
		return nil, ""
	}
	return sel.X, sel.Sel.Name
}

// helpers whose function argument runs synchronously exactly once
var syncOnceHelpers = map[string]int{ // full name -> index of the func argument
	thanosMod + "/pkg/tracing.DoInSpan":        2,
	thanosMod + "/pkg/tracing.DoInSpanWithErr": 2,
	thanosMod + "/pkg/tracing.DoWithSpan":      2,
}

type gateEvent struct {
	kind   string // "start" | "done" | "deferdone"
	gate   string
	errObj types.Object // for start: variable receiving the error (nil: discarded / returned directly)
	direct bool         // start: error returned directly by a return statement
	pos    ast.Node
}

// gateEventsOf extracts the gate events of one top-level CFG node.
func gateEventsOf(info *types.Info, n ast.Node, inlined map[*ast.FuncLit]bool) []gateEvent {
	var evs []gateEvent
	lhsErr := func(stmt ast.Node, call *ast.CallExpr) (types.Object, bool) {
		switch s := stmt.(type) {
		case *ast.AssignStmt:
			if len(s.Rhs) == 1 && unparen(s.Rhs[0]) == call && len(s.Lhs) == 1 {
				return objOf(info, s.Lhs[0]), false
			}
		case *ast.ReturnStmt:
			for _, r := range s.Results {
				if unparen(r) == call {
					return nil, true
				}
			}
		case *ast.ValueSpec:
			if len(s.Values) == 1 && unparen(s.Values[0]) == call && len(s.Names) == 1 {
				return info.Defs[s.Names[0]], false
			}
		}
		return nil, false
	}
	if d, ok := n.(*ast.DeferStmt); ok {
		if x, m := gateMethod(info, d.Call.Fun); m == "Done" {
			return []gateEvent{{kind: "deferdone", gate: exprString(x), pos: d}}
		}
		if lit, ok := d.Call.Fun.(*ast.FuncLit); ok {
			inlined[lit] = true
			for _, st := range lit.Body.List {
				if es, ok := st.(*ast.ExprStmt); ok {
					if c, ok := es.X.(*ast.CallExpr); ok {
						if x, m := gateMethod(info, c.Fun); m == "Done" {
							evs = append(evs, gateEvent{kind: "deferdone", gate: exprString(x), pos: d})
						}
					}
				}
			}
		}
		return evs
	}
	if _, ok := n.(*ast.GoStmt); ok {
		return nil
	}
	inspectNoLit(n, func(x ast.Node) bool {
		call, ok := x.(*ast.CallExpr)
		if !ok {
			return true
		}
		if g, m := gateMethod(info, call.Fun); m != "" {
			if m == "Done" {
				evs = append(evs, gateEvent{kind: "done", gate: exprString(g), pos: call})
			} else {
				o, direct := lhsErr(n, call)
				evs = append(evs, gateEvent{kind: "start", gate: exprString(g), errObj: o, direct: direct, pos: call})
			}
			return true
		}
		// synchronous helpers
		if f := calleeOf(info, call); f != nil {
			if idx, ok := syncOnceHelpers[funcFullName(f)]; ok && idx < len(call.Args) {
				arg := unparen(call.Args[idx])
				if g, m := gateMethod(info, arg); m == "Start" { // method value: helper returns Start's error
					o, direct := lhsErr(n, call)
					evs = append(evs, gateEvent{kind: "start", gate: exprString(g), errObj: o, direct: direct, pos: call})
				}
				if lit, ok := arg.(*ast.FuncLit); ok {
					inlined[lit] = true
					for _, st := range lit.Body.List {
						inspectNoLit(st, func(y ast.Node) bool {
							c2, ok := y.(*ast.CallExpr)
							if !ok {
								return true
							}
							if g, m := gateMethod(info, c2.Fun); m == "Start" {
								o, _ := lhsErr(st, c2)
								evs = append(evs, gateEvent{kind: "start", gate: exprString(g), errObj: o, pos: c2})
							} else if m == "Done" {
								evs = append(evs, gateEvent{kind: "done", gate: exprString(g), pos: c2})
							}
							return true
						})
					}
				}
			}
		}
		return true
	})
	return evs
}

type gateState struct {
	bits int
	err  types.Object
}

type gateViol struct{ pos, desc, reason string }

// spawnedLit: if node n hands a function literal to a new goroutine (go statement,
// errgroup.Group.Go, sync.WaitGroup.Go) returns that literal.
func spawnedLit(info *types.Info, n ast.Node) *ast.FuncLit {
	var lit *ast.FuncLit
	if g, ok := n.(*ast.GoStmt); ok {
		if l, ok := g.Call.Fun.(*ast.FuncLit); ok {
			return l
		}
		return nil
	}
	inspectNoLit(n, func(x ast.Node) bool {
		call, ok := x.(*ast.CallExpr)
		if !ok {
			return true
		}
		switch funcFullName(calleeOf(info, call)) {
		case "(golang.org/x/sync/errgroup.Group).Go", "(sync.WaitGroup).Go":
			if len(call.Args) == 1 {
				if l, ok := unparen(call.Args[0]).(*ast.FuncLit); ok {
					lit = l
				}
			}
		}
		return true
	})
	return lit
}

func litTouchesGate(info *types.Info, lit *ast.FuncLit, gate string, inlined map[*ast.FuncLit]bool) bool {
	found := false
	ast.Inspect(lit.Body, func(x ast.Node) bool {
		if c, ok := x.(*ast.CallExpr); ok {
			if g, m := gateMethod(info, c.Fun); m != "" && exprString(g) == gate {
				found = true
			}
		}
		return true
	})
	return found
}

// analyseGate runs the typestate for one gate expression over one function body from the given
// entry state. Goroutine literals that touch the gate are analysed from the state at the spawn
// point (ownership hand-off) and count as the release in the parent.
func analyseGate(p *Prog, fn *Fn, gate string, entry gateState, inlined map[*ast.FuncLit]bool, depth int) []gateViol {
	info := fn.Info()
	var viols []gateViol
	report := func(pos, desc, reason string) {
		for _, v := range viols {
			if v.pos == pos && v.desc == desc {
				return
			}
		}
		viols = append(viols, gateViol{pos, desc, reason})
	}
	final := false
	hasStart := false
	var spec FlowSpec[gateState]
	spec = FlowSpec[gateState]{
		Entry: entry,
		Transfer: func(n ast.Node, s gateState) gateState {
			if lit := spawnedLit(info, n); lit != nil && litTouchesGate(info, lit, gate, inlined) {
				if final && depth < 3 {
					sub := &Fn{Pkg: fn.Pkg, Lit: lit, Name: fn.Name + "$goroutine"}
					for _, v := range analyseGate(p, sub, gate, s, inlined, depth+1) {
						report(v.pos, v.desc, v.reason)
					}
				}
				if s.bits&gHeld != 0 {
					s.bits = s.bits&^gHeld | gReleased
				}
				return s
			}
			startNode := false
			for _, ev := range gateEventsOf(info, n, inlined) {
				if ev.gate != gate {
					continue
				}
				switch ev.kind {
				case "start":
					startNode = true
					hasStart = true
					if ev.direct {
						if final {
							report(p.Pos(ev.pos.Pos()), "start-error-returned-unhandled", "the error of Start is returned directly; callers would have to pair Done and no such wrapper is in the audited table")
						}
						s = gateState{bits: gUnknown}
					} else if ev.errObj == nil {
						if final {
							report(p.Pos(ev.pos.Pos()), "start-error-discarded", "the error result of Start is not bound to a variable")
						}
						s = gateState{bits: gUnknown}
					} else {
						s = gateState{bits: gPending, err: ev.errObj}
					}
				case "done", "deferdone":
					if s.bits&^(gHeld) != 0 && final {
						what, desc := "Done", "done-without-successful-start"
						if ev.kind == "deferdone" {
							what = "defer Done"
						}
						if s.bits&gPending != 0 {
							desc = "done-registered-before-start-error-test"
						}
						report(p.Pos(ev.pos.Pos()), desc, fmt.Sprintf("%s on %s is reachable in state %s; it is legal only after Start returned nil", what, gate, gateStateString(s.bits)))
					}
					if ev.kind == "done" {
						s = gateState{bits: gReleased}
					} else {
						s = gateState{bits: gDeferred}
					}
				}
			}
			// overwriting the pending error variable voids the pending fact
			if s.bits&gPending != 0 && s.err != nil && !startNode {
				for _, o := range assignedObjs(info, n) {
					if o == s.err {
						s = gateState{bits: s.bits&^gPending | gUnknown}
					}
				}
			}
			return s
		},
		Branch: func(cond ast.Expr, truth bool, s gateState) gateState {
			out := s
			refine(cond, truth, func(atom ast.Expr, t bool) {
				x, nonNilWhenTrue, ok := nilTest(info, atom)
				if !ok {
					return
				}
				if exprString(unparen(x)) == gate { // guard on the gate value itself
					if nonNilWhenTrue == t {
						if out.bits&^gNil != 0 {
							out.bits &^= gNil
						}
					} else {
						out = gateState{bits: gNil}
					}
					return
				}
				if out.bits&gPending == 0 || objOf(info, x) != out.err {
					return
				}
				rest := out.bits &^ gPending
				if nonNilWhenTrue == t {
					out = gateState{bits: rest | gFailed}
				} else {
					out = gateState{bits: rest | gHeld}
				}
			})
			return out
		},
		Join: func(a, b gateState) gateState {
			r := gateState{bits: a.bits | b.bits, err: a.err}
			if a.err == nil {
				r.err = b.err
			} else if b.err != nil && b.err != a.err {
				r.bits |= gUnknown
			}
			return r
		},
		Equal: func(a, b gateState) bool { return a == b },
	}
	res := runFlow(p, fn, spec)
	final = true
	for _, b := range res.G.Blocks {
		if !res.Seen[b] {
			continue
		}
		s := res.In[b]
		for _, n := range b.Nodes {
			s = spec.Transfer(n, s)
		}
	}
	for _, ex := range res.Exits() {
		if ex.Panic {
			continue
		}
		st := ex.State
		if ex.Ret != nil {
			st = spec.Transfer(ex.Ret, st)
		}
		if st.bits&gHeld != 0 {
			report(p.Pos(ex.Pos), "held-at-exit", fmt.Sprintf("function exit reachable in state %s: a successful Start on %s without Done (slot leaked)", gateStateString(st.bits), gate))
		}
		if st.bits&gPending != 0 && hasStart {
			report(p.Pos(ex.Pos), "start-error-untested-at-exit", fmt.Sprintf("function exit reachable in state %s: the error of Start on %s is never tested", gateStateString(st.bits), gate))
		}
	}
	return viols
}

// checkGatePairing runs the typestate over every function of prog that touches a gate.
func checkGatePairing(c *Ctx, p *Prog, rule string) {
	var units []*Fn
	for _, fn := range p.AllFuncs(true) {
		units = append(units, fn)
		units = append(units, p.Lits(fn)...)
	}
	c.Stats["functions_analysed"] += len(units)
	inlined := map[*ast.FuncLit]bool{}
	// first pass: literals that are analysed as part of their parent (sync helpers, deferred
	// literals, goroutine hand-offs)
	for _, fn := range units {
		info := fn.Info()
		ast.Inspect(fn.Body(), func(n ast.Node) bool {
			switch s := n.(type) {
			case *ast.DeferStmt:
				gateEventsOf(info, s, inlined)
			case *ast.GoStmt:
				if l := spawnedLit(info, s); l != nil {
					inlined[l] = true
				}
			case *ast.ExprStmt:
				if l := spawnedLit(info, s); l != nil {
					inlined[l] = true
				}
				gateEventsOf(info, s, inlined)
			case *ast.AssignStmt:
				gateEventsOf(info, s, inlined)
			}
			return true
		})
	}
	for _, fn := range units {
		info := fn.Info()
		gates := map[string]bool{}
		ast.Inspect(fn.Body(), func(x ast.Node) bool {
			if l, ok := x.(*ast.FuncLit); ok && !inlined[l] {
				return false
			}
			if call, ok := x.(*ast.CallExpr); ok {
				if g, m := gateMethod(info, call.Fun); m != "" {
					gates[exprString(g)] = true
				}
				for _, a := range call.Args {
					if g, m := gateMethod(info, a); m != "" {
						gates[exprString(g)] = true
					}
				}
			}
			return true
		})
		if len(gates) == 0 || (fn.Lit != nil && inlined[fn.Lit]) {
			continue
		}
		// implementations of the gate interface itself pair Start/Done across two methods
		if fn.Decl != nil && fn.Decl.Recv != nil && (fn.Decl.Name.Name == "Start" || fn.Decl.Name.Name == "Done") {
			if tv, ok := info.Types[fn.Decl.Recv.List[0].Type]; ok && isGateType(tv.Type) {
				c.Stats["gate_implementations_exempt"]++
				continue
			}
		}
		var names []string
		for k := range gates {
			names = append(names, k)
		}
		sort.Strings(names)
		for _, gate := range names {
			construct := fmt.Sprintf("%s.%s#%s", relPkg(fn.Pkg.PkgPath), fn.Name, gate)
			viols := analyseGate(p, fn, gate, gateState{bits: gNone}, inlined, 0)
			c.Stats["gate_sites"]++
			if len(viols) == 0 {
				c.OK(rule, construct, p.Pos(fn.Node().Pos()), "")
				continue
			}
			for _, v := range viols {
				c.Bad(rule, construct, v.pos, v.desc, v.reason)
			}
		}
	}
}

func relPkg(path string) string {
	return strings.TrimPrefix(path, thanosMod+"/")
}
