package main

import (
	"go/ast"
	"go/types"
	"sort"
	"strings"
)

// E3 edge-sensitive must-precede / must-pass-through.
//
// Each tracked event is a call matched by a predicate. Per path the event is in a set of
// states (join = union, so a query "only {ok}" means: on every path reaching here).
const (
	eNo   = 1 << iota // not executed on this path
	ePend             // executed, error result bound to a variable that is not yet tested
	eOK               // executed and its error was tested nil (or it has no error result: "done")
	eFail             // executed and its error was tested non-nil
	eUnk              // executed, but the error variable was overwritten / not bound
	eRet              // executed as the operand of a return statement: its error is the function's result
)

func evBitsString(b uint8) string {
	var out []string
	for i, n := range []string{"not-executed", "error-untested", "succeeded", "failed", "executed-error-unknown", "returned-directly"} {
		if b&(1<<i) != 0 {
			out = append(out, n)
		}
	}
	return "{" + strings.Join(out, ",") + "}"
}

type Ev struct {
	Name  string
	Match func(info *types.Info, call *ast.CallExpr) bool
	// MatchNode, if set, marks a non-call event (e.g. an assignment); it is recorded as executed (eOK).
	MatchNode func(info *types.Info, n ast.Node) bool
	// Sticky: once succeeded, a later execution that is pending does not reset the fact
	// (used for "at least one success").
}

const maxEv = 12

type e3State struct {
	bits [maxEv]uint8
	errs [maxEv]types.Object
}

type E3 struct {
	p    *Prog
	fn   *Fn
	evs  []Ev
	res  *FlowResult[e3State]
	spec FlowSpec[e3State]
}

// errResultIndex returns the index of the (last) error-typed result of call, or -1.
func errResultIndex(info *types.Info, call *ast.CallExpr) int {
	tv, ok := info.Types[call]
	if !ok {
		return -1
	}
	isErr := func(t types.Type) bool { return types.TypeString(t, nil) == "error" }
	if tup, ok := tv.Type.(*types.Tuple); ok {
		for i := tup.Len() - 1; i >= 0; i-- {
			if isErr(tup.At(i).Type()) {
				return i
			}
		}
		return -1
	}
	if isErr(tv.Type) {
		return 0
	}
	return -1
}

// boundErrVar: in top-level node n, which variable receives call's error result (nil if none);
// hasErr reports whether the call has an error result at all.
func boundErrVar(info *types.Info, n ast.Node, call *ast.CallExpr) (obj types.Object, hasErr bool) {
	idx := errResultIndex(info, call)
	if idx < 0 {
		return nil, false
	}
	var found types.Object
	inspectNoLit(n, func(x ast.Node) bool {
		switch s := x.(type) {
		case *ast.AssignStmt:
			if len(s.Rhs) == 1 && unparen(s.Rhs[0]) == call && idx < len(s.Lhs) {
				found = objOf(info, s.Lhs[idx])
			}
		case *ast.ValueSpec:
			if len(s.Values) == 1 && unparen(s.Values[0]) == call && idx < len(s.Names) {
				found = info.Defs[s.Names[idx]]
			}
		}
		return true
	})
	if found != nil && found.Name() == "_" {
		found = nil
	}
	return found, true
}

// nodeCalls lists the calls evaluated by top-level node n: those not inside literals, plus those
// in the bodies of literals handed to synchronous run-once helpers (tracing.DoInSpan*).
// For the latter the enclosing statement inside the literal is returned as the binding site.
type nodeCall struct {
	call *ast.CallExpr
	site ast.Node // statement in which the error binding is looked up
}

func nodeCalls(info *types.Info, n ast.Node) []nodeCall {
	var out []nodeCall
	if _, ok := n.(*ast.GoStmt); ok {
		return nil
	}
	if d, ok := n.(*ast.DeferStmt); ok {
		_ = d
		return nil // deferred calls run at exit, not here
	}
	inspectNoLit(n, func(x ast.Node) bool {
		call, ok := x.(*ast.CallExpr)
		if !ok {
			return true
		}
		out = append(out, nodeCall{call, n})
		if f := calleeOf(info, call); f != nil {
			if idx, ok := syncOnceHelpers[funcFullName(f)]; ok && idx < len(call.Args) {
				if lit, ok := unparen(call.Args[idx]).(*ast.FuncLit); ok {
					for _, st := range lit.Body.List {
						st := st
						inspectNoLit(st, func(y ast.Node) bool {
							if c2, ok := y.(*ast.CallExpr); ok {
								out = append(out, nodeCall{c2, st})
							}
							return true
						})
					}
				}
			}
		}
		return true
	})
	return out
}

func newE3(p *Prog, fn *Fn, evs []Ev) *E3 {
	if len(evs) > maxEv {
		panic("too many events")
	}
	e := &E3{p: p, fn: fn, evs: evs}
	info := fn.Info()
	var entry e3State
	for i := range evs {
		entry.bits[i] = eNo
	}
	e.spec = FlowSpec[e3State]{
		Entry: entry,
		Transfer: func(n ast.Node, s e3State) e3State {
			matched := [maxEv]bool{}
			for i, ev := range evs {
				if ev.MatchNode != nil {
					if ev.MatchNode(info, n) {
						s.bits[i], s.errs[i] = eOK, nil
					}
				}
			}
			for _, nc := range nodeCalls(info, n) {
				for i, ev := range evs {
					if ev.Match == nil || !ev.Match(info, nc.call) {
						continue
					}
					matched[i] = true
					obj, hasErr := boundErrVar(info, nc.site, nc.call)
					if ret, isRet := nc.site.(*ast.ReturnStmt); isRet && hasErr {
						direct := false
						for _, r := range ret.Results {
							if unparen(r) == nc.call {
								direct = true
							}
						}
						if direct {
							s.bits[i], s.errs[i] = eRet, nil
							continue
						}
					}
					switch {
					case !hasErr:
						s.bits[i], s.errs[i] = eOK, nil
					case obj == nil:
						s.bits[i], s.errs[i] = eUnk, nil
					default:
						s.bits[i], s.errs[i] = ePend, obj
					}
				}
			}
			// overwriting a pending error variable voids the fact
			var assigned []types.Object
			for i := range evs {
				if s.bits[i]&ePend != 0 && !matched[i] && s.errs[i] != nil {
					if assigned == nil {
						assigned = assignedObjs(info, n)
						if assigned == nil {
							assigned = []types.Object{}
						}
					}
					for _, o := range assigned {
						if o == s.errs[i] {
							s.bits[i] = s.bits[i]&^ePend | eUnk
						}
					}
				}
			}
			return s
		},
		Branch: func(cond ast.Expr, truth bool, s e3State) e3State {
			refine(cond, truth, func(atom ast.Expr, t bool) {
				x, nonNilWhenTrue, ok := nilTest(info, atom)
				if !ok {
					return
				}
				o := objOf(info, x)
				if o == nil {
					return
				}
				for i := range evs {
					if s.bits[i]&ePend != 0 && s.errs[i] == o {
						rest := s.bits[i] &^ ePend
						if nonNilWhenTrue == t {
							s.bits[i] = rest | eFail
						} else {
							s.bits[i] = rest | eOK
						}
					}
				}
			})
			return s
		},
		Join: func(a, b e3State) e3State {
			for i := range evs {
				a.bits[i] |= b.bits[i]
				if a.errs[i] == nil {
					a.errs[i] = b.errs[i]
				} else if b.errs[i] != nil && b.errs[i] != a.errs[i] && a.bits[i]&ePend != 0 {
					a.bits[i] = a.bits[i]&^ePend | eUnk
				}
			}
			return a
		},
		Equal: func(a, b e3State) bool { return a == b },
	}
	e.res = runFlow(p, fn, e.spec)
	return e
}

func (e *E3) idx(name string) int {
	for i, ev := range e.evs {
		if ev.Name == name {
			return i
		}
	}
	panic("unknown event " + name)
}

// Before returns the state set of event `name` just before the CFG node containing n.
func (e *E3) Before(n ast.Node, name string) (uint8, bool) {
	s, ok := e.res.Before(n)
	return s.bits[e.idx(name)], ok
}

// After returns the state set of event `name` just after the CFG node containing n.
func (e *E3) After(n ast.Node, name string) (uint8, bool) {
	s, ok := e.res.After(n)
	return s.bits[e.idx(name)], ok
}

// Calls lists (in source order) the calls in the function that match event name,
// including those in inlined run-once literals.
func (e *E3) Calls(name string) []*ast.CallExpr {
	ev := e.evs[e.idx(name)]
	info := e.fn.Info()
	var out []*ast.CallExpr
	for _, b := range e.res.G.Blocks {
		if !e.res.Seen[b] {
			continue
		}
		for _, n := range b.Nodes {
			for _, nc := range nodeCalls(info, n) {
				if ev.Match != nil && ev.Match(info, nc.call) {
					out = append(out, nc.call)
				}
			}
		}
	}
	sort.Slice(out, func(i, j int) bool { return out[i].Pos() < out[j].Pos() })
	return out
}

// ExitStates returns every reachable exit with the per-event state sets at that exit.
type e3Exit struct {
	Ret   *ast.ReturnStmt
	Panic bool
	Pos   string
	Bits  map[string]uint8
}

func (e *E3) Exits() []e3Exit {
	var out []e3Exit
	for _, ex := range e.res.Exits() {
		st := ex.State
		if ex.Ret != nil {
			st = e.spec.Transfer(ex.Ret, st)
		}
		m := map[string]uint8{}
		for i, ev := range e.evs {
			m[ev.Name] = st.bits[i]
		}
		out = append(out, e3Exit{Ret: ex.Ret, Panic: ex.Panic, Pos: e.p.Pos(ex.Pos), Bits: m})
	}
	return out
}

// callMatcher builds an event predicate from full callee names.
func callTo(names ...string) func(*types.Info, *ast.CallExpr) bool {
	return func(info *types.Info, call *ast.CallExpr) bool { return isCallTo(info, call, names...) }
}

// methodNamed matches a method call by method name on a receiver whose type string contains recvSub.
func methodOn(recvSub, method string) func(*types.Info, *ast.CallExpr) bool {
	return func(info *types.Info, call *ast.CallExpr) bool {
		sel, ok := unparen(call.Fun).(*ast.SelectorExpr)
		if !ok || sel.Sel.Name != method {
			return false
		}
		tv, ok := info.Types[sel.X]
		if !ok {
			return false
		}
		return strings.Contains(types.TypeString(tv.Type, nil), recvSub)
	}
}

// returnsNilError reports whether a return statement certainly returns a nil error (last result
// literally nil) — or, for functions without an error result, true.
func lastResultIsNil(info *types.Info, ret *ast.ReturnStmt) bool {
	if ret == nil || len(ret.Results) == 0 {
		return false
	}
	return isNil(info, ret.Results[len(ret.Results)-1])
}
