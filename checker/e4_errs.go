package main

import (
	"go/ast"
	"go/types"
	"strings"
)

// E4 error discipline: for the calls matched, the error result is bound, tested, and on the
// non-nil edge the function returns a non-nil error (possibly wrapped). Accepted idioms: plain
// `return err` / `return errors.Wrap(err, ...)` / `return status.Error(...)` etc. (any non-nil last
// result), and for functions without an error result an explicit handler given by `handled`.

type e4Opts struct {
	// AllowFailContinue: the failing edge may also continue/loop (e.g. best-effort with counter) when
	// the statement list on that edge contains a call accepted by this predicate.
	Accumulates func(info *types.Info, n ast.Node) bool
}

// checkErrsReturned analyses one function. name describes the call class for messages.
// Returns the number of call sites found.
func checkErrsReturned(c *Ctx, p *Prog, fn *Fn, rule, name string, match func(*types.Info, *ast.CallExpr) bool, opts *e4Opts) int {
	info := fn.Info()
	e := newE3(p, fn, []Ev{{Name: "call", Match: match}})
	calls := e.Calls("call")
	if len(calls) == 0 {
		return 0
	}
	construct := relPkg(fn.Pkg.PkgPath) + "." + fn.Name + "#" + name
	hasErr := errResultOfFn(fn) >= 0
	ok, why, where := true, "", p.Pos(calls[0].Pos())
	for _, ex := range e.Exits() {
		if ex.Panic {
			continue
		}
		b := ex.Bits["call"]
		switch {
		case b&(ePend) != 0:
			ok, why, where = false, "the error of "+name+" is not tested on a path to this exit "+evBitsString(b), ex.Pos
		case b&eUnk != 0:
			// discarded or overwritten error
			ok, why, where = false, "the error of "+name+" is discarded or overwritten before being tested "+evBitsString(b), ex.Pos
		case b&eFail != 0 && b != eFail && hasErr && (opts == nil || opts.Accumulates == nil):
			// the failing path merged with others and went on: it must not end in `return ... nil`
			if ex.Ret != nil && len(ex.Ret.Results) > 0 && isNil(info, ex.Ret.Results[len(ex.Ret.Results)-1]) {
				ok, why, where = false, "a failed "+name+" does not leave the function: the path continues and can end in `return ... nil` (error swallowed)", ex.Pos
			}
		case b == eFail && hasErr:
			if ex.Ret == nil || len(ex.Ret.Results) == 0 {
				// named result: accept if the function has named results (deferred handling) — treat bare return as returning the named error
				if ex.Ret != nil && len(ex.Ret.Results) == 0 {
					continue
				}
				ok, why, where = false, "a failed "+name+" reaches the end of the function without returning its error", ex.Pos
			} else if isNil(info, ex.Ret.Results[len(ex.Ret.Results)-1]) {
				ok, why, where = false, "a failed "+name+" reaches `return ... nil`: the error is swallowed", ex.Pos
			}
		}
		if !ok {
			break
		}
	}
	// failing edge that does not exit: look at the branch taken on err != nil
	if ok {
		for _, call := range calls {
			after, _ := e.After(call, "call")
			_ = after
		}
	}
	if ok {
		if pos, msg := wrapsOtherError(p, fn); msg != "" {
			ok, why, where = false, msg, pos
		}
	}
	c.Check(ok, rule, construct, where, "error-not-propagated:"+name, why)
	return len(calls)
}

// wrapsOtherError: inside `if X != nil { ... }` a `return ... errors.Wrap(Y, ...)` with Y a different
// error variable that the branch does not assign. pkg/errors' Wrap, Wrapf, WithMessage(f) and
// WithStack return nil for a nil argument, so when Y is nil on that path the failure is reported
// as success.
func wrapsOtherError(p *Prog, fn *Fn) (string, string) {
	info := fn.Info()
	pos, msg := "", ""
	inspectNoLit(fn.Body(), func(n ast.Node) bool {
		ifs, isIf := n.(*ast.IfStmt)
		if !isIf || msg != "" {
			return true
		}
		x, nonNil, k := nilTest(info, ifs.Cond)
		if !k || !nonNil {
			return true
		}
		ox := objOf(info, x)
		if ox == nil || !isErrorType(ox.Type()) {
			return true
		}
		assigned := map[types.Object]bool{}
		inspectNoLit(ifs.Body, func(m ast.Node) bool {
			if as, ok := m.(*ast.AssignStmt); ok {
				for _, l := range as.Lhs {
					if o := objOf(info, l); o != nil {
						assigned[o] = true
					}
				}
			}
			return true
		})
		inspectNoLit(ifs.Body, func(m ast.Node) bool {
			if inner, ok := m.(*ast.IfStmt); ok && inner != ifs {
				return false // a nested test speaks for itself
			}
			ret, ok := m.(*ast.ReturnStmt)
			if !ok || len(ret.Results) == 0 {
				return true
			}
			call, ok := unparen(ret.Results[len(ret.Results)-1]).(*ast.CallExpr)
			if !ok || len(call.Args) == 0 {
				return true
			}
			f := calleeOf(info, call)
			if f == nil || f.Pkg() == nil || f.Pkg().Path() != "github.com/pkg/errors" {
				return true
			}
			switch f.Name() {
			case "Wrap", "Wrapf", "WithMessage", "WithMessagef", "WithStack":
			default:
				return true
			}
			y, ok := unparen(call.Args[0]).(*ast.Ident)
			if !ok {
				return true
			}
			oy := objOf(info, y)
			if oy != nil && oy != ox && isErrorType(oy.Type()) && !assigned[oy] {
				pos = p.Pos(ret.Pos())
				msg = "the branch taken when " + ox.Name() + " != nil returns errors." + f.Name() + "(" + oy.Name() + ", …): " + oy.Name() + " is a different variable, and " + f.Name() + " of a nil error is nil, so the failure is returned as success"
			}
			return true
		})
		return true
	})
	return pos, msg
}

// failEdgeExits reports, for an `if err != nil { ... }` following call, whether its body ends in
// return/continue/break.
func failEdgeTerminates(p *Prog, fn *Fn, call *ast.CallExpr) (found bool, term bool, body *ast.BlockStmt) {
	info := fn.Info()
	var stmt ast.Node = call
	for par := p.ParentOf(fn.Pkg, call); par != nil; par = p.ParentOf(fn.Pkg, par) {
		if _, ok := par.(ast.Stmt); ok {
			stmt = par
			break
		}
	}
	obj, _ := boundErrVar(info, stmt, call)
	if obj == nil {
		return false, false, nil
	}
	// if-init form
	if ifs, ok := p.ParentOf(fn.Pkg, stmt).(*ast.IfStmt); ok && ifs.Init == stmt {
		if x, nonNil, k := nilTest(info, ifs.Cond); k && nonNil && objOf(info, x) == obj {
			return true, terminates(ifs.Body.List), ifs.Body
		}
	}
	// following statement form
	if blk, ok := p.ParentOf(fn.Pkg, stmt).(*ast.BlockStmt); ok {
		for i, st := range blk.List {
			if st == stmt && i+1 < len(blk.List) {
				if ifs, ok := blk.List[i+1].(*ast.IfStmt); ok {
					if x, nonNil, k := nilTest(info, ifs.Cond); k && nonNil && objOf(info, x) == obj {
						return true, terminates(ifs.Body.List), ifs.Body
					}
				}
			}
		}
	}
	return false, false, nil
}

// bucketMethod matches calls of method `name` on a value whose type implements / is named like an
// objstore bucket (Bucket, InstrumentedBucket, BucketReader ...).
func bucketMethod(names ...string) func(*types.Info, *ast.CallExpr) bool {
	return func(info *types.Info, call *ast.CallExpr) bool {
		sel, ok := unparen(call.Fun).(*ast.SelectorExpr)
		if !ok {
			return false
		}
		hit := false
		for _, n := range names {
			if sel.Sel.Name == n {
				hit = true
			}
		}
		if !hit {
			return false
		}
		f := calleeOf(info, call)
		if f == nil {
			return false
		}
		full := funcFullName(f)
		return strings.Contains(full, "thanos-io/objstore") && strings.Contains(full, "Bucket")
	}
}

// argMentions reports whether argument i of call (textually, after resolving single-definition
// locals in fn) mentions one of the identifiers.
func argMentions(fn *Fn, call *ast.CallExpr, i int, idents ...string) bool {
	if i >= len(call.Args) {
		return false
	}
	info := fn.Info()
	var texts []string
	e := call.Args[i]
	texts = append(texts, exprString(e))
	if id, ok := unparen(e).(*ast.Ident); ok {
		if o := objOf(info, id); o != nil {
			if d := singleDef(fn, info, o); d != nil {
				texts = append(texts, exprString(d))
			}
		}
	}
	for _, t := range texts {
		for _, id := range idents {
			if mentions(t, id) || strings.Contains(t, "."+id) {
				return true
			}
		}
	}
	return false
}

func isErrorType(t types.Type) bool {
	return t != nil && types.Identical(t, types.Universe.Lookup("error").Type())
}
