package main

import (
	"fmt"
	"go/ast"
	"go/constant"
	"go/token"
	"go/types"
	"strings"
)

// E5 key/format injectivity: an abstract interpreter over string construction turns a key
// function into a format term; a term is accepted only if it is uniquely decodable.

const (
	fLit = iota
	fAtom
	fOpt
	fRep
	fHash
)

type fT struct {
	K     int
	Lit   string
	Name  string // atom: source expression
	Class string // free | int | uint | bool | ulid | hash43 | hex | quoted | enum:a,b,c
	Sub   []fT
	Sep   string
	// atoms only: the source expression (with the type information it is to be read with) and its text as written
	Raw  string
	Src  ast.Expr
	Info *types.Info
	Fn   *Fn
	P    *Prog
}

func (t fT) String() string {
	switch t.K {
	case fLit:
		return fmt.Sprintf("%q", t.Lit)
	case fAtom:
		return t.Class + "(" + t.Name + ")"
	case fOpt:
		return "opt[" + termsString(t.Sub) + "]"
	case fRep:
		return "rep[" + termsString(t.Sub) + " sep " + fmt.Sprintf("%q", t.Sep) + "]"
	case fHash:
		return "hash[" + termsString(t.Sub) + "]"
	}
	return "?"
}

func termsString(ts []fT) string {
	var s []string
	for _, t := range ts {
		s = append(s, t.String())
	}
	return strings.Join(s, " ")
}

type e5 struct {
	p     *Prog
	fn    *Fn
	info  *types.Info
	class func(e ast.Expr, text string, t types.Type) (name, class string) // rule table; "" = default by type
	bind  map[types.Object]ast.Expr
	binfo map[types.Object]*types.Info
	bfn   map[types.Object]*Fn
	errs  []string
	depth int
}

func newE5(p *Prog, fn *Fn, class func(e ast.Expr, text string, t types.Type) (string, string)) *e5 {
	return &e5{p: p, fn: fn, info: fn.Info(), class: class, bind: map[types.Object]ast.Expr{}, binfo: map[types.Object]*types.Info{}, bfn: map[types.Object]*Fn{}}
}

func (x *e5) fail(pos token.Pos, f string, a ...any) {
	x.errs = append(x.errs, x.p.Pos(pos)+": "+fmt.Sprintf(f, a...))
}

func (x *e5) atom(e ast.Expr) fT {
	// a helper parameter stands for the caller's argument expression
	{
		inner := unparen(e)
		for {
			call, ok := inner.(*ast.CallExpr)
			if !ok || len(call.Args) != 1 {
				break
			}
			if tv, ok := x.info.Types[call.Fun]; !ok || !tv.IsType() {
				break
			}
			inner = unparen(call.Args[0])
		}
		if id, ok := inner.(*ast.Ident); ok {
			if o := objOf(x.info, id); o != nil {
				if b, ok := x.bind[o]; ok {
					saved, savedFn := x.info, x.fn
					x.info, x.fn = x.binfo[o], x.bfn[o]
					a := x.atom(b)
					x.info, x.fn = saved, savedFn
					return a
				}
			}
		}
	}
	txt := strings.ReplaceAll(exprString(e), " ", "")
	// the printed name of an atom must not depend on what locals are called: descriptors of known
	// findings are matched textually
	shown := normLocals(x.fn, x.info, e, txt)
	var typ types.Type
	if tv, ok := x.info.Types[e]; ok {
		typ = tv.Type
	}
	if x.class != nil {
		if name, cl := x.class(e, txt, typ); cl != "" {
			if name == "" || name == txt {
				name = shown
			}
			return fT{K: fAtom, Name: name, Class: cl, Raw: txt, Src: e, Info: x.info, Fn: x.fn, P: x.p}
		}
	}
	cl := "free"
	if typ != nil {
		if b, ok := typ.Underlying().(*types.Basic); ok {
			switch {
			case b.Info()&types.IsUnsigned != 0:
				cl = "uint"
			case b.Info()&types.IsInteger != 0:
				cl = "int"
			case b.Info()&types.IsBoolean != 0:
				cl = "bool"
			}
		}
	}
	return fT{K: fAtom, Name: shown, Class: cl, Raw: txt, Src: e, Info: x.info, Fn: x.fn, P: x.p}
}

// normLocals replaces, in the printed form of e, every identifier that denotes a local variable
// (parameter, receiver, local) by its type in angle quotes: `lbl.Name` → `‹cache.CacheKeyPostings›.Name`.
func normLocals(fn *Fn, info *types.Info, e ast.Expr, txt string) string {
	names := map[string]string{}
	ast.Inspect(e, func(n ast.Node) bool {
		if id, ok := n.(*ast.Ident); ok {
			if o := objOf(info, id); o != nil && isLocalVar(o) {
				role := ""
				if fn != nil {
					nm := namesOf(fn)
					switch {
					case nm.Recv != "" && recvObj(fn) == o:
						role = "recv "
					case isParamOf(fn, o):
						for k, pn := range nm.Params {
							if pn == id.Name {
								role = fmt.Sprintf("arg%d ", k)
							}
						}
					default:
						ast.Inspect(fn.Body(), func(x ast.Node) bool {
							if r, ok := x.(*ast.RangeStmt); ok {
								if (r.Value != nil && objOf(info, r.Value) == o) || (r.Key != nil && objOf(info, r.Key) == o) {
									role = "elem "
								}
							}
							return true
						})
					}
				}
				names[id.Name] = "‹" + role + shortType(o.Type()) + "›"
			}
		}
		return true
	})
	if len(names) == 0 {
		return txt
	}
	var b strings.Builder
	for i := 0; i < len(txt); {
		if isIdentChar(txt[i]) && (i == 0 || !isIdentChar(txt[i-1])) {
			j := i
			for j < len(txt) && isIdentChar(txt[j]) {
				j++
			}
			// not a field / method name: not preceded by '.'
			if r, ok := names[txt[i:j]]; ok && (i == 0 || txt[i-1] != '.') {
				b.WriteString(r)
			} else {
				b.WriteString(txt[i:j])
			}
			i = j
			continue
		}
		b.WriteByte(txt[i])
		i++
	}
	return b.String()
}

func constString(info *types.Info, e ast.Expr) (string, bool) {
	if tv, ok := info.Types[e]; ok && tv.Value != nil {
		switch tv.Value.Kind() {
		case constant.String:
			return constant.StringVal(tv.Value), true
		case constant.Int:
			if b, ok := tv.Type.Underlying().(*types.Basic); ok && (b.Kind() == types.UntypedRune || b.Kind() == types.Int32 || b.Kind() == types.Uint8 || b.Kind() == types.Byte) {
				if v, ok := constant.Int64Val(tv.Value); ok {
					return string(rune(v)), true
				}
			}
		}
	}
	return "", false
}

// terms of a string-valued expression
func (x *e5) terms(e ast.Expr) []fT {
	info := x.info
	e = unparen(e)
	if s, ok := constString(info, e); ok {
		if _, isStr := info.Types[e].Type.Underlying().(*types.Basic); isStr {
			if s == "" {
				return nil
			}
			return []fT{{K: fLit, Lit: s}}
		}
	}
	switch v := e.(type) {
	case *ast.BinaryExpr:
		if v.Op == token.ADD {
			return append(x.terms(v.X), x.terms(v.Y)...)
		}
	case *ast.Ident:
		if o := objOf(info, v); o != nil {
			if b, ok := x.bind[o]; ok {
				saved, savedFn := x.info, x.fn
				x.info, x.fn = x.binfo[o], x.bfn[o]
				r := x.terms(b)
				x.info, x.fn = saved, savedFn
				return r
			}
			if vr, ok := o.(*types.Var); ok && !vr.IsField() && !isParamOf(x.fn, o) {
				if ts, ok := x.localString(o); ok {
					return ts
				}
			}
		}
		return []fT{x.atom(e)}
	case *ast.CallExpr:
		return x.call(v)
	}
	return []fT{x.atom(e)}
}

// localString: a local string variable built by `v := X`, then `v += Y` (possibly under if).
func (x *e5) localString(o types.Object) ([]fT, bool) {
	var out []fT
	found := false
	var walk func(list []ast.Stmt, opt bool)
	walk = func(list []ast.Stmt, opt bool) {
		for _, st := range list {
			switch s := st.(type) {
			case *ast.AssignStmt:
				for i, l := range s.Lhs {
					if objOf(x.info, l) != o || len(s.Lhs) != len(s.Rhs) {
						continue
					}
					var ts []fT
					switch s.Tok {
					case token.DEFINE, token.ASSIGN:
						ts = x.terms(s.Rhs[i])
						if !opt {
							out = nil
						}
						found = true
					case token.ADD_ASSIGN:
						ts = x.terms(s.Rhs[i])
					default:
						continue
					}
					if opt {
						out = append(out, fT{K: fOpt, Sub: ts})
					} else {
						out = append(out, ts...)
					}
				}
			case *ast.IfStmt:
				walk(s.Body.List, true)
			case *ast.BlockStmt:
				walk(s.List, opt)
			case *ast.DeclStmt:
				if gd, ok := s.Decl.(*ast.GenDecl); ok {
					for _, sp := range gd.Specs {
						if vs, ok := sp.(*ast.ValueSpec); ok {
							for i, nm := range vs.Names {
								if x.info.Defs[nm] == o && i < len(vs.Values) {
									out = x.terms(vs.Values[i])
									found = true
								}
							}
						}
					}
				}
			}
		}
	}
	// search in the enclosing statement list that defines o: use whole function body, in order
	var lists [][]ast.Stmt
	ast.Inspect(x.fn.Body(), func(n ast.Node) bool {
		switch b := n.(type) {
		case *ast.BlockStmt:
			lists = append(lists, b.List)
		case *ast.CaseClause:
			lists = append(lists, b.Body)
		}
		return true
	})
	for _, l := range lists {
		defines := false
		for _, st := range l {
			if as, ok := st.(*ast.AssignStmt); ok && as.Tok == token.DEFINE {
				for _, lh := range as.Lhs {
					if objOf(x.info, lh) == o {
						defines = true
					}
				}
			}
		}
		if defines {
			walk(l, false)
			break
		}
	}
	return out, found
}

func (x *e5) call(call *ast.CallExpr) []fT {
	info := x.info
	// conversions string(x), []byte(x)
	if tv, ok := info.Types[call.Fun]; ok && tv.IsType() && len(call.Args) == 1 {
		return x.terms(call.Args[0])
	}
	f := calleeOf(info, call)
	full := funcFullName(f)
	switch full {
	case "fmt.Sprintf":
		if len(call.Args) == 0 {
			break
		}
		format, ok := constString(info, call.Args[0])
		if !ok {
			x.fail(call.Pos(), "non-constant format string")
			return []fT{x.atom(call)}
		}
		var out []fT
		argi := 1
		lit := ""
		for i := 0; i < len(format); i++ {
			if format[i] != '%' {
				lit += string(format[i])
				continue
			}
			if i+1 < len(format) && format[i+1] == '%' {
				lit += "%"
				i++
				continue
			}
			if lit != "" {
				out = append(out, fT{K: fLit, Lit: lit})
				lit = ""
			}
			// skip flags/width
			j := i + 1
			for j < len(format) && strings.ContainsRune("+-# 0123456789.", rune(format[j])) {
				j++
			}
			if j >= len(format) || argi >= len(call.Args) {
				x.fail(call.Pos(), "malformed format %q", format)
				return out
			}
			verb := format[j]
			arg := call.Args[argi]
			argi++
			switch verb {
			case 'q':
				a := x.atom(arg)
				a.Class = "quoted"
				out = append(out, a)
			default:
				out = append(out, x.terms(arg)...)
			}
			i = j
		}
		if lit != "" {
			out = append(out, fT{K: fLit, Lit: lit})
		}
		return out
	case "strconv.FormatInt", "strconv.Itoa", "strconv.FormatUint", "strconv.FormatBool":
		a := x.atom(call.Args[0])
		switch full {
		case "strconv.FormatUint":
			a.Class = "uint"
		case "strconv.FormatBool":
			a.Class = "bool"
		default:
			if a.Class == "free" {
				a.Class = "int"
			}
		}
		return []fT{a}
	case "strconv.AppendInt", "strconv.AppendUint", "strconv.AppendBool":
		if len(call.Args) >= 2 {
			a := x.atom(call.Args[1])
			switch full {
			case "strconv.AppendBool":
				a.Class = "bool"
			case "strconv.AppendUint":
				a.Class = "uint"
			default:
				if a.Class == "free" {
					a.Class = "int"
				}
			}
			return []fT{a}
		}
	case "strings.Join":
		if len(call.Args) == 2 {
			sep, ok := constString(info, call.Args[1])
			if cl, isLit := unparen(call.Args[0]).(*ast.CompositeLit); isLit && ok {
				var out []fT
				for i, el := range cl.Elts {
					if i > 0 && sep != "" {
						out = append(out, fT{K: fLit, Lit: sep})
					}
					out = append(out, x.terms(el)...)
				}
				return out
			}
			if ok {
				a := x.atom(call.Args[0])
				return []fT{{K: fRep, Sub: []fT{a}, Sep: sep}}
			}
		}
	case "(encoding/base64.Encoding).EncodeToString":
		// base64(hash[0:]) where hash := blake2b.Sum256([]byte(E))
		if len(call.Args) == 1 {
			arg := unparen(call.Args[0])
			if sl, ok := arg.(*ast.SliceExpr); ok {
				arg = unparen(sl.X)
			}
			if id, ok := arg.(*ast.Ident); ok {
				if o := objOf(info, id); o != nil {
					if d := singleDef(x.fn, info, o); d != nil {
						if hc, ok := unparen(d).(*ast.CallExpr); ok && strings.Contains(funcFullName(calleeOf(info, hc)), "Sum256") && len(hc.Args) == 1 {
							return []fT{{K: fHash, Sub: x.terms(hc.Args[0])}}
						}
					}
				}
			}
		}
	}
	// builder.String()
	if sel, ok := unparen(call.Fun).(*ast.SelectorExpr); ok && sel.Sel.Name == "String" && len(call.Args) == 0 {
		if tv, ok := info.Types[sel.X]; ok {
			ts := types.TypeString(tv.Type, nil)
			if strings.HasSuffix(ts, "strings.Builder") || strings.HasSuffix(ts, "bytes.Buffer") {
				if o := objOf(info, sel.X); o != nil {
					return x.builderWrites(x.fn.Body().List, o, info)
				}
			}
		}
	}
	// package-local string helper: inline when it is a single return
	if f != nil && f.Pkg() != nil && x.depth < 4 {
		if target := x.p.findFuncDecl(f); target != nil {
			if sig := f.Type().(*types.Signature); sig.Results().Len() == 1 && types.TypeString(sig.Results().At(0).Type(), nil) == "string" {
				return x.inlineStringFunc(target, call)
			}
		}
	}
	return []fT{x.atom(call)}
}

func (x *e5) bindArgs(target *Fn, call *ast.CallExpr) func() {
	tinfo := target.Info()
	type sv struct {
		o types.Object
		e ast.Expr
		i *types.Info
		f *Fn
		h bool
	}
	var saved []sv
	bindTo := func(o types.Object, e ast.Expr) {
		old, had := x.bind[o]
		saved = append(saved, sv{o, old, x.binfo[o], x.bfn[o], had})
		x.bind[o], x.binfo[o], x.bfn[o] = e, x.info, x.fn
	}
	if target.Decl.Recv != nil && len(target.Decl.Recv.List[0].Names) == 1 {
		if sel, ok := unparen(call.Fun).(*ast.SelectorExpr); ok {
			bindTo(tinfo.Defs[target.Decl.Recv.List[0].Names[0]], sel.X)
		}
	}
	i := 0
	for _, fld := range target.Decl.Type.Params.List {
		for _, nm := range fld.Names {
			if i < len(call.Args) {
				bindTo(tinfo.Defs[nm], call.Args[i])
			}
			i++
		}
	}
	return func() {
		for j := len(saved) - 1; j >= 0; j-- {
			if saved[j].h {
				x.bind[saved[j].o], x.binfo[saved[j].o], x.bfn[saved[j].o] = saved[j].e, saved[j].i, saved[j].f
			} else {
				delete(x.bind, saved[j].o)
				delete(x.binfo, saved[j].o)
				delete(x.bfn, saved[j].o)
			}
		}
	}
}

// inlineStringFunc: `if c { return A }; return B` becomes alternatives encoded as opt-less
// terms when there is one return, otherwise an atom (undecided alternatives are reported).
func (x *e5) inlineStringFunc(target *Fn, call *ast.CallExpr) []fT {
	restore := x.bindArgs(target, call)
	savedInfo, savedFn := x.info, x.fn
	x.info, x.fn = target.Info(), target
	x.depth++
	defer func() {
		x.depth--
		x.info, x.fn = savedInfo, savedFn
		restore()
	}()
	var rets []*ast.ReturnStmt
	inspectNoLit(target.Body(), func(n ast.Node) bool {
		if r, ok := n.(*ast.ReturnStmt); ok && len(r.Results) == 1 {
			rets = append(rets, r)
		}
		return true
	})
	switch len(rets) {
	case 1:
		return x.terms(rets[0].Results[0])
	case 2:
		// two alternatives: encode as an atom of class alt(...) only if both are decodable and
		// start with different bytes; simplification: treat as enum when both are constants
		a, b := x.terms(rets[0].Results[0]), x.terms(rets[1].Results[0])
		if len(a) == 1 && a[0].K == fLit {
			return []fT{{K: fAtom, Name: target.Name, Class: "alt", Sub: b, Lit: a[0].Lit}}
		}
		if len(b) == 1 && b[0].K == fLit {
			return []fT{{K: fAtom, Name: target.Name, Class: "alt", Sub: a, Lit: b[0].Lit}}
		}
	}
	x.fail(call.Pos(), "string helper %s has an unsupported shape", target.Name)
	return []fT{{K: fAtom, Name: target.Name, Class: "free"}}
}

// builderWrites collects the writes into builder object o in statement order.
func (x *e5) builderWrites(list []ast.Stmt, o types.Object, info *types.Info) []fT {
	var out []fT
	isBuf := func(e ast.Expr) bool {
		e = unparen(e)
		if u, ok := e.(*ast.UnaryExpr); ok && u.Op == token.AND {
			e = unparen(u.X)
		}
		ob := objOf(info, e)
		if ob == o {
			return true
		}
		// through a binding (helper parameter bound to the caller's buffer)
		if b, ok := x.bind[ob]; ok {
			saved := x.info
			bi := x.binfo[ob]
			_ = saved
			be := unparen(b)
			if u, ok := be.(*ast.UnaryExpr); ok && u.Op == token.AND {
				be = unparen(u.X)
			}
			return objOf(bi, be) == o
		}
		return false
	}
	var walk func(list []ast.Stmt) []fT
	walk = func(list []ast.Stmt) []fT {
		var res []fT
		for _, st := range list {
			switch s := st.(type) {
			case *ast.ExprStmt:
				call, ok := s.X.(*ast.CallExpr)
				if !ok {
					continue
				}
				if sel, ok := unparen(call.Fun).(*ast.SelectorExpr); ok && isBuf(sel.X) {
					switch sel.Sel.Name {
					case "WriteString", "Write":
						res = append(res, x.terms(call.Args[0])...)
					case "WriteByte", "WriteRune":
						if s, ok := constString(x.info, call.Args[0]); ok {
							res = append(res, fT{K: fLit, Lit: s})
						} else {
							res = append(res, x.atom(call.Args[0]))
						}
					case "Grow", "Reset":
					default:
						x.fail(call.Pos(), "unsupported builder method %s", sel.Sel.Name)
					}
					continue
				}
				// helper taking the buffer
				usesBuf := false
				for _, a := range call.Args {
					if isBuf(a) {
						usesBuf = true
					}
				}
				if usesBuf {
					if f := calleeOf(x.info, call); f != nil {
						if target := x.p.findFuncDecl(f); target != nil && x.depth < 4 {
							restore := x.bindArgs(target, call)
							savedInfo, savedFn := x.info, x.fn
							x.info, x.fn = target.Info(), target
							x.depth++
							// the helper's parameter that is the buffer
							var po types.Object
							i := 0
							for _, fld := range target.Decl.Type.Params.List {
								for _, nm := range fld.Names {
									if i < len(call.Args) && isBufIn(savedInfo, call.Args[i], o, x) {
										po = target.Info().Defs[nm]
									}
									i++
								}
							}
							if po != nil {
								sub := x.builderWritesIn(target.Body().List, po)
								res = append(res, sub...)
							}
							x.depth--
							x.info, x.fn = savedInfo, savedFn
							restore()
							continue
						}
					}
					if f := calleeOf(x.info, call); f != nil && f.Pkg() != nil && strings.HasPrefix(f.Pkg().Path(), thanosMod) {
						x.fail(call.Pos(), "buffer passed to a function that cannot be inlined")
					}
				}
			case *ast.IfStmt:
				sub := walk(s.Body.List)
				if len(sub) > 0 {
					res = append(res, fT{K: fOpt, Sub: sub})
				}
			case *ast.RangeStmt:
				// join idiom: optional separator under i > 0, then the element
				body := walk(s.Body.List)
				if len(body) == 0 {
					continue
				}
				sep := ""
				var item []fT
				for _, t := range body {
					if t.K == fOpt && len(t.Sub) == 1 && t.Sub[0].K == fLit {
						sep = t.Sub[0].Lit
					} else {
						item = append(item, t)
					}
				}
				res = append(res, fT{K: fRep, Sub: item, Sep: sep})
			case *ast.BlockStmt:
				res = append(res, walk(s.List)...)
			}
		}
		return res
	}
	out = walk(list)
	return out
}

func isBufIn(info *types.Info, e ast.Expr, o types.Object, x *e5) bool {
	e = unparen(e)
	if u, ok := e.(*ast.UnaryExpr); ok && u.Op == token.AND {
		e = unparen(u.X)
	}
	ob := objOf(info, e)
	if ob == o {
		return true
	}
	if b, ok := x.bind[ob]; ok {
		be := unparen(b)
		if u, ok := be.(*ast.UnaryExpr); ok && u.Op == token.AND {
			be = unparen(u.X)
		}
		return objOf(x.binfo[ob], be) == o
	}
	return false
}

// builderWritesIn: writes into parameter po inside an inlined helper.
func (x *e5) builderWritesIn(list []ast.Stmt, po types.Object) []fT {
	return x.builderWrites(list, po, x.info)
}

// ---------- decodability ----------

func alphabetOf(class string) (chars string, fixedLen bool, any bool) {
	switch {
	case class == "free":
		return "", false, true
	case class == "int":
		return "-0123456789", false, false
	case class == "uint":
		return "0123456789", false, false
	case class == "bool":
		return "truefals", false, false
	case class == "ulid":
		return "", true, false
	case class == "hash43", class == "hash":
		return "", true, false
	case class == "hex":
		return "0123456789abcdef", false, false
	case class == "quoted":
		return "", true, false // self-delimiting
	case class == "lowerdash":
		return "abcdefghijklmnopqrstuvwxyz-", false, false
	case strings.HasPrefix(class, "enum:"):
		return strings.TrimPrefix(class, "enum:"), false, false
	}
	return "", false, true
}

// expand Opt into alternatives (bounded).
func expandOpts(ts []fT) [][]fT {
	out := [][]fT{{}}
	for _, t := range ts {
		if t.K == fOpt {
			var next [][]fT
			for _, o := range out {
				next = append(next, append(append([]fT{}, o...)))
				for _, alt := range expandOpts(t.Sub) {
					next = append(next, append(append([]fT{}, o...), alt...))
				}
			}
			out = next
		} else {
			for i := range out {
				out[i] = append(out[i], t)
			}
		}
		if len(out) > 64 {
			break
		}
	}
	return out
}

// decodable reports whether the term sequence is uniquely decodable; why names the first
// ambiguous adjacency.
func decodable(ts []fT) (bool, string) {
	for _, alt := range expandOpts(ts) {
		if ok, why := decodableSeq(alt); !ok {
			return false, why
		}
	}
	return true, ""
}

func decodableSeq(s []fT) (bool, string) {
	// inner structure of hashes / reps
	for _, t := range s {
		switch t.K {
		case fHash:
			if ok, why := decodable(t.Sub); !ok {
				return false, "hash input: " + why
			}
		case fRep:
			if ok, why := decodable(t.Sub); !ok {
				return false, "repeated item: " + why
			}
			for _, it := range t.Sub {
				if it.K == fAtom {
					chars, fixed, any := alphabetOf(it.Class)
					if !fixed && (any || (t.Sep != "" && strings.ContainsAny(chars, t.Sep[:1]))) {
						return false, fmt.Sprintf("%s|%q|%s", it, t.Sep, it)
					}
				}
			}
		}
	}
	terminated := func(i int) bool {
		t := s[i]
		if t.K == fLit || t.K == fHash {
			return true
		}
		chars, fixed, any := alphabetOf(t.Class)
		if t.K == fRep {
			// a repetition ends where the next literal begins, provided that literal's first byte is
			// neither the separator nor inside the items' alphabets
			if i == len(s)-1 {
				return true
			}
			if s[i+1].K != fLit {
				return false
			}
			fb := s[i+1].Lit[:1]
			if t.Sep != "" && fb == t.Sep[:1] {
				return false
			}
			for _, it := range t.Sub {
				if it.K == fAtom {
					c2, f2, a2 := alphabetOf(it.Class)
					if !f2 && (a2 || strings.Contains(c2, fb)) {
						return false
					}
				}
			}
			return true
		}
		if fixed || i == len(s)-1 {
			return true
		}
		if t.Class == "alt" {
			return true // checked separately by the rule
		}
		if s[i+1].K != fLit {
			return false
		}
		if any {
			return false
		}
		return !strings.Contains(chars, s[i+1].Lit[:1])
	}
	var bad []int
	for i := range s {
		if !terminated(i) {
			bad = append(bad, i)
		}
	}
	if len(bad) == 0 {
		return true, ""
	}
	if len(bad) == 1 {
		// right-to-left rescue: everything after the unterminated atom must be parseable from the end
		i := bad[0]
		ok := true
		for j := len(s) - 1; j > i; j-- {
			t := s[j]
			if t.K == fLit || t.K == fHash {
				continue
			}
			chars, fixed, any := alphabetOf(t.Class)
			if fixed {
				continue
			}
			if t.K == fRep || any || j == 0 || s[j-1].K != fLit {
				ok = false
				break
			}
			last := s[j-1].Lit[len(s[j-1].Lit)-1:]
			if strings.Contains(chars, last) {
				ok = false
				break
			}
		}
		if ok {
			return true, ""
		}
	}
	i := bad[0]
	desc := s[i].String()
	if i+1 < len(s) {
		desc += "|" + s[i+1].String()
	}
	if i+2 < len(s) {
		desc += "|" + s[i+2].String()
	}
	return false, desc
}

// leadingLiteral returns the constant prefix of a term sequence.
func leadingLiteral(ts []fT) string {
	out := ""
	for _, t := range ts {
		if t.K != fLit {
			break
		}
		out += t.Lit
	}
	return out
}

// atomNames lists all atom names (recursively).
// Provenance: the atom's expression with every local replaced, recursively, by what it was defined from
// (single definitions, first results of tuple definitions, range variables by `range(<collection>)`);
// a loop counter is followed by the loop conditions that mention it. Lets a rule ask "does request field
// X flow into this atom" without knowing what the locals in between are called.
func (a fT) Provenance() string {
	if a.Src == nil || a.Info == nil || a.Fn == nil {
		return a.Raw
	}
	var rec func(fn *Fn, info *types.Info, e ast.Expr, depth int) string
	rec = func(fn *Fn, info *types.Info, e ast.Expr, depth int) string {
		e = unparen(e)
		switch v := e.(type) {
		case *ast.Ident:
			o, ok := info.Uses[v].(*types.Var)
			if !ok || o.IsField() || depth >= 6 {
				return v.Name
			}
			if d := singleDef(fn, info, o); d != nil {
				return rec(fn, info, d, depth+1)
			}
			if d := singleDefTuple(fn, info, o); d != nil {
				return rec(fn, info, d, depth+1)
			}
			// `x, ok := y.(T)`
			var ta ast.Expr
			nTA := 0
			ast.Inspect(fn.Body(), func(n ast.Node) bool {
				if as, ok := n.(*ast.AssignStmt); ok && len(as.Lhs) == 2 && len(as.Rhs) == 1 && objOf(info, as.Lhs[0]) == o {
					if t, ok := unparen(as.Rhs[0]).(*ast.TypeAssertExpr); ok {
						ta = t
						nTA++
					}
				}
				return true
			})
			if nTA == 1 {
				return rec(fn, info, ta, depth+1)
			}
			// a parameter of a helper with exactly one call site stands for the argument passed there
			if a.P != nil && fn.Obj != nil && isParamOf(fn, o) {
				idx := -1
				for k, pn := range namesOf(fn).Params {
					if pn == v.Name {
						idx = k
					}
				}
				var caller *Fn
				var call *ast.CallExpr
				n := 0
				for _, g := range a.P.AllFuncs(true) {
					for _, u := range append([]*Fn{g}, a.P.Lits(g)...) {
						ast.Inspect(u.Body(), func(x ast.Node) bool {
							if _, isLit := x.(*ast.FuncLit); isLit && x != u.Node() {
								return false
							}
							if c, ok := x.(*ast.CallExpr); ok && calleeOf(u.Info(), c) == fn.Obj {
								caller, call = u, c
								n++
							}
							return true
						})
					}
				}
				if n == 1 && idx >= 0 && idx < len(call.Args) {
					return rec(caller, caller.Info(), call.Args[idx], depth+1)
				}
				if idx >= 0 {
					return fmt.Sprintf("$arg%d", idx)
				}
			}
			if recvObj(fn) == o {
				return "$recv"
			}
			// the symbolic variable of a type switch: one implicit object per clause
			ts := ""
			ast.Inspect(fn.Body(), func(n ast.Node) bool {
				sw, ok := n.(*ast.TypeSwitchStmt)
				if !ok {
					return true
				}
				as, ok := sw.Assign.(*ast.AssignStmt)
				if !ok || len(as.Rhs) != 1 {
					return true
				}
				ta, ok := unparen(as.Rhs[0]).(*ast.TypeAssertExpr)
				if !ok {
					return true
				}
				for _, cl := range sw.Body.List {
					if info.Implicits[cl] == o {
						ts = rec(fn, info, ta.X, depth+1) + ".(" + shortType(o.Type()) + ")"
					}
				}
				return true
			})
			if ts != "" {
				return ts
			}
			out := v.Name
			ast.Inspect(fn.Body(), func(n ast.Node) bool {
				switch l := n.(type) {
				case *ast.RangeStmt:
					if l.Value != nil && objOf(info, l.Value) == o {
						out = "range(" + rec(fn, info, l.X, depth+1) + ")"
					}
				case *ast.ForStmt:
					if l.Cond != nil && mentionsObj(info, l.Cond, o) {
						out += " forcond(" + canon(l.Cond) + ")"
					}
				}
				return true
			})
			return out
		case *ast.CallExpr:
			var args []string
			for _, x := range v.Args {
				args = append(args, rec(fn, info, x, depth))
			}
			fun := canon(v.Fun)
			if sel, ok := unparen(v.Fun).(*ast.SelectorExpr); ok {
				if _, isPkg := info.Uses[identOf(sel.X)].(*types.PkgName); !isPkg {
					fun = rec(fn, info, sel.X, depth) + "." + sel.Sel.Name
				}
			}
			return fun + "(" + strings.Join(args, ",") + ")"
		case *ast.SelectorExpr:
			return rec(fn, info, v.X, depth) + "." + v.Sel.Name
		case *ast.BinaryExpr:
			return rec(fn, info, v.X, depth) + v.Op.String() + rec(fn, info, v.Y, depth)
		case *ast.StarExpr:
			return "*" + rec(fn, info, v.X, depth)
		case *ast.UnaryExpr:
			return v.Op.String() + rec(fn, info, v.X, depth)
		case *ast.IndexExpr:
			return rec(fn, info, v.X, depth) + "[" + rec(fn, info, v.Index, depth) + "]"
		case *ast.SliceExpr:
			return rec(fn, info, v.X, depth) + "[:]"
		case *ast.TypeAssertExpr:
			if v.Type != nil {
				return rec(fn, info, v.X, depth) + ".(" + shortType(info.TypeOf(v.Type)) + ")"
			}
		}
		return canon(e)
	}
	return rec(a.Fn, a.Info, a.Src, 0)
}

// atomList flattens the atoms of a term list.
func atomList(ts []fT) []fT {
	var out []fT
	for _, t := range ts {
		if t.K == fAtom {
			out = append(out, t)
		}
		out = append(out, atomList(t.Sub)...)
	}
	return out
}

func atomNames(ts []fT, out map[string]bool) {
	for _, t := range ts {
		if t.K == fAtom {
			out[t.Name] = true
		}
		atomNames(t.Sub, out)
	}
}

// decodableAll lists every ambiguity of a term: after reporting one, the offending atom is
// treated as self-delimiting and the check is repeated, so that each defect gets its own
// descriptor (a repaired defect does not unmask or hide the others).
func decodableAll(ts []fT) []string {
	cp := cloneTerms(ts)
	var out []string
	for i := 0; i < 12; i++ {
		ok, why := decodable(cp)
		if ok {
			break
		}
		out = append(out, why)
		w := why
		for _, pre := range []string{"hash input: ", "repeated item: "} {
			w = strings.TrimPrefix(w, pre)
		}
		first := w
		if j := strings.Index(w, "|"); j >= 0 {
			first = w[:j]
		}
		if !quoteFirst(cp, first) {
			break
		}
	}
	return out
}

func cloneTerms(ts []fT) []fT {
	out := make([]fT, len(ts))
	for i, t := range ts {
		out[i] = t
		out[i].Sub = cloneTerms(t.Sub)
	}
	return out
}

func quoteFirst(ts []fT, atomStr string) bool {
	for i := range ts {
		if ts[i].K == fAtom && ts[i].String() == atomStr {
			ts[i].Class = "quoted"
			return true
		}
		if quoteFirst(ts[i].Sub, atomStr) {
			return true
		}
	}
	return false
}
