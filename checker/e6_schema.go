package main

import (
	"go/ast"
	"go/types"
	"sort"
	"strings"
)

// E6 writer/reader schema agreement helpers.

// lookupNamed finds a named type by package path + name among the loaded packages and their imports.
func (p *Prog) lookupNamed(pkgPath, name string) *types.Named {
	pkgPath = expandName(pkgPath)
	var find func(tp *types.Package, seen map[*types.Package]bool) *types.Named
	find = func(tp *types.Package, seen map[*types.Package]bool) *types.Named {
		if tp == nil || seen[tp] {
			return nil
		}
		seen[tp] = true
		if tp.Path() == pkgPath {
			if o := tp.Scope().Lookup(name); o != nil {
				if n, ok := o.Type().(*types.Named); ok {
					return n
				}
			}
			return nil
		}
		for _, im := range tp.Imports() {
			if n := find(im, seen); n != nil {
				return n
			}
		}
		return nil
	}
	seen := map[*types.Package]bool{}
	for _, r := range p.Roots {
		if n := find(r.Types, seen); n != nil {
			return n
		}
	}
	return nil
}

// structFieldNames lists exported, non-XXX_ field names of a named struct.
func structFieldNames(n *types.Named) []string {
	st, ok := n.Underlying().(*types.Struct)
	if !ok {
		return nil
	}
	var out []string
	for i := 0; i < st.NumFields(); i++ {
		f := st.Field(i)
		if !f.Exported() || strings.HasPrefix(f.Name(), "XXX_") {
			continue
		}
		out = append(out, f.Name())
	}
	return out
}

func namedOf(t types.Type) *types.Named {
	if pt, ok := t.(*types.Pointer); ok {
		t = pt.Elem()
	}
	n, _ := types.Unalias(t).(*types.Named)
	return n
}

// fieldReads returns, for struct type n, the set of fields read (selected, not as assignment
// target) within the given functions, with one position each.
func fieldReads(p *Prog, fns []*Fn, n *types.Named) map[string]string {
	out := map[string]string{}
	for _, fn := range fns {
		info := fn.Info()
		lhs := map[ast.Expr]bool{}
		ast.Inspect(fn.Body(), func(x ast.Node) bool {
			if as, ok := x.(*ast.AssignStmt); ok {
				for _, l := range as.Lhs {
					lhs[unparen(l)] = true
				}
			}
			return true
		})
		ast.Inspect(fn.Body(), func(x ast.Node) bool {
			sel, ok := x.(*ast.SelectorExpr)
			if !ok || lhs[sel] {
				return true
			}
			s := info.Selections[sel]
			if s == nil || s.Kind() != types.FieldVal {
				return true
			}
			if rn := namedOf(s.Recv()); rn != nil && rn.Obj() == n.Obj() {
				if _, have := out[sel.Sel.Name]; !have {
					out[sel.Sel.Name] = p.Pos(sel.Pos())
				}
			}
			return true
		})
	}
	return out
}

// fieldWrites returns the set of fields of struct type n that are set in the given functions,
// either through composite literals (keyed) or assignments x.F = ...
func fieldWrites(p *Prog, fns []*Fn, n *types.Named) map[string]string {
	out := map[string]string{}
	for _, fn := range fns {
		info := fn.Info()
		ast.Inspect(fn.Body(), func(x ast.Node) bool {
			switch e := x.(type) {
			case *ast.CompositeLit:
				tv, ok := info.Types[e]
				if !ok {
					return true
				}
				if rn := namedOf(tv.Type); rn != nil && rn.Obj() == n.Obj() {
					for _, el := range e.Elts {
						if kv, ok := el.(*ast.KeyValueExpr); ok {
							if id, ok := kv.Key.(*ast.Ident); ok {
								if _, have := out[id.Name]; !have {
									out[id.Name] = p.Pos(kv.Pos())
								}
							}
						}
					}
				}
			case *ast.AssignStmt:
				for _, l := range e.Lhs {
					sel, ok := unparen(l).(*ast.SelectorExpr)
					if !ok {
						continue
					}
					s := info.Selections[sel]
					if s == nil || s.Kind() != types.FieldVal {
						continue
					}
					if rn := namedOf(s.Recv()); rn != nil && rn.Obj() == n.Obj() {
						if _, have := out[sel.Sel.Name]; !have {
							out[sel.Sel.Name] = p.Pos(sel.Pos())
						}
					}
				}
			}
			return true
		})
	}
	return out
}

// oneofArms lists the named types of pkg that implement the (unexported) oneof interface iface.
func oneofArms(pkg *types.Package, iface *types.Interface) []*types.Named {
	var out []*types.Named
	sc := pkg.Scope()
	for _, name := range sc.Names() {
		tn, ok := sc.Lookup(name).(*types.TypeName)
		if !ok {
			continue
		}
		n, ok := tn.Type().(*types.Named)
		if !ok {
			continue
		}
		if _, isIface := n.Underlying().(*types.Interface); isIface {
			continue
		}
		if types.Implements(types.NewPointer(n), iface) {
			out = append(out, n)
		}
	}
	sort.Slice(out, func(i, j int) bool { return out[i].Obj().Name() < out[j].Obj().Name() })
	return out
}

// typeSwitchArms returns the type names (without pointer) handled by type switches over an
// expression selecting the given field name within fns.
func typeSwitchArms(fns []*Fn, field string) map[string]bool {
	out := map[string]bool{}
	for _, fn := range fns {
		info := fn.Info()
		ast.Inspect(fn.Body(), func(x ast.Node) bool {
			ts, ok := x.(*ast.TypeSwitchStmt)
			if !ok {
				return true
			}
			var subj ast.Expr
			switch a := ts.Assign.(type) {
			case *ast.AssignStmt:
				if ta, ok := a.Rhs[0].(*ast.TypeAssertExpr); ok {
					subj = ta.X
				}
			case *ast.ExprStmt:
				if ta, ok := a.X.(*ast.TypeAssertExpr); ok {
					subj = ta.X
				}
			}
			sel, ok := unparen(subj).(*ast.SelectorExpr)
			if !ok || sel.Sel.Name != field {
				return true
			}
			for _, cl := range ts.Body.List {
				for _, e := range cl.(*ast.CaseClause).List {
					if tv, ok := info.Types[e]; ok {
						if n := namedOf(tv.Type); n != nil {
							out[n.Obj().Name()] = true
						}
					}
				}
			}
			return true
		})
	}
	return out
}
