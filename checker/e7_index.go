package main

import (
	"fmt"
	"go/ast"
	"go/constant"
	"go/token"
	"go/types"
	"sort"
	"strings"
)

// E7 guarded index: every IndexExpr on a designated container with a non-range index must be
// reached only through the in-bounds edge of a comparison of that index with len(container).

// stripConv removes parens and numeric conversions: int(x), uint64(x) -> x.
func stripConv(info *types.Info, e ast.Expr) ast.Expr {
	for {
		e = unparen(e)
		call, ok := e.(*ast.CallExpr)
		if !ok || len(call.Args) != 1 {
			return e
		}
		tv, ok := info.Types[call.Fun]
		if !ok || !tv.IsType() {
			return e
		}
		if b, ok := tv.Type.Underlying().(*types.Basic); !ok || b.Info()&types.IsInteger == 0 {
			return e
		}
		e = call.Args[0]
	}
}

// lenArg: if e is len(X) (after conversions) returns X.
func lenArg(info *types.Info, e ast.Expr) ast.Expr {
	call, ok := stripConv(info, e).(*ast.CallExpr)
	if !ok || len(call.Args) != 1 {
		return nil
	}
	if id, ok := call.Fun.(*ast.Ident); ok {
		if b, ok := info.Uses[id].(*types.Builtin); ok && b.Name() == "len" {
			return call.Args[0]
		}
	}
	return nil
}

// splitOffset: e = base + k (k constant >= 0) -> base, k.
func splitOffset(info *types.Info, e ast.Expr) (ast.Expr, int64) {
	e = stripConv(info, e)
	if b, ok := e.(*ast.BinaryExpr); ok && b.Op == token.ADD {
		if tv, ok := info.Types[b.Y]; ok && tv.Value != nil {
			if k, ok := constant.Int64Val(constant.ToInt(tv.Value)); ok && k >= 0 {
				return stripConv(info, b.X), k
			}
		}
	}
	return e, 0
}

type boundFact struct {
	container string // canonical container expression
	base      string // canonical index base expression
	k         int64  // base+k < len(container) known
}

type boundState map[boundFact]bool

func (s boundState) clone() boundState {
	o := boundState{}
	for k := range s {
		o[k] = true
	}
	return o
}

// inBoundsContainers returns the container expressions C of the `idx < len(C)` facts that the
// atom establishes when it evaluates to truth.
func inBoundsContainers(info *types.Info, atom ast.Expr, truth bool) []ast.Expr {
	if len(inBoundsFacts(info, atom, truth)) == 0 {
		return nil
	}
	b := unparen(atom).(*ast.BinaryExpr)
	for _, side := range []ast.Expr{b.X, b.Y} {
		if c := lenArg(info, side); c != nil {
			return []ast.Expr{c}
		}
	}
	return nil
}

// inBoundsFacts extracts `idx < len(C)` style facts from an atomic comparison known to be `truth`.
func inBoundsFacts(info *types.Info, atom ast.Expr, truth bool) []boundFact {
	b, ok := unparen(atom).(*ast.BinaryExpr)
	if !ok {
		return nil
	}
	op := b.Op
	x, y := b.X, b.Y
	if !truth {
		switch op {
		case token.LSS:
			op = token.GEQ
		case token.GEQ:
			op = token.LSS
		case token.GTR:
			op = token.LEQ
		case token.LEQ:
			op = token.GTR
		default:
			return nil
		}
	}
	// normalise to  idx < len(C)
	switch op {
	case token.LSS: // x < y
	case token.GTR: // x > y  ==  y < x
		x, y = y, x
	default:
		return nil
	}
	c := lenArg(info, y)
	if c == nil {
		return nil
	}
	base, k := splitOffset(info, x)
	return []boundFact{{container: exprString(unparen(c)), base: exprString(base), k: k}}
}

// nonNegative: unsigned-typed expression, or a loop variable initialised to a non-negative
// constant and only ever increased.
func nonNegative(p *Prog, fn *Fn, e ast.Expr) bool {
	info := fn.Info()
	if tv, ok := info.Types[e]; ok {
		if b, ok := tv.Type.Underlying().(*types.Basic); ok && b.Info()&types.IsUnsigned != 0 {
			return true
		}
		if tv.Value != nil {
			if k, ok := constant.Int64Val(constant.ToInt(tv.Value)); ok && k >= 0 {
				return true
			}
		}
	}
	id, ok := unparen(e).(*ast.Ident)
	if !ok {
		return false
	}
	obj := objOf(info, id)
	if obj == nil {
		return false
	}
	okInit, bad := false, false
	ast.Inspect(fn.Body(), func(n ast.Node) bool {
		switch s := n.(type) {
		case *ast.AssignStmt:
			for i, l := range s.Lhs {
				if objOf(info, l) != obj {
					continue
				}
				switch s.Tok {
				case token.DEFINE, token.ASSIGN:
					if i < len(s.Rhs) {
						if tv, ok := info.Types[s.Rhs[i]]; ok && tv.Value != nil {
							if k, ok := constant.Int64Val(constant.ToInt(tv.Value)); ok && k >= 0 {
								okInit = true
								continue
							}
						}
					}
					bad = true
				case token.ADD_ASSIGN:
					if tv, ok := info.Types[s.Rhs[0]]; ok && tv.Value != nil {
						if k, ok := constant.Int64Val(constant.ToInt(tv.Value)); ok && k >= 0 {
							continue
						}
					}
					bad = true
				default:
					bad = true
				}
			}
		case *ast.IncDecStmt:
			if objOf(info, s.X) == obj && s.Tok == token.DEC {
				bad = true
			}
		case *ast.RangeStmt:
			if s.Key != nil && objOf(info, s.Key) == obj {
				okInit = true // range keys are >= 0
			}
		case *ast.UnaryExpr:
			if s.Op == token.AND && objOf(info, s.X) == obj {
				bad = true
			}
		}
		return true
	})
	return okInit && !bad
}

// checkGuardedIndex checks every index into a container accepted by isContainer within fn.
// Returns the number of index sites examined.
func checkGuardedIndex(c *Ctx, p *Prog, fn *Fn, rule string, isContainer func(info *types.Info, e ast.Expr) string) int {
	info := fn.Info()
	// collect sites
	type site struct {
		ix   *ast.IndexExpr
		name string
	}
	var sites []site
	inspectNoLit(fn.Body(), func(n ast.Node) bool {
		if ix, ok := n.(*ast.IndexExpr); ok {
			if name := isContainer(info, ix.X); name != "" {
				sites = append(sites, site{ix, name})
			}
		}
		return true
	})
	if len(sites) == 0 {
		return 0
	}
	// range keys over the same container are in bounds by construction
	rangeKey := map[types.Object]string{}
	ast.Inspect(fn.Body(), func(n ast.Node) bool {
		if r, ok := n.(*ast.RangeStmt); ok && r.Key != nil {
			if o := objOf(info, r.Key); o != nil {
				rangeKey[o] = exprString(unparen(r.X))
			}
		}
		return true
	})
	spec := FlowSpec[boundState]{
		Entry: boundState{},
		Transfer: func(n ast.Node, s boundState) boundState {
			as := assignedObjs(info, n)
			if len(as) == 0 || len(s) == 0 {
				return s
			}
			out := s
			for _, o := range as {
				for f := range s {
					if mentions(f.base, o.Name()) || mentions(f.container, o.Name()) {
						if len(out) == len(s) {
							out = s.clone()
						}
						delete(out, f)
					}
				}
			}
			return out
		},
		Branch: func(cond ast.Expr, truth bool, s boundState) boundState {
			out := s
			refine(cond, truth, func(atom ast.Expr, t bool) {
				for _, f := range inBoundsFacts(info, atom, t) {
					if !out[f] {
						out = out.clone()
						out[f] = true
					}
				}
			})
			return out
		},
		Join: func(a, b boundState) boundState {
			o := boundState{}
			for k := range a {
				if b[k] {
					o[k] = true
				}
			}
			return o
		},
		Equal: func(a, b boundState) bool {
			if len(a) != len(b) {
				return false
			}
			for k := range a {
				if !b[k] {
					return false
				}
			}
			return true
		},
	}
	res := runFlow(p, fn, spec)
	for i, st := range sites {
		construct := fmt.Sprintf("%s.%s#%s[%d]", relPkg(fn.Pkg.PkgPath), fn.Name, st.name, i)
		cont := exprString(unparen(st.ix.X))
		base, k := splitOffset(info, st.ix.Index)
		bs := exprString(base)
		if id, ok := base.(*ast.Ident); ok && k == 0 {
			if rc, ok := rangeKey[objOf(info, id)]; ok && rc == cont {
				c.OK(rule, construct, p.Pos(st.ix.Pos()), "range key of the same container")
				continue
			}
		}
		state, reached := res.Before(st.ix)
		if !reached {
			c.OK(rule, construct, p.Pos(st.ix.Pos()), "unreachable")
			continue
		}
		guarded := false
		for f := range state {
			if f.container == cont && f.base == bs && f.k >= k {
				guarded = true
			}
		}
		if guarded && !nonNegative(p, fn, base) {
			c.Bad(rule, construct, p.Pos(st.ix.Pos()), "index-may-be-negative:"+st.name, fmt.Sprintf("index %s into %s is compared with len() but is not known to be non-negative", exprString(st.ix.Index), cont))
			continue
		}
		if !guarded {
			var have []string
			for f := range state {
				have = append(have, fmt.Sprintf("%s+%d<len(%s)", f.base, f.k, f.container))
			}
			sort.Strings(have)
			c.Bad(rule, construct, p.Pos(st.ix.Pos()), "unguarded-index:"+st.name,
				fmt.Sprintf("%s[%s] is reachable without a dominating in-bounds test of %s against len(%s); facts here: [%s]", cont, exprString(st.ix.Index), bs, cont, strings.Join(have, " ")))
			continue
		}
		c.OK(rule, construct, p.Pos(st.ix.Pos()), "")
	}
	return len(sites)
}

// mentions reports whether identifier name occurs as a token in the expression string.
func mentions(expr, name string) bool {
	idx := 0
	for {
		i := strings.Index(expr[idx:], name)
		if i < 0 {
			return false
		}
		i += idx
		before := i == 0 || !isIdentChar(expr[i-1])
		after := i+len(name) >= len(expr) || !isIdentChar(expr[i+len(name)])
		if before && after {
			return true
		}
		idx = i + 1
	}
}

func isIdentChar(b byte) bool {
	return b == '_' || b >= '0' && b <= '9' || b >= 'a' && b <= 'z' || b >= 'A' && b <= 'Z'
}

// fieldContainer returns a matcher for selector expressions that denote field `field` of the
// named struct type pkgPath.typeName.
func fieldContainer(pkgPath, typeName, field string) func(info *types.Info, e ast.Expr) string {
	return func(info *types.Info, e ast.Expr) string {
		sel, ok := unparen(e).(*ast.SelectorExpr)
		if !ok || sel.Sel.Name != field {
			return ""
		}
		s := info.Selections[sel]
		if s == nil || s.Kind() != types.FieldVal {
			return ""
		}
		t := s.Recv()
		if pt, ok := t.(*types.Pointer); ok {
			t = pt.Elem()
		}
		n, ok := t.(*types.Named)
		if !ok || n.Obj().Name() != typeName || n.Obj().Pkg() == nil || n.Obj().Pkg().Path() != pkgPath {
			return ""
		}
		return typeName + "." + field
	}
}
