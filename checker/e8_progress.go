package main

import (
	"fmt"
	"go/ast"
	"go/constant"
	"go/token"
	"go/types"
	"sort"
	"strings"

	"golang.org/x/tools/go/cfg"
)

// E8 loop progress: every non-range loop is a counted loop or every cycle through its head
// contains a progress action on a quantity its condition reads.

// condVars: objects (variables) read by the loop condition, with len(x)/x[...] reduced to x.
func condVars(info *types.Info, cond ast.Expr) map[types.Object]bool {
	out := map[types.Object]bool{}
	ast.Inspect(cond, func(n ast.Node) bool {
		if id, ok := n.(*ast.Ident); ok {
			if v, ok := info.Uses[id].(*types.Var); ok {
				out[v] = true
			}
		}
		return true
	})
	return out
}

// progressOn reports whether node n changes one of the objects: assignment, ++/--, op-assign,
// map/slice element store, delete, append-assign.
func progressOn(info *types.Info, n ast.Node, vars map[types.Object]bool) bool {
	hit := false
	root := func(e ast.Expr) types.Object {
		e = unparen(e)
		for {
			switch x := e.(type) {
			case *ast.IndexExpr:
				e = unparen(x.X)
				continue
			case *ast.StarExpr:
				e = unparen(x.X)
				continue
			case *ast.SelectorExpr:
				if o := objOf(info, x); o != nil && vars[o] {
					return o
				}
				e = unparen(x.X)
				continue
			}
			break
		}
		return objOf(info, e)
	}
	inspectNoLit(n, func(x ast.Node) bool {
		switch s := x.(type) {
		case *ast.AssignStmt:
			for _, l := range s.Lhs {
				if o := root(l); o != nil && vars[o] {
					hit = true
				}
			}
		case *ast.IncDecStmt:
			if o := root(s.X); o != nil && vars[o] {
				hit = true
			}
		case *ast.CallExpr:
			if id, ok := s.Fun.(*ast.Ident); ok && (id.Name == "delete" || id.Name == "clear") && len(s.Args) > 0 {
				if o := root(s.Args[0]); o != nil && vars[o] {
					hit = true
				}
			}
		}
		return true
	})
	return hit
}

// countedLoop: `for i := a; i < E; i++` (or <=, >, >=, += c, -= c, --) with i not otherwise
// assigned in the body and the bound's variables not assigned in the body.
func countedLoop(info *types.Info, f *ast.ForStmt) (bool, string) {
	if f.Cond == nil || f.Post == nil {
		return false, "no condition or no post statement"
	}
	c, ok := unparen(f.Cond).(*ast.BinaryExpr)
	if !ok {
		return false, "condition is not a comparison"
	}
	var iv types.Object
	up := false
	switch p := f.Post.(type) {
	case *ast.IncDecStmt:
		iv = objOf(info, p.X)
		up = p.Tok == token.INC
	case *ast.AssignStmt:
		if len(p.Lhs) == 1 && (p.Tok == token.ADD_ASSIGN || p.Tok == token.SUB_ASSIGN) {
			if tv, ok := info.Types[p.Rhs[0]]; ok && tv.Value != nil && constant.Sign(tv.Value) > 0 {
				iv = objOf(info, p.Lhs[0])
				up = p.Tok == token.ADD_ASSIGN
			}
		}
	}
	if iv == nil {
		return false, "post statement is not a constant step of one variable"
	}
	var bound ast.Expr
	switch {
	case objOf(info, c.X) == iv && ((up && (c.Op == token.LSS || c.Op == token.LEQ)) || (!up && (c.Op == token.GTR || c.Op == token.GEQ))):
		bound = c.Y
	case objOf(info, c.Y) == iv && ((up && (c.Op == token.GTR || c.Op == token.GEQ)) || (!up && (c.Op == token.LSS || c.Op == token.LEQ))):
		bound = c.X
	default:
		return false, "condition does not bound the stepped variable in the direction of the step"
	}
	bv := condVars(info, bound)
	bad := ""
	ast.Inspect(f.Body, func(n ast.Node) bool {
		if n == nil {
			return true
		}
		if progressOn(info, n, map[types.Object]bool{iv: true}) {
			if _, isBlk := n.(*ast.BlockStmt); !isBlk {
				switch n.(type) {
				case *ast.AssignStmt, *ast.IncDecStmt:
					bad = "loop variable is also modified in the body"
				}
			}
		}
		switch n.(type) {
		case *ast.AssignStmt, *ast.IncDecStmt:
			if progressOn(info, n, bv) {
				bad = "loop bound is modified in the body"
			}
		}
		return true
	})
	if bad != "" {
		return false, bad
	}
	return true, ""
}

// checkLoopProgress analyses all loops of fn. Returns the number of loops examined.
func checkLoopProgress(c *Ctx, p *Prog, fn *Fn, rule string) int {
	info := fn.Info()
	var loops []*ast.ForStmt
	nRange := 0
	ast.Inspect(fn.Body(), func(n ast.Node) bool {
		switch l := n.(type) {
		case *ast.ForStmt:
			loops = append(loops, l)
		case *ast.RangeStmt:
			nRange++
			if tv, ok := info.Types[l.X]; ok {
				switch tv.Type.Underlying().(type) {
				case *types.Chan:
					c.Observe(rule, relPkg(fn.Pkg.PkgPath)+"."+fn.Name+"#range-chan", p.Pos(l.Pos()), "range over a channel terminates only when the channel is closed")
				case *types.Signature:
					c.Observe(rule, relPkg(fn.Pkg.PkgPath)+"."+fn.Name+"#range-func", p.Pos(l.Pos()), "range over a function iterator")
				}
			}
		}
		return true
	})
	c.Stats["range_loops"] += nRange
	if len(loops) == 0 {
		return 0
	}
	var g *cfg.CFG
	for li, l := range loops {
		construct := fmt.Sprintf("%s.%s#for[%d]", relPkg(fn.Pkg.PkgPath), fn.Name, li)
		if ok, _ := countedLoop(info, l); ok {
			c.OK(rule, construct, p.Pos(l.Pos()), "counted loop")
			continue
		}
		if l.Cond == nil {
			// unconditional loop: must have an exit (return/break/goto out) somewhere in the body
			hasExit := false
			ast.Inspect(l.Body, func(n ast.Node) bool {
				switch s := n.(type) {
				case *ast.ReturnStmt:
					hasExit = true
				case *ast.BranchStmt:
					if s.Tok == token.BREAK || s.Tok == token.GOTO {
						hasExit = true
					}
				case *ast.FuncLit:
					return false
				}
				return true
			})
			if hasExit {
				c.Observe(rule, construct, p.Pos(l.Pos()), "unconditional loop with exits: termination depends on events (channel/ctx), not decided")
				c.OK(rule, construct, p.Pos(l.Pos()), "event loop with exit")
			} else {
				c.Bad(rule, construct, p.Pos(l.Pos()), "infinite-loop", "unconditional loop without any exit")
			}
			continue
		}
		vars := condVars(info, l.Cond)
		if g == nil {
			g = nil
		}
		// direction discipline: with a comparison `L < G` only increases of L's variables and
		// decreases of G's variables are progress; any other update of a condition variable in
		// the loop (a reset, a step backwards) can undo progress and is reported.
		if why, pos := directionViolation(info, l, vars); why != "" {
			c.Bad(rule, construct, p.Pos(pos), "non-monotone-update", fmt.Sprintf("loop `for %s`: %s — the loop's progress measure is not monotone", exprString(l.Cond), why))
			continue
		}
		// must-progress dataflow: reset at body entry, set by progress actions; every back edge needs it
		var bodyBlk, headBlk, postBlk *cfg.Block
		spec := FlowSpec[bool]{
			Entry:    false,
			Transfer: func(n ast.Node, s bool) bool { return s || progressOn(info, n, vars) },
			BlockEntry: func(b *cfg.Block, s bool) bool {
				if b.Kind == cfg.KindForBody && b.Stmt == ast.Stmt(l) {
					return false
				}
				return s
			},
			Join:  func(a, b bool) bool { return a && b },
			Equal: func(a, b bool) bool { return a == b },
		}
		r := runFlow(p, fn, spec)
		for _, b := range r.G.Blocks {
			if b.Stmt != ast.Stmt(l) {
				continue
			}
			switch b.Kind {
			case cfg.KindForBody:
				bodyBlk = b
			case cfg.KindForLoop:
				headBlk = b
			case cfg.KindForPost:
				postBlk = b
			}
		}
		target := headBlk
		if postBlk != nil {
			target = postBlk
		}
		if target == nil || bodyBlk == nil {
			c.Incomplete(rule, construct, p.Pos(l.Pos()), "loop blocks not found in CFG")
			continue
		}
		var badEdges []string
		// blocks inside the loop body that jump to the back-edge target
		for _, b := range r.G.Blocks {
			if !r.Seen[b] || b == target {
				continue
			}
			for _, s := range b.Succs {
				if s != target {
					continue
				}
				// only edges from within the loop (b dominated by body: position inside the loop statement)
				if len(b.Nodes) > 0 && !within(b.Nodes[0], l.Pos(), l.End()) {
					continue
				}
				if len(b.Nodes) == 0 && b != bodyBlk && !blockInside(b, l) {
					continue
				}
				out := r.BlockOut(b)
				if postBlk != nil && target == postBlk {
					// the post statement itself may be the progress action
					for _, n := range postBlk.Nodes {
						out = out || progressOn(info, n, vars)
					}
				}
				if !out {
					pos := l.Pos()
					if len(b.Nodes) > 0 {
						pos = b.Nodes[len(b.Nodes)-1].Pos()
					}
					badEdges = append(badEdges, p.Pos(pos))
				}
			}
		}
		sort.Strings(badEdges)
		if len(badEdges) > 0 {
			var vs []string
			for o := range vars {
				vs = append(vs, o.Name())
			}
			sort.Strings(vs)
			c.Bad(rule, construct, p.Pos(l.Pos()), "back-edge-without-progress",
				fmt.Sprintf("loop `for %s` can take a back edge without changing any of {%s} (edges ending at %s): nothing bounds the number of iterations", exprString(l.Cond), strings.Join(vs, ","), strings.Join(badEdges, ", ")), badEdges...)
		} else {
			c.OK(rule, construct, p.Pos(l.Pos()), "every cycle changes a variable of the condition")
		}
	}
	return len(loops)
}

// updateDir classifies an update of variable o by statement n: +1 grows (x++, x += c, m[k] = v,
// x = append(x, ...)), -1 shrinks (x--, x -= c, delete(m, k), x = x[a:]), 0 not an update of o,
// 2 any other assignment.
func updateDir(info *types.Info, n ast.Node, o types.Object) int {
	posConst := func(e ast.Expr) bool {
		tv, ok := info.Types[e]
		return ok && tv.Value != nil && constant.Sign(constant.ToFloat(tv.Value)) > 0
	}
	switch s := n.(type) {
	case *ast.IncDecStmt:
		if objOf(info, s.X) == o {
			if s.Tok == token.INC {
				return 1
			}
			return -1
		}
	case *ast.AssignStmt:
		for i, l := range s.Lhs {
			l = unparen(l)
			if ix, ok := l.(*ast.IndexExpr); ok && objOf(info, ix.X) == o {
				if tv, ok := info.Types[ix.X]; ok {
					if _, isMap := tv.Type.Underlying().(*types.Map); isMap {
						return 1 // map insert (or overwrite): never shrinks
					}
				}
				continue // slice element store: not a size/value update
			}
			if objOf(info, l) != o {
				continue
			}
			switch s.Tok {
			case token.ADD_ASSIGN:
				if posConst(s.Rhs[0]) {
					return 1
				}
				return 2
			case token.SUB_ASSIGN:
				if posConst(s.Rhs[0]) {
					return -1
				}
				return 2
			case token.ASSIGN, token.DEFINE:
				if i < len(s.Rhs) && len(s.Lhs) == len(s.Rhs) {
					r := unparen(s.Rhs[i])
					if call, ok := r.(*ast.CallExpr); ok {
						if id, ok := call.Fun.(*ast.Ident); ok && id.Name == "append" && len(call.Args) > 0 && objOf(info, call.Args[0]) == o {
							return 1
						}
					}
					if sl, ok := r.(*ast.SliceExpr); ok && objOf(info, sl.X) == o && sl.Low != nil && sl.High == nil {
						return -1
					}
					if b, ok := r.(*ast.BinaryExpr); ok && objOf(info, b.X) == o && posConst(b.Y) {
						if b.Op == token.ADD {
							return 1
						}
						if b.Op == token.SUB {
							return -1
						}
					}
				}
				return 2
			default:
				return 2
			}
		}
	case *ast.ExprStmt:
		if call, ok := s.X.(*ast.CallExpr); ok {
			if id, ok := call.Fun.(*ast.Ident); ok && (id.Name == "delete" || id.Name == "clear") && len(call.Args) > 0 && objOf(info, call.Args[0]) == o {
				return -1
			}
		}
	}
	return 0
}

// directionViolation checks every update of the condition's variables inside loop l.
func directionViolation(info *types.Info, l *ast.ForStmt, vars map[types.Object]bool) (string, token.Pos) {
	c, ok := unparen(l.Cond).(*ast.BinaryExpr)
	if !ok {
		return "", token.NoPos
	}
	var lesser, greater ast.Expr
	switch c.Op {
	case token.LSS, token.LEQ:
		lesser, greater = c.X, c.Y
	case token.GTR, token.GEQ:
		lesser, greater = c.Y, c.X
	default:
		return "", token.NoPos
	}
	lv, gv := condVars(info, lesser), condVars(info, greater)
	why, pos := "", token.NoPos
	check := func(n ast.Node) {
		for o := range vars {
			d := updateDir(info, n, o)
			if d == 0 {
				continue
			}
			switch {
			case d == 2:
				why, pos = fmt.Sprintf("%s is assigned an arbitrary value", o.Name()), n.Pos()
			case lv[o] && !gv[o] && d < 0:
				why, pos = fmt.Sprintf("%s (on the smaller side of the comparison) is decreased", o.Name()), n.Pos()
			case gv[o] && !lv[o] && d > 0:
				why, pos = fmt.Sprintf("%s (on the greater side of the comparison) is increased", o.Name()), n.Pos()
			}
		}
	}
	ast.Inspect(l.Body, func(n ast.Node) bool {
		if n == nil {
			return true
		}
		if _, isLit := n.(*ast.FuncLit); isLit {
			return false
		}
		check(n)
		return true
	})
	if l.Post != nil {
		check(l.Post)
	}
	return why, pos
}

func blockInside(b *cfg.Block, l *ast.ForStmt) bool {
	if b.Stmt == nil {
		return false
	}
	return within(b.Stmt, l.Pos(), l.End())
}

// reachableFuncs: declared functions of the loaded roots reachable from the entry through
// statically resolved calls (interface calls resolved to every loaded implementation by name+type).
func reachableFuncs(p *Prog, entry *Fn) []*Fn {
	all := p.AllFuncs(true)
	byObj := map[*types.Func]*Fn{}
	for _, f := range all {
		if f.Obj != nil {
			byObj[f.Obj] = f
		}
	}
	seen := map[*types.Func]bool{}
	var out []*Fn
	var visit func(f *Fn)
	visit = func(f *Fn) {
		if f == nil || f.Obj == nil || seen[f.Obj] {
			return
		}
		seen[f.Obj] = true
		out = append(out, f)
		info := f.Info()
		ast.Inspect(f.Body(), func(n ast.Node) bool {
			call, ok := n.(*ast.CallExpr)
			if !ok {
				return true
			}
			callee := calleeOf(info, call)
			if callee == nil {
				return true
			}
			if t, ok := byObj[callee]; ok {
				visit(t)
				return true
			}
			// interface method: every loaded concrete method with that name whose receiver implements the interface
			if sig, ok := callee.Type().(*types.Signature); ok && sig.Recv() != nil {
				if iface, ok := sig.Recv().Type().Underlying().(*types.Interface); ok {
					for obj, t := range byObj {
						if obj.Name() != callee.Name() {
							continue
						}
						rs, ok := obj.Type().(*types.Signature)
						if !ok || rs.Recv() == nil {
							continue
						}
						rt := rs.Recv().Type()
						if types.Implements(rt, iface) || types.Implements(types.NewPointer(rt), iface) {
							visit(t)
						}
					}
				}
			}
			return true
		})
	}
	visit(entry)
	sort.Slice(out, func(i, j int) bool { return out[i].Node().Pos() < out[j].Node().Pos() })
	return out
}
