package main

import (
	"fmt"
	"go/ast"
	"go/constant"
	"go/token"
	"go/types"
	"sort"
	"strings"
)

// E9 guard predicates over the order domain.
//
// A decision expression (or a small pure function) is read as a formula over named integer
// atoms. It is compared with a specification by evaluating both on EVERY assignment of the atoms
// from a small integer domain — a truth table over a finite abstraction of an extracted
// expression (integer arithmetic on atoms, comparisons, boolean connectives, the time API
// linearised), not an execution of thanos code: no thanos function is called.

type e9Val struct {
	i      int64
	b      bool
	isBool bool
}

type E9 struct {
	p    *Prog
	fn   *Fn
	info *types.Info
	// Atom names an expression as an atom (after local-definition resolution fails). "" = unknown.
	Atom func(e ast.Expr, text string) string
	// AtomCmp optionally names a comparison / negation as a boolean atom (text without spaces).
	AtomCmp func(e ast.Expr, text string) string
	// locals resolved through their single definition
	depth int
	// bindings for inlined callee parameters / receiver
	bind map[types.Object]ast.Expr
	binfo map[types.Object]*types.Info
}

func newE9(p *Prog, fn *Fn, atom func(e ast.Expr, text string) string) *E9 {
	return &E9{p: p, fn: fn, info: fn.Info(), Atom: atom, bind: map[types.Object]ast.Expr{}, binfo: map[types.Object]*types.Info{}}
}

type e9Err struct{ msg string }

func (e e9Err) Error() string { return e.msg }

func (x *E9) failf(pos token.Pos, f string, a ...any) error {
	return e9Err{x.p.Pos(pos) + ": " + fmt.Sprintf(f, a...)}
}

func constInt(info *types.Info, e ast.Expr) (int64, bool) {
	tv, ok := info.Types[e]
	if !ok || tv.Value == nil {
		return 0, false
	}
	switch tv.Value.Kind() {
	case constant.Int:
		v, ok := constant.Int64Val(tv.Value)
		return v, ok
	case constant.Float:
		f, _ := constant.Float64Val(tv.Value)
		if f == float64(int64(f)) {
			return int64(f), true
		}
	}
	return 0, false
}

// singleDef returns the unique defining expression of local variable o in fn (nil if not unique
// or assigned in a loop/branch more than once).
func singleDef(fn *Fn, info *types.Info, o types.Object) ast.Expr {
	var def ast.Expr
	n := 0
	ast.Inspect(fn.Body(), func(x ast.Node) bool {
		switch s := x.(type) {
		case *ast.AssignStmt:
			for i, l := range s.Lhs {
				if objOf(info, l) == o {
					n++
					if len(s.Lhs) == len(s.Rhs) && (s.Tok == token.DEFINE || s.Tok == token.ASSIGN) {
						def = s.Rhs[i]
					} else {
						n += 10
					}
				}
			}
		case *ast.IncDecStmt:
			if objOf(info, s.X) == o {
				n += 10
			}
		case *ast.ValueSpec:
			for i, nm := range s.Names {
				if info.Defs[nm] == o && i < len(s.Values) {
					n++
					def = s.Values[i]
				}
			}
		}
		return true
	})
	if n == 1 {
		return def
	}
	return nil
}

func (x *E9) atomVal(e ast.Expr, env map[string]int64) (e9Val, error) {
	txt := exprString(e)
	name := x.Atom(e, txt)
	if name == "" {
		return e9Val{}, x.failf(e.Pos(), "unrecognised quantity %q", txt)
	}
	v, ok := env[name]
	if !ok {
		return e9Val{}, x.failf(e.Pos(), "atom %q not in the enumerated set", name)
	}
	if tv, ok := x.info.Types[e]; ok && isBoolType(tv.Type) {
		return e9Val{b: v != 0, isBool: true}, nil
	}
	return e9Val{i: v}, nil
}

// eval evaluates expression e under the atom assignment env.
func (x *E9) eval(e ast.Expr, env map[string]int64) (e9Val, error) {
	info := x.info
	e = unparen(e)
	// rule-named atoms take precedence over constants and structural evaluation. Compound
	// expressions (operators) are never atoms of the general table — a textual suffix match on
	// `a && x.MaxTime` must not swallow the whole expression; a rule that wants to name a
	// comparison uses AtomCmp.
	switch e.(type) {
	case *ast.BinaryExpr, *ast.UnaryExpr:
		isConnective := false
		if b, ok := e.(*ast.BinaryExpr); ok && (b.Op == token.LAND || b.Op == token.LOR) {
			isConnective = true
		}
		if x.AtomCmp != nil && !isConnective {
			if name := x.AtomCmp(e, strings.ReplaceAll(exprString(e), " ", "")); name != "" {
				v, ok := env[name]
				if !ok {
					return e9Val{}, x.failf(e.Pos(), "atom %q not in the enumerated set", name)
				}
				return e9Val{b: v != 0, isBool: true}, nil
			}
		}
	default:
		if name := x.Atom(e, exprString(e)); name != "" {
			return x.atomVal(e, env)
		}
	}
	if c, ok := constInt(info, e); ok {
		return e9Val{i: c}, nil
	}
	if isNil(info, e) {
		return e9Val{i: 0}, nil
	}
	if tv, ok := info.Types[e]; ok && tv.Value != nil && tv.Value.Kind() == constant.Bool {
		return e9Val{b: constant.BoolVal(tv.Value), isBool: true}, nil
	}
	switch v := e.(type) {
	case *ast.Ident:
		o := objOf(info, v)
		if o != nil {
			if b, ok := x.bind[o]; ok {
				saved := x.info
				x.info = x.binfo[o]
				r, err := x.eval(b, env)
				x.info = saved
				return r, err
			}
			if _, isVar := o.(*types.Var); isVar && x.depth < 8 {
				// comma-ok map lookup: `_, ok := m[k]` — ok is "k is in m"
				var okLookup ast.Expr
				nDefs := 0
				ast.Inspect(x.fn.Body(), func(n ast.Node) bool {
					if as, isAs := n.(*ast.AssignStmt); isAs && len(as.Lhs) == 2 && len(as.Rhs) == 1 && objOf(info, as.Lhs[1]) == o {
						nDefs++
						if ix, isIx := unparen(as.Rhs[0]).(*ast.IndexExpr); isIx {
							okLookup = ix
						}
					}
					return true
				})
				// first result of a multi-value call: `v, err := f(...)` — v is f(...)
				var tupleCall ast.Expr
				nTuple := 0
				ast.Inspect(x.fn.Body(), func(n ast.Node) bool {
					if as, isAs := n.(*ast.AssignStmt); isAs && len(as.Lhs) >= 2 && len(as.Rhs) == 1 && objOf(info, as.Lhs[0]) == o {
						nTuple++
						if call, isCall := unparen(as.Rhs[0]).(*ast.CallExpr); isCall {
							tupleCall = call
						}
					}
					return true
				})
				if tupleCall != nil && nTuple == 1 && singleDef(x.fn, info, o) == nil {
					x.depth++
					r, err := x.eval(tupleCall, env)
					x.depth--
					return r, err
				}
				if okLookup != nil && nDefs == 1 {
					v, err := x.atomVal(okLookup, env)
					if err != nil {
						return v, err
					}
					return e9Val{b: v.b || v.i != 0, isBool: true}, nil
				}
				if d := singleDef(x.fn, info, o); d != nil {
					x.depth++
					r, err := x.eval(d, env)
					x.depth--
					return r, err
				}
			}
		}
		return x.atomVal(e, env)
	case *ast.UnaryExpr:
		a, err := x.eval(v.X, env)
		if err != nil {
			return a, err
		}
		switch v.Op {
		case token.NOT:
			return e9Val{b: !a.b, isBool: true}, nil
		case token.SUB:
			return e9Val{i: -a.i}, nil
		case token.ADD:
			return a, nil
		}
	case *ast.BinaryExpr:
		if v.Op == token.LAND || v.Op == token.LOR {
			a, err := x.eval(v.X, env)
			if err != nil {
				return a, err
			}
			if v.Op == token.LAND && !a.b {
				return e9Val{b: false, isBool: true}, nil
			}
			if v.Op == token.LOR && a.b {
				return e9Val{b: true, isBool: true}, nil
			}
			return x.eval(v.Y, env)
		}
		a, err := x.eval(v.X, env)
		if err != nil {
			return a, err
		}
		b, err := x.eval(v.Y, env)
		if err != nil {
			return b, err
		}
		if a.isBool && b.isBool {
			switch v.Op {
			case token.EQL:
				return e9Val{b: a.b == b.b, isBool: true}, nil
			case token.NEQ:
				return e9Val{b: a.b != b.b, isBool: true}, nil
			}
		}
		switch v.Op {
		case token.ADD:
			return e9Val{i: a.i + b.i}, nil
		case token.SUB:
			return e9Val{i: a.i - b.i}, nil
		case token.MUL:
			return e9Val{i: a.i * b.i}, nil
		case token.QUO:
			if b.i == 0 {
				return e9Val{}, x.failf(e.Pos(), "division by zero in %s", exprString(e))
			}
			return e9Val{i: a.i / b.i}, nil
		case token.REM:
			if b.i == 0 {
				return e9Val{}, x.failf(e.Pos(), "modulo zero in %s", exprString(e))
			}
			return e9Val{i: a.i % b.i}, nil
		case token.LSS:
			return e9Val{b: a.i < b.i, isBool: true}, nil
		case token.LEQ:
			return e9Val{b: a.i <= b.i, isBool: true}, nil
		case token.GTR:
			return e9Val{b: a.i > b.i, isBool: true}, nil
		case token.GEQ:
			return e9Val{b: a.i >= b.i, isBool: true}, nil
		case token.EQL:
			return e9Val{b: a.i == b.i, isBool: true}, nil
		case token.NEQ:
			return e9Val{b: a.i != b.i, isBool: true}, nil
		}
	case *ast.CallExpr:
		return x.evalCall(v, env)
	case *ast.SelectorExpr, *ast.IndexExpr:
		return x.atomVal(e, env)
	}
	return e9Val{}, x.failf(e.Pos(), "unsupported expression %s", exprString(e))
}

func (x *E9) evalCall(call *ast.CallExpr, env map[string]int64) (e9Val, error) {
	info := x.info
	// conversions
	if tv, ok := info.Types[call.Fun]; ok && tv.IsType() && len(call.Args) == 1 {
		return x.eval(call.Args[0], env)
	}
	if id, ok := call.Fun.(*ast.Ident); ok {
		if _, isB := info.Uses[id].(*types.Builtin); isB {
			switch id.Name {
			case "len", "cap":
				return x.atomVal(call, env)
			case "min", "max":
				var best e9Val
				for i, a := range call.Args {
					v, err := x.eval(a, env)
					if err != nil {
						return v, err
					}
					if i == 0 || (id.Name == "min" && v.i < best.i) || (id.Name == "max" && v.i > best.i) {
						best = v
					}
				}
				return best, nil
			}
		}
	}
	f := calleeOf(info, call)
	full := funcFullName(f)
	recvOf := func() ast.Expr {
		if sel, ok := unparen(call.Fun).(*ast.SelectorExpr); ok {
			return sel.X
		}
		return nil
	}
	bin := func(op token.Token, a, b ast.Expr) (e9Val, error) {
		return x.eval(&ast.BinaryExpr{X: a, Op: op, Y: b, OpPos: call.Pos()}, env)
	}
	switch full {
	case "(time.Time).After":
		return bin(token.GTR, recvOf(), call.Args[0])
	case "(time.Time).Before":
		return bin(token.LSS, recvOf(), call.Args[0])
	case "(time.Time).Equal":
		return bin(token.EQL, recvOf(), call.Args[0])
	case "(time.Time).Add":
		return bin(token.ADD, recvOf(), call.Args[0])
	case "(time.Time).Sub":
		return bin(token.SUB, recvOf(), call.Args[0])
	case "time.Since":
		now, ok := env["now"]
		if !ok {
			return e9Val{}, x.failf(call.Pos(), "time.Since needs atom now")
		}
		v, err := x.eval(call.Args[0], env)
		return e9Val{i: now - v.i}, err
	case "time.Until":
		now, ok := env["now"]
		if !ok {
			return e9Val{}, x.failf(call.Pos(), "time.Until needs atom now")
		}
		v, err := x.eval(call.Args[0], env)
		return e9Val{i: v.i - now}, err
	case "time.Now":
		now, ok := env["now"]
		if !ok {
			return e9Val{}, x.failf(call.Pos(), "time.Now needs atom now")
		}
		return e9Val{i: now}, nil
	case "time.UnixMilli", "github.com/prometheus/prometheus/model/timestamp.Time":
		return x.eval(call.Args[0], env) // lossless: abstract time unit is the millisecond
	case "time.Unix":
		// time.Unix(sec, nsec) in milliseconds: sec*1000 + nsec/1e6
		s, err := x.eval(call.Args[0], env)
		if err != nil {
			return s, err
		}
		ns, err := x.eval(call.Args[1], env)
		if err != nil {
			return ns, err
		}
		return e9Val{i: s.i*1000 + ns.i/1000000}, nil
	case "(time.Time).UnixMilli", "(time.Time).UnixNano", "github.com/prometheus/prometheus/model/timestamp.FromTime":
		return x.eval(recvOrArg(call), env)
	case "(time.Time).Unix":
		v, err := x.eval(recvOf(), env)
		return e9Val{i: v.i / 1000}, err
	case "(time.Duration).Seconds", "(time.Duration).Milliseconds", "(time.Duration).Nanoseconds":
		// only used in `== 0` / sign tests here: monotone, zero-preserving
		return x.eval(recvOf(), env)
	case "(time.Time).IsZero":
		v, err := x.eval(recvOf(), env)
		return e9Val{b: v.i == 0, isBool: true}, err
	case "math.Ceil", "math.Floor":
		return x.eval(call.Args[0], env)
	}
	// package-local pure helper: inline a single-return function body `return <expr>` / if-return chains
	if f != nil && f.Pkg() != nil && x.depth < 6 {
		if target := x.p.findFuncDecl(f); target != nil {
			return x.inline(target, call, env)
		}
	}
	// opaque call: atom
	return x.atomVal(call, env)
}

func recvOrArg(call *ast.CallExpr) ast.Expr {
	if len(call.Args) == 1 {
		return call.Args[0]
	}
	if sel, ok := unparen(call.Fun).(*ast.SelectorExpr); ok {
		return sel.X
	}
	return call
}

// findFuncDecl finds the declaration of f among the loaded root packages.
func (p *Prog) findFuncDecl(f *types.Func) *Fn {
	for _, pk := range p.Roots {
		if pk.Types != f.Pkg() {
			continue
		}
		for _, file := range pk.Syntax {
			for _, d := range file.Decls {
				if fd, ok := d.(*ast.FuncDecl); ok && fd.Body != nil && pk.TypesInfo.Defs[fd.Name] == f {
					return &Fn{Pkg: pk, Decl: fd, Obj: f, Name: fnDisplayName(fd)}
				}
			}
		}
	}
	return nil
}

// inline evaluates a call to a small pure function: a sequence of `if cond { return e }`
// statements followed by `return e` (no loops, no other statements except simple definitions).
func (x *E9) inline(target *Fn, call *ast.CallExpr, env map[string]int64) (e9Val, error) {
	tinfo := target.Info()
	type sv struct {
		o types.Object
		e ast.Expr
		i *types.Info
		h bool
	}
	var saved []sv
	bindTo := func(o types.Object, e ast.Expr) {
		old, had := x.bind[o]
		saved = append(saved, sv{o, old, x.binfo[o], had})
		x.bind[o] = e
		x.binfo[o] = x.info
	}
	if target.Decl.Recv != nil && len(target.Decl.Recv.List[0].Names) == 1 {
		if sel, ok := unparen(call.Fun).(*ast.SelectorExpr); ok {
			bindTo(tinfo.Defs[target.Decl.Recv.List[0].Names[0]], sel.X)
		}
	}
	i := 0
	for _, fld := range target.Decl.Type.Params.List {
		for _, nm := range fld.Names {
			if i < len(call.Args) {
				bindTo(tinfo.Defs[nm], call.Args[i])
			}
			i++
		}
	}
	savedInfo, savedFn := x.info, x.fn
	x.info, x.fn = tinfo, target
	x.depth++
	res, err := x.evalBody(target.Decl.Body.List, env)
	x.depth--
	x.info, x.fn = savedInfo, savedFn
	for j := len(saved) - 1; j >= 0; j-- {
		if saved[j].h {
			x.bind[saved[j].o] = saved[j].e
			x.binfo[saved[j].o] = saved[j].i
		} else {
			delete(x.bind, saved[j].o)
			delete(x.binfo, saved[j].o)
		}
	}
	return res, err
}

// evalBody: statements of a pure decision function.
func (x *E9) evalBody(list []ast.Stmt, env map[string]int64) (e9Val, error) {
	for _, st := range list {
		switch s := st.(type) {
		case *ast.ReturnStmt:
			if len(s.Results) == 0 {
				return e9Val{}, x.failf(s.Pos(), "bare return")
			}
			return x.eval(s.Results[0], env)
		case *ast.IfStmt:
			if s.Init != nil {
				if _, ok := s.Init.(*ast.AssignStmt); !ok {
					return e9Val{}, x.failf(s.Pos(), "unsupported if-init")
				}
			}
			c, err := x.eval(s.Cond, env)
			if err != nil {
				return c, err
			}
			if c.b {
				r, err := x.evalBody(s.Body.List, env)
				if err != nil || !r.isNone() {
					return r, err
				}
			} else if s.Else != nil {
				var els []ast.Stmt
				switch e := s.Else.(type) {
				case *ast.BlockStmt:
					els = e.List
				default:
					els = []ast.Stmt{e}
				}
				r, err := x.evalBody(els, env)
				if err != nil || !r.isNone() {
					return r, err
				}
			}
		case *ast.AssignStmt, *ast.DeclStmt, *ast.ExprStmt, *ast.EmptyStmt:
			// definitions are resolved lazily through singleDef; calls for side effects (logging) ignored
		case *ast.BlockStmt:
			r, err := x.evalBody(s.List, env)
			if err != nil || !r.isNone() {
				return r, err
			}
		case *ast.BranchStmt:
			if s.Tok == token.CONTINUE && s.Label == nil {
				return e9Cont, nil // a loop body evaluated for one iteration: this iteration ends without a result
			}
			return e9Val{}, x.failf(st.Pos(), "unsupported branch statement %s in decision function", s.Tok)
		default:
			return e9Val{}, x.failf(st.Pos(), "unsupported statement %T in decision function", st)
		}
	}
	return e9None, nil
}

var e9None = e9Val{i: -1 << 62}

// e9Cont: the evaluated loop body ended its iteration with `continue`.
var e9Cont = e9Val{i: -1 << 61}

func (v e9Val) isNone() bool { return v == e9None }

// e9Table enumerates all assignments of atoms over domain and compares got with want.
// Returns the number of assignments and the first counterexample.
func e9Table(atoms []string, domain []int64, pre func(env map[string]int64) bool,
	got func(env map[string]int64) (int64, error), want func(env map[string]int64) int64) (int, string, error) {
	env := map[string]int64{}
	n := 0
	var rec func(i int) (string, error)
	rec = func(i int) (string, error) {
		if i == len(atoms) {
			if pre != nil && !pre(env) {
				return "", nil
			}
			n++
			g, err := got(env)
			if err != nil {
				return "", err
			}
			if w := want(env); g != w {
				var ks []string
				for _, a := range atoms {
					ks = append(ks, fmt.Sprintf("%s=%d", a, env[a]))
				}
				sort.Strings(ks)
				return fmt.Sprintf("code=%d spec=%d at {%s}", g, w, strings.Join(ks, " ")), nil
			}
			return "", nil
		}
		for _, d := range domain {
			env[atoms[i]] = d
			if cx, err := rec(i + 1); cx != "" || err != nil {
				return cx, err
			}
		}
		return "", nil
	}
	cx, err := rec(0)
	return n, cx, err
}

func b2i(b bool) int64 {
	if b {
		return 1
	}
	return 0
}

func intRange(lo, hi int64) []int64 {
	var out []int64
	for i := lo; i <= hi; i++ {
		out = append(out, i)
	}
	return out
}
