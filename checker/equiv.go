package main

// Operator-level behaviour-preserving rewrites, applied to every file of the packages a property
// loads (diagnostic, `tvc equiv [Cxx…]`): "incdec" turns x++ / x-- into x += 1 / x -= 1; "cmpflip"
// mirrors every comparison whose operands have no side effects (a < b → b > a, a == b → b == a).
// Like `tvc alpha`, a verdict that changes is a rule keyed on spelling rather than meaning.

import (
	"fmt"
	"go/ast"
	"go/token"
	"os"
	"sort"
	"strings"
)

func pureExpr(e ast.Expr) bool {
	pure := true
	ast.Inspect(e, func(n ast.Node) bool {
		switch v := n.(type) {
		case *ast.CallExpr:
			if id, ok := v.Fun.(*ast.Ident); ok && (id.Name == "len" || id.Name == "cap" || id.Name == "int" || id.Name == "int64" || id.Name == "uint64" || id.Name == "float64" || id.Name == "string") {
				return true
			}
			pure = false
		case *ast.UnaryExpr:
			if v.Op == token.ARROW {
				pure = false
			}
		case *ast.FuncLit:
			pure = false
		}
		return pure
	})
	return pure
}

func equivOverlay(progs map[string]*Prog, mode string) (map[string][]byte, int, error) {
	overlay := map[string][]byte{}
	total := 0
	keys := make([]string, 0, len(progs))
	for k := range progs {
		keys = append(keys, k)
	}
	sort.Strings(keys)
	flip := map[token.Token]string{token.LSS: ">", token.GTR: "<", token.LEQ: ">=", token.GEQ: "<=", token.EQL: "==", token.NEQ: "!="}
	for _, k := range keys {
		p := progs[k]
		if p == nil {
			continue
		}
		for _, pk := range p.Roots {
			for _, f := range pk.Syntax {
				tf := p.Fset.File(f.Pos())
				if tf == nil {
					continue
				}
				name := tf.Name()
				if !strings.HasPrefix(name, repoDir+"/") || isGenerated(name) {
					continue
				}
				if _, done := overlay[name]; done {
					continue
				}
				src, err := os.ReadFile(name)
				if err != nil {
					return nil, 0, err
				}
				if len(src) != tf.Size() {
					return nil, 0, fmt.Errorf("%s changed while loading", name)
				}
				var edits []alphaEdit
				lastEnd := -1
				ast.Inspect(f, func(n ast.Node) bool {
					switch v := n.(type) {
					case *ast.IncDecStmt:
						if mode == "incdec" {
							op := " += 1"
							if v.Tok == token.DEC {
								op = " -= 1"
							}
							edits = append(edits, alphaEdit{tf.Offset(v.X.End()), tf.Offset(v.End()), op})
						}
					case *ast.BinaryExpr:
						if mode != "cmpflip" {
							return true
						}
						nop, ok := flip[v.Op]
						if !ok || !pureExpr(v.X) || !pureExpr(v.Y) {
							return true
						}
						off, end := tf.Offset(v.Pos()), tf.Offset(v.End())
						if off < lastEnd {
							return true // inside an already mirrored comparison
						}
						x := string(src[tf.Offset(v.X.Pos()):tf.Offset(v.X.End())])
						y := string(src[tf.Offset(v.Y.Pos()):tf.Offset(v.Y.End())])
						edits = append(edits, alphaEdit{off, end, y + " " + nop + " " + x})
						lastEnd = end
						return false
					}
					return true
				})
				if len(edits) == 0 {
					continue
				}
				sort.Slice(edits, func(i, j int) bool { return edits[i].off < edits[j].off })
				var b strings.Builder
				last := 0
				for _, e := range edits {
					if e.off < last {
						continue
					}
					b.Write(src[last:e.off])
					b.WriteString(e.name)
					last = e.end
				}
				b.Write(src[last:])
				overlay[name] = []byte(b.String())
				total += len(edits)
			}
		}
	}
	return overlay, total, nil
}

func runEquiv(p *Property, tags string, modes ...string) []mutantResult {
	c := runRules(p, "quick", tags, nil)
	base := map[string]string{}
	for _, o := range c.Obls {
		base[o.Key+"|"+o.Descriptor] = o.Status
	}
	var out []mutantResult
	for _, mode := range modes {
		id := "equiv-" + mode
		overlay, n, err := equivOverlay(c.progs, mode)
		if err != nil {
			out = append(out, mutantResult{ID: id, Verdict: "BROKEN", Detail: err.Error()})
			continue
		}
		c2 := runRules(p, "quick", tags, overlay)
		res := mutantResult{ID: id, Verdict: "QUIET", Detail: fmt.Sprintf("%d rewrites in %d files", n, len(overlay))}
		var alarms []string
		for _, o := range c2.Obls {
			if o.Rule == "load" && o.Status == StIncomplete {
				res = mutantResult{ID: id, Verdict: "BROKEN", Detail: "rewritten tree does not compile: " + o.Reason}
				alarms = nil
				break
			}
			if o.Status != StViolation && o.Status != StIncomplete {
				continue
			}
			if st, was := base[o.Key+"|"+o.Descriptor]; was && (st == StViolation || st == StIncomplete) {
				continue
			}
			r := o.Reason
			if len(r) > 160 {
				r = r[:160] + "…"
			}
			alarms = append(alarms, o.Key+": "+r)
		}
		if len(alarms) > 0 {
			res = mutantResult{ID: id, Verdict: "ALARM", Detail: fmt.Sprintf("%d new: ", len(alarms)) + strings.Join(alarms, "\n      ")}
		}
		out = append(out, res)
	}
	return out
}
