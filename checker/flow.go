package main

import (
	"go/ast"
	"go/token"
	"go/types"

	"golang.org/x/tools/go/cfg"
	"golang.org/x/tools/go/types/typeutil"
)

// ---------- CFG construction ----------

func mayReturnFor(info *types.Info) func(*ast.CallExpr) bool {
	return func(call *ast.CallExpr) bool {
		switch f := typeutil.Callee(info, call).(type) {
		case *types.Builtin:
			return f.Name() != "panic"
		case *types.Func:
			if f.Pkg() == nil {
				return true
			}
			switch f.Pkg().Path() + "." + f.Name() {
			case "os.Exit", "log.Fatal", "log.Fatalf", "log.Fatalln", "log.Panic", "log.Panicf", "log.Panicln", "runtime.Goexit":
				return false
			}
		}
		return true
	}
}

func buildCFG(fn *Fn) *cfg.CFG { return cfg.New(fn.Body(), mayReturnFor(fn.Info())) }

// condOf returns the branching condition of a two-successor block: the boolean expression
// whose true edge is Succs[0]. For tagged switches a synthetic `tag == value` is returned.
// nil for range loops / select / type switches.
func condOf(p *Prog, fn *Fn, b *cfg.Block) ast.Expr {
	if len(b.Succs) != 2 || len(b.Nodes) == 0 {
		return nil
	}
	e, ok := b.Nodes[len(b.Nodes)-1].(ast.Expr)
	if !ok {
		return nil
	}
	if b.Kind == cfg.KindRangeLoop {
		return nil
	}
	// case clause of a switch?
	if par := p.ParentOf(fn.Pkg, e); par != nil {
		if cc, ok := par.(*ast.CaseClause); ok {
			isCase := false
			for _, x := range cc.List {
				if x == e {
					isCase = true
				}
			}
			if isCase {
				sw, _ := p.ParentOf(fn.Pkg, p.ParentOf(fn.Pkg, cc)).(*ast.SwitchStmt)
				if sw == nil {
					return nil // type switch
				}
				if sw.Tag != nil {
					return &ast.BinaryExpr{X: sw.Tag, Op: token.EQL, Y: e, OpPos: e.Pos()}
				}
				return e
			}
		}
	}
	if tv, ok := fn.Info().Types[e]; ok {
		if b, ok := tv.Type.Underlying().(*types.Basic); ok && b.Info()&types.IsBoolean != 0 {
			return e
		}
	}
	return nil
}

// refine decomposes a condition known to evaluate to `truth` into atomic facts.
func refine(cond ast.Expr, truth bool, f func(atom ast.Expr, truth bool)) {
	switch e := cond.(type) {
	case *ast.ParenExpr:
		refine(e.X, truth, f)
		return
	case *ast.UnaryExpr:
		if e.Op == token.NOT {
			refine(e.X, !truth, f)
			return
		}
	case *ast.BinaryExpr:
		if e.Op == token.LAND {
			if truth {
				refine(e.X, true, f)
				refine(e.Y, true, f)
			}
			return
		}
		if e.Op == token.LOR {
			if !truth {
				refine(e.X, false, f)
				refine(e.Y, false, f)
			}
			return
		}
	}
	f(cond, truth)
}

// ---------- generic forward dataflow ----------

type FlowSpec[S any] struct {
	Entry    S
	Transfer func(n ast.Node, s S) S
	Branch   func(cond ast.Expr, truth bool, s S) S // may be nil
	// BlockEntry, if set, is applied to the state when a block is entered (before its nodes).
	BlockEntry func(b *cfg.Block, s S) S
	Join       func(a, b S) S
	Equal    func(a, b S) bool
}

type Exit[S any] struct {
	Ret   *ast.ReturnStmt // nil for falling off the end
	Panic bool
	Block *cfg.Block
	State S // state before the return statement's own transfer
	Pos   token.Pos
}

type FlowResult[S any] struct {
	G     *cfg.CFG
	In    map[*cfg.Block]S
	Seen  map[*cfg.Block]bool
	spec  FlowSpec[S]
	p     *Prog
	fn    *Fn
	Iters int
}

func runFlow[S any](p *Prog, fn *Fn, spec FlowSpec[S]) *FlowResult[S] {
	g := buildCFG(fn)
	r := &FlowResult[S]{G: g, In: map[*cfg.Block]S{}, Seen: map[*cfg.Block]bool{}, spec: spec, p: p, fn: fn}
	if len(g.Blocks) == 0 {
		return r
	}
	entry := g.Blocks[0]
	r.In[entry] = spec.Entry
	r.Seen[entry] = true
	work := []*cfg.Block{entry}
	inq := map[*cfg.Block]bool{entry: true}
	for len(work) > 0 {
		b := work[0]
		work = work[1:]
		inq[b] = false
		r.Iters++
		if r.Iters > 200000 {
			panic("dataflow did not converge in " + fn.Name)
		}
		s := r.In[b]
		if spec.BlockEntry != nil {
			s = spec.BlockEntry(b, s)
		}
		for _, n := range b.Nodes {
			s = spec.Transfer(n, s)
		}
		cond := condOf(p, fn, b)
		for i, succ := range b.Succs {
			out := s
			if cond != nil && spec.Branch != nil {
				out = spec.Branch(cond, i == 0, s)
			}
			if !r.Seen[succ] {
				r.Seen[succ] = true
				r.In[succ] = out
			} else {
				j := spec.Join(r.In[succ], out)
				if spec.Equal(j, r.In[succ]) {
					continue
				}
				r.In[succ] = j
			}
			if !inq[succ] {
				inq[succ] = true
				work = append(work, succ)
			}
		}
	}
	return r
}

// Before returns the state just before top-level CFG node n (or the node containing n).
func (r *FlowResult[S]) Before(n ast.Node) (S, bool) {
	for _, b := range r.G.Blocks {
		if !r.Seen[b] {
			continue
		}
		s := r.blockIn(b)
		for _, x := range b.Nodes {
			if x.Pos() <= n.Pos() && n.End() <= x.End() {
				return s, true
			}
			s = r.spec.Transfer(x, s)
		}
	}
	var zero S
	return zero, false
}

func (r *FlowResult[S]) blockIn(b *cfg.Block) S {
	s := r.In[b]
	if r.spec.BlockEntry != nil {
		s = r.spec.BlockEntry(b, s)
	}
	return s
}

// BlockOut returns the state at the end of block b.
func (r *FlowResult[S]) BlockOut(b *cfg.Block) S {
	s := r.blockIn(b)
	for _, x := range b.Nodes {
		s = r.spec.Transfer(x, s)
	}
	return s
}

// After returns the state just after the top-level CFG node containing n.
func (r *FlowResult[S]) After(n ast.Node) (S, bool) {
	for _, b := range r.G.Blocks {
		if !r.Seen[b] {
			continue
		}
		s := r.blockIn(b)
		for _, x := range b.Nodes {
			s2 := r.spec.Transfer(x, s)
			if x.Pos() <= n.Pos() && n.End() <= x.End() {
				return s2, true
			}
			s = s2
		}
	}
	var zero S
	return zero, false
}

// Exits lists every reachable function exit with the state reaching it.
func (r *FlowResult[S]) Exits() []Exit[S] {
	var out []Exit[S]
	mr := mayReturnFor(r.fn.Info())
	for _, b := range r.G.Blocks {
		if !r.Seen[b] || len(b.Succs) != 0 {
			continue
		}
		if b.Kind == cfg.KindUnreachable && len(b.Nodes) == 0 {
			continue
		}
		s := r.blockIn(b)
		var last ast.Node
		for i, x := range b.Nodes {
			last = x
			if i < len(b.Nodes)-1 {
				s = r.spec.Transfer(x, s)
			}
		}
		switch l := last.(type) {
		case *ast.ReturnStmt:
			out = append(out, Exit[S]{Ret: l, Block: b, State: s, Pos: l.Pos()})
			continue
		case *ast.ExprStmt:
			if call, ok := l.X.(*ast.CallExpr); ok && !mr(call) {
				out = append(out, Exit[S]{Panic: true, Block: b, State: s, Pos: l.Pos()})
				continue
			}
		}
		if last != nil {
			s = r.spec.Transfer(last, s)
		}
		// falling off the end (only a real exit if the function body can end here)
		if isSelectForever(last) {
			continue
		}
		out = append(out, Exit[S]{Block: b, State: s, Pos: r.fn.Body().Rbrace})
	}
	return out
}

func isSelectForever(n ast.Node) bool {
	_, ok := n.(*ast.SelectStmt)
	return ok
}

// ---------- AST helpers ----------

// inspectNoLit walks n without descending into function literals.
func inspectNoLit(n ast.Node, f func(ast.Node) bool) {
	ast.Inspect(n, func(x ast.Node) bool {
		if x == nil {
			return true
		}
		if _, ok := x.(*ast.FuncLit); ok && x != n {
			return false
		}
		return f(x)
	})
}

// callsIn lists call expressions in n in source order (not inside literals).
func callsIn(n ast.Node) []*ast.CallExpr {
	var out []*ast.CallExpr
	inspectNoLit(n, func(x ast.Node) bool {
		if c, ok := x.(*ast.CallExpr); ok {
			out = append(out, c)
		}
		return true
	})
	return out
}

func unparen(e ast.Expr) ast.Expr {
	for {
		p, ok := e.(*ast.ParenExpr)
		if !ok {
			return e
		}
		e = p.X
	}
}

// calleeOf resolves the static callee (function or method, also through interfaces).
func calleeOf(info *types.Info, call *ast.CallExpr) *types.Func {
	f, _ := typeutil.Callee(info, call).(*types.Func)
	return f
}

// funcFullName: "pkgpath.Name" or "(pkgpath.T).Name" with pointer receivers normalised.
func funcFullName(f *types.Func) string {
	if f == nil {
		return ""
	}
	sig, _ := f.Type().(*types.Signature)
	if sig != nil && sig.Recv() != nil {
		t := sig.Recv().Type()
		if p, ok := t.(*types.Pointer); ok {
			t = p.Elem()
		}
		if n, ok := t.(*types.Named); ok {
			pk := ""
			if n.Obj().Pkg() != nil {
				pk = n.Obj().Pkg().Path() + "."
			}
			return "(" + pk + n.Obj().Name() + ")." + f.Name()
		}
		if a, ok := t.(*types.Alias); ok {
			return "(" + a.Obj().Name() + ")." + f.Name()
		}
		return "(?)." + f.Name()
	}
	if f.Pkg() == nil {
		return f.Name()
	}
	return f.Pkg().Path() + "." + f.Name()
}

// isCallTo reports whether call resolves to one of the full names (thanos-relative allowed:
// "pkg/block.Upload" is expanded with the module path).
func isCallTo(info *types.Info, call *ast.CallExpr, names ...string) bool {
	fn := funcFullName(calleeOf(info, call))
	if fn == "" {
		return false
	}
	for _, n := range names {
		if fn == n || fn == expandName(n) {
			return true
		}
	}
	return false
}

func expandName(n string) string {
	if len(n) > 1 && n[0] == '(' {
		if hasThanosPrefix(n[1:]) {
			return "(" + thanosMod + "/" + n[1:]
		}
		return n
	}
	if hasThanosPrefix(n) {
		return thanosMod + "/" + n
	}
	return n
}

func hasThanosPrefix(s string) bool {
	for _, p := range []string{"pkg/", "cmd/", "internal/"} {
		if len(s) >= len(p) && s[:len(p)] == p {
			return true
		}
	}
	return false
}

// objOf returns the object an identifier or selector expression denotes (var, field, func).
func objOf(info *types.Info, e ast.Expr) types.Object {
	switch x := unparen(e).(type) {
	case *ast.Ident:
		if o := info.Uses[x]; o != nil {
			return o
		}
		return info.Defs[x]
	case *ast.SelectorExpr:
		if s := info.Selections[x]; s != nil {
			return s.Obj()
		}
		return info.Uses[x.Sel]
	}
	return nil
}

func isNil(info *types.Info, e ast.Expr) bool {
	id, ok := unparen(e).(*ast.Ident)
	if !ok {
		return false
	}
	_, isNil := info.Uses[id].(*types.Nil)
	return isNil
}

// nilTest recognises `x != nil` / `x == nil` and returns x and whether truth of the
// expression means "x is non-nil".
func nilTest(info *types.Info, e ast.Expr) (x ast.Expr, nonNilWhenTrue bool, ok bool) {
	b, isBin := unparen(e).(*ast.BinaryExpr)
	if !isBin || (b.Op != token.NEQ && b.Op != token.EQL) {
		return nil, false, false
	}
	switch {
	case isNil(info, b.Y):
		return b.X, b.Op == token.NEQ, true
	case isNil(info, b.X):
		return b.Y, b.Op == token.NEQ, true
	}
	return nil, false, false
}

// assignedObjs lists objects assigned (= or :=, also ++/--, range key/value) by node n (not in literals).
func assignedObjs(info *types.Info, n ast.Node) []types.Object {
	var out []types.Object
	add := func(e ast.Expr) {
		if o := objOf(info, e); o != nil {
			out = append(out, o)
		}
	}
	inspectNoLit(n, func(x ast.Node) bool {
		switch s := x.(type) {
		case *ast.AssignStmt:
			for _, l := range s.Lhs {
				add(l)
			}
		case *ast.IncDecStmt:
			add(s.X)
		case *ast.RangeStmt:
			if s.Key != nil {
				add(s.Key)
			}
			if s.Value != nil {
				add(s.Value)
			}
			return false
		case *ast.ValueSpec:
			for _, id := range s.Names {
				add(id)
			}
		}
		return true
	})
	return out
}

func exprString(e ast.Expr) string { return types.ExprString(e) }

// sameObjExpr reports whether two expressions denote the same variable/field path
// (structural, resolving identifiers to objects).
func sameObjExpr(info *types.Info, a, b ast.Expr) bool {
	a, b = unparen(a), unparen(b)
	switch x := a.(type) {
	case *ast.Ident:
		y, ok := b.(*ast.Ident)
		return ok && objOf(info, x) != nil && objOf(info, x) == objOf(info, y)
	case *ast.SelectorExpr:
		y, ok := b.(*ast.SelectorExpr)
		return ok && x.Sel.Name == y.Sel.Name && objOf(info, x) == objOf(info, y) && sameObjExpr(info, x.X, y.X)
	case *ast.StarExpr:
		y, ok := b.(*ast.StarExpr)
		return ok && sameObjExpr(info, x.X, y.X)
	case *ast.IndexExpr:
		y, ok := b.(*ast.IndexExpr)
		return ok && sameObjExpr(info, x.X, y.X) && sameObjExpr(info, x.Index, y.Index)
	case *ast.BasicLit:
		y, ok := b.(*ast.BasicLit)
		return ok && x.Value == y.Value
	case *ast.CallExpr:
		y, ok := b.(*ast.CallExpr)
		if !ok || len(x.Args) != len(y.Args) || !sameObjExpr(info, x.Fun, y.Fun) {
			return false
		}
		for i := range x.Args {
			if !sameObjExpr(info, x.Args[i], y.Args[i]) {
				return false
			}
		}
		return true
	}
	return false
}
