package main

// Frame-buffer typestate (part of E3): a slice that collects items, is handed to Send inside a response,
// and is then re-used for the next frame.
//
//	clean  no unsent items, buffer owned
//	dirty  unsent items appended, buffer owned
//	sent   the buffer was handed to Send: the receiver may still hold it (resortingServer keeps every
//	       frame until Flush), so it is no longer ours to write
//
// append:        clean→dirty, dirty→dirty, sent→REUSE
// Send(…buf…):   any→sent
// buf = fresh:   sent→clean, clean→clean, dirty→LOSS
// buf = buf[:k]: sent→sent, clean→clean, dirty→LOSS
// foreign Send (a response that does not carry buf) while dirty → ORDER (pending items overtaken)
// success exit while dirty (when the function must flush) → LOSS
//
// One boolean loop flag (`for isNext { … }`) and len(buf) tests are tracked so that the infeasible
// paths of the usual "send when full or when the iterator is exhausted" loop are not reported.

import (
	"fmt"
	"go/ast"
	"go/token"
	"go/types"

	"golang.org/x/tools/go/cfg"
)

type fbState uint16 // bit (buf*3+flag): buf 0 clean,1 dirty,2 sent ; flag 0 false,1 true,2 unknown

func fbBit(buf, flag int) fbState { return 1 << uint(buf*3+flag) }

func (s fbState) mapPairs(f func(buf, flag int) (int, int, bool)) fbState {
	var o fbState
	for b := 0; b < 3; b++ {
		for fl := 0; fl < 3; fl++ {
			if s&fbBit(b, fl) != 0 {
				if nb, nf, keep := f(b, fl); keep {
					o |= fbBit(nb, nf)
				}
			}
		}
	}
	return o
}

func (s fbState) hasBuf(buf int) bool {
	for fl := 0; fl < 3; fl++ {
		if s&fbBit(buf, fl) != 0 {
			return true
		}
	}
	return false
}

type fbConfig struct {
	EntryDirty  bool // the buffer lives across calls (a field): entry state is clean or dirty
	ExitFlushed bool // a success exit must not leave unsent items
	EntrySent   bool // some method can return with the buffer still shared with a receiver
}

type fbFinding struct {
	kind string // "reuse", "loss", "order"
	pos  token.Pos
	msg  string
}

type fbResult struct {
	buf      string
	flag     string
	appends  int
	sends    int
	findings []fbFinding
	unknown  []string
	exitSent bool // a success exit leaves the buffer in the sent state
}

// frameBuffers finds the slice expressions (identifier or field path) that are both appended to and
// carried by a Send call in fn.
func frameBuffers(fn *Fn) []string {
	info := fn.Info()
	appended := map[string]bool{}
	ast.Inspect(fn.Body(), func(n ast.Node) bool {
		as, ok := n.(*ast.AssignStmt)
		if !ok || len(as.Lhs) != 1 || len(as.Rhs) != 1 {
			return true
		}
		if c, ok := unparen(as.Rhs[0]).(*ast.CallExpr); ok {
			if id, ok := c.Fun.(*ast.Ident); ok && id.Name == "append" && len(c.Args) >= 1 {
				if _, isB := info.Uses[id].(*types.Builtin); isB && canon(c.Args[0]) == canon(as.Lhs[0]) {
					appended[canon(as.Lhs[0])] = true
				}
			}
		}
		return true
	})
	var out []string
	for k := range appended {
		carried := false
		ast.Inspect(fn.Body(), func(n ast.Node) bool {
			if c, ok := n.(*ast.CallExpr); ok && isSendCall(c) && mentionsExpr(c, k) {
				carried = true
			}
			return true
		})
		if carried {
			out = append(out, k)
		}
	}
	sortStrings(out)
	return out
}

func isSendCall(c *ast.CallExpr) bool {
	sel, ok := unparen(c.Fun).(*ast.SelectorExpr)
	return ok && sel.Sel.Name == "Send"
}

// mentionsExpr: some sub-expression of n prints as key.
func mentionsExpr(n ast.Node, key string) bool {
	found := false
	ast.Inspect(n, func(x ast.Node) bool {
		if e, ok := x.(ast.Expr); ok {
			switch e.(type) {
			case *ast.Ident, *ast.SelectorExpr:
				if canon(e) == key {
					found = true
				}
			}
		}
		return !found
	})
	return found
}

func checkFrameBuffer(p *Prog, fn *Fn, buf string, cfgc fbConfig) *fbResult {
	info := fn.Info()
	res := &fbResult{buf: buf}
	// the loop flag: condition identifier of a `for flag {` loop that contains an append to buf
	ast.Inspect(fn.Body(), func(n ast.Node) bool {
		if f, ok := n.(*ast.ForStmt); ok && f.Cond != nil && f.Init == nil && f.Post == nil {
			if id, ok := unparen(f.Cond).(*ast.Ident); ok {
				if b, ok := info.TypeOf(id).Underlying().(*types.Basic); ok && b.Info()&types.IsBoolean != 0 && mentionsExpr(f.Body, buf) {
					res.flag = id.Name
				}
			}
		}
		return true
	})
	isBuf := func(e ast.Expr) bool { return canon(e) == buf }
	type action int
	const (
		aNone action = iota
		aAppend
		aFresh
		aReslice
		aSend
		aForeignSend
		aUnknownWrite
	)
	classify := func(n ast.Node) (action, token.Pos) {
		act, pos := aNone, token.NoPos
		inspectNoLit(n, func(x ast.Node) bool {
			switch v := x.(type) {
			case *ast.AssignStmt:
				for i, lh := range v.Lhs {
					if !isBuf(lh) {
						if ix, ok := unparen(lh).(*ast.IndexExpr); ok && isBuf(ix.X) {
							act, pos = aAppend, v.Pos() // element write: same ownership requirement as append
						}
						continue
					}
					if i >= len(v.Rhs) || len(v.Lhs) != len(v.Rhs) {
						act, pos = aUnknownWrite, v.Pos()
						continue
					}
					r := unparen(v.Rhs[i])
					switch rv := r.(type) {
					case *ast.CompositeLit:
						act, pos = aFresh, v.Pos()
					case *ast.SliceExpr:
						if isBuf(rv.X) {
							act, pos = aReslice, v.Pos()
						} else {
							act, pos = aUnknownWrite, v.Pos()
						}
					case *ast.CallExpr:
						id, _ := rv.Fun.(*ast.Ident)
						switch {
						case id != nil && id.Name == "make":
							act, pos = aFresh, v.Pos()
						case id != nil && id.Name == "append" && len(rv.Args) > 0 && isBuf(rv.Args[0]):
							act, pos = aAppend, v.Pos()
						case id != nil && id.Name == "append" && len(rv.Args) > 0:
							if sl, ok := unparen(rv.Args[0]).(*ast.SliceExpr); ok && isBuf(sl.X) {
								act, pos = aAppend, v.Pos() // append(buf[:0], …) writes into the old array
							} else {
								act, pos = aUnknownWrite, v.Pos()
							}
						default:
							act, pos = aUnknownWrite, v.Pos()
						}
					default:
						if isNil(info, r) {
							act, pos = aFresh, v.Pos()
						} else {
							act, pos = aUnknownWrite, v.Pos()
						}
					}
				}
			case *ast.CallExpr:
				if isSendCall(v) {
					if mentionsExpr(v, buf) {
						act, pos = aSend, v.Pos()
					} else if act == aNone {
						act, pos = aForeignSend, v.Pos()
					}
				}
			}
			return true
		})
		return act, pos
	}
	setFlag := func(n ast.Node, s fbState) fbState {
		if res.flag == "" {
			return s
		}
		as, ok := n.(*ast.AssignStmt)
		if !ok {
			return s
		}
		for i, lh := range as.Lhs {
			if id, ok := unparen(lh).(*ast.Ident); ok && id.Name == res.flag {
				nf := 2
				if i < len(as.Rhs) && len(as.Lhs) == len(as.Rhs) {
					if rid, ok := unparen(as.Rhs[i]).(*ast.Ident); ok {
						switch rid.Name {
						case "true":
							nf = 1
						case "false":
							nf = 0
						}
					}
				}
				return s.mapPairs(func(b, _ int) (int, int, bool) { return b, nf, true })
			}
		}
		return s
	}
	transfer := func(n ast.Node, s fbState) fbState {
		s = setFlag(n, s)
		act, _ := classify(n)
		switch act {
		case aAppend:
			return s.mapPairs(func(b, f int) (int, int, bool) {
				if b == 0 {
					b = 1
				}
				return b, f, true
			})
		case aFresh:
			return s.mapPairs(func(b, f int) (int, int, bool) { return 0, f, true })
		case aSend:
			return s.mapPairs(func(b, f int) (int, int, bool) { return 2, f, true })
		}
		return s
	}
	branch := func(cond ast.Expr, truth bool, s fbState) fbState {
		refine(cond, truth, func(atom ast.Expr, t bool) {
			atom = unparen(atom)
			if id, ok := atom.(*ast.Ident); ok && id.Name == res.flag && res.flag != "" {
				want := 0
				if t {
					want = 1
				}
				s = s.mapPairs(func(b, f int) (int, int, bool) {
					if f == 2 || f == want {
						return b, want, true
					}
					return 0, 0, false
				})
				return
			}
			// len(buf) > 0 / != 0 / == 0 / >= k
			if be, ok := atom.(*ast.BinaryExpr); ok {
				if c, ok := unparen(be.X).(*ast.CallExpr); ok && len(c.Args) == 1 {
					if id, ok := c.Fun.(*ast.Ident); ok && id.Name == "len" && isBuf(c.Args[0]) {
						zero := false
						if v, ok := constInt(info, be.Y); ok && v == 0 {
							zero = true
						}
						nonEmpty, known := false, false
						switch {
						case zero && (be.Op == token.GTR || be.Op == token.NEQ):
							nonEmpty, known = t, true
						case zero && (be.Op == token.EQL || be.Op == token.LEQ):
							nonEmpty, known = !t, true
						}
						if known {
							s = s.mapPairs(func(b, f int) (int, int, bool) {
								if nonEmpty && b == 0 {
									return 0, 0, false
								}
								if !nonEmpty && b == 1 {
									return 0, 0, false
								}
								return b, f, true
							})
						}
					}
				}
			}
		})
		return s
	}
	entry := fbBit(0, 2)
	if cfgc.EntryDirty {
		entry |= fbBit(1, 2)
	}
	if cfgc.EntrySent {
		entry |= fbBit(2, 2)
	}
	r := runFlow(p, fn, FlowSpec[fbState]{
		Entry:    entry,
		Transfer: transfer,
		Branch:   branch,
		Join:     func(a, b fbState) fbState { return a | b },
		Equal:    func(a, b fbState) bool { return a == b },
	})
	add := func(kind string, pos token.Pos, msg string) {
		for _, f := range res.findings {
			if f.kind == kind && f.pos == pos {
				return
			}
		}
		res.findings = append(res.findings, fbFinding{kind, pos, msg})
	}
	for _, b := range r.G.Blocks {
		if !r.Seen[b] {
			continue
		}
		s := r.In[b]
		for _, n := range b.Nodes {
			s1 := setFlag(n, s)
			act, pos := classify(n)
			switch act {
			case aAppend:
				res.appends++
				if s1.hasBuf(2) {
					add("reuse", pos, fmt.Sprintf("%s is written after it was handed to Send: a receiver that keeps the frame (the re-sorting server holds every frame until Flush) sees its items overwritten by the next frame", buf))
				}
			case aFresh:
				if s1.hasBuf(1) {
					add("loss", pos, fmt.Sprintf("%s is replaced while it holds items that were never sent", buf))
				}
			case aReslice:
				if s1.hasBuf(1) {
					add("loss", pos, fmt.Sprintf("%s is truncated while it holds items that were never sent", buf))
				}
			case aSend:
				res.sends++
			case aForeignSend:
				if s1.hasBuf(1) {
					add("order", pos, fmt.Sprintf("a response that does not carry %s is sent while %s holds unsent items: it overtakes them", buf, buf))
				}
			case aUnknownWrite:
				res.unknown = append(res.unknown, p.Pos(pos))
			}
			s = transfer(n, s)
		}
	}
	for _, ex := range r.Exits() {
		if !ex.Panic && (ex.Ret == nil || fbSuccessReturn(info, ex.Ret)) && ex.State.hasBuf(2) {
			res.exitSent = true
		}
	}
	if cfgc.ExitFlushed {
		for _, ex := range r.Exits() {
			if ex.Panic {
				continue
			}
			if ex.Ret != nil && !fbSuccessReturn(info, ex.Ret) {
				continue
			}
			if ex.State.hasBuf(1) {
				add("loss", ex.Pos, fmt.Sprintf("the function can finish successfully while %s still holds unsent items", buf))
			}
		}
	}
	return res
}

// fbSuccessReturn: `return nil`, `return x.Flush()` or a return without error result.
func fbSuccessReturn(info *types.Info, ret *ast.ReturnStmt) bool {
	if len(ret.Results) == 0 {
		return true
	}
	last := unparen(ret.Results[len(ret.Results)-1])
	if isNil(info, last) {
		return true
	}
	if c, ok := last.(*ast.CallExpr); ok {
		if sel, ok := unparen(c.Fun).(*ast.SelectorExpr); ok {
			return sel.Sel.Name == "Flush" || sel.Sel.Name == "Send"
		}
	}
	if id, ok := last.(*ast.Ident); ok {
		// an error variable may or may not be nil here: not a known-successful exit
		return !isErrorType(info.TypeOf(id))
	}
	return false
}

var _ = cfg.KindBody
