package main

// Hasher typestate: a hash value must be a pure function of what is written for it.
//
//	clean    fresh from a constructor (xxhash.New, md5.New, fnv.New…) or after Reset
//	writing  some input written
//	summed   Sum/Sum64/Sum32 taken
//	unknown  obtained from anywhere else (a sync.Pool, a field, a parameter): may carry earlier input
//
// Write on unknown → the hash depends on whatever the previous user wrote.
// Write on summed  → the next hash continues the previous input (no Reset in between).

import (
	"go/ast"
	"go/token"
	"go/types"
	"sort"
	"strings"
)

const (
	hsUndef = 1 << iota
	hsClean
	hsWriting
	hsSummed
	hsUnknown
)

type hasherFinding struct {
	pos  token.Pos
	what string
}

type hsState [6]uint8

func isHasherType(t types.Type) bool {
	if t == nil {
		return false
	}
	has := func(t types.Type, name string) bool {
		ms := types.NewMethodSet(t)
		for i := 0; i < ms.Len(); i++ {
			if ms.At(i).Obj().Name() == name {
				return true
			}
		}
		return false
	}
	for _, tt := range []types.Type{t, types.NewPointer(t)} {
		if has(tt, "Write") && has(tt, "Reset") && (has(tt, "Sum64") || has(tt, "Sum") || has(tt, "Sum32")) {
			return true
		}
	}
	return false
}

func isHashConstructor(f *types.Func) bool {
	if f == nil || f.Pkg() == nil {
		return false
	}
	if sig, ok := f.Type().(*types.Signature); !ok || sig.Recv() != nil {
		return false
	}
	if !strings.HasPrefix(f.Name(), "New") {
		return false
	}
	pp := f.Pkg().Path()
	return strings.Contains(pp, "hash") || strings.HasPrefix(pp, "crypto/")
}

// checkHashers analyses every hasher-typed local of fn. It returns the findings and the number of
// hasher operations seen.
func checkHashers(p *Prog, fn *Fn) ([]hasherFinding, int) {
	info := fn.Info()
	var vars []types.Object
	idx := map[types.Object]int{}
	ast.Inspect(fn.Body(), func(n ast.Node) bool {
		id, ok := n.(*ast.Ident)
		if !ok {
			return true
		}
		o := info.Defs[id]
		if o == nil {
			return true
		}
		if v, ok := o.(*types.Var); ok && !v.IsField() && isHasherType(v.Type()) {
			if _, have := idx[o]; !have && len(vars) < 6 {
				idx[o] = len(vars)
				vars = append(vars, o)
			}
		}
		return true
	})
	if len(vars) == 0 {
		return nil, 0
	}
	type op struct {
		v    int
		kind string // "def-clean", "def-unknown", "write", "sum", "reset"
		pos  token.Pos
		src  string
	}
	opsOf := func(n ast.Node) []op {
		var out []op
		inspectNoLit(n, func(x ast.Node) bool {
			switch v := x.(type) {
			case *ast.AssignStmt:
				for i, lh := range v.Lhs {
					o := objOf(info, lh)
					vi, ok := idx[o]
					if !ok {
						continue
					}
					kind, src := "def-unknown", ""
					if i < len(v.Rhs) && len(v.Lhs) == len(v.Rhs) {
						src = canon(v.Rhs[i])
						r := unparen(v.Rhs[i])
						if ta, ok := r.(*ast.TypeAssertExpr); ok {
							r = unparen(ta.X)
						}
						if call, ok := r.(*ast.CallExpr); ok && isHashConstructor(calleeOf(info, call)) {
							kind = "def-clean"
						}
					} else if len(v.Rhs) == 1 {
						src = canon(v.Rhs[0])
					}
					out = append(out, op{vi, kind, v.Pos(), src})
				}
			case *ast.ValueSpec:
				for i, nm := range v.Names {
					vi, ok := idx[info.Defs[nm]]
					if !ok {
						continue
					}
					kind, src := "def-unknown", ""
					if i < len(v.Values) {
						src = canon(v.Values[i])
						if call, ok := unparen(v.Values[i]).(*ast.CallExpr); ok && isHashConstructor(calleeOf(info, call)) {
							kind = "def-clean"
						}
					}
					out = append(out, op{vi, kind, v.Pos(), src})
				}
			case *ast.CallExpr:
				sel, ok := unparen(v.Fun).(*ast.SelectorExpr)
				if !ok {
					return true
				}
				vi, ok := idx[objOf(info, sel.X)]
				if !ok {
					return true
				}
				switch {
				case strings.HasPrefix(sel.Sel.Name, "Write"):
					out = append(out, op{vi, "write", v.Pos(), ""})
				case strings.HasPrefix(sel.Sel.Name, "Sum"):
					out = append(out, op{vi, "sum", v.Pos(), ""})
				case sel.Sel.Name == "Reset":
					out = append(out, op{vi, "reset", v.Pos(), ""})
				}
			}
			return true
		})
		sort.SliceStable(out, func(i, j int) bool { return out[i].pos < out[j].pos })
		// a definition takes effect after the calls of its right-hand side
		return out
	}
	apply := func(s hsState, o op) hsState {
		switch o.kind {
		case "def-clean":
			s[o.v] = hsClean
		case "def-unknown":
			s[o.v] = hsUnknown
		case "write":
			s[o.v] = hsWriting | (s[o.v] & hsUnknown) // stays tainted once unknown
		case "sum":
			s[o.v] = hsSummed
		case "reset":
			s[o.v] = hsClean
		}
		return s
	}
	var entry hsState
	for i := range vars {
		entry[i] = hsUndef
	}
	// parameters of hasher type start unknown
	if fn.Decl != nil {
		for _, f := range fn.Decl.Type.Params.List {
			for _, nm := range f.Names {
				if vi, ok := idx[info.Defs[nm]]; ok {
					entry[vi] = hsUnknown
				}
			}
		}
	}
	r := runFlow(p, fn, FlowSpec[hsState]{
		Entry: entry,
		Transfer: func(n ast.Node, s hsState) hsState {
			for _, o := range opsOf(n) {
				s = apply(s, o)
			}
			return s
		},
		Join: func(a, b hsState) hsState {
			for i := range a {
				a[i] |= b[i]
			}
			return a
		},
		Equal: func(a, b hsState) bool { return a == b },
	})
	var findings []hasherFinding
	nOps := 0
	srcOf := map[int]string{}
	for _, b := range r.G.Blocks {
		if !r.Seen[b] {
			continue
		}
		s := r.In[b]
		for _, n := range b.Nodes {
			for _, o := range opsOf(n) {
				nOps++
				if o.kind == "def-unknown" {
					srcOf[o.v] = o.src
				}
				if o.kind == "write" {
					switch {
					case s[o.v]&hsUnknown != 0:
						findings = append(findings, hasherFinding{o.pos, vars[o.v].Name() + " is written without Reset after being taken from " + srcOf[o.v] + ": the hash also depends on what its previous user wrote"})
					case s[o.v]&hsSummed != 0:
						findings = append(findings, hasherFinding{o.pos, vars[o.v].Name() + " is written again after its sum was taken, without Reset: the next hash continues the previous input"})
					}
				}
				s = apply(s, o)
			}
		}
	}
	// de-duplicate by position
	seen := map[token.Pos]bool{}
	var out []hasherFinding
	for _, f := range findings {
		if !seen[f.pos] {
			seen[f.pos] = true
			out = append(out, f)
		}
	}
	return out, nOps
}
