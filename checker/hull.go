package main

import (
	"fmt"
	"go/ast"
	"go/token"
	"go/types"
	"strings"
)

// Hull check: a function with results (lo, hi) that advertises the time range of a collection must
// compute lo as the minimum and hi as the maximum over EVERY element: every assignment to lo / hi
// inside a loop is a min- / max-update (`if V < lo { lo = V }`, `lo = min(lo, V)` and mirrored),
// V is read from the range element itself (selector chain or a result of a call on it, never an
// index into it), the loops range over whole collections and cannot skip elements
// (no continue / break / return / conditional update), and after the loops lo / hi are reassigned
// only through the allowed clamps. A helper the value comes from is checked the same way.

type hullCfg struct {
	// receiver methods that may reassign lo/hi after the loops (name → reason)
	Clamps map[string]string
}

func hullCheck(p *Prog, fn *Fn, cfg hullCfg, depth int) (problems []string, loops int) {
	info := fn.Info()
	bad := func(pos token.Pos, f string, a ...any) {
		problems = append(problems, p.Pos(pos)+": "+fmt.Sprintf(f, a...))
	}
	var lo, hi types.Object
	if rs := fn.Type().Results; rs != nil && len(rs.List) > 0 {
		var names []*ast.Ident
		for _, f := range rs.List {
			names = append(names, f.Names...)
		}
		if len(names) == 2 {
			lo, hi = info.Defs[names[0]], info.Defs[names[1]]
		}
	}
	if lo == nil {
		// the identifiers of the last return
		var last *ast.ReturnStmt
		for _, st := range fn.Body().List {
			if r, ok := st.(*ast.ReturnStmt); ok {
				last = r
			}
		}
		if last != nil && len(last.Results) == 2 {
			lo, hi = objOf(info, last.Results[0]), objOf(info, last.Results[1])
		}
	}
	if lo == nil || hi == nil {
		bad(fn.Node().Pos(), "the two results (min time, max time) are not variables this check can follow")
		return
	}
	// every other return inside the function must return the same variables or sit before the loops
	var stack []ast.Node
	var firstLoop, lastLoop token.Pos
	loopSeen := map[*ast.RangeStmt]bool{}
	nLo, nHi := 0, 0
	elemOf := func() (types.Object, *ast.RangeStmt) {
		for i := len(stack) - 1; i >= 0; i-- {
			if r, ok := stack[i].(*ast.RangeStmt); ok {
				if r.Value != nil {
					return objOf(info, r.Value), r
				}
				return nil, r
			}
		}
		return nil, nil
	}
	// valueFromElem: V is a selector chain rooted at the element, a call on such a chain, or a
	// variable defined once in the loop body from such an expression. Returns the root expression text,
	// the role ("field:<name>", "result:<idx>:<callee>") and the callee for recursion.
	var valueFromElem func(e ast.Expr, elem types.Object, d int) (role string, callee *types.Func, ok bool)
	valueFromElem = func(e ast.Expr, elem types.Object, d int) (string, *types.Func, bool) {
		e = unparen(e)
		switch v := e.(type) {
		case *ast.SelectorExpr:
			x := unparen(v.X)
			for {
				s, ok := x.(*ast.SelectorExpr)
				if !ok {
					break
				}
				x = unparen(s.X)
			}
			if id, ok := x.(*ast.Ident); ok && objOf(info, id) == elem {
				return "field:" + v.Sel.Name, nil, true
			}
		case *ast.Ident:
			if d > 3 {
				return "", nil, false
			}
			o := objOf(info, v)
			if o == nil {
				return "", nil, false
			}
			if def := singleDef(fn, info, o); def != nil {
				return valueFromElem(def, elem, d+1)
			}
			if c, idx := tupleDefIndex(fn, info, o); c != nil {
				if sel, ok := unparen(c.Fun).(*ast.SelectorExpr); ok && rootIs(info, sel.X, elem) {
					return fmt.Sprintf("result:%d:%s", idx, sel.Sel.Name), calleeOf(info, c), true
				}
			}
		}
		return "", nil, false
	}
	checkUpdate := func(as *ast.AssignStmt, target types.Object, isLo bool, V ast.Expr, at token.Pos) {
		elem, loop := elemOf()
		if loop == nil {
			return
		}
		if elem == nil {
			bad(at, "the loop has no element variable to read the time from")
			return
		}
		role, callee, ok := valueFromElem(V, elem, 0)
		if !ok {
			bad(at, "%s is not read from the loop element %s itself (an index such as x[0] or x[len(x)-1] looks at one member only)", exprString(V), elem.Name())
			return
		}
		want, wantIdx := "MinTime", "result:0:"
		if !isLo {
			want, wantIdx = "MaxTime", "result:1:"
		}
		switch {
		case strings.HasPrefix(role, "field:"):
			if role != "field:"+want {
				bad(at, "%s is updated from %s; expected the element's %s", target.Name(), exprString(V), want)
			}
		case strings.HasPrefix(role, wantIdx):
			if callee != nil && depth < 2 {
				if _, isIface := callee.Type().(*types.Signature).Recv().Type().Underlying().(*types.Interface); !isIface {
					if cf := p.findFuncDecl(callee); cf != nil {
						sub, n := hullCheck(p, cf, cfg, depth+1)
						for _, s := range sub {
							problems = append(problems, s+" (in "+cf.Name+", whose result is folded at "+p.Pos(at)+")")
						}
						if n == 0 && len(sub) == 0 {
							bad(at, "%s does not compute its range over a collection", cf.Name)
						}
					}
				}
			}
		default:
			bad(at, "%s is updated from %s (%s); expected the element's %s", target.Name(), exprString(V), role, want)
		}
		if isLo {
			nLo++
		} else {
			nHi++
		}
	}
	// pathOK: between the function body and node n only range loops and blocks (plus `allow`)
	pathOK := func(allow ast.Node) (bool, ast.Node) {
		for _, s := range stack {
			switch s.(type) {
			case *ast.BlockStmt, *ast.RangeStmt:
			default:
				if s != allow {
					return false, s
				}
			}
		}
		return true, nil
	}
	isTarget := func(e ast.Expr) (types.Object, bool) {
		id, ok := unparen(e).(*ast.Ident)
		if !ok {
			return nil, false
		}
		o := objOf(info, id)
		return o, o != nil && (o == lo || o == hi)
	}
	handled := map[*ast.AssignStmt]bool{}
	var walk func(n ast.Node)
	walk = func(n ast.Node) {
		if n == nil {
			return
		}
		switch v := n.(type) {
		case *ast.FuncLit:
			return
		case *ast.RangeStmt:
			if !loopSeen[v] {
				loopSeen[v] = true
			}
		case *ast.IfStmt:
			// if-form update: `if V < lo { lo = V }`
			if be, ok := unparen(v.Cond).(*ast.BinaryExpr); ok && v.Init == nil && v.Else == nil && len(v.Body.List) == 1 {
				if as, ok := v.Body.List[0].(*ast.AssignStmt); ok && as.Tok == token.ASSIGN && len(as.Lhs) == 1 && len(as.Rhs) == 1 {
					if t, ok := isTarget(as.Lhs[0]); ok {
						if _, loop := elemOf(); loop != nil {
							handled[as] = true
							isLo := t == lo
							var V ast.Expr
							var less bool // V < target
							xo, xIs := isTarget(be.X)
							yo, yIs := isTarget(be.Y)
							switch {
							case yIs && yo == t && (be.Op == token.LSS || be.Op == token.LEQ):
								V, less = be.X, true
							case yIs && yo == t && (be.Op == token.GTR || be.Op == token.GEQ):
								V, less = be.X, false
							case xIs && xo == t && (be.Op == token.GTR || be.Op == token.GEQ):
								V, less = be.Y, true
							case xIs && xo == t && (be.Op == token.LSS || be.Op == token.LEQ):
								V, less = be.Y, false
							}
							switch {
							case V == nil:
								bad(v.Pos(), "%s is assigned under `%s`, which is not a comparison with %s itself", t.Name(), exprString(v.Cond), t.Name())
							case canon(V) != canon(as.Rhs[0]):
								bad(v.Pos(), "%s is compared with %s but assigned %s", t.Name(), exprString(V), exprString(as.Rhs[0]))
							case less != isLo:
								bad(v.Pos(), "`%s` moves %s the wrong way (the minimum must only decrease, the maximum only increase)", exprString(v.Cond), t.Name())
							default:
								if ok, blocker := pathOK(nil); !ok {
									bad(v.Pos(), "the update of %s is conditional on `%s`: elements failing the condition are left out of the advertised range", t.Name(), firstLine(p, blocker))
								}
								checkUpdate(as, t, isLo, V, v.Pos())
							}
						}
					}
				}
			}
		case *ast.AssignStmt:
			if handled[v] {
				break
			}
			for i, l := range v.Lhs {
				t, ok := isTarget(l)
				if !ok {
					continue
				}
				_, loop := elemOf()
				if loop == nil {
					// outside loops: before the first loop anything goes (initial value); after the loops only clamps
					if firstLoop.IsValid() && v.Pos() > firstLoop {
						okClamp := false
						if len(v.Rhs) == len(v.Lhs) {
							if c, ok := unparen(v.Rhs[i]).(*ast.CallExpr); ok {
								if f := calleeOf(info, c); f != nil {
									if _, ok := cfg.Clamps[f.Name()]; ok && len(c.Args) == 1 && objOf(info, c.Args[0]) == t {
										okClamp = true
									}
								}
							}
						}
						if !okClamp {
							bad(v.Pos(), "%s is reassigned after the loop by `%s`", t.Name(), stmtText(p, v))
						}
					}
					continue
				}
				isLo := t == lo
				if len(v.Rhs) != len(v.Lhs) {
					bad(v.Pos(), "%s is assigned in the loop by `%s`, not a min/max update", t.Name(), stmtText(p, v))
					continue
				}
				c, isCall := unparen(v.Rhs[i]).(*ast.CallExpr)
				var V ast.Expr
				if isCall && len(c.Args) == 2 {
					if id, ok := c.Fun.(*ast.Ident); ok {
						if _, isB := info.Uses[id].(*types.Builtin); isB && ((id.Name == "min") == isLo) && (id.Name == "min" || id.Name == "max") {
							if o, ok := isTarget(c.Args[0]); ok && o == t {
								V = c.Args[1]
							} else if o, ok := isTarget(c.Args[1]); ok && o == t {
								V = c.Args[0]
							}
						}
					}
				}
				if V == nil {
					bad(v.Pos(), "%s is assigned in the loop by `%s`, not a min/max update of itself", t.Name(), stmtText(p, v))
					continue
				}
				if ok, blocker := pathOK(nil); !ok {
					bad(v.Pos(), "the update of %s is conditional on `%s`: elements failing the condition are left out of the advertised range", t.Name(), firstLine(p, blocker))
				}
				checkUpdate(v, t, isLo, V, v.Pos())
			}
		case *ast.BranchStmt:
			if _, loop := elemOf(); loop != nil && (v.Tok == token.CONTINUE || v.Tok == token.BREAK || v.Tok == token.GOTO) {
				bad(v.Pos(), "`%s` lets the loop skip elements: their time range is left out of the advertised range", v.Tok)
			}
		case *ast.ReturnStmt:
			if _, loop := elemOf(); loop != nil {
				bad(v.Pos(), "return inside the loop: remaining elements are left out of the advertised range")
			}
		}
		if r, ok := n.(*ast.RangeStmt); ok {
			switch unparen(r.X).(type) {
			case *ast.SliceExpr:
				bad(r.Pos(), "the loop ranges over a part of the collection (%s)", exprString(r.X))
			}
			if _, outer := elemOf(); outer == nil {
				if !firstLoop.IsValid() {
					firstLoop = r.Pos()
				}
				lastLoop = r.End()
			}
		}
		stack = append(stack, n)
		for _, ch := range childNodes(n) {
			walk(ch)
		}
		stack = stack[:len(stack)-1]
	}
	for _, st := range fn.Body().List {
		walk(st)
	}
	_ = lastLoop
	// only loops that update the targets count
	if nLo == 0 || nHi == 0 {
		if len(loopSeen) > 0 || depth > 0 {
			bad(fn.Node().Pos(), "no loop lowers %s and raises %s over the elements (min-updates: %d, max-updates: %d)", lo.Name(), hi.Name(), nLo, nHi)
		}
	}
	return problems, nLo + nHi
}

func rootIs(info *types.Info, e ast.Expr, o types.Object) bool {
	e = unparen(e)
	for {
		s, ok := e.(*ast.SelectorExpr)
		if !ok {
			break
		}
		e = unparen(s.X)
	}
	id, ok := e.(*ast.Ident)
	return ok && objOf(info, id) == o
}

func firstLine(p *Prog, n ast.Node) string {
	if ifs, ok := n.(*ast.IfStmt); ok {
		return "if " + exprString(ifs.Cond)
	}
	s := stmtText(p, n)
	if len(s) > 60 {
		s = s[:60] + "…"
	}
	return s
}

// childNodes returns the direct children of n in source order.
func childNodes(n ast.Node) []ast.Node {
	var out []ast.Node
	first := true
	ast.Inspect(n, func(c ast.Node) bool {
		if c == nil {
			return true
		}
		if first {
			first = false
			return true
		}
		out = append(out, c)
		return false
	})
	return out
}

// tupleDefIndex: o is defined exactly once, as the idx-th result of a call `a, o := f()`.
func tupleDefIndex(fn *Fn, info *types.Info, o types.Object) (*ast.CallExpr, int) {
	var def *ast.CallExpr
	idx, n := -1, 0
	ast.Inspect(fn.Body(), func(x ast.Node) bool {
		if as, ok := x.(*ast.AssignStmt); ok {
			for i, l := range as.Lhs {
				if objOf(info, l) == o {
					n++
					if len(as.Rhs) == 1 && len(as.Lhs) > 1 {
						def, _ = unparen(as.Rhs[0]).(*ast.CallExpr)
						idx = i
					}
				}
			}
		}
		return true
	})
	if n == 1 && def != nil {
		return def, idx
	}
	return nil, -1
}
