package main

// E14 — label-set algebra.
//
// A label set emitted by a store is written as a term over
//
//	S        the labels stored with the series (data)
//	E        the store's external labels (a frozen table of sources, resolved as objects)
//	∅        labels.EmptyLabels()
//	Ext(x,y) x with every label of y set on top (labels.Builder seeded with x, then Set for y)
//	Rm(x,R)  x without the names in R (Builder.Del for every name of R)
//	Alt(c,x,y)
//
// The semantics of helper functions (labelpb.ExtendSortedLabels, rmLabels, …) is not assumed: they are
// inlined and their labels.Builder statements are interpreted. Terms are then evaluated in every model
// over a two-name universe (is the name stored? external? requested to be dropped?) and compared
// with the property's definition: dropped names absent, otherwise external value, otherwise stored value.

import (
	"fmt"
	"go/ast"
	"go/token"
	"go/types"
	"sort"
	"strings"
)

type ltKind int

const (
	ltS ltKind = iota
	ltE
	ltEmpty
	ltExt
	ltRm
	ltAlt
	ltUnk
)

type lt struct {
	k    ltKind
	x, y *lt
	r    *lrs
	c    *lcond
	text string
}

// lrs is a set of names to remove: known = provably the request's WithoutReplicaLabels.
type lrs struct {
	known bool
	empty bool // literally nil / empty
	text  string
}

type lcond struct {
	kind string // "Rnonempty", "Rnonnil", "isEmpty", "unknown"
	neg  bool
	t    *lt
	key  string
}

func (t *lt) String() string {
	if t == nil {
		return "<nil>"
	}
	switch t.k {
	case ltS:
		return "S"
	case ltE:
		return "E"
	case ltEmpty:
		return "∅"
	case ltExt:
		return "Ext(" + t.x.String() + "," + t.y.String() + ")"
	case ltRm:
		if t.r.known {
			return "Rm(" + t.x.String() + ",R)"
		}
		if t.r.empty {
			return "Rm(" + t.x.String() + ",∅)"
		}
		return "Rm(" + t.x.String() + ",?" + t.r.text + ")"
	case ltAlt:
		return "[" + t.c.String() + " ? " + t.x.String() + " : " + t.y.String() + "]"
	}
	return "?(" + t.text + ")"
}

func (c *lcond) String() string {
	s := c.kind
	switch c.kind {
	case "isEmpty":
		s = "isEmpty(" + c.t.String() + ")"
	case "unknown":
		s = c.key
	case "Rnonempty":
		s = "len(R)>0"
	case "Rnonnil":
		s = "R!=nil"
	}
	if c.neg {
		return "!" + s
	}
	return s
}

type lmodel struct {
	S, E, R [2]bool
	rNil    bool
	unk     map[string]bool
}

type lval struct {
	v   [2]uint8 // 0 absent, 1 stored value, 2 external value
	bad string
}

func (t *lt) eval(m *lmodel) lval {
	switch t.k {
	case ltS:
		var o lval
		for i := range o.v {
			if m.S[i] {
				o.v[i] = 1
			}
		}
		return o
	case ltE:
		var o lval
		for i := range o.v {
			if m.E[i] {
				o.v[i] = 2
			}
		}
		return o
	case ltEmpty:
		return lval{}
	case ltExt:
		a, b := t.x.eval(m), t.y.eval(m)
		if a.bad != "" {
			return a
		}
		if b.bad != "" {
			return b
		}
		for i := range a.v {
			if b.v[i] != 0 {
				a.v[i] = b.v[i]
			}
		}
		return a
	case ltRm:
		a := t.x.eval(m)
		if a.bad != "" {
			return a
		}
		if t.r.empty {
			return a
		}
		if !t.r.known {
			return lval{bad: "removes a name set that is not derived from the request's WithoutReplicaLabels (" + t.r.text + ")"}
		}
		for i := range a.v {
			if m.R[i] {
				a.v[i] = 0
			}
		}
		return a
	case ltAlt:
		var b bool
		switch t.c.kind {
		case "Rnonempty":
			b = m.R[0] || m.R[1]
		case "Rnonnil":
			b = m.R[0] || m.R[1] || !m.rNil
		case "isEmpty":
			v := t.c.t.eval(m)
			if v.bad != "" {
				return v
			}
			b = v.v[0] == 0 && v.v[1] == 0
		default:
			b = m.unk[t.c.key]
		}
		if t.c.neg {
			b = !b
		}
		if b {
			return t.x.eval(m)
		}
		return t.y.eval(m)
	}
	return lval{bad: "label set of unknown construction: " + t.text}
}

func (t *lt) unknownConds(out map[string]bool) {
	if t == nil {
		return
	}
	if t.k == ltAlt {
		if t.c.kind == "unknown" {
			out[t.c.key] = true
		}
		if t.c.t != nil {
			t.c.t.unknownConds(out)
		}
	}
	t.x.unknownConds(out)
	t.y.unknownConds(out)
}

// lalgCheck compares t with the definition in every model. It returns "" or a counterexample.
func lalgCheck(t *lt) (string, int) {
	conds := map[string]bool{}
	t.unknownConds(conds)
	keys := make([]string, 0, len(conds))
	for k := range conds {
		keys = append(keys, k)
	}
	sort.Strings(keys)
	if len(keys) > 8 {
		return "too many undetermined conditions: " + strings.Join(keys, ", "), 0
	}
	n := 0
	bits := func(x int) [2]bool { return [2]bool{x&1 != 0, x&2 != 0} }
	for s := 0; s < 4; s++ {
		for e := 0; e < 4; e++ {
			for r := 0; r < 4; r++ {
				for rn := 0; rn < 2; rn++ {
					for u := 0; u < 1<<len(keys); u++ {
						m := &lmodel{S: bits(s), E: bits(e), R: bits(r), rNil: rn == 1, unk: map[string]bool{}}
						for i, k := range keys {
							m.unk[k] = u&(1<<i) != 0
						}
						n++
						got := t.eval(m)
						if got.bad != "" {
							return got.bad, n
						}
						var want [2]uint8
						for i := range want {
							switch {
							case m.R[i]:
							case m.E[i]:
								want[i] = 2
							case m.S[i]:
								want[i] = 1
							}
						}
						if got.v != want {
							for i := range want {
								if got.v[i] != want[i] {
									return fmt.Sprintf("for a label name that is %s in the series, %s in the external labels and %s by the request%s, the emitted set has %s but must have %s",
										lalgPresent(m.S[i], "stored"), lalgPresent(m.E[i], "present"), lalgPresent(m.R[i], "dropped"),
										lalgConds(m, keys), lalgVal(got.v[i]), lalgVal(want[i])), n
								}
							}
						}
					}
				}
			}
		}
	}
	return "", n
}

func lalgPresent(b bool, w string) string {
	if b {
		return w
	}
	return "not " + w
}

func lalgVal(v uint8) string {
	switch v {
	case 1:
		return "the stored value"
	case 2:
		return "the external value"
	}
	return "no such label"
}

func lalgConds(m *lmodel, keys []string) string {
	if len(keys) == 0 {
		return ""
	}
	var parts []string
	for _, k := range keys {
		parts = append(parts, fmt.Sprintf("%s=%v", k, m.unk[k]))
	}
	return " (with " + strings.Join(parts, ", ") + ")"
}

// ---------------------------------------------------------------------------------------------
// extraction

type lalg struct {
	p *Prog
	// extSrc recognises the store's external-label sources (fields, getters), resolved as objects.
	extSrc func(info *types.Info, e ast.Expr) bool
	// callerOK restricts the call sites used to resolve a parameter (nil: all).
	callerOK func(fn *Fn) bool
	depth    int
	env      []map[types.Object]*lt
	renv     []map[types.Object]*lrs
	self     map[types.Object]*lt
	busy     map[types.Object]bool
}

func lunk(f string, a ...any) *lt { return &lt{k: ltUnk, text: fmt.Sprintf(f, a...)} }

func isNamed(t types.Type, pkgSuffix, name string) bool {
	if p, ok := t.(*types.Pointer); ok {
		t = p.Elem()
	}
	n, ok := t.(*types.Named)
	if !ok {
		if a, isAlias := t.(*types.Alias); isAlias {
			return isNamed(types.Unalias(a), pkgSuffix, name)
		}
		return false
	}
	return n.Obj().Name() == name && n.Obj().Pkg() != nil && strings.HasSuffix(n.Obj().Pkg().Path(), pkgSuffix)
}

func isLabelBuilder(t types.Type) bool { return t != nil && isNamed(t, "model/labels", "Builder") }

func isLabelSetType(t types.Type) bool {
	if t == nil {
		return false
	}
	if isNamed(t, "model/labels", "Labels") {
		return true
	}
	switch u := t.Underlying().(type) {
	case *types.Slice:
		return isNamed(u.Elem(), "labelpb", "ZLabel") || isNamed(u.Elem(), "labelpb", "Label")
	case *types.Map:
		k, ok1 := u.Key().Underlying().(*types.Basic)
		v, ok2 := u.Elem().Underlying().(*types.Basic)
		return ok1 && ok2 && k.Kind() == types.String && v.Kind() == types.String
	}
	return false
}

func isNameSetType(t types.Type) bool {
	if t == nil {
		return false
	}
	switch u := t.Underlying().(type) {
	case *types.Slice:
		b, ok := u.Elem().Underlying().(*types.Basic)
		return ok && b.Kind() == types.String
	case *types.Map:
		k, ok := u.Key().Underlying().(*types.Basic)
		_, isStruct := u.Elem().Underlying().(*types.Struct)
		return ok && k.Kind() == types.String && isStruct
	}
	return false
}

func (l *lalg) lookup(o types.Object) *lt {
	if t := l.self[o]; t != nil {
		return t
	}
	for i := len(l.env) - 1; i >= 0; i-- {
		if t, ok := l.env[i][o]; ok {
			return t
		}
	}
	return nil
}

func paramIndex(fn *Fn, o types.Object) int {
	if fn.Decl == nil {
		return -1
	}
	i := 0
	for _, f := range fn.Decl.Type.Params.List {
		if len(f.Names) == 0 {
			i++
			continue
		}
		for _, nm := range f.Names {
			if fn.Info().Defs[nm] == o {
				return i
			}
			i++
		}
	}
	return -1
}

func (l *lalg) callersOf(fn *Fn) []callSite {
	if fn.Obj == nil {
		return nil
	}
	var out []callSite
	for _, s := range callSitesOf(l.p, funcFullName(fn.Obj)) {
		if strings.HasSuffix(l.p.Fset.Position(s.Call.Pos()).Filename, "_test.go") {
			continue
		}
		out = append(out, s)
	}
	if l.callerOK != nil {
		var f []callSite
		for _, s := range out {
			if l.callerOK(s.Fn) {
				f = append(f, s)
			}
		}
		if len(f) > 0 {
			return f
		}
	}
	return out
}

// declOf returns the declared function enclosing a call site's Fn (callSitesOf reports declared functions).
func (l *lalg) term(fn *Fn, e ast.Expr, at token.Pos) *lt {
	if l.depth > 14 {
		return lunk("nesting too deep at %s", l.p.Pos(e.Pos()))
	}
	l.depth++
	defer func() { l.depth-- }()
	info := fn.Info()
	e = unparen(e)
	if l.extSrc(info, e) {
		return &lt{k: ltE, text: canon(e)}
	}
	switch v := e.(type) {
	case *ast.UnaryExpr:
		if v.Op == token.AND {
			return l.term(fn, v.X, at)
		}
	case *ast.StarExpr:
		return l.term(fn, v.X, at)
	case *ast.IndexExpr:
		return l.term(fn, v.X, at)
	case *ast.CallExpr:
		if tv, ok := info.Types[v.Fun]; ok && tv.IsType() && len(v.Args) == 1 {
			return l.term(fn, v.Args[0], at)
		}
		f := calleeOf(info, v)
		if f == nil || f.Pkg() == nil {
			return &lt{k: ltS, text: canon(e)}
		}
		name, pkg := f.Name(), f.Pkg().Path()
		sel, _ := unparen(v.Fun).(*ast.SelectorExpr)
		sig, _ := f.Type().(*types.Signature)
		var recvT types.Type
		if sig != nil && sig.Recv() != nil {
			recvT = sig.Recv().Type()
		}
		switch {
		case strings.HasSuffix(pkg, "/labelpb") && recvT == nil && (name == "ZLabelsFromPromLabels" || name == "ZLabelsToPromLabels") && len(v.Args) == 1:
			return l.term(fn, v.Args[0], at)
		case recvT != nil && sel != nil && (name == "Copy" || name == "PromLabels") && isLabelSetType(info.TypeOf(sel.X)) || recvT != nil && sel != nil && name == "PromLabels":
			return l.term(fn, sel.X, at)
		case strings.HasSuffix(pkg, "model/labels") && name == "EmptyLabels":
			return &lt{k: ltEmpty}
		case recvT != nil && isLabelBuilder(recvT) && name == "Labels" && sel != nil:
			if o := objOf(info, sel.X); o != nil {
				return l.builderAt(fn, o, v.Pos())
			}
			return lunk("builder %s is not a local variable", canon(sel.X))
		case strings.HasPrefix(pkg, thanosMod) && sig != nil && sig.Results().Len() == 1 && isLabelSetType(sig.Results().At(0).Type()):
			target := l.p.findFuncDecl(f)
			if target == nil {
				return lunk("declaration of %s not loaded", funcFullName(f))
			}
			return l.inline(fn, target, v, at)
		}
		return &lt{k: ltS, text: canon(e)}
	case *ast.Ident:
		o := objOf(info, v)
		if o == nil {
			return lunk("unresolved identifier %s", v.Name)
		}
		if t := l.lookup(o); t != nil {
			return t
		}
		if _, isVar := o.(*types.Var); !isVar {
			return &lt{k: ltS, text: v.Name}
		}
		if pi := paramIndex(fn, o); pi >= 0 {
			return l.paramTerm(fn, pi, v.Name)
		}
		return l.varAt(fn, o, at)
	case *ast.SelectorExpr:
		// field of a local struct variable built by one composite literal
		if id, ok := unparen(v.X).(*ast.Ident); ok {
			if o := objOf(info, id); o != nil {
				if _, isVar := o.(*types.Var); isVar && paramIndex(fn, o) < 0 {
					if d := singleDef(fn, info, o); d != nil {
						if val := compositeField(d, v.Sel.Name); val != nil {
							return l.term(fn, val, d.Pos())
						}
					}
				}
			}
		}
		// field initialised by composite literals elsewhere in the package
		if fo, ok := info.Uses[v.Sel].(*types.Var); ok && fo.IsField() {
			inits := l.fieldInits(fn, fo)
			if len(inits) > 0 {
				var first *lt
				for _, in := range inits {
					t := l.term(in.fn, in.val, in.val.Pos())
					if first == nil {
						first = t
					} else if first.String() != t.String() {
						return lunk("field %s is initialised differently at different sites (%s vs %s)", fo.Name(), first, t)
					}
				}
				return first
			}
		}
		return &lt{k: ltS, text: canon(e)}
	}
	return &lt{k: ltS, text: canon(e)}
}

func compositeField(d ast.Expr, name string) ast.Expr {
	d = unparen(d)
	if u, ok := d.(*ast.UnaryExpr); ok && u.Op == token.AND {
		d = unparen(u.X)
	}
	cl, ok := d.(*ast.CompositeLit)
	if !ok {
		return nil
	}
	for _, el := range cl.Elts {
		if kv, ok := el.(*ast.KeyValueExpr); ok {
			if k, ok := kv.Key.(*ast.Ident); ok && k.Name == name {
				return kv.Value
			}
		}
	}
	return nil
}

type fieldInit struct {
	fn  *Fn
	val ast.Expr
}

// fieldInits finds `T{field: value}` initialisers of a struct field in the field's own package
// (declared functions only, tests excluded).
func (l *lalg) fieldInits(from *Fn, fo *types.Var) []fieldInit {
	var out []fieldInit
	for _, fn := range l.p.AllFuncs(true) {
		if fn.Pkg.Types != fo.Pkg() || fn.Decl == nil {
			continue
		}
		if strings.HasSuffix(l.p.Fset.Position(fn.Decl.Pos()).Filename, "_test.go") {
			continue
		}
		info := fn.Info()
		ast.Inspect(fn.Body(), func(n ast.Node) bool {
			cl, ok := n.(*ast.CompositeLit)
			if !ok {
				return true
			}
			for _, el := range cl.Elts {
				kv, ok := el.(*ast.KeyValueExpr)
				if !ok {
					continue
				}
				if k, ok := kv.Key.(*ast.Ident); ok && info.Uses[k] == fo {
					out = append(out, fieldInit{fn, kv.Value})
				}
			}
			return true
		})
	}
	return out
}

func (l *lalg) paramTerm(fn *Fn, pi int, name string) *lt {
	sites := l.callersOf(fn)
	if len(sites) == 0 {
		return lunk("parameter %s of %s has no call site to resolve it", name, fn.Name)
	}
	var first *lt
	for _, s := range sites {
		if pi >= len(s.Call.Args) {
			return lunk("variadic/short call of %s", fn.Name)
		}
		caller := l.p.declFnOf(s.Fn)
		t := l.term(caller, s.Call.Args[pi], s.Call.Pos())
		if first == nil {
			first = t
		} else if first.String() != t.String() {
			return lunk("parameter %s of %s differs between call sites (%s vs %s)", name, fn.Name, first, t)
		}
	}
	return first
}

// declFnOf maps a literal Fn to its enclosing declared function (terms are always built at declaration level).
func (p *Prog) declFnOf(fn *Fn) *Fn {
	if fn.Decl != nil {
		return fn
	}
	for _, d := range p.AllFuncs(true) {
		if d.Decl != nil && d.Pkg == fn.Pkg && d.Decl.Pos() <= fn.Lit.Pos() && fn.Lit.End() <= d.Decl.End() {
			return d
		}
	}
	return fn
}

// inline evaluates a thanos helper returning a label set: `if c { return a }` … `return b`.
func (l *lalg) inline(caller *Fn, target *Fn, call *ast.CallExpr, at token.Pos) *lt {
	env := map[types.Object]*lt{}
	renv := map[types.Object]*lrs{}
	i := 0
	tinfo := target.Info()
	for _, f := range target.Decl.Type.Params.List {
		for _, nm := range f.Names {
			if i < len(call.Args) {
				o := tinfo.Defs[nm]
				switch {
				case isLabelSetType(o.Type()):
					env[o] = l.term(caller, call.Args[i], at)
				case isNameSetType(o.Type()):
					renv[o] = l.rset(caller, call.Args[i], at)
				}
			}
			i++
		}
	}
	l.env = append(l.env, env)
	l.renv = append(l.renv, renv)
	saveSelf := l.self
	l.self = map[types.Object]*lt{}
	defer func() {
		l.env = l.env[:len(l.env)-1]
		l.renv = l.renv[:len(l.renv)-1]
		l.self = saveSelf
	}()
	return l.returns(target, target.Decl.Body.List)
}

func (l *lalg) returns(fn *Fn, list []ast.Stmt) *lt {
	for i, s := range list {
		switch v := s.(type) {
		case *ast.ReturnStmt:
			if len(v.Results) != 1 {
				return lunk("%s returns %d values", fn.Name, len(v.Results))
			}
			return l.term(fn, v.Results[0], v.Pos())
		case *ast.IfStmt:
			if v.Else == nil && v.Init == nil && terminates(v.Body.List) {
				if _, isRet := v.Body.List[len(v.Body.List)-1].(*ast.ReturnStmt); isRet {
					a := l.returns(fn, v.Body.List)
					b := l.returns(fn, list[i+1:])
					return &lt{k: ltAlt, c: l.cond(fn, v.Cond, v.Pos()), x: a, y: b}
				}
			}
		}
	}
	return lunk("%s has no final return of a label set", fn.Name)
}

// cond classifies a condition.
func (l *lalg) cond(fn *Fn, e ast.Expr, at token.Pos) *lcond {
	info := fn.Info()
	e = unparen(e)
	if u, ok := e.(*ast.UnaryExpr); ok && u.Op == token.NOT {
		c := l.cond(fn, u.X, at)
		c.neg = !c.neg
		return c
	}
	unknown := &lcond{kind: "unknown", key: fn.Name + ":" + canon(e)}
	lenOf := func(x ast.Expr) ast.Expr {
		if c, ok := unparen(x).(*ast.CallExpr); ok && len(c.Args) == 1 {
			if id, ok := c.Fun.(*ast.Ident); ok && id.Name == "len" {
				return c.Args[0]
			}
		}
		return nil
	}
	isZero := func(x ast.Expr) bool { v, ok := constInt(info, x); return ok && v == 0 }
	switch v := e.(type) {
	case *ast.BinaryExpr:
		x, y, op := v.X, v.Y, v.Op
		if lenOf(y) != nil && isZero(x) { // 0 < len(R)
			x, y = y, x
			switch op {
			case token.LSS:
				op = token.GTR
			case token.GTR:
				op = token.LSS
			}
		}
		if a := lenOf(x); a != nil && isZero(y) && isNameSetType(info.TypeOf(a)) {
			if r := l.rset(fn, a, at); r.known {
				switch op {
				case token.GTR, token.NEQ:
					return &lcond{kind: "Rnonempty"}
				case token.EQL, token.LEQ:
					return &lcond{kind: "Rnonempty", neg: true}
				}
			}
			return unknown
		}
		if isNil(info, y) && isNameSetType(info.TypeOf(x)) {
			if r := l.rset(fn, x, at); r.known {
				switch op {
				case token.NEQ:
					return &lcond{kind: "Rnonnil"}
				case token.EQL:
					return &lcond{kind: "Rnonnil", neg: true}
				}
			}
		}
	case *ast.CallExpr:
		if sel, ok := unparen(v.Fun).(*ast.SelectorExpr); ok && sel.Sel.Name == "IsEmpty" && isLabelSetType(info.TypeOf(sel.X)) {
			return &lcond{kind: "isEmpty", t: l.term(fn, sel.X, at)}
		}
	}
	return unknown
}

// rset resolves a name set.
func (l *lalg) rset(fn *Fn, e ast.Expr, at token.Pos) *lrs {
	info := fn.Info()
	e = unparen(e)
	if isNil(info, e) {
		return &lrs{empty: true, text: "nil"}
	}
	switch v := e.(type) {
	case *ast.SelectorExpr:
		if v.Sel.Name == "WithoutReplicaLabels" {
			if fo, ok := info.Uses[v.Sel].(*types.Var); ok && fo.IsField() && fo.Pkg() != nil && strings.HasSuffix(fo.Pkg().Path(), "/storepb") {
				return &lrs{known: true, text: canon(e)}
			}
		}
		if fo, ok := info.Uses[v.Sel].(*types.Var); ok && fo.IsField() {
			inits := l.fieldInits(fn, fo)
			if len(inits) == 0 {
				return &lrs{text: canon(e) + " (no initialiser found)"}
			}
			for _, in := range inits {
				if r := l.rset(in.fn, in.val, in.val.Pos()); !r.known {
					return &lrs{text: canon(e) + " ← " + r.text}
				}
			}
			return &lrs{known: true, text: canon(e)}
		}
	case *ast.Ident:
		o := objOf(info, v)
		if o == nil {
			break
		}
		for i := len(l.renv) - 1; i >= 0; i-- {
			if r, ok := l.renv[i][o]; ok {
				return r
			}
		}
		if pi := paramIndex(fn, o); pi >= 0 {
			sites := l.callersOf(fn)
			if len(sites) == 0 {
				return &lrs{text: v.Name + " (parameter without call site)"}
			}
			for _, s := range sites {
				if pi >= len(s.Call.Args) {
					return &lrs{text: v.Name}
				}
				if r := l.rset(l.p.declFnOf(s.Fn), s.Call.Args[pi], s.Call.Pos()); !r.known {
					return &lrs{text: v.Name + " ← " + r.text + " at " + l.p.Pos(s.Call.Pos())}
				}
			}
			return &lrs{known: true, text: v.Name}
		}
		return l.localNameSet(fn, o)
	}
	return &lrs{text: canon(e)}
}

// localNameSet: a local map/slice is the request's replica-label set when its only writes are
// `m[l] = struct{}{}` (or append(m, l)) inside `for _, l := range <known set>` plus empty initialisers.
func (l *lalg) localNameSet(fn *Fn, o types.Object) *lrs {
	info := fn.Info()
	if l.busy == nil {
		l.busy = map[types.Object]bool{}
	}
	if l.busy[o] {
		return &lrs{text: o.Name() + " (defined in terms of itself)"}
	}
	l.busy[o] = true
	defer delete(l.busy, o)
	filled, bad := false, ""
	var walk func(n ast.Node, rangeVars map[types.Object]bool)
	walk = func(n ast.Node, rangeVars map[types.Object]bool) {
		ast.Inspect(n, func(x ast.Node) bool {
			switch s := x.(type) {
			case *ast.RangeStmt:
				if x == n {
					return true
				}
				rv := map[types.Object]bool{}
				for k := range rangeVars {
					rv[k] = true
				}
				if r := l.rset(fn, s.X, s.Pos()); r.known {
					for _, kv := range []ast.Expr{s.Key, s.Value} {
						if kv != nil {
							if ko := objOf(info, kv); ko != nil {
								rv[ko] = true
							}
						}
					}
				}
				walk(s.Body, rv)
				return false
			case *ast.AssignStmt:
				for i, lh := range s.Lhs {
					lh = unparen(lh)
					if ix, ok := lh.(*ast.IndexExpr); ok && objOf(info, ix.X) == o {
						if ko := objOf(info, ix.Index); ko != nil && rangeVars[ko] {
							filled = true
						} else {
							bad = "element written with a key that is not a replica label at " + l.p.Pos(s.Pos())
						}
						continue
					}
					if objOf(info, lh) != o {
						continue
					}
					if i >= len(s.Rhs) {
						bad = "assigned from a call at " + l.p.Pos(s.Pos())
						continue
					}
					r := unparen(s.Rhs[i])
					switch rv := r.(type) {
					case *ast.CompositeLit:
						if len(rv.Elts) != 0 {
							bad = "initialised with elements at " + l.p.Pos(s.Pos())
						}
					case *ast.CallExpr:
						if id, ok := rv.Fun.(*ast.Ident); ok && id.Name == "make" {
							continue
						}
						if id, ok := rv.Fun.(*ast.Ident); ok && id.Name == "append" && len(rv.Args) == 2 && objOf(info, rv.Args[0]) == o {
							if ko := objOf(info, rv.Args[1]); ko != nil && rangeVars[ko] {
								filled = true
								continue
							}
						}
						bad = "assigned from " + canon(r) + " at " + l.p.Pos(s.Pos())
					default:
						if !isNil(info, r) {
							bad = "assigned from " + canon(r) + " at " + l.p.Pos(s.Pos())
						}
					}
				}
			}
			return true
		})
	}
	walk(fn.Body(), map[types.Object]bool{})
	switch {
	case bad != "":
		return &lrs{text: o.Name() + ": " + bad}
	case !filled:
		return &lrs{text: o.Name() + " is never filled from WithoutReplicaLabels"}
	}
	return &lrs{known: true, text: o.Name()}
}

// ---------------------------------------------------------------------------------------------
// sequential interpretation of one variable / builder up to a program point

type simFx struct {
	// leaf interprets a statement that does not contain the target position.
	leaf func(s ast.Stmt, st *lt) (*lt, bool)
	// rangeDef is called when descending into a range statement that contains the position.
	rangeDef func(s *ast.RangeStmt, st *lt) *lt
	// touches reports whether a node writes/uses the tracked object in a way leaf did not interpret.
	touches func(n ast.Node) bool
}

func posIn(n ast.Node, pos token.Pos) bool { return n != nil && n.Pos() <= pos && pos < n.End() }

func (l *lalg) simUpTo(fn *Fn, list []ast.Stmt, pos token.Pos, st *lt, fx *simFx) (*lt, bool) {
	for _, s := range list {
		if !posIn(s, pos) {
			st = l.effect(fn, s, st, fx)
			continue
		}
		return l.descend(fn, s, pos, st, fx), true
	}
	return st, false
}

func (l *lalg) descend(fn *Fn, s ast.Stmt, pos token.Pos, st *lt, fx *simFx) *lt {
	switch v := s.(type) {
	case *ast.BlockStmt:
		r, _ := l.simUpTo(fn, v.List, pos, st, fx)
		return r
	case *ast.LabeledStmt:
		return l.descend(fn, v.Stmt, pos, st, fx)
	case *ast.IfStmt:
		if v.Init != nil {
			if posIn(v.Init, pos) {
				return st
			}
			st = l.effect(fn, v.Init, st, fx)
		}
		switch {
		case posIn(v.Body, pos):
			return l.descend(fn, v.Body, pos, st, fx)
		case v.Else != nil && posIn(v.Else, pos):
			return l.descend(fn, v.Else, pos, st, fx)
		}
		return st
	case *ast.ForStmt:
		if v.Init != nil && !posIn(v.Init, pos) {
			st = l.effect(fn, v.Init, st, fx)
		}
		if posIn(v.Body, pos) {
			return l.descend(fn, v.Body, pos, l.loopEntry(fn, v.Body, st, fx), fx)
		}
		return st
	case *ast.RangeStmt:
		if posIn(v.Body, pos) {
			st = l.loopEntry(fn, v.Body, st, fx)
			if fx.rangeDef != nil {
				st = fx.rangeDef(v, st)
			}
			return l.descend(fn, v.Body, pos, st, fx)
		}
		return st
	case *ast.SwitchStmt:
		return l.descendClauses(fn, v.Body, pos, st, fx)
	case *ast.TypeSwitchStmt:
		return l.descendClauses(fn, v.Body, pos, st, fx)
	case *ast.SelectStmt:
		return l.descendClauses(fn, v.Body, pos, st, fx)
	}
	// simple statement containing pos: maybe inside a function literal
	var lit *ast.FuncLit
	ast.Inspect(s, func(n ast.Node) bool {
		if fl, ok := n.(*ast.FuncLit); ok && posIn(fl.Body, pos) {
			lit = fl
		}
		return true
	})
	if lit != nil {
		r, _ := l.simUpTo(fn, lit.Body.List, pos, st, fx)
		return r
	}
	return st
}

func (l *lalg) descendClauses(fn *Fn, body *ast.BlockStmt, pos token.Pos, st *lt, fx *simFx) *lt {
	for _, c := range body.List {
		if !posIn(c, pos) {
			continue
		}
		switch cc := c.(type) {
		case *ast.CaseClause:
			r, _ := l.simUpTo(fn, cc.Body, pos, st, fx)
			return r
		case *ast.CommClause:
			r, _ := l.simUpTo(fn, cc.Body, pos, st, fx)
			return r
		}
	}
	return st
}

// loopEntry: the state at the head of a loop body is the state before the loop only when the body
// does not carry a modification around the back edge; otherwise it is the join, which we refuse to guess
// unless the body re-initialises the object before any use (handled by the leaf interpreting Reset/define).
func (l *lalg) loopEntry(fn *Fn, body *ast.BlockStmt, st *lt, fx *simFx) *lt {
	after := l.simAll(fn, body.List, st, fx)
	if after == st || (after != nil && st != nil && after.String() == st.String()) {
		return st
	}
	// modified in the body: fine if the first statement touching the object re-initialises it
	probe := &lt{k: ltUnk, text: "value carried around the loop"}
	after2 := l.simAll(fn, body.List, probe, fx)
	if after2 != nil && !strings.Contains(after2.String(), probe.text) {
		return probe // never read before re-initialisation
	}
	return probe
}

func (l *lalg) simAll(fn *Fn, list []ast.Stmt, st *lt, fx *simFx) *lt {
	for _, s := range list {
		st = l.effect(fn, s, st, fx)
	}
	return st
}

func (l *lalg) effect(fn *Fn, s ast.Stmt, st *lt, fx *simFx) *lt {
	if n, ok := fx.leaf(s, st); ok {
		return n
	}
	same := func(a, b *lt) bool { return a == b || (a != nil && b != nil && a.String() == b.String()) }
	switch v := s.(type) {
	case *ast.BlockStmt:
		return l.simAll(fn, v.List, st, fx)
	case *ast.LabeledStmt:
		return l.effect(fn, v.Stmt, st, fx)
	case *ast.IfStmt:
		if v.Init != nil {
			st = l.effect(fn, v.Init, st, fx)
		}
		thenSt := l.simAll(fn, v.Body.List, st, fx)
		elseSt := st
		if v.Else != nil {
			elseSt = l.effect(fn, v.Else, st, fx)
		}
		if terminates(v.Body.List) {
			return elseSt
		}
		if eb, ok := v.Else.(*ast.BlockStmt); ok && terminates(eb.List) {
			return thenSt
		}
		if same(thenSt, elseSt) {
			return thenSt
		}
		return &lt{k: ltAlt, c: l.cond(fn, v.Cond, v.Pos()), x: thenSt, y: elseSt}
	case *ast.ForStmt:
		after := l.simAll(fn, v.Body.List, st, fx)
		if same(after, st) {
			return st
		}
		return lunk("modified in the loop at %s", l.p.Pos(v.Pos()))
	case *ast.RangeStmt:
		after := l.simAll(fn, v.Body.List, st, fx)
		if same(after, st) {
			return st
		}
		return lunk("modified in the loop at %s", l.p.Pos(v.Pos()))
	case *ast.SwitchStmt, *ast.TypeSwitchStmt, *ast.SelectStmt:
		if fx.touches(s) {
			return lunk("modified in the switch at %s", l.p.Pos(s.Pos()))
		}
		return st
	}
	if fx.touches(s) {
		return lunk("statement at %s not understood", l.p.Pos(s.Pos()))
	}
	return st
}

// varAt: the term of local variable o at position pos.
func (l *lalg) varAt(fn *Fn, o types.Object, pos token.Pos) *lt {
	info := fn.Info()
	assigns := func(n ast.Node) bool {
		found := false
		ast.Inspect(n, func(x ast.Node) bool {
			switch s := x.(type) {
			case *ast.AssignStmt:
				for _, lh := range s.Lhs {
					if objOf(info, lh) == o {
						found = true
					}
				}
			case *ast.ValueSpec:
				for _, nm := range s.Names {
					if info.Defs[nm] == o {
						found = true
					}
				}
			case *ast.RangeStmt:
				if (s.Key != nil && objOf(info, s.Key) == o) || (s.Value != nil && objOf(info, s.Value) == o) {
					found = true
				}
			}
			return !found
		})
		return found
	}
	fx := &simFx{
		touches: assigns,
		rangeDef: func(s *ast.RangeStmt, st *lt) *lt {
			if (s.Key != nil && objOf(info, s.Key) == o) || (s.Value != nil && objOf(info, s.Value) == o) {
				return &lt{k: ltS, text: "element of " + canon(s.X)}
			}
			return st
		},
	}
	fx.leaf = func(s ast.Stmt, st *lt) (*lt, bool) {
		switch v := s.(type) {
		case *ast.AssignStmt:
			for i, lh := range v.Lhs {
				if objOf(info, lh) != o {
					continue
				}
				if len(v.Lhs) != len(v.Rhs) {
					return &lt{k: ltS, text: canon(v.Rhs[0])}, true
				}
				save := l.self
				l.self = map[types.Object]*lt{}
				for k, t := range save {
					l.self[k] = t
				}
				if st != nil {
					l.self[o] = st
				}
				t := l.term(fn, v.Rhs[i], v.Pos())
				l.self = save
				return t, true
			}
		case *ast.DeclStmt:
			if gd, ok := v.Decl.(*ast.GenDecl); ok {
				for _, sp := range gd.Specs {
					vs, ok := sp.(*ast.ValueSpec)
					if !ok {
						continue
					}
					for i, nm := range vs.Names {
						if info.Defs[nm] == o {
							if i < len(vs.Values) {
								return l.term(fn, vs.Values[i], v.Pos()), true
							}
							return &lt{k: ltEmpty}, true
						}
					}
				}
			}
		}
		return st, false
	}
	st, _ := l.simUpTo(fn, fn.Body().List, pos, nil, fx)
	if st == nil {
		return lunk("variable %s has no definition before %s", o.Name(), l.p.Pos(pos))
	}
	return st
}

// builderAt: the label set held by labels.Builder variable o at position pos.
func (l *lalg) builderAt(fn *Fn, o types.Object, pos token.Pos) *lt {
	info := fn.Info()
	uses := func(n ast.Node) bool {
		found := false
		ast.Inspect(n, func(x ast.Node) bool {
			if id, ok := x.(*ast.Ident); ok && (info.Uses[id] == o || info.Defs[id] == o) {
				found = true
			}
			return !found
		})
		return found
	}
	// method call on the builder: b.M(args)
	bcall := func(e ast.Expr) (string, *ast.CallExpr) {
		c, ok := unparen(e).(*ast.CallExpr)
		if !ok {
			return "", nil
		}
		sel, ok := unparen(c.Fun).(*ast.SelectorExpr)
		if !ok || objOf(info, sel.X) != o {
			return "", nil
		}
		return sel.Sel.Name, c
	}
	singleCall := func(body *ast.BlockStmt) (string, *ast.CallExpr) {
		if body == nil || len(body.List) != 1 {
			return "", nil
		}
		es, ok := body.List[0].(*ast.ExprStmt)
		if !ok {
			return "", nil
		}
		return bcall(es.X)
	}
	fx := &simFx{touches: uses}
	fx.leaf = func(s ast.Stmt, st *lt) (*lt, bool) {
		switch v := s.(type) {
		case *ast.AssignStmt:
			for i, lh := range v.Lhs {
				if objOf(info, lh) == o && i < len(v.Rhs) {
					if c, ok := unparen(v.Rhs[i]).(*ast.CallExpr); ok {
						if f := calleeOf(info, c); f != nil && f.Name() == "NewBuilder" && len(c.Args) == 1 {
							return l.term(fn, c.Args[0], v.Pos()), true
						}
					}
					return lunk("builder assigned from %s", canon(v.Rhs[i])), true
				}
			}
		case *ast.DeclStmt:
			if uses(v) {
				return lunk("builder %s used before Reset", o.Name()), true
			}
		case *ast.ExprStmt:
			if m, c := bcall(v.X); c != nil {
				switch m {
				case "Reset":
					if len(c.Args) == 1 {
						return l.term(fn, c.Args[0], v.Pos()), true
					}
				case "Del":
					if c.Ellipsis.IsValid() && len(c.Args) == 1 {
						return &lt{k: ltRm, x: st, r: l.rset(fn, c.Args[0], v.Pos())}, true
					}
					return &lt{k: ltRm, x: st, r: &lrs{text: "explicit names " + canon(c)}}, true
				}
				return lunk("builder call %s not understood", canon(c)), true
			}
			// X.Range(func(l labels.Label) { b.Set(l.Name, l.Value) })
			if c, ok := unparen(v.X).(*ast.CallExpr); ok && len(c.Args) == 1 {
				if sel, ok := unparen(c.Fun).(*ast.SelectorExpr); ok && sel.Sel.Name == "Range" && isLabelSetType(info.TypeOf(sel.X)) {
					if lit, ok := unparen(c.Args[0]).(*ast.FuncLit); ok {
						if m, sc := singleCall(lit.Body); m == "Set" && len(sc.Args) == 2 && len(lit.Type.Params.List) == 1 && len(lit.Type.Params.List[0].Names) == 1 {
							pn := lit.Type.Params.List[0].Names[0].Name
							if canon(sc.Args[0]) == pn+".Name" && canon(sc.Args[1]) == pn+".Value" {
								return &lt{k: ltExt, x: st, y: l.term(fn, sel.X, v.Pos())}, true
							}
						}
						if uses(lit) {
							return lunk("builder modified in callback at %s", l.p.Pos(v.Pos())), true
						}
					}
				}
			}
		case *ast.RangeStmt:
			m, sc := singleCall(v.Body)
			if sc == nil {
				return st, false
			}
			switch {
			case m == "Set" && len(sc.Args) == 2 && v.Key != nil && v.Value != nil && isLabelSetType(info.TypeOf(v.X)) &&
				sameObjExpr(info, sc.Args[0], v.Key) && sameObjExpr(info, sc.Args[1], v.Value):
				return &lt{k: ltExt, x: st, y: l.term(fn, v.X, v.Pos())}, true
			case m == "Del" && len(sc.Args) == 1 && isNameSetType(info.TypeOf(v.X)):
				_, isMap := info.TypeOf(v.X).Underlying().(*types.Map)
				if (isMap && v.Key != nil && sameObjExpr(info, sc.Args[0], v.Key)) || (!isMap && v.Value != nil && sameObjExpr(info, sc.Args[0], v.Value)) {
					return &lt{k: ltRm, x: st, r: l.rset(fn, v.X, v.Pos())}, true
				}
			}
			return lunk("builder loop at %s not understood", l.p.Pos(v.Pos())), true
		}
		return st, false
	}
	st, _ := l.simUpTo(fn, fn.Body().List, pos, nil, fx)
	if st == nil {
		return lunk("builder %s is not initialised before %s", o.Name(), l.p.Pos(pos))
	}
	return st
}
