package main

import (
	"fmt"
	"go/ast"
	"go/token"
	"go/types"
	"sort"
	"strings"
)

// Length-domain abstract interpretation (part of E9): a statement list that manipulates slices
// is read in the abstract domain "length of each slice / value of each integer variable".
// Conditions that do not depend on lengths are explored both ways (nondeterministic choice).
// The interpreter evaluates the *extracted* length arithmetic for every small initial assignment;
// it never executes thanos code (no element values, no calls).

type lenState struct {
	v map[string]int64 // canonical expr text -> length (slices) or value (ints)
}

func (s lenState) clone() lenState {
	n := lenState{v: make(map[string]int64, len(s.v))}
	for k, x := range s.v {
		n.v[k] = x
	}
	return n
}

type lenInterp struct {
	p       *Prog
	fn      *Fn
	info    *types.Info
	slices  map[string]bool // tracked slice expressions
	atoms   func(text string) string
	check   func(s lenState, at ast.Node) string // invariant; "" = ok
	finals  []lenState
	viol    string
	violPos token.Pos
	steps   int
	shrinks []string // descriptions of shrinking operations seen ("q.queue[d:]")
	grows   []string
	unknown []string
}

func canon(e ast.Expr) string { return strings.ReplaceAll(exprString(unparen(e)), " ", "") }

func (li *lenInterp) evalInt(e ast.Expr, s lenState) (int64, bool) {
	e = unparen(e)
	if c, ok := constInt(li.info, e); ok {
		return c, true
	}
	switch e.(type) {
	case *ast.Ident, *ast.SelectorExpr:
		if a := li.atoms(canon(e)); a != "" {
			v, ok := s.v[a]
			return v, ok
		}
	}
	switch x := e.(type) {
	case *ast.Ident:
		v, ok := s.v[x.Name]
		return v, ok
	case *ast.CallExpr:
		if arg := lenArg(li.info, x); arg != nil {
			v, ok := s.v[canon(arg)]
			return v, ok
		}
		if id, ok := x.Fun.(*ast.Ident); ok {
			if _, isB := li.info.Uses[id].(*types.Builtin); isB {
				switch {
				case id.Name == "copy" && len(x.Args) == 2:
					a, ok1 := s.v[canon(x.Args[0])]
					b, ok2 := s.v[canon(x.Args[1])]
					if ok1 && ok2 {
						if a < b {
							return a, true
						}
						return b, true
					}
					return 0, false
				case id.Name == "make" && len(x.Args) >= 2:
					return li.evalInt(x.Args[1], s)
				case id.Name == "min" || id.Name == "max":
					best, have := int64(0), false
					for _, a := range x.Args {
						v, ok := li.evalInt(a, s)
						if !ok {
							return 0, false
						}
						if !have || (id.Name == "min" && v < best) || (id.Name == "max" && v > best) {
							best, have = v, true
						}
					}
					return best, have
				}
			}
		}
		if tv, ok := li.info.Types[x.Fun]; ok && tv.IsType() && len(x.Args) == 1 {
			return li.evalInt(x.Args[0], s)
		}
	case *ast.BinaryExpr:
		a, ok1 := li.evalInt(x.X, s)
		b, ok2 := li.evalInt(x.Y, s)
		if !ok1 || !ok2 {
			return 0, false
		}
		switch x.Op {
		case token.ADD:
			return a + b, true
		case token.SUB:
			return a - b, true
		case token.MUL:
			return a * b, true
		case token.QUO:
			if b == 0 {
				return 0, false
			}
			return a / b, true
		case token.REM:
			if b == 0 {
				return 0, false
			}
			return a % b, true
		}
	case *ast.ParenExpr:
		return li.evalInt(x.X, s)
	case *ast.SelectorExpr:
		v, ok := s.v[canon(x)]
		return v, ok
	}
	return 0, false
}

// evalCond: (value, known)
func (li *lenInterp) evalCond(e ast.Expr, s lenState) (bool, bool) {
	e = unparen(e)
	switch x := e.(type) {
	case *ast.UnaryExpr:
		if x.Op == token.NOT {
			v, k := li.evalCond(x.X, s)
			return !v, k
		}
	case *ast.BinaryExpr:
		switch x.Op {
		case token.LAND:
			a, ka := li.evalCond(x.X, s)
			b, kb := li.evalCond(x.Y, s)
			if ka && !a || kb && !b {
				return false, true
			}
			return a && b, ka && kb
		case token.LOR:
			a, ka := li.evalCond(x.X, s)
			b, kb := li.evalCond(x.Y, s)
			if ka && a || kb && b {
				return true, true
			}
			return a || b, ka && kb
		case token.LSS, token.LEQ, token.GTR, token.GEQ, token.EQL, token.NEQ:
			a, ok1 := li.evalInt(x.X, s)
			b, ok2 := li.evalInt(x.Y, s)
			if !ok1 || !ok2 {
				return false, false
			}
			switch x.Op {
			case token.LSS:
				return a < b, true
			case token.LEQ:
				return a <= b, true
			case token.GTR:
				return a > b, true
			case token.GEQ:
				return a >= b, true
			case token.EQL:
				return a == b, true
			case token.NEQ:
				return a != b, true
			}
		}
	}
	return false, false
}

// run executes stmts from state s; returns the states that fall through.
func (li *lenInterp) run(list []ast.Stmt, s lenState) []lenState {
	cur := []lenState{s}
	for _, st := range list {
		var next []lenState
		for _, c := range cur {
			next = append(next, li.stmt(st, c)...)
			if li.viol != "" {
				return nil
			}
		}
		cur = next
		if len(cur) > 4096 {
			li.viol, li.violPos = "too many abstract paths", st.Pos()
			return nil
		}
	}
	return cur
}

func (li *lenInterp) fail(n ast.Node, s lenState, msg string) {
	if li.viol == "" {
		var ks []string
		for k, v := range s.v {
			ks = append(ks, fmt.Sprintf("%s=%d", k, v))
		}
		sort.Strings(ks)
		li.viol, li.violPos = msg+" at abstract state {"+strings.Join(ks, " ")+"}", n.Pos()
	}
}

func (li *lenInterp) stmt(st ast.Stmt, s lenState) []lenState {
	li.steps++
	switch v := st.(type) {
	case *ast.ReturnStmt:
		li.finals = append(li.finals, s)
		if msg := li.check(s, v); msg != "" {
			li.fail(v, s, msg)
		}
		return nil
	case *ast.BlockStmt:
		return li.run(v.List, s)
	case *ast.IfStmt:
		if v.Init != nil {
			out := li.stmt(v.Init, s)
			if len(out) != 1 {
				return out
			}
			s = out[0]
		}
		val, known := li.evalCond(v.Cond, s)
		var res []lenState
		if !known || val {
			res = append(res, li.run(v.Body.List, s.clone())...)
		}
		if !known || !val {
			if v.Else != nil {
				res = append(res, li.stmt(v.Else, s.clone())...)
			} else {
				res = append(res, s)
			}
		}
		return res
	case *ast.RangeStmt:
		n, ok := s.v[canon(v.X)]
		if !ok {
			li.unknown = append(li.unknown, "range over untracked "+canon(v.X))
			return []lenState{s}
		}
		cur := []lenState{s}
		for i := int64(0); i < n; i++ {
			var next []lenState
			for _, c := range cur {
				next = append(next, li.run(v.Body.List, c)...)
			}
			cur = next
		}
		return cur
	case *ast.AssignStmt:
		out := s.clone()
		for i, l := range v.Lhs {
			if i >= len(v.Rhs) && len(v.Rhs) != 1 {
				break
			}
			lhs := canon(l)
			switch unparen(l).(type) {
			case *ast.Ident, *ast.SelectorExpr:
				if a := li.atoms(lhs); a != "" {
					lhs = a
				}
			}
			if len(v.Lhs) != len(v.Rhs) {
				// tuple assignment from a call: results unknown
				delete(out.v, lhs)
				continue
			}
			if v.Tok != token.ASSIGN && v.Tok != token.DEFINE {
				old, ok1 := li.evalInt(l, s)
				rv, ok2 := li.evalInt(v.Rhs[i], s)
				if !ok1 || !ok2 {
					delete(out.v, lhs)
					continue
				}
				switch v.Tok {
				case token.ADD_ASSIGN:
					out.v[lhs] = old + rv
				case token.SUB_ASSIGN:
					out.v[lhs] = old - rv
				case token.MUL_ASSIGN:
					out.v[lhs] = old * rv
				default:
					delete(out.v, lhs)
				}
				continue
			}
			r := unparen(v.Rhs[i])
			tracked := li.slices[lhs]
			switch x := r.(type) {
			case *ast.SliceExpr:
				base := canon(x.X)
				bl, ok := s.v[base]
				if !ok {
					if tracked {
						li.fail(v, s, "slice of untracked "+base)
					}
					continue
				}
				lo, hi := int64(0), bl
				if x.Low != nil {
					lv, ok := li.evalInt(x.Low, s)
					if !ok {
						li.fail(v, s, "slice bound "+canon(x.Low)+" not understood")
						return nil
					}
					lo = lv
				}
				if x.High != nil {
					hv, ok := li.evalInt(x.High, s)
					if !ok {
						li.fail(v, s, "slice bound "+canon(x.High)+" not understood")
						return nil
					}
					hi = hv
				}
				if lo < 0 || hi < lo || hi > bl {
					li.fail(v, s, fmt.Sprintf("slice bounds out of range: %s with len %d", canon(r), bl))
					return nil
				}
				out.v[lhs] = hi - lo
				if tracked || li.slices[base] {
					li.slices[lhs] = true
					if x.Low != nil && x.High == nil {
						li.shrinks = append(li.shrinks, lhs+"=front-drop:"+canon(r))
					} else {
						li.shrinks = append(li.shrinks, lhs+"=other-slice:"+canon(r))
					}
				}
			case *ast.CallExpr:
				if id, ok := x.Fun.(*ast.Ident); ok && id.Name == "append" && len(x.Args) >= 1 {
					base := canon(x.Args[0])
					bl, ok := s.v[base]
					if !ok {
						if isNil(li.info, x.Args[0]) {
							bl = 0
						} else if tracked {
							li.fail(v, s, "append to untracked "+base)
							return nil
						} else {
							continue
						}
					}
					add := int64(len(x.Args) - 1)
					if x.Ellipsis.IsValid() {
						al, ok := s.v[canon(x.Args[1])]
						if !ok {
							li.fail(v, s, "append of untracked "+canon(x.Args[1]))
							return nil
						}
						add = al
					}
					out.v[lhs] = bl + add
					if tracked || li.slices[base] {
						li.slices[lhs] = true
						if base == lhs {
							li.grows = append(li.grows, lhs+"=append-back")
						} else {
							li.grows = append(li.grows, lhs+"=append-to-other:"+base)
						}
					}
					continue
				}
				if iv, ok := li.evalInt(r, s); ok {
					out.v[lhs] = iv
				} else {
					delete(out.v, lhs)
				}
			default:
				if bl, ok := s.v[canon(r)]; ok {
					out.v[lhs] = bl
					if li.slices[canon(r)] {
						li.slices[lhs] = true
					}
				} else if iv, ok := li.evalInt(r, s); ok {
					out.v[lhs] = iv
				} else if isNil(li.info, r) {
					out.v[lhs] = 0
				} else {
					if tracked {
						li.fail(v, s, "tracked slice "+lhs+" assigned from "+canon(r)+" which is not understood")
						return nil
					}
					delete(out.v, lhs)
				}
			}
		}
		if msg := li.check(out, v); msg != "" {
			// the invariant is judged at the end of the critical section (returns / end); intermediate
			// overshoot inside one statement list is allowed only if restored — we judge at exits only
			_ = msg
		}
		return []lenState{out}
	case *ast.DeclStmt:
		out := s.clone()
		if gd, ok := v.Decl.(*ast.GenDecl); ok {
			for _, sp := range gd.Specs {
				if vs, ok := sp.(*ast.ValueSpec); ok {
					for i, nm := range vs.Names {
						if i < len(vs.Values) {
							if iv, ok := li.evalInt(vs.Values[i], s); ok {
								out.v[nm.Name] = iv
							}
						} else if _, isSlice := li.info.Defs[nm].Type().Underlying().(*types.Slice); isSlice {
							out.v[nm.Name] = 0
						}
					}
				}
			}
		}
		return []lenState{out}
	case *ast.IncDecStmt:
		out := s.clone()
		name := canon(v.X)
		switch unparen(v.X).(type) {
		case *ast.Ident, *ast.SelectorExpr:
			if a := li.atoms(name); a != "" {
				name = a
			}
		}
		if old, ok := li.evalInt(v.X, s); ok {
			if v.Tok == token.INC {
				out.v[name] = old + 1
			} else {
				out.v[name] = old - 1
			}
		} else {
			delete(out.v, name)
		}
		return []lenState{out}
	case *ast.ForStmt, *ast.SwitchStmt, *ast.TypeSwitchStmt:
		li.unknown = append(li.unknown, fmt.Sprintf("%T at %s", st, li.p.Pos(st.Pos())))
		return []lenState{s}
	}
	return []lenState{s}
}
