package main

import (
	"fmt"
	"go/ast"
	"go/token"
	"go/types"
	"os"
	"path/filepath"
	"sort"
	"strings"

	"golang.org/x/tools/go/packages"
	"golang.org/x/tools/go/ssa"
	"golang.org/x/tools/go/ssa/ssautil"
)

const thanosMod = "github.com/thanos-io/thanos"

var repoDir = func() string {
	if d := os.Getenv("TVC_REPO"); d != "" {
		return d
	}
	return "/repo"
}()

// Prog is one loaded, type-checked view of (part of) the repository under one
// build configuration, optionally with in-memory overlay edits (mutants).
type Prog struct {
	Tags    string
	Fset    *token.FileSet
	Roots   []*packages.Package
	ByPath  map[string]*packages.Package
	ssaProg *ssa.Program
	ssaPkgs map[string]*ssa.Package
	parents map[*ast.File]map[ast.Node]ast.Node
}

func init() {
	// go/packages looks `go` up through this process's PATH; the system go (1.23) cannot load
	// the repository (go.mod says 1.26) under GOTOOLCHAIN=local.
	os.Setenv("PATH", "/opt/veriftools/go1.26.8/bin:"+os.Getenv("PATH"))
	os.Setenv("GOWORK", "off")
	os.Setenv("GOFLAGS", "-mod=mod")
	os.Setenv("GOTOOLCHAIN", "local")
	os.Setenv("GOPROXY", "off")
	os.Setenv("GOSUMDB", "off")
}

func goEnv() []string { return os.Environ() }

// loadProg loads the given package patterns (relative to the thanos module)
// with typed syntax. Dependencies come from export data, so only the listed
// packages carry function bodies.
func loadProg(tags string, overlay map[string][]byte, patterns ...string) (*Prog, error) {
	cfg := &packages.Config{
		Mode:    packages.LoadSyntax | packages.NeedModule,
		Dir:     repoDir,
		Env:     goEnv(),
		Tests:   false,
		Overlay: overlay,
	}
	if tags != "" {
		cfg.BuildFlags = []string{"-tags=" + tags}
	}
	pats := make([]string, len(patterns))
	for i, p := range patterns {
		if strings.HasPrefix(p, "./") || strings.Contains(p, ".") && !strings.HasPrefix(p, "pkg/") && !strings.HasPrefix(p, "cmd/") && !strings.HasPrefix(p, "internal/") {
			pats[i] = p
		} else {
			pats[i] = "./" + p
		}
	}
	pkgs, err := packages.Load(cfg, pats...)
	if err != nil {
		return nil, fmt.Errorf("packages.Load: %w", err)
	}
	// canonical local names: functions that differ from their reference version only in the names of locals
	// are analysed under the reference names (see canonnames.go); one reload with the renamed sources
	if canon, n := canonicalNamesOverlay(pkgs, overlay); n > 0 {
		merged := map[string][]byte{}
		for k, v := range overlay {
			merged[k] = v
		}
		for k, v := range canon {
			merged[k] = v
		}
		cfg.Overlay = merged
		if pkgs2, err2 := packages.Load(cfg, pats...); err2 == nil {
			broken := false
			for _, pk := range pkgs2 {
				if len(pk.Errors) > 0 {
					broken = true
				}
			}
			if !broken {
				pkgs = pkgs2
			}
		}
	}
	if len(pkgs) == 0 {
		return nil, fmt.Errorf("no packages loaded for %v", pats)
	}
	p := &Prog{Tags: tags, ByPath: map[string]*packages.Package{}, parents: map[*ast.File]map[ast.Node]ast.Node{}}
	var errs []string
	for _, pk := range pkgs {
		for _, e := range pk.Errors {
			errs = append(errs, fmt.Sprintf("%s: %s", pk.PkgPath, e.Msg))
		}
		if pk.Types == nil || pk.TypesInfo == nil || len(pk.Syntax) == 0 {
			errs = append(errs, fmt.Sprintf("%s: not type-checked / no syntax", pk.PkgPath))
		}
		p.Fset = pk.Fset
		p.ByPath[pk.PkgPath] = pk
	}
	if len(errs) > 0 {
		sort.Strings(errs)
		if len(errs) > 8 {
			errs = errs[:8]
		}
		return nil, fmt.Errorf("load/type errors: %s", strings.Join(errs, "; "))
	}
	p.Roots = pkgs
	sort.Slice(p.Roots, func(i, j int) bool { return p.Roots[i].PkgPath < p.Roots[j].PkgPath })
	return p, nil
}

// Pkg returns the root package with the given thanos-relative path ("pkg/store").
func (p *Prog) Pkg(rel string) *packages.Package {
	if pk := p.ByPath[thanosMod+"/"+rel]; pk != nil {
		return pk
	}
	return p.ByPath[rel]
}

// SSA builds (once) SSA for the root packages.
func (p *Prog) SSA() *ssa.Program {
	if p.ssaProg != nil {
		return p.ssaProg
	}
	prog, pkgs := ssautil.Packages(p.Roots, ssa.InstantiateGenerics)
	prog.Build()
	p.ssaProg = prog
	p.ssaPkgs = map[string]*ssa.Package{}
	for i, sp := range pkgs {
		if sp != nil {
			p.ssaPkgs[p.Roots[i].PkgPath] = sp
		}
	}
	return prog
}

func (p *Prog) SSAPkg(rel string) *ssa.Package {
	p.SSA()
	if sp := p.ssaPkgs[thanosMod+"/"+rel]; sp != nil {
		return sp
	}
	return p.ssaPkgs[rel]
}

// Pos renders a position relative to the repository root: "pkg/x/y.go:12".
func (p *Prog) Pos(pos token.Pos) string {
	if !pos.IsValid() {
		return "?"
	}
	ps := p.Fset.Position(pos)
	rel, err := filepath.Rel(repoDir, ps.Filename)
	if err != nil || strings.HasPrefix(rel, "..") {
		rel = ps.Filename
	}
	return fmt.Sprintf("%s:%d", rel, ps.Line)
}

// Fn describes one source function (declared or literal).
type Fn struct {
	Pkg  *packages.Package
	Decl *ast.FuncDecl // nil for literals
	Lit  *ast.FuncLit
	Obj  *types.Func
	Name string // "(*Handler).receiveHTTP" or "newFoo" or "outer$lit@LINE"
}

func (f *Fn) Body() *ast.BlockStmt {
	if f.Decl != nil {
		return f.Decl.Body
	}
	return f.Lit.Body
}
func (f *Fn) Type() *ast.FuncType {
	if f.Decl != nil {
		return f.Decl.Type
	}
	return f.Lit.Type
}
func (f *Fn) Info() *types.Info { return f.Pkg.TypesInfo }
func (f *Fn) Node() ast.Node {
	if f.Decl != nil {
		return f.Decl
	}
	return f.Lit
}

func recvTypeName(fd *ast.FuncDecl) string {
	if fd.Recv == nil || len(fd.Recv.List) == 0 {
		return ""
	}
	t := fd.Recv.List[0].Type
	ptr := false
	if s, ok := t.(*ast.StarExpr); ok {
		ptr = true
		t = s.X
	}
	for {
		switch x := t.(type) {
		case *ast.IndexExpr:
			t = x.X
			continue
		case *ast.IndexListExpr:
			t = x.X
			continue
		}
		break
	}
	id, ok := t.(*ast.Ident)
	if !ok {
		return "?"
	}
	if ptr {
		return "*" + id.Name
	}
	return id.Name
}

func fnDisplayName(fd *ast.FuncDecl) string {
	r := recvTypeName(fd)
	if r == "" {
		return fd.Name.Name
	}
	return "(" + r + ")." + fd.Name.Name
}

// Func finds a declared function: rel="pkg/receive", recv="Handler" (pointer-ness ignored, ""
// for plain functions), name="receiveHTTP". Returns nil if absent.
func (p *Prog) Func(rel, recv, name string) *Fn {
	pk := p.Pkg(rel)
	if pk == nil {
		return nil
	}
	for _, f := range pk.Syntax {
		for _, d := range f.Decls {
			fd, ok := d.(*ast.FuncDecl)
			if !ok || fd.Name.Name != name || fd.Body == nil {
				continue
			}
			if strings.TrimPrefix(recvTypeName(fd), "*") != recv {
				continue
			}
			obj, _ := pk.TypesInfo.Defs[fd.Name].(*types.Func)
			return &Fn{Pkg: pk, Decl: fd, Obj: obj, Name: fnDisplayName(fd)}
		}
	}
	return nil
}

// AllFuncs returns every declared function with a body in the root packages
// (sorted by position), excluding generated protobuf/capnp files when skipGen.
func (p *Prog) AllFuncs(skipGen bool) []*Fn {
	var out []*Fn
	for _, pk := range p.Roots {
		for _, f := range pk.Syntax {
			if skipGen && isGenerated(p.Fset.Position(f.Pos()).Filename) {
				continue
			}
			for _, d := range f.Decls {
				fd, ok := d.(*ast.FuncDecl)
				if !ok || fd.Body == nil {
					continue
				}
				obj, _ := pk.TypesInfo.Defs[fd.Name].(*types.Func)
				out = append(out, &Fn{Pkg: pk, Decl: fd, Obj: obj, Name: fnDisplayName(fd)})
			}
		}
	}
	return out
}

func isGenerated(filename string) bool {
	return strings.HasSuffix(filename, ".pb.go") || strings.HasSuffix(filename, ".capnp.go")
}

// FileOf returns the syntax file containing pos.
func (p *Prog) FileOf(pk *packages.Package, pos token.Pos) *ast.File {
	for _, f := range pk.Syntax {
		if f.Pos() <= pos && pos <= f.End() {
			return f
		}
	}
	return nil
}

// Parent map (lazy, per file).
func (p *Prog) ParentOf(pk *packages.Package, n ast.Node) ast.Node {
	f := p.FileOf(pk, n.Pos())
	if f == nil {
		return nil
	}
	m := p.parents[f]
	if m == nil {
		m = map[ast.Node]ast.Node{}
		var stack []ast.Node
		ast.Inspect(f, func(x ast.Node) bool {
			if x == nil {
				stack = stack[:len(stack)-1]
				return true
			}
			if len(stack) > 0 {
				m[x] = stack[len(stack)-1]
			}
			stack = append(stack, x)
			return true
		})
		p.parents[f] = m
	}
	return m[n]
}

// Lits returns the function literals lexically inside fn (not nested ones' own nesting flattened: all).
func (p *Prog) Lits(fn *Fn) []*Fn {
	var out []*Fn
	ast.Inspect(fn.Body(), func(n ast.Node) bool {
		if l, ok := n.(*ast.FuncLit); ok {
			out = append(out, &Fn{Pkg: fn.Pkg, Lit: l, Name: fmt.Sprintf("%s$lit@%d", fn.Name, p.Fset.Position(l.Pos()).Line-p.Fset.Position(fn.Node().Pos()).Line)})
		}
		return true
	})
	return out
}
