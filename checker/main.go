package main

import (
	"encoding/json"
	"fmt"
	"os"
	"path/filepath"
	"runtime"
	"runtime/debug"
	"sort"
	"strconv"
	"strings"
	"time"
)

// Property is one entry of the registry: the rules deciding the claimed clauses of a property.
type Property struct {
	ID      string
	Title   string
	Explain string   // the rules applied, in words
	Assume  []string // trusted base / assumptions
	Run     func(c *Ctx)
}

var registry = map[string]*Property{}

func register(p *Property) { registry[p.ID] = p }

func usage() {
	fmt.Fprintln(os.Stderr, "usage: tvc check <Cxx> [--tier quick|thorough] | tvc all [--tier t] | tvc explain <replay.json> | tvc selftest [Cxx...] | tvc list")
	os.Exit(2)
}

func main() {
	if len(os.Args) < 2 {
		usage()
	}
	debug.SetGCPercent(200)
	switch os.Args[1] {
	case "list":
		for _, id := range sortedIDs() {
			fmt.Printf("%s\t%s\n", id, registry[id].Title)
		}
	case "check":
		if len(os.Args) < 3 {
			usage()
		}
		id := os.Args[2]
		tier := parseTier(os.Args[3:])
		os.Exit(runCheck(id, tier))
	case "all":
		tier := parseTier(os.Args[2:])
		rc := 0
		for _, id := range sortedIDs() {
			if r := runCheck(id, tier); r != 0 {
				rc = 1
			}
		}
		os.Exit(rc)
	case "benign":
		ids := os.Args[2:]
		if len(ids) == 0 {
			ids = sortedIDs()
		}
		rc := 0
		for _, id := range ids {
			p := registry[id]
			if p == nil {
				fmt.Printf("unknown property %s\n", id)
				rc = 1
				continue
			}
			for _, m := range runBenign(p, "slicelabels") {
				fmt.Printf("%s benign %-36s %s  %s\n", id, m.ID, m.Verdict, m.Detail)
				if m.Verdict == "ALARM" {
					rc = 1
				}
			}
		}
		os.Exit(rc)
	case "equiv":
		ids := os.Args[2:]
		if len(ids) == 0 {
			ids = sortedIDs()
		}
		rc := 0
		for _, id := range ids {
			p := registry[id]
			if p == nil {
				fmt.Printf("unknown property %s\n", id)
				rc = 1
				continue
			}
			for _, m := range runEquiv(p, "slicelabels", "incdec", "cmpflip") {
				fmt.Printf("%s %-14s %s  %s\n", id, m.ID, m.Verdict, m.Detail)
				if m.Verdict == "ALARM" || m.Verdict == "BROKEN" {
					rc = 1
				}
			}
			runtime.GC()
		}
		os.Exit(rc)
	case "names-ref":
		// regenerate the naming reference from the tree under analysis (run on the tree the rules were confirmed on)
		if err := writeNamesRef(); err != nil {
			fmt.Println("names-ref:", err)
			os.Exit(1)
		}
		os.Exit(0)
	case "alpha":
		ids := os.Args[2:]
		if len(ids) == 0 {
			ids = sortedIDs()
		}
		rc := 0
		for _, id := range ids {
			p := registry[id]
			if p == nil {
				fmt.Printf("unknown property %s\n", id)
				rc = 1
				continue
			}
			for _, m := range runAlpha(p, "slicelabels", "suffix", "opaque") {
				fmt.Printf("%s %-14s %s  %s\n", id, m.ID, m.Verdict, m.Detail)
				if m.Verdict == "ALARM" || m.Verdict == "BROKEN" {
					rc = 1
				}
			}
			runtime.GC()
		}
		os.Exit(rc)
	case "selftest":
		ids := os.Args[2:]
		if len(ids) == 0 {
			ids = sortedIDs()
		}
		rc := 0
		for _, id := range ids {
			p := registry[id]
			if p == nil {
				fmt.Printf("unknown property %s\n", id)
				rc = 1
				continue
			}
			res := runMutants(p, "slicelabels", false)
			for _, m := range res {
				fmt.Printf("%s mutant %-28s %s  %s\n", id, m.ID, m.Verdict, m.Detail)
				if m.Verdict == "MISSED" || m.Verdict == "BROKEN" {
					rc = 1
				}
			}
		}
		os.Exit(rc)
	case "explain":
		if len(os.Args) < 3 {
			usage()
		}
		os.Exit(explain(os.Args[2]))
	default:
		usage()
	}
}

func sortedIDs() []string {
	var ids []string
	for id := range registry {
		ids = append(ids, id)
	}
	sort.Strings(ids)
	return ids
}

func parseTier(args []string) string {
	tier := os.Getenv("VERIF_TIER")
	for i, a := range args {
		if a == "--tier" && i+1 < len(args) {
			tier = args[i+1]
		}
		if strings.HasPrefix(a, "--tier=") {
			tier = strings.TrimPrefix(a, "--tier=")
		}
	}
	if tier != "thorough" {
		tier = "quick"
	}
	return tier
}

// runRules runs the property's rules under one configuration, converting panics into
// analysis-incomplete obligations (fail closed).
func runRules(p *Property, tier, tags string, overlay map[string][]byte) (c *Ctx) {
	c = newCtx(p.ID, tier, tags, overlay)
	defer func() {
		if r := recover(); r != nil {
			c.add(Obligation{Key: "panic@" + p.ID, Rule: "analysis", Status: StIncomplete,
				Reason: fmt.Sprintf("analyser panic: %v\n%s", r, firstLines(string(debug.Stack()), 14))})
		}
	}()
	p.Run(c)
	for _, f := range extraRules[p.ID] {
		f(c)
	}
	c.finish()
	return c
}

// extraRules: rules added to a property after its main rule set (kept in separate files, e.g. the ones
// that came out of the second round of seeded changes).
var extraRules = map[string][]func(c *Ctx){}

func addRules(id string, f func(c *Ctx)) { extraRules[id] = append(extraRules[id], f) }

func firstLines(s string, n int) string {
	l := strings.Split(s, "\n")
	if len(l) > n {
		l = l[:n]
	}
	return strings.Join(l, "\n")
}

func runCheck(id, tier string) int {
	p := registry[id]
	if p == nil {
		fmt.Printf("VIOLATION property=%s replay=none (unknown property: no rules registered)\n", id)
		return 1
	}
	start := time.Now()
	seed, _ := strconv.Atoi(os.Getenv("VERIF_SEED"))
	configs := []string{"slicelabels"}
	if tier == "thorough" {
		configs = []string{"slicelabels", ""}
	}
	var all []Obligation
	stats := map[string]int{}
	rules := map[string]string{}
	perConfig := map[string]map[string]string{}
	for _, tags := range configs {
		c := runRules(p, tier, tags, nil)
		cfgName := tags
		if cfgName == "" {
			cfgName = "default(stringlabels)"
		}
		m := map[string]string{}
		for i := range c.Obls {
			c.Obls[i].Config = cfgName
			m[c.Obls[i].Key] = c.Obls[i].Status
		}
		perConfig[cfgName] = m
		all = append(all, c.Obls...)
		for k, v := range c.Stats {
			stats[k] += v
		}
		for k, v := range c.rules {
			rules[k] = v
		}
	}
	// both build configurations must agree per obligation
	if len(configs) == 2 {
		a, b := perConfig["slicelabels"], perConfig["default(stringlabels)"]
		keys := map[string]bool{}
		for k := range a {
			keys[k] = true
		}
		for k := range b {
			keys[k] = true
		}
		var ks []string
		for k := range keys {
			ks = append(ks, k)
		}
		sort.Strings(ks)
		for _, k := range ks {
			if a[k] != b[k] {
				all = append(all, Obligation{Key: "config-agreement@" + k, Rule: "config-agreement", Status: StIncomplete,
					Reason: fmt.Sprintf("verdict differs between build configurations: slicelabels=%q default=%q", a[k], b[k])})
			}
		}
	}
	known, err := loadKnown()
	if err != nil {
		all = append(all, Obligation{Key: "known-findings@file", Rule: "known-findings", Status: StIncomplete, Reason: err.Error()})
	}
	applyKnown(id, all, known)

	// checker self-test: positive controls (quick: those marked control; thorough: all mutants)
	muts := runMutants(p, "slicelabels", tier == "quick")
	for _, m := range muts {
		// MISSED: the rule no longer reports a change it is meant to report — the check cannot be
		// trusted. BROKEN / SKIPPED: the witness edit does not apply to or does not compile on this
		// tree (the surrounding code changed); that says nothing about the property, so it is
		// recorded as an observation only.
		switch m.Verdict {
		case "MISSED":
			all = append(all, Obligation{Key: "checker-regression@" + m.ID, Rule: "checker-regression", Status: StIncomplete,
				Reason: "mutant witness " + m.ID + ": " + m.Verdict + " " + m.Detail})
		case "BROKEN":
			all = append(all, Obligation{Key: "mutant-not-applicable@" + m.ID, Rule: "checker-selftest", Status: StObserve,
				Reason: "mutant witness " + m.ID + " does not compile on this tree: " + m.Detail})
		}
	}
	// behaviour-preserving variants must stay quiet (thorough tier)
	if tier != "quick" {
		for _, m := range runBenign(p, "slicelabels") {
			if m.Verdict == "ALARM" {
				all = append(all, Obligation{Key: "checker-regression@benign:" + m.ID, Rule: "checker-regression", Status: StIncomplete,
					Reason: "behaviour-preserving variant " + m.ID + " raises an alarm: " + m.Detail})
			}
		}
		// … and so must the tree with every local variable renamed (alpha-equivalent program)
		for _, m := range runAlpha(p, "slicelabels", "opaque") {
			stats["alpha_variants"]++
			if m.Verdict == "ALARM" {
				all = append(all, Obligation{Key: "checker-regression@" + m.ID, Rule: "checker-regression", Status: StIncomplete,
					Reason: "renaming every local variable changes a verdict: " + m.Detail})
			}
		}
		// … and with every side-effect-free comparison mirrored / every x++ written as x += 1
		for _, m := range runEquiv(p, "slicelabels", "cmpflip", "incdec") {
			stats["equiv_variants"]++
			if m.Verdict == "ALARM" {
				all = append(all, Obligation{Key: "checker-regression@" + m.ID, Rule: "checker-regression", Status: StIncomplete,
					Reason: "an operator-level respelling changes a verdict: " + m.Detail})
			}
		}
	}
	sortObls(all)

	// report
	nViol := 0
	counts := map[string]int{}
	os.MkdirAll(filepath.Join(verifDir, "evidence", "replay"), 0o755)
	old, _ := filepath.Glob(filepath.Join(verifDir, "evidence", "replay", id+"-*.json"))
	for _, f := range old {
		os.Remove(f)
	}
	printedKnown := map[string]bool{}
	for _, o := range all {
		counts[o.Status]++
		switch o.Status {
		case StKnown:
			line := fmt.Sprintf("KNOWN-FINDING: property=%s %s [%s %s]", id, strings.SplitN(o.Reason, " | ", 2)[0], o.Key, o.Pos)
			if !printedKnown[o.Key+o.Descriptor] {
				printedKnown[o.Key+o.Descriptor] = true
				fmt.Println(line)
			}
		case StViolation, StIncomplete:
			nViol++
			kind := "behavioural"
			if o.Status == StIncomplete {
				kind = "analysis-incomplete"
				if o.Rule == "checker-regression" {
					kind = "checker-regression"
				}
			}
			rp := filepath.Join(verifDir, "evidence", "replay", fmt.Sprintf("%s-%d.json", id, nViol))
			writeJSON(rp, map[string]any{"property": id, "kind": kind, "tier": tier, "obligation": o, "rule_text": rules[o.Rule]})
			fmt.Printf("%s: %s [%s] %s: %s %s\n", o.Pos, kind, o.Rule, o.Key, o.Descriptor, o.Reason)
			for _, s := range o.Path {
				fmt.Printf("    path: %s\n", s)
			}
			fmt.Printf("VIOLATION property=%s replay=%s\n", id, rp)
		}
	}
	// evidence
	samples := []any{}
	for _, o := range all {
		samples = append(samples, o)
	}
	ruleList := []string{}
	for k, v := range rules {
		ruleList = append(ruleList, k+": "+v)
	}
	sort.Strings(ruleList)
	cov := map[string]any{
		"explanation":          p.Explain,
		"rules":                ruleList,
		"obligations":          len(all) - counts[StObserve],
		"discharged":           counts[StOK],
		"known_findings":       counts[StKnown],
		"observations":         counts[StObserve],
		"undecided_or_failed":  counts[StIncomplete],
		"behavioural_failures": counts[StViolation],
		"exhaustive":           true,
		"samples":              samples,
		"build_configs":        configs,
		"mutant_witnesses":     muts,
		"checker_cmd":          "bin/tvc check " + id + " --tier " + tier,
	}
	for k, v := range stats {
		cov[k] = v
	}
	ev := evidence{PropertyID: id, Tier: tier, Seed: seed, Level: "other", Coverage: cov,
		Assumptions: append([]string{
			"go/types, go/cfg and go/ssa (x/tools v0.50.0) model Go semantics faithfully",
			"rules decide structural necessary conditions of the property on all CFG paths / call sites analysed, not the runtime behaviour itself",
		}, p.Assume...),
		WallS: time.Since(start).Seconds(), Violations: nViol}
	if err := writeJSON(filepath.Join(verifDir, "evidence", id+".json"), ev); err != nil {
		fmt.Printf("VIOLATION property=%s replay=none (cannot write evidence: %v)\n", id, err)
		return 1
	}
	fmt.Printf("%s %s: %d obligations, %d discharged, %d known findings, %d observations, %d violations (%.1fs)\n",
		id, tier, len(all)-counts[StObserve], counts[StOK], counts[StKnown], counts[StObserve], nViol, time.Since(start).Seconds())
	if nViol > 0 {
		return 1
	}
	return 0
}

func explain(path string) int {
	b, err := os.ReadFile(path)
	if err != nil {
		fmt.Println(err)
		return 2
	}
	var r struct {
		Property   string     `json:"property"`
		Kind       string     `json:"kind"`
		Tier       string     `json:"tier"`
		Obligation Obligation `json:"obligation"`
		RuleText   string     `json:"rule_text"`
	}
	if err := json.Unmarshal(b, &r); err != nil {
		fmt.Println(err)
		return 2
	}
	p := registry[r.Property]
	if p == nil {
		fmt.Println("unknown property", r.Property)
		return 2
	}
	fmt.Printf("property %s, rule %s\n  %s\nrecorded: %s at %s: %s %s\n", r.Property, r.Obligation.Rule, r.RuleText, r.Obligation.Key, r.Obligation.Pos, r.Obligation.Descriptor, r.Obligation.Reason)
	tags := "slicelabels"
	if strings.HasPrefix(r.Obligation.Config, "default") {
		tags = ""
	}
	c := runRules(p, r.Tier, tags, nil)
	known, _ := loadKnown()
	applyKnown(r.Property, c.Obls, known)
	for _, o := range c.Obls {
		if o.Key == r.Obligation.Key {
			fmt.Printf("re-run on current tree: %s at %s: %s %s\n", o.Status, o.Pos, o.Descriptor, o.Reason)
			for _, s := range o.Path {
				fmt.Printf("    path: %s\n", s)
			}
			if o.Status == StViolation || o.Status == StIncomplete {
				fmt.Printf("VIOLATION property=%s replay=%s\n", r.Property, path)
				return 1
			}
			return 0
		}
	}
	fmt.Println("re-run on current tree: obligation no longer present")
	return 0
}
