package main

import (
	"fmt"
	"go/ast"
	"go/token"
	"go/types"
	"strings"
)

// Sorted two-pointer walks. A loop
//
//	for i < len(A) && j < len(B) { if A[i] < B[j] {…} else if A[i] > B[j] {…} else {…} }
//
// over two ascending lists computes a set operation that is determined by which branches emit their
// element and which tails are emitted afterwards:
//
//	union        LT:A  GT:B  EQ:one  tail A  tail B
//	difference   LT:A  —     —       tail A  —          (A \ B)
//	intersection —     —     EQ:one  —       —
//
// and is only correct when LT advances i alone, GT advances j alone and EQ advances both. The walk is
// read off the syntax (the lists are touched only through comparisons and copies), never executed.

type mergeWalk struct {
	Loop       *ast.ForStmt
	A, B       string // canonical text of the two lists
	I, J       types.Object
	EmitLT     string // "A", "B", "" …
	EmitGT     string
	EmitEQ     string
	TailA      bool
	TailB      bool
	Out        string // where elements go: text of the output slice ("output") or "A[k]" for in-place compaction
	OutCount   types.Object
	Problems   []string
	branchSeen [3]bool
}

func (w *mergeWalk) Op() string {
	sig := fmt.Sprintf("%s|%s|%s|%v|%v", w.EmitLT, w.EmitGT, w.EmitEQ, w.TailA, w.TailB)
	switch sig {
	case "A|B|A|true|true", "A|B|B|true|true":
		return "union"
	case "A|||true|false":
		return "difference"
	case "||A|false|false", "||B|false|false":
		return "intersection"
	}
	return "unrecognised(" + sig + ")"
}

// findMergeWalk looks for the first two-pointer loop among the statements (not descending into nested ifs).
func findMergeWalk(p *Prog, fn *Fn, list []ast.Stmt) *mergeWalk {
	info := fn.Info()
	for idx, st := range list {
		loop, ok := st.(*ast.ForStmt)
		if !ok || loop.Init != nil || loop.Post != nil || loop.Cond == nil {
			continue
		}
		and, ok := unparen(loop.Cond).(*ast.BinaryExpr)
		if !ok || and.Op != token.LAND {
			continue
		}
		bound := func(e ast.Expr) (types.Object, string) {
			b, ok := unparen(e).(*ast.BinaryExpr)
			if !ok || b.Op != token.LSS {
				return nil, ""
			}
			call, ok := unparen(b.Y).(*ast.CallExpr)
			if !ok || len(call.Args) != 1 {
				return nil, ""
			}
			if id, ok := call.Fun.(*ast.Ident); !ok || id.Name != "len" {
				return nil, ""
			}
			return objOf(info, b.X), canon(call.Args[0])
		}
		w := &mergeWalk{Loop: loop}
		w.I, w.A = bound(and.X)
		w.J, w.B = bound(and.Y)
		if w.I == nil || w.J == nil || w.A == "" || w.B == "" || w.I == w.J {
			continue
		}
		w.readBody(p, fn)
		w.readTails(p, fn, list[idx+1:])
		return w
	}
	return nil
}

func (w *mergeWalk) elemOf(info *types.Info, e ast.Expr) string {
	ix, ok := unparen(e).(*ast.IndexExpr)
	if !ok {
		return ""
	}
	switch {
	case canon(ix.X) == w.A && objOf(info, ix.Index) == w.I:
		return "A"
	case canon(ix.X) == w.B && objOf(info, ix.Index) == w.J:
		return "B"
	}
	return ""
}

// classify: which of LT (A[i] < B[j]), GT, EQ does the condition select; -1 if not understood.
func (w *mergeWalk) classify(info *types.Info, cond ast.Expr) int {
	b, ok := unparen(cond).(*ast.BinaryExpr)
	if !ok {
		return -1
	}
	x, y := w.elemOf(info, b.X), w.elemOf(info, b.Y)
	if x == "" || y == "" || x == y {
		return -1
	}
	op := b.Op
	if x == "B" { // B[j] op A[i]  ≡  A[i] op' B[j]
		switch op {
		case token.LSS:
			op = token.GTR
		case token.GTR:
			op = token.LSS
		}
	}
	switch op {
	case token.LSS:
		return 0
	case token.GTR:
		return 1
	case token.EQL:
		return 2
	}
	return -1
}

func (w *mergeWalk) readBody(p *Prog, fn *Fn) {
	info := fn.Info()
	if len(w.Loop.Body.List) != 1 {
		w.Problems = append(w.Problems, p.Pos(w.Loop.Pos())+": the loop body is not a single three-way comparison")
		return
	}
	var cur ast.Stmt = w.Loop.Body.List[0]
	for cur != nil {
		var body *ast.BlockStmt
		kind := -1
		switch v := cur.(type) {
		case *ast.IfStmt:
			if v.Init != nil {
				w.Problems = append(w.Problems, p.Pos(v.Pos())+": comparison with an init statement")
				return
			}
			kind = w.classify(info, v.Cond)
			if kind < 0 {
				w.Problems = append(w.Problems, p.Pos(v.Pos())+": `"+exprString(v.Cond)+"` does not compare the two current elements")
				return
			}
			body = v.Body
			cur = v.Else
		case *ast.BlockStmt: // final else: the remaining case
			for k := 0; k < 3; k++ {
				if !w.branchSeen[k] {
					if kind >= 0 {
						w.Problems = append(w.Problems, p.Pos(v.Pos())+": the final else covers more than one of <, >, ==")
						return
					}
					kind = k
				}
			}
			body = v
			cur = nil
		default:
			w.Problems = append(w.Problems, p.Pos(cur.Pos())+": unexpected statement in the comparison chain")
			return
		}
		if kind < 0 || w.branchSeen[kind] {
			w.Problems = append(w.Problems, p.Pos(body.Pos())+": comparison case repeated or missing")
			return
		}
		w.branchSeen[kind] = true
		emit, advI, advJ := "", 0, 0
		for _, st := range body.List {
			switch s := st.(type) {
			case *ast.IncDecStmt:
				if s.Tok != token.INC {
					w.Problems = append(w.Problems, p.Pos(s.Pos())+": a cursor is decremented")
					continue
				}
				switch objOf(info, s.X) {
				case w.I:
					advI++
				case w.J:
					advJ++
				default:
					if w.OutCount == nil || objOf(info, s.X) != w.OutCount {
						w.Problems = append(w.Problems, p.Pos(s.Pos())+": `"+stmtText(p, s)+"` advances something that is not a cursor of the walk")
					}
				}
			case *ast.AssignStmt:
				el, out, cnt := w.emitOf(info, s)
				if el == "" {
					w.Problems = append(w.Problems, p.Pos(s.Pos())+": `"+stmtText(p, s)+"` is not a copy of the current element into the output")
					continue
				}
				if emit != "" {
					w.Problems = append(w.Problems, p.Pos(s.Pos())+": two elements emitted in one case")
				}
				emit = el
				if w.Out == "" {
					w.Out, w.OutCount = out, cnt
				} else if w.Out != out {
					w.Problems = append(w.Problems, p.Pos(s.Pos())+": elements are emitted to "+out+" here and to "+w.Out+" elsewhere")
				}
			default:
				w.Problems = append(w.Problems, p.Pos(st.Pos())+": `"+stmtText(p, st)+"` is not understood inside the walk")
			}
		}
		wantI, wantJ := 0, 0
		name := [...]string{"<", ">", "=="}[kind]
		switch kind {
		case 0:
			wantI = 1
			w.EmitLT = emit
		case 1:
			wantJ = 1
			w.EmitGT = emit
		case 2:
			wantI, wantJ = 1, 1
			w.EmitEQ = emit
		}
		if advI != wantI || advJ != wantJ {
			w.Problems = append(w.Problems, fmt.Sprintf("%s: in the `%s` case the cursors advance by (%d,%d), a sorted walk needs (%d,%d): elements are skipped or compared twice", p.Pos(body.Pos()), name, advI, advJ, wantI, wantJ))
		}
		if w.OutCount != nil && emit != "" {
			// in-place compaction must advance the output cursor with every emit
			inc := false
			for _, st := range body.List {
				if s, ok := st.(*ast.IncDecStmt); ok && s.Tok == token.INC && objOf(info, s.X) == w.OutCount {
					inc = true
				}
			}
			if !inc {
				w.Problems = append(w.Problems, p.Pos(body.Pos())+": an element is stored without advancing the output cursor")
			}
		}
	}
	for k, seen := range w.branchSeen {
		if !seen {
			w.Problems = append(w.Problems, p.Pos(w.Loop.Pos())+": the case `"+[...]string{"<", ">", "=="}[k]+"` is not handled")
		}
	}
}

// emitOf recognises `out = append(out, X[c])` and `A[k] = X[c]`.
func (w *mergeWalk) emitOf(info *types.Info, s *ast.AssignStmt) (elem, out string, cnt types.Object) {
	if len(s.Lhs) != 1 || len(s.Rhs) != 1 || s.Tok != token.ASSIGN {
		return "", "", nil
	}
	if call, ok := unparen(s.Rhs[0]).(*ast.CallExpr); ok && len(call.Args) == 2 && !call.Ellipsis.IsValid() {
		if id, ok := call.Fun.(*ast.Ident); ok && id.Name == "append" && canon(call.Args[0]) == canon(s.Lhs[0]) {
			if el := w.elemOf(info, call.Args[1]); el != "" {
				return el, canon(s.Lhs[0]), nil
			}
		}
		return "", "", nil
	}
	if ix, ok := unparen(s.Lhs[0]).(*ast.IndexExpr); ok {
		if el := w.elemOf(info, s.Rhs[0]); el != "" {
			k := objOf(info, ix.Index)
			if k != nil && k != w.I && k != w.J {
				return el, canon(ix.X) + "[k]", k
			}
		}
	}
	return "", "", nil
}

// readTails: `if i < len(A) { out = append(out, A[i:…]...) }` or `for i < len(A) { A[k] = A[i]; i++; k++ }`
func (w *mergeWalk) readTails(p *Prog, fn *Fn, rest []ast.Stmt) {
	info := fn.Info()
	for _, st := range rest {
		var cond ast.Expr
		var body *ast.BlockStmt
		isLoop := false
		switch v := st.(type) {
		case *ast.IfStmt:
			if v.Init != nil || v.Else != nil {
				return
			}
			cond, body = v.Cond, v.Body
		case *ast.ForStmt:
			if v.Init != nil || v.Post != nil || v.Cond == nil {
				return
			}
			cond, body, isLoop = v.Cond, v.Body, true
		default:
			return
		}
		b, ok := unparen(cond).(*ast.BinaryExpr)
		if !ok || b.Op != token.LSS {
			return
		}
		call, ok := unparen(b.Y).(*ast.CallExpr)
		if !ok || len(call.Args) != 1 {
			return
		}
		var which string
		var cur types.Object
		switch {
		case objOf(info, b.X) == w.I && canon(call.Args[0]) == w.A:
			which, cur = "A", w.I
		case objOf(info, b.X) == w.J && canon(call.Args[0]) == w.B:
			which, cur = "B", w.J
		default:
			return
		}
		okTail := false
		if isLoop {
			emits, adv, advOut := false, false, false
			for _, s := range body.List {
				switch x := s.(type) {
				case *ast.AssignStmt:
					if el, out, _ := w.emitOf(info, x); el == which && out == w.Out {
						emits = true
					}
				case *ast.IncDecStmt:
					if x.Tok == token.INC && objOf(info, x.X) == cur {
						adv = true
					}
					if x.Tok == token.INC && w.OutCount != nil && objOf(info, x.X) == w.OutCount {
						advOut = true
					}
				}
			}
			okTail = emits && adv && (w.OutCount == nil || advOut) && len(body.List) <= 3
		} else if len(body.List) == 1 {
			if as, ok := body.List[0].(*ast.AssignStmt); ok && len(as.Lhs) == 1 && len(as.Rhs) == 1 {
				if c2, ok := unparen(as.Rhs[0]).(*ast.CallExpr); ok && len(c2.Args) == 2 && c2.Ellipsis.IsValid() && canon(c2.Args[0]) == canon(as.Lhs[0]) && canon(as.Lhs[0]) == w.Out {
					if sl, ok := unparen(c2.Args[1]).(*ast.SliceExpr); ok && sl.Low != nil && objOf(info, sl.Low) == cur {
						list := w.A
						if which == "B" {
							list = w.B
						}
						hiOK := sl.High == nil || canon(sl.High) == "len("+list+")"
						okTail = canon(sl.X) == list && hiOK
					}
				}
			}
		}
		if !okTail {
			w.Problems = append(w.Problems, p.Pos(st.Pos())+": the rest of list "+which+" is not copied completely to the output")
			return
		}
		if which == "A" {
			w.TailA = true
		} else {
			w.TailB = true
		}
	}
}

// boundaryGuardImpliesDisjoint decides, for a guard built from comparisons between the first / last
// elements of two ascending lists A and B (and tests that they are non-empty), whether it implies that
// the ranges [A0,AN] and [B0,BN] are disjoint. All weak orderings of the four boundary elements are
// enumerated (values 0..3, A0<=AN, B0<=BN). Returns a counterexample or "".
func boundaryGuardImpliesDisjoint(p *Prog, fn *Fn, guard ast.Expr, A, B string) (cex string, err error) {
	info := fn.Info()
	lenOf := func(e ast.Expr) string { // which list's length is e
		e = unparen(e)
		if call, ok := e.(*ast.CallExpr); ok && len(call.Args) == 1 {
			if id, ok := call.Fun.(*ast.Ident); ok && id.Name == "len" {
				return canon(call.Args[0])
			}
		}
		if id, ok := e.(*ast.Ident); ok {
			o := objOf(info, id)
			var found string
			ast.Inspect(fn.Body(), func(n ast.Node) bool {
				as, ok := n.(*ast.AssignStmt)
				if !ok || len(as.Lhs) != len(as.Rhs) {
					return true
				}
				for k, l := range as.Lhs {
					if objOf(info, l) == o {
						if call, ok := unparen(as.Rhs[k]).(*ast.CallExpr); ok && len(call.Args) == 1 {
							if f, ok := call.Fun.(*ast.Ident); ok && f.Name == "len" {
								found = canon(call.Args[0])
							}
						}
					}
				}
				return true
			})
			return found
		}
		return ""
	}
	atom := func(e ast.Expr) (string, bool) { // "A0","AN","B0","BN"
		ix, ok := unparen(e).(*ast.IndexExpr)
		if !ok {
			return "", false
		}
		var l string
		switch canon(ix.X) {
		case A:
			l = "A"
		case B:
			l = "B"
		default:
			return "", false
		}
		if v, isC := constInt(info, ix.Index); isC && v == 0 {
			return l + "0", true
		}
		if b, ok := unparen(ix.Index).(*ast.BinaryExpr); ok && b.Op == token.SUB {
			if v, isC := constInt(info, b.Y); isC && v == 1 && lenOf(b.X) == canon(ix.X) {
				return l + "N", true
			}
		}
		return "", false
	}
	var eval func(e ast.Expr, env map[string]int) (bool, error)
	eval = func(e ast.Expr, env map[string]int) (bool, error) {
		e = unparen(e)
		switch v := e.(type) {
		case *ast.UnaryExpr:
			if v.Op == token.NOT {
				b, err := eval(v.X, env)
				return !b, err
			}
		case *ast.BinaryExpr:
			switch v.Op {
			case token.LAND, token.LOR:
				a, err := eval(v.X, env)
				if err != nil {
					return false, err
				}
				b, err := eval(v.Y, env)
				if err != nil {
					return false, err
				}
				if v.Op == token.LAND {
					return a && b, nil
				}
				return a || b, nil
			case token.LSS, token.GTR, token.LEQ, token.GEQ, token.EQL, token.NEQ:
				x, okx := atom(v.X)
				y, oky := atom(v.Y)
				if okx && oky {
					a, b := env[x], env[y]
					switch v.Op {
					case token.LSS:
						return a < b, nil
					case token.GTR:
						return a > b, nil
					case token.LEQ:
						return a <= b, nil
					case token.GEQ:
						return a >= b, nil
					case token.EQL:
						return a == b, nil
					default:
						return a != b, nil
					}
				}
				// non-emptiness tests: the lists are non-empty in every enumerated case
				if l := lenOf(v.X); l == A || l == B {
					if c, isC := constInt(info, v.Y); isC {
						if (v.Op == token.GTR && c == 0) || (v.Op == token.NEQ && c == 0) || (v.Op == token.GEQ && c == 1) {
							return true, nil
						}
					}
				}
			}
		}
		return false, fmt.Errorf("%s: `%s` is not a comparison of boundary elements of the two lists", p.Pos(e.Pos()), exprString(e))
	}
	for a0 := 0; a0 <= 3; a0++ {
		for aN := a0; aN <= 3; aN++ {
			for b0 := 0; b0 <= 3; b0++ {
				for bN := b0; bN <= 3; bN++ {
					env := map[string]int{"A0": a0, "AN": aN, "B0": b0, "BN": bN}
					g, err := eval(guard, env)
					if err != nil {
						return "", err
					}
					if g && !(bN < a0 || b0 > aN) {
						return fmt.Sprintf("first/last of %s = %d/%d, first/last of %s = %d/%d: the guard holds although the ranges overlap", A, a0, aN, B, b0, bN), nil
					}
				}
			}
		}
	}
	return "", nil
}

func listField(text string) string {
	if i := strings.LastIndex(text, "."); i >= 0 {
		return text[i+1:]
	}
	return text
}
