package main

import (
	"bufio"
	"encoding/json"
	"fmt"
	"os"
	"path/filepath"
	"runtime"
	"strings"
)

// Mutant is a small edit of thanos that breaks a property while still compiling. It is applied
// in memory (packages.Config.Overlay); nothing is written into /repo.
type Mutant struct {
	ID      string `json:"id"`
	File    string `json:"file"` // repo-relative
	Find    string `json:"find"`
	Replace string `json:"replace"`
	Rule    string `json:"expect_rule"`       // rule that must report
	Obl     string `json:"expect_obligation"` // substring of the obligation key that must be violated ("" = any of rule)
	Control bool   `json:"control,omitempty"` // also run in the quick tier as positive control
	Note    string `json:"note,omitempty"`
	// optional second edit (two cooperating sites)
	File2    string `json:"file2,omitempty"`
	Find2    string `json:"find2,omitempty"`
	Replace2 string `json:"replace2,omitempty"`
	// further edits (a seeded change kept whole)
	More []struct {
		File    string `json:"file"`
		Find    string `json:"find"`
		Replace string `json:"replace"`
	} `json:"more,omitempty"`
}

type mutantResult struct {
	ID      string `json:"id"`
	Verdict string `json:"verdict"` // CAUGHT | MISSED | SKIPPED | BROKEN
	Detail  string `json:"detail,omitempty"`
}

type controlResult = mutantResult

func loadMutants(id string) ([]Mutant, error) {
	f, err := os.Open(filepath.Join(verifDir, "mutants", id+".jsonl"))
	if err != nil {
		if os.IsNotExist(err) {
			return nil, nil
		}
		return nil, err
	}
	defer f.Close()
	var out []Mutant
	sc := bufio.NewScanner(f)
	sc.Buffer(make([]byte, 1<<20), 1<<20)
	for sc.Scan() {
		line := strings.TrimSpace(sc.Text())
		if line == "" || strings.HasPrefix(line, "#") {
			continue
		}
		var m Mutant
		if err := json.Unmarshal([]byte(line), &m); err != nil {
			return nil, fmt.Errorf("mutants/%s.jsonl: %v", id, err)
		}
		out = append(out, m)
	}
	return out, sc.Err()
}

func applyEdit(overlay map[string][]byte, file, find, replace string) (string, bool) {
	abs := filepath.Join(repoDir, file)
	src, ok := overlay[abs]
	if !ok {
		b, err := os.ReadFile(abs)
		if err != nil {
			return "file missing: " + file, false
		}
		src = b
	}
	if n := strings.Count(string(src), find); n != 1 {
		return fmt.Sprintf("find text occurs %d times in %s (repository edited?)", n, file), false
	}
	overlay[abs] = []byte(strings.Replace(string(src), find, replace, 1))
	return "", true
}

// runMutants applies each mutant and requires the property's rules to report it.
func runMutants(p *Property, tags string, controlsOnly bool) []mutantResult {
	ms, err := loadMutants(p.ID)
	if err != nil {
		return []mutantResult{{ID: "load", Verdict: "BROKEN", Detail: err.Error()}}
	}
	// baseline verdicts, to tell a newly reported obligation from a known one
	var base map[string]string
	var out []mutantResult
	for _, m := range ms {
		if controlsOnly && !m.Control {
			continue
		}
		if base == nil {
			base = map[string]string{}
			c := runRules(p, "quick", tags, nil)
			for _, o := range c.Obls {
				base[o.Key+"|"+o.Descriptor] = o.Status
			}
			runtime.GC()
		}
		overlay := map[string][]byte{}
		if why, ok := applyEdit(overlay, m.File, m.Find, m.Replace); !ok {
			out = append(out, mutantResult{ID: m.ID, Verdict: "SKIPPED", Detail: why})
			continue
		}
		if m.File2 != "" {
			if why, ok := applyEdit(overlay, m.File2, m.Find2, m.Replace2); !ok {
				out = append(out, mutantResult{ID: m.ID, Verdict: "SKIPPED", Detail: why})
				continue
			}
		}
		skipped := false
		for _, e := range m.More {
			if why, ok := applyEdit(overlay, e.File, e.Find, e.Replace); !ok {
				out = append(out, mutantResult{ID: m.ID, Verdict: "SKIPPED", Detail: why})
				skipped = true
				break
			}
		}
		if skipped {
			continue
		}
		c := runRules(p, "quick", tags, overlay)
		res := mutantResult{ID: m.ID, Verdict: "MISSED", Detail: "no new violation of rule " + m.Rule + " matching " + m.Obl}
		// if the unmutated tree already violates the expected obligation the witness says nothing
		for k, st := range base {
			if (st == StViolation || st == StIncomplete) && strings.HasPrefix(k, m.Rule+"@") && strings.Contains(k, m.Obl) {
				res = mutantResult{ID: m.ID, Verdict: "SKIPPED", Detail: "the current tree already violates " + strings.SplitN(k, "|", 2)[0]}
			}
		}
		for _, o := range c.Obls {
			if o.Rule == "load" && o.Status == StIncomplete {
				res = mutantResult{ID: m.ID, Verdict: "BROKEN", Detail: "mutant does not compile: " + o.Reason}
				break
			}
			if o.Status != StViolation && o.Status != StIncomplete {
				continue
			}
			if st, was := base[o.Key+"|"+o.Descriptor]; was && (st == StViolation || st == StIncomplete) {
				continue // already reported on the unmutated tree
			}
			if o.Rule == m.Rule && strings.Contains(o.Key, m.Obl) {
				res = mutantResult{ID: m.ID, Verdict: "CAUGHT", Detail: o.Key + " at " + o.Pos}
				break
			}
		}
		out = append(out, res)
		runtime.GC()
	}
	return out
}
