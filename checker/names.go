package main

import (
	"go/ast"
	"go/types"
	"strconv"
	"strings"
)

// Names a function's declaration gives to its receiver, parameters and named results. Rules that
// have to spell an expression ("mint > storeMaxTime") take the local names from here instead of
// hard-coding those of the pinned tree, so that a rename does not change a verdict
// (`tvc alpha` checks this mechanically).
type fnNames struct {
	Recv    string
	Params  []string
	Results []string
}

func namesOf(fn *Fn) fnNames {
	var n fnNames
	if fn.Decl != nil && fn.Decl.Recv != nil && len(fn.Decl.Recv.List) == 1 && len(fn.Decl.Recv.List[0].Names) == 1 {
		n.Recv = fn.Decl.Recv.List[0].Names[0].Name
	}
	list := func(fl *ast.FieldList) []string {
		var out []string
		if fl == nil {
			return out
		}
		for _, f := range fl.List {
			if len(f.Names) == 0 {
				out = append(out, "")
			}
			for _, nm := range f.Names {
				out = append(out, nm.Name)
			}
		}
		return out
	}
	n.Params = list(fn.Type().Params)
	n.Results = list(fn.Type().Results)
	return n
}

func (n fnNames) P(i int) string {
	if i < len(n.Params) {
		return n.Params[i]
	}
	return "\x00no-such-parameter"
}

// sub replaces $r by the receiver name, $0..$9 by parameter names and $o0..$o9 by result names.
func (n fnNames) sub(s string) string {
	var b strings.Builder
	for i := 0; i < len(s); i++ {
		if s[i] != '$' || i+1 >= len(s) {
			b.WriteByte(s[i])
			continue
		}
		switch c := s[i+1]; {
		case c == 'r':
			b.WriteString(n.Recv)
			i++
		case c >= '0' && c <= '9':
			k, _ := strconv.Atoi(string(c))
			b.WriteString(n.P(k))
			i++
		case c == 'o' && i+2 < len(s) && s[i+2] >= '0' && s[i+2] <= '9':
			k, _ := strconv.Atoi(string(s[i+2]))
			if k < len(n.Results) {
				b.WriteString(n.Results[k])
			}
			i += 2
		default:
			b.WriteByte(s[i])
		}
	}
	return b.String()
}

// paramWhere returns the name of the first parameter whose type (printed with package names, e.g.
// "[]*labels.Matcher") satisfies pred, or a string no identifier can equal.
func paramWhere(fn *Fn, pred func(typ string) bool) string {
	info := fn.Info()
	ps := fn.Type().Params
	if ps == nil {
		return "\x00none"
	}
	for _, f := range ps.List {
		for _, nm := range f.Names {
			if o := info.Defs[nm]; o != nil && pred(shortType(o.Type())) {
				return nm.Name
			}
		}
	}
	return "\x00none"
}

func shortType(t types.Type) string {
	return types.TypeString(t, func(p *types.Package) string { return p.Name() })
}

// lhsOfCallTo returns the name bound to result idx of the first assignment `a, b := <recv>.<method>(...)`
// (or a plain function <method>) in fn.
func lhsOfCallTo(fn *Fn, method string, idx int) string {
	name := "\x00none"
	ast.Inspect(fn.Body(), func(n ast.Node) bool {
		as, ok := n.(*ast.AssignStmt)
		if !ok || len(as.Rhs) != 1 || idx >= len(as.Lhs) || name != "\x00none" {
			return true
		}
		call, ok := unparen(as.Rhs[0]).(*ast.CallExpr)
		if !ok {
			return true
		}
		callee := ""
		switch f := unparen(call.Fun).(type) {
		case *ast.SelectorExpr:
			callee = f.Sel.Name
		case *ast.Ident:
			callee = f.Name
		}
		if callee == method {
			if id, ok := as.Lhs[idx].(*ast.Ident); ok {
				name = id.Name
			}
		}
		return true
	})
	return name
}

// isNegatedIdent: e has the form `!x` with x an identifier.
func isNegatedIdent(e ast.Expr) bool {
	u, ok := unparen(e).(*ast.UnaryExpr)
	if !ok || u.Op.String() != "!" {
		return false
	}
	_, ok = unparen(u.X).(*ast.Ident)
	return ok
}

// allNilTests: cond is a nil test (x == nil / x != nil) or a && / || combination of nil tests.
func allNilTests(info *types.Info, cond ast.Expr) bool {
	cond = unparen(cond)
	if b, ok := cond.(*ast.BinaryExpr); ok && (b.Op.String() == "&&" || b.Op.String() == "||") {
		return allNilTests(info, b.X) && allNilTests(info, b.Y)
	}
	_, _, ok := nilTest(info, cond)
	return ok
}

// hasNilTestDisjunct: cond is a nil test, or an || chain one of whose operands is a nil test.
func hasNilTestDisjunct(info *types.Info, cond ast.Expr) bool {
	cond = unparen(cond)
	if b, ok := cond.(*ast.BinaryExpr); ok && b.Op.String() == "||" {
		return hasNilTestDisjunct(info, b.X) || hasNilTestDisjunct(info, b.Y)
	}
	_, _, ok := nilTest(info, cond)
	return ok
}
