package main

import (
	"fmt"
	"go/ast"
	"go/token"
	"go/types"
	"sort"
	"strings"
)

func init() {
	register(&Property{
		ID:    "C01",
		Title: "Penalty replica deduplication yields a well-formed merge of replica samples",
		Explain: "Positional state of dedupSeriesIterator (the type implementing chunkenc.Iterator with two adjustableSeriesIterator fields), decided by a path-sensitive dataflow (set of field-assignment tuples, refined on `it.useA`, `it.aval/bval ==/!= ValNone`): " +
			"(1) on every path of Next that returns a value other than ValNone, lastIter is the replica selected by useA on that path (useA => a, !useA => b) and lastT is AtT() of that same replica; " +
			"(2) E9: both inner seeks in Next use exactly lastT + 1 + penA / lastT + 1 + penB (strictly increasing output); " +
			"(3) Seek exposes a sample only when positioned (Next ran in this call or lastT != MinInt64 was tested), and never advances a replica with the caller's target: every inner Seek's argument is the iterator's current timestamp (AtT) — 'don't use underlying Seek, iterate over Next to not miss gaps'; " +
			"(4) dedupSeries.Iterator starts from replicas[0] and folds every element of replicas[1:] exactly once into the iterator; " +
			"(5) isCounter, evaluated for every function name it or aggrsFromFunc distinguishes, accepts only counter functions (rate, irate, increase, resets, xrate, xincrease): for any other function the replicas are not wrapped in the value-adjusting iterator (C02 counter-wrapping), so yielded samples are replica samples.",
		Assume: []string{"the penalty arithmetic itself (which replica wins) is not decided; only that the exposed position, provenance and monotone seek targets are wired on all paths"},
		Run:    runC01,
	})
	register(&Property{
		ID:    "C02",
		Title: "Counter deduplication never fabricates counter resets",
		Explain: "(1) counterErrAdjustSeriesIterator.At returns value + errAdjust (the accumulator flows into the returned value); (2) every assignment to errAdjust is `+= lastFloatValue - v` guarded by lastFloatValue > v (E9 on the guard: the accumulator is non-decreasing); " +
			"(3) dedupSeriesIterator.Next registers (defer, before any return) the epilogue that calls adjustAtValue when useA changed and the previous value was a float, and dedupSeriesIterator.adjustAtValue forwards to both replicas; " +
			"(4) dedupSeries.Iterator wraps every replica (replicas[0] and each of replicas[1:]) in counterErrAdjustSeriesIterator exactly when isCounter, noop otherwise; " +
			"(5) isCounter accepts rate, irate, increase and resets, and aggrsFromFunc maps each function accepted by isCounter to Aggr_COUNTER (sibling agreement).",
		Assume: []string{"monotonicity of merged values for arbitrary data is a runtime property and not decided"},
		Run:    runC02,
	})
}

// dedupIterType finds the struct type with two fields of the adjustable iterator interface type.
func dedupIterFields(p *Prog) (a, b, lastT, lastIter, useA, aval, bval string, ok bool) {
	// names are taken from the struct definition by role: the two fields of interface type
	// adjustableSeriesIterator (declaration order), the two ValueType fields, the int64 field
	// assigned from AtT, the chunkenc.Iterator field, the bool field.
	pk := p.Pkg("pkg/dedup")
	if pk == nil {
		return
	}
	o := pk.Types.Scope().Lookup("dedupSeriesIterator")
	if o == nil {
		return
	}
	st, isStruct := o.Type().Underlying().(*types.Struct)
	if !isStruct {
		return
	}
	var iters, vals []string
	for i := 0; i < st.NumFields(); i++ {
		f := st.Field(i)
		ts := types.TypeString(f.Type(), func(*types.Package) string { return "" })
		switch {
		case ts == "adjustableSeriesIterator":
			iters = append(iters, f.Name())
		case strings.HasSuffix(ts, "ValueType"):
			vals = append(vals, f.Name())
		case strings.HasSuffix(ts, "chunkenc.Iterator") || ts == "Iterator":
			lastIter = f.Name()
		case ts == "bool":
			useA = f.Name()
		case ts == "int64" && lastT == "" && strings.Contains(strings.ToLower(f.Name()), "last"):
			lastT = f.Name()
		}
	}
	if len(iters) != 2 || len(vals) != 2 || lastIter == "" || useA == "" || lastT == "" {
		return
	}
	return iters[0], iters[1], lastT, lastIter, useA, vals[0], vals[1], true
}

type c01Tuple struct {
	useA     int8 // 0 unknown, 1 true, 2 false
	lastIter int8 // 0 unset, 1 a, 2 b, 3 other
	lastT    int8 // 0 unset, 1 from a, 2 from b, 3 other
	aNone    int8 // 0 unknown, 1 aval known None, 2 known not None
	bNone    int8
}

type c01State map[c01Tuple]bool

func runC01(c *Ctx) {
	c.Rule("position-established", "non-None return of Next ⇒ lastIter/lastT belong to the replica selected by useA", 3)
	c.Rule("seek-targets", "inner seeks in Next use lastT + 1 + pen", 2)
	c.Rule("seek-positioned", "Seek exposes samples only when positioned; inner Seek only to the current timestamp", 2)
	c.Rule("seek-leaves-merge-state-to-next", "Seek writes no field of the iterator itself: lastT, the penalties and useA change only in Next, so a seek-first reader and a reader iterating from the start run the same merge", 1)
	c.Rule("all-replicas-folded", "Iterator folds replicas[0] and every element of replicas[1:]", 1)
	c.Rule("values-adjusted-only-for-counter-functions", "isCounter accepts only counter functions", 1)
	p := c.Load("pkg/dedup", "pkg/query")
	if p == nil {
		return
	}
	fa, fb, fLastT, fLastIter, fUseA, fAval, fBval, ok := dedupIterFields(p)
	if !ok {
		c.Incomplete("position-established", "pkg/dedup.dedupSeriesIterator", "", "struct with two adjustable iterators, two value types, lastT, lastIter and useA not recognised")
		return
	}
	next := p.Func("pkg/dedup", "dedupSeriesIterator", "Next")
	seek := p.Func("pkg/dedup", "dedupSeriesIterator", "Seek")
	if next == nil || seek == nil {
		c.Incomplete("position-established", "pkg/dedup.(*dedupSeriesIterator).Next", "", "Next/Seek not found")
		return
	}
	info := next.Info()
	recv := recvObj(next)
	isField := func(e ast.Expr, name string) bool {
		sel, ok := unparen(e).(*ast.SelectorExpr)
		if !ok || sel.Sel.Name != name {
			return false
		}
		id, ok := unparen(sel.X).(*ast.Ident)
		return ok && objOf(info, id) == recv
	}
	// which replica does an expression come from (it.a / it.a.AtT() / ta := it.a.AtT())
	var replicaOf func(e ast.Expr, depth int) int8
	replicaOf = func(e ast.Expr, depth int) int8 {
		e = unparen(e)
		switch v := e.(type) {
		case *ast.SelectorExpr:
			if isField(v, fa) {
				return 1
			}
			if isField(v, fb) {
				return 2
			}
		case *ast.CallExpr:
			if sel, ok := unparen(v.Fun).(*ast.SelectorExpr); ok && sel.Sel.Name == "AtT" {
				return replicaOf(sel.X, depth)
			}
		case *ast.Ident:
			if depth < 3 {
				if o := objOf(info, v); o != nil {
					if d := singleDef(next, info, o); d != nil {
						return replicaOf(d, depth+1)
					}
				}
			}
		}
		return 3
	}
	isValNone := func(e ast.Expr) bool { return strings.HasSuffix(exprString(e), "ValNone") }
	spec := FlowSpec[c01State]{
		Entry: c01State{c01Tuple{}: true},
		Transfer: func(n ast.Node, s c01State) c01State {
			as, ok := n.(*ast.AssignStmt)
			if !ok {
				return s
			}
			out := c01State{}
			for t := range s {
				for i, l := range as.Lhs {
					if i >= len(as.Rhs) {
						break
					}
					switch {
					case isField(l, fUseA):
						t.useA = 0
						if tv, ok := info.Types[as.Rhs[i]]; ok && tv.Value != nil {
							if tv.Value.ExactString() == "true" {
								t.useA = 1
							} else {
								t.useA = 2
							}
						}
					case isField(l, fLastIter):
						t.lastIter = replicaOf(as.Rhs[i], 0)
					case isField(l, fLastT):
						t.lastT = replicaOf(as.Rhs[i], 0)
					case isField(l, fAval):
						t.aNone = 0
					case isField(l, fBval):
						t.bNone = 0
					}
				}
				out[t] = true
			}
			return out
		},
		Branch: func(cond ast.Expr, truth bool, s c01State) c01State {
			out := c01State{}
			for t := range s {
				feasible := true
				refine(cond, truth, func(atom ast.Expr, tt bool) {
					if isField(atom, fUseA) {
						want := int8(2)
						if tt {
							want = 1
						}
						if t.useA != 0 && t.useA != want {
							feasible = false
						}
						t.useA = want
						return
					}
					b, ok := unparen(atom).(*ast.BinaryExpr)
					if !ok || (b.Op != token.EQL && b.Op != token.NEQ) {
						return
					}
					fld, other := b.X, b.Y
					if isValNone(fld) {
						fld, other = other, fld
					}
					if !isValNone(other) {
						return
					}
					isNone := (b.Op == token.EQL) == tt
					v := int8(2)
					if isNone {
						v = 1
					}
					if isField(fld, fAval) {
						if t.aNone != 0 && t.aNone != v {
							feasible = false
						}
						t.aNone = v
					}
					if isField(fld, fBval) {
						if t.bNone != 0 && t.bNone != v {
							feasible = false
						}
						t.bNone = v
					}
				})
				if feasible {
					out[t] = true
				}
			}
			return out
		},
		Join: func(a, b c01State) c01State {
			o := c01State{}
			for t := range a {
				o[t] = true
			}
			for t := range b {
				o[t] = true
			}
			return o
		},
		Equal: func(a, b c01State) bool {
			if len(a) != len(b) {
				return false
			}
			for t := range a {
				if !b[t] {
					return false
				}
			}
			return true
		},
	}
	r := runFlow(p, next, spec)
	nret := 0
	for _, ex := range r.Exits() {
		if ex.Ret == nil || len(ex.Ret.Results) != 1 {
			continue
		}
		res := ex.Ret.Results[0]
		var which int8
		switch {
		case isField(res, fAval):
			which = 1
		case isField(res, fBval):
			which = 2
		case isValNone(res):
			continue
		default:
			c.Incomplete("position-established", fmt.Sprintf("pkg/dedup.(*dedupSeriesIterator).Next#return[%d]", nret), p.Pos(ex.Pos), "return value "+exprString(res)+" is neither aval, bval nor ValNone")
			nret++
			continue
		}
		construct := fmt.Sprintf("pkg/dedup.(*dedupSeriesIterator).Next#return[%d]:%s", nret, exprString(res))
		nret++
		bad := ""
		for t := range ex.State {
			if (which == 1 && t.aNone == 1) || (which == 2 && t.bNone == 1) {
				continue // returns ValNone on this path
			}
			wantUse := which // 1 => useA true, 2 => useA false
			switch {
			case t.useA != wantUse:
				bad = fmt.Sprintf("useA is %s on a path returning %s", []string{"unknown", "true", "false"}[t.useA], exprString(res))
			case t.lastIter != which:
				bad = fmt.Sprintf("lastIter is %s on a path returning %s", []string{"not assigned", "replica a", "replica b", "something else"}[t.lastIter], exprString(res))
			case t.lastT != which:
				bad = fmt.Sprintf("lastT is %s on a path returning %s", []string{"not assigned", "taken from replica a", "taken from replica b", "something else"}[t.lastT], exprString(res))
			}
		}
		c.Check(bad == "", "position-established", construct, p.Pos(ex.Pos), "stale-position", "a sample is exposed while the iterator's position does not describe it: "+bad)
	}

	// (2) seek targets in Next
	for _, rep := range []struct {
		field, pen string
	}{{fa, "penA"}, {fb, "penB"}} {
		var call *ast.CallExpr
		ast.Inspect(next.Body(), func(n ast.Node) bool {
			if cl, ok := n.(*ast.CallExpr); ok {
				if sel, ok := unparen(cl.Fun).(*ast.SelectorExpr); ok && sel.Sel.Name == "Seek" && isField(sel.X, rep.field) {
					call = cl
				}
			}
			return true
		})
		construct := "pkg/dedup.(*dedupSeriesIterator).Next#seek-" + rep.field
		if call == nil || len(call.Args) != 1 {
			c.Bad("seek-targets", construct, p.Pos(next.Decl.Pos()), "no-inner-seek", "Next does not advance replica "+rep.field+" with Seek")
			continue
		}
		pen := rep.pen
		x := newE9(p, next, func(e ast.Expr, text string) string {
			sel, isSel := unparen(e).(*ast.SelectorExpr)
			if !isSel {
				return ""
			}
			switch {
			case isField(e, fLastT):
				return "lastT"
			case sel.Sel.Name == pen:
				return "pen"
			case sel.Sel.Name == "penA" || sel.Sel.Name == "penB":
				return "otherpen"
			}
			return ""
		})
		_, cx, err := e9Table([]string{"lastT", "pen", "otherpen"}, []int64{-3, 0, 1, 2, 7}, nil,
			func(env map[string]int64) (int64, error) { v, err := x.eval(call.Args[0], env); return v.i, err },
			func(env map[string]int64) int64 { return env["lastT"] + 1 + env["pen"] })
		reportE9(c, "seek-targets", construct, p.Pos(call.Pos()), cx, err, "the seek target of replica "+rep.field+" is not lastT + 1 + its own penalty: output timestamps are no longer strictly increasing / the wrong penalty is applied")
	}

	// (3) Seek
	sinfo := seek.Info()
	srecv := recvObj(seek)
	sField := func(e ast.Expr, name string) bool {
		sel, ok := unparen(e).(*ast.SelectorExpr)
		if !ok || sel.Sel.Name != name {
			return false
		}
		id, ok := unparen(sel.X).(*ast.Ident)
		return ok && objOf(sinfo, id) == srecv
	}
	posSpec := FlowSpec[bool]{
		Entry: false,
		Transfer: func(n ast.Node, s bool) bool {
			inspectNoLit(n, func(x ast.Node) bool {
				if cl, ok := x.(*ast.CallExpr); ok {
					if sel, ok := unparen(cl.Fun).(*ast.SelectorExpr); ok && sel.Sel.Name == "Next" {
						if id, ok := unparen(sel.X).(*ast.Ident); ok && objOf(sinfo, id) == srecv {
							s = true
						}
					}
				}
				return true
			})
			return s
		},
		Branch: func(cond ast.Expr, truth bool, s bool) bool {
			refine(cond, truth, func(atom ast.Expr, t bool) {
				b, ok := unparen(atom).(*ast.BinaryExpr)
				if !ok || (b.Op != token.EQL && b.Op != token.NEQ) {
					return
				}
				l, rr := b.X, b.Y
				if strings.HasSuffix(exprString(l), "MinInt64") {
					l, rr = rr, l
				}
				if sField(l, fLastT) && strings.HasSuffix(exprString(rr), "MinInt64") {
					if (b.Op == token.NEQ) == t {
						s = true
					}
				}
			})
			return s
		},
		Join:  func(a, b bool) bool { return a && b },
		Equal: func(a, b bool) bool { return a == b },
	}
	pr := runFlow(p, seek, posSpec)
	var targetParam types.Object
	if len(seek.Decl.Type.Params.List) == 1 && len(seek.Decl.Type.Params.List[0].Names) == 1 {
		targetParam = sinfo.Defs[seek.Decl.Type.Params.List[0].Names[0]]
	}
	nInner := 0
	ast.Inspect(seek.Body(), func(n ast.Node) bool {
		cl, ok := n.(*ast.CallExpr)
		if !ok {
			return true
		}
		sel, ok := unparen(cl.Fun).(*ast.SelectorExpr)
		if !ok || sel.Sel.Name != "Seek" || !(sField(sel.X, fa) || sField(sel.X, fb)) || len(cl.Args) != 1 {
			return true
		}
		construct := fmt.Sprintf("pkg/dedup.(*dedupSeriesIterator).Seek#inner-seek[%d]", nInner)
		nInner++
		positioned, reached := pr.Before(cl)
		c.Check(!reached || positioned, "seek-positioned", construct+"#positioned", p.Pos(cl.Pos()), "sample-exposed-before-positioning",
			"a replica's sample is returned from Seek on a path where neither Next ran nor lastT was known to be initialised: a reader that seeks first is handed replica a's head")
		// the argument must be the current timestamp, not the caller's target
		arg := unparen(cl.Args[0])
		isCurrent := false
		if id, ok := arg.(*ast.Ident); ok {
			if o := objOf(sinfo, id); o != nil && o != targetParam {
				if d := singleDef(seek, sinfo, o); d != nil {
					arg = unparen(d)
				}
			}
		}
		if call, ok := arg.(*ast.CallExpr); ok {
			if s2, ok := unparen(call.Fun).(*ast.SelectorExpr); ok && s2.Sel.Name == "AtT" {
				isCurrent = true
			}
		}
		c.Check(isCurrent, "seek-positioned", construct+"#current-position-only", p.Pos(cl.Pos()), "replica-advanced-by-seek-target:"+exprString(cl.Args[0]),
			"Seek advances a replica with "+exprString(cl.Args[0])+" instead of iterating with Next: samples in front of the target never reach the penalty logic, so a seek-first reader sees a different merge than a reader iterating from the start")
		return true
	})
	if nInner == 0 {
		c.Observe("seek-positioned", "pkg/dedup.(*dedupSeriesIterator).Seek", p.Pos(seek.Decl.Pos()), "Seek does not call the replicas' Seek at all")
		c.OK("seek-positioned", "pkg/dedup.(*dedupSeriesIterator).Seek#no-inner-seek", p.Pos(seek.Decl.Pos()), "")
		c.OK("seek-positioned", "pkg/dedup.(*dedupSeriesIterator).Seek#no-inner-seek2", p.Pos(seek.Decl.Pos()), "")
	}

	// (3b) Seek leaves the merge state to Next
	nWrites := 0
	isRecvField := func(e ast.Expr) bool {
		for {
			switch x := unparen(e).(type) {
			case *ast.SelectorExpr:
				if id, ok := unparen(x.X).(*ast.Ident); ok && objOf(sinfo, id) == srecv {
					return true
				}
				e = x.X
			case *ast.IndexExpr:
				e = x.X
			case *ast.StarExpr:
				e = x.X
			default:
				return false
			}
		}
	}
	ast.Inspect(seek.Decl.Body, func(n ast.Node) bool {
		var lhs []ast.Expr
		switch x := n.(type) {
		case *ast.AssignStmt:
			lhs = x.Lhs
		case *ast.IncDecStmt:
			lhs = []ast.Expr{x.X}
		}
		for _, l := range lhs {
			if isRecvField(l) {
				nWrites++
				c.Bad("seek-leaves-merge-state-to-next", fmt.Sprintf("pkg/dedup.(*dedupSeriesIterator).Seek#write[%d]", nWrites), p.Pos(l.Pos()), "seek-writes-merge-state:"+exprString(l),
					"Seek assigns "+exprString(l)+": the penalty merge is restarted or skewed at the seek target, so a reader that seeks first is handed samples that a reader iterating from the start had skipped (or the reverse)")
			}
		}
		return true
	})
	if nWrites == 0 {
		c.OK("seek-leaves-merge-state-to-next", "pkg/dedup.(*dedupSeriesIterator).Seek#no-state-write", p.Pos(seek.Decl.Pos()), "")
	}

	// (4) all replicas folded
	checkReplicaFold(c, p, "all-replicas-folded")
}

// checkReplicaFold: dedupSeries.Iterator starts from replicas[0] and ranges over replicas[1:],
// calling the constructor once per element.
func checkReplicaFold(c *Ctx, p *Prog, rule string) {
	fn := p.Func("pkg/dedup", "dedupSeries", "Iterator")
	if fn == nil {
		c.Incomplete(rule, "pkg/dedup.(*dedupSeries).Iterator", "", "function not found")
		return
	}
	usesFirst := false
	var loop *ast.RangeStmt
	ast.Inspect(fn.Body(), func(n ast.Node) bool {
		switch v := n.(type) {
		case *ast.IndexExpr:
			if strings.HasSuffix(exprString(v.X), ".replicas") && exprString(v.Index) == "0" {
				usesFirst = true
			}
		case *ast.RangeStmt:
			if strings.HasSuffix(strings.ReplaceAll(exprString(v.X), " ", ""), ".replicas[1:]") {
				loop = v
			}
		}
		return true
	})
	ctorCalls := 0
	skips := false
	if loop != nil {
		for _, st := range loop.Body.List {
			ast.Inspect(st, func(n ast.Node) bool {
				if cl, ok := n.(*ast.CallExpr); ok {
					if f := calleeOf(fn.Info(), cl); f != nil && f.Name() == "newDedupSeriesIterator" {
						ctorCalls++
					}
				}
				if b, ok := n.(*ast.BranchStmt); ok && (b.Tok == token.CONTINUE || b.Tok == token.BREAK) {
					skips = true
				}
				return true
			})
		}
	}
	c.Check(usesFirst && loop != nil && ctorCalls == 1 && !skips, rule, "pkg/dedup.(*dedupSeries).Iterator", p.Pos(fn.Decl.Pos()), "replica-not-folded",
		fmt.Sprintf("every replica must be folded into the iterator exactly once (uses replicas[0]: %v, ranges over replicas[1:]: %v, constructor calls per element: %d, skips: %v)", usesFirst, loop != nil, ctorCalls, skips))
	// (5) a replica is wrapped in the value-adjusting iterator exactly when isCounter (C02 counter-wrapping);
	// the adjusted values are not samples of any replica, so isCounter may accept only functions with
	// counter semantics. The table is PromQL's (and the Thanos engine's x-) counter functions.
	counterFuncs := map[string]bool{"rate": true, "irate": true, "increase": true, "resets": true, "xrate": true, "xincrease": true}
	isC, _, cands, err := counterClassifiers(p)
	if err != nil {
		c.Incomplete("values-adjusted-only-for-counter-functions", "pkg/dedup.isCounter", "", err.Error())
		return
	}
	var extra []string
	for _, f := range cands {
		if isC[f] && !counterFuncs[f] {
			extra = append(extra, fmt.Sprintf("%q", f))
		}
	}
	c.Check(len(extra) == 0, "values-adjusted-only-for-counter-functions", "pkg/dedup.isCounter", "", "non-counter-function-adjusted:"+strings.Join(extra, ","),
		"isCounter accepts "+strings.Join(extra, ",")+": for these query functions the merge wraps the replicas in the counter-reset adjustment and yields values that no replica holds")
}

func runC02(c *Ctx) {
	c.Rule("adjust-applied", "At returns v + errAdjust", 1)
	c.Rule("adjust-nondecreasing", "errAdjust only grows, by last - v under last > v", 1)
	c.Rule("adjust-on-switch", "Next's epilogue calls adjustAtValue on a replica switch; forwarded to both replicas", 2)
	c.Rule("counter-wrapping", "every replica wrapped in the counter iterator iff isCounter", 1)
	c.Rule("counter-functions", "isCounter ⊇ {rate, irate, increase, resets} and each maps to Aggr_COUNTER", 2)
	p := c.Load("pkg/dedup", "pkg/query")
	if p == nil {
		return
	}
	// (1)
	if at := p.Func("pkg/dedup", "counterErrAdjustSeriesIterator", "At"); at == nil {
		c.Incomplete("adjust-applied", "pkg/dedup.(*counterErrAdjustSeriesIterator).At", "", "function not found")
	} else {
		ok := false
		ast.Inspect(at.Body(), func(n ast.Node) bool {
			if r, isRet := n.(*ast.ReturnStmt); isRet && len(r.Results) == 2 {
				if b, isBin := unparen(r.Results[1]).(*ast.BinaryExpr); isBin && b.Op == token.ADD &&
					(strings.HasSuffix(exprString(b.X), ".errAdjust") || strings.HasSuffix(exprString(b.Y), ".errAdjust")) {
					ok = true
				}
			}
			return true
		})
		c.Check(ok, "adjust-applied", "pkg/dedup.(*counterErrAdjustSeriesIterator).At", p.Pos(at.Decl.Pos()), "adjustment-not-applied", "At does not return value + errAdjust: the reset compensation has no effect")
	}
	// (2)
	if adj := p.Func("pkg/dedup", "counterErrAdjustSeriesIterator", "adjustAtValue"); adj == nil {
		c.Incomplete("adjust-nondecreasing", "pkg/dedup.(*counterErrAdjustSeriesIterator).adjustAtValue", "", "function not found")
	} else {
		info := adj.Info()
		n := 0
		ast.Inspect(adj.Body(), func(nd ast.Node) bool {
			as, ok := nd.(*ast.AssignStmt)
			if !ok || len(as.Lhs) != 1 || !strings.HasSuffix(exprString(as.Lhs[0]), ".errAdjust") {
				return true
			}
			n++
			construct := "pkg/dedup.(*counterErrAdjustSeriesIterator).adjustAtValue#errAdjust"
			if as.Tok != token.ADD_ASSIGN {
				c.Bad("adjust-nondecreasing", construct, p.Pos(as.Pos()), "accumulator-overwritten", "errAdjust is assigned with "+as.Tok.String()+" instead of accumulated with +=")
				return true
			}
			var last types.Object
			if len(adj.Decl.Type.Params.List) == 1 && len(adj.Decl.Type.Params.List[0].Names) == 1 {
				last = info.Defs[adj.Decl.Type.Params.List[0].Names[0]]
			}
			atom := func(e ast.Expr, text string) string {
				if id, ok := unparen(e).(*ast.Ident); ok {
					if o := objOf(info, id); o != nil {
						if o == last {
							return "last"
						}
						if _, isVar := o.(*types.Var); isVar && singleDef(adj, info, o) == nil {
							return "v"
						}
					}
				}
				return ""
			}
			x := newE9(p, adj, atom)
			gs := guardsOf(p, adj, as)
			// under the guard, the increment must be positive and equal to last - v
			_, cx, err := e9Table([]string{"last", "v"}, intRange(-2, 3), nil,
				func(env map[string]int64) (int64, error) {
					g, err := x.evalGuards(gs, env)
					if err != nil || !g {
						return 0, err
					}
					d, err := x.eval(as.Rhs[0], env)
					return d.i, err
				},
				func(env map[string]int64) int64 {
					if env["last"] > env["v"] {
						return env["last"] - env["v"]
					}
					return 0
				})
			reportE9(c, "adjust-nondecreasing", construct, p.Pos(as.Pos()), cx, err, "the compensation added to errAdjust is not (last - v) exactly when last > v: a negative or missing adjustment fabricates a reset")
			return true
		})
		if n == 0 {
			c.Bad("adjust-nondecreasing", "pkg/dedup.(*counterErrAdjustSeriesIterator).adjustAtValue#errAdjust", p.Pos(adj.Decl.Pos()), "no-adjustment", "errAdjust is never updated")
		}
	}
	// (3)
	if next := p.Func("pkg/dedup", "dedupSeriesIterator", "Next"); next == nil {
		c.Incomplete("adjust-on-switch", "pkg/dedup.(*dedupSeriesIterator).Next", "", "function not found")
	} else {
		// first statements: capture lastFloatVal + lastUseA, then defer literal with the switch test
		var deferLit *ast.FuncLit
		deferIdx := -1
		firstRet := 1 << 30
		for i, st := range next.Decl.Body.List {
			if d, ok := st.(*ast.DeferStmt); ok && deferLit == nil {
				if l, ok := d.Call.Fun.(*ast.FuncLit); ok {
					deferLit, deferIdx = l, i
				}
			}
			hasRet := false
			ast.Inspect(st, func(n ast.Node) bool {
				if _, ok := n.(*ast.FuncLit); ok {
					return false
				}
				if _, ok := n.(*ast.ReturnStmt); ok {
					hasRet = true
				}
				return true
			})
			if hasRet && i < firstRet {
				firstRet = i
			}
		}
		ok := false
		why := "no deferred epilogue"
		if deferLit != nil && deferIdx < firstRet {
			why = "epilogue does not call adjustAtValue under `useA changed && previous value was a float`"
			ast.Inspect(deferLit.Body, func(n ast.Node) bool {
				ifs, isIf := n.(*ast.IfStmt)
				if !isIf {
					return true
				}
				cond := strings.ReplaceAll(exprString(ifs.Cond), " ", "")
				calls := false
				ast.Inspect(ifs.Body, func(m ast.Node) bool {
					if cl, isCall := m.(*ast.CallExpr); isCall {
						if f := calleeOf(next.Info(), cl); f != nil && f.Name() == "adjustAtValue" {
							calls = true
						}
					}
					return true
				})
				if calls && strings.Contains(cond, ".useA!=") && strings.Contains(cond, "&&") {
					ok = true
				}
				return true
			})
		}
		c.Check(ok, "adjust-on-switch", "pkg/dedup.(*dedupSeriesIterator).Next#epilogue", p.Pos(next.Decl.Pos()), "no-adjust-on-replica-switch", why)
	}
	if fwd := p.Func("pkg/dedup", "dedupSeriesIterator", "adjustAtValue"); fwd == nil {
		c.Incomplete("adjust-on-switch", "pkg/dedup.(*dedupSeriesIterator).adjustAtValue", "", "function not found")
	} else {
		targets := map[string]bool{}
		ast.Inspect(fwd.Body(), func(n ast.Node) bool {
			if cl, ok := n.(*ast.CallExpr); ok {
				if sel, ok := unparen(cl.Fun).(*ast.SelectorExpr); ok && sel.Sel.Name == "adjustAtValue" {
					targets[exprString(sel.X)] = true
				}
			}
			return true
		})
		c.Check(len(targets) == 2, "adjust-on-switch", "pkg/dedup.(*dedupSeriesIterator).adjustAtValue#forward", p.Pos(fwd.Decl.Pos()), "adjust-not-forwarded", fmt.Sprintf("adjustAtValue is forwarded to %d of the 2 replicas", len(targets)))
	}
	// (4)
	if fn := p.Func("pkg/dedup", "dedupSeries", "Iterator"); fn == nil {
		c.Incomplete("counter-wrapping", "pkg/dedup.(*dedupSeries).Iterator", "", "function not found")
	} else {
		// every composite literal of the two wrapper types sits in an if/else on s.isCounter: counter type in the
		// then-branch, noop in the else-branch; there is one pair for replicas[0] and one pair inside the loop
		pairs := 0
		bad := ""
		ast.Inspect(fn.Body(), func(n ast.Node) bool {
			ifs, ok := n.(*ast.IfStmt)
			if !ok || !strings.HasSuffix(exprString(ifs.Cond), ".isCounter") || ifs.Else == nil {
				return true
			}
			lits := func(b ast.Node) []string {
				var out []string
				ast.Inspect(b, func(m ast.Node) bool {
					if cl, ok := m.(*ast.CompositeLit); ok {
						out = append(out, exprString(cl.Type))
					}
					return true
				})
				return out
			}
			th, el := lits(ifs.Body), lits(ifs.Else)
			if len(th) == 1 && len(el) == 1 && strings.Contains(th[0], "counterErrAdjust") && strings.Contains(el[0], "noop") {
				pairs++
			} else {
				bad = "branch on isCounter builds " + strings.Join(th, ",") + " / " + strings.Join(el, ",")
			}
			return true
		})
		// no wrapper literal outside such an if
		total := 0
		ast.Inspect(fn.Body(), func(n ast.Node) bool {
			if cl, ok := n.(*ast.CompositeLit); ok && (strings.Contains(exprString(cl.Type), "counterErrAdjust") || strings.Contains(exprString(cl.Type), "noopAdjustable")) {
				total++
			}
			return true
		})
		c.Check(pairs == 2 && total == 4 && bad == "", "counter-wrapping", "pkg/dedup.(*dedupSeries).Iterator", p.Pos(fn.Decl.Pos()), "replica-not-counter-wrapped",
			fmt.Sprintf("replicas[0] and each further replica must be wrapped in counterErrAdjustSeriesIterator iff isCounter (isCounter branches: %d, wrapper literals: %d) %s", pairs, total, bad))
	}
	// (5)
	isC, aggr, cands, err := counterClassifiers(p)
	if err != nil {
		c.Incomplete("counter-functions", "pkg/dedup.isCounter", "", err.Error())
		return
	}
	var missing []string
	for _, f := range []string{"rate", "irate", "increase", "resets"} {
		if !isC[f] {
			missing = append(missing, f)
		}
	}
	c.Check(len(missing) == 0, "counter-functions", "pkg/dedup.isCounter", "", "counter-function-not-recognised:"+strings.Join(missing, ","), "isCounter does not accept "+strings.Join(missing, ","))
	var unmapped []string
	for _, f := range cands {
		if isC[f] && !strings.Contains(aggr[f], "Aggr_COUNTER") {
			unmapped = append(unmapped, f)
		}
	}
	sort.Strings(unmapped)
	c.Check(len(unmapped) == 0, "counter-functions", "pkg/query.aggrsFromFunc", "", "counter-function-without-counter-aggregate:"+strings.Join(unmapped, ","),
		"functions treated as counters by the deduplication but not fetched as Aggr_COUNTER: "+strings.Join(unmapped, ","))
}

// counterClassifiers evaluates isCounter and aggrsFromFunc for every function name either of them
// distinguishes (their string constants, one-character extensions, and names neither mentions).
func counterClassifiers(p *Prog) (isC map[string]bool, aggr map[string]string, cands []string, err error) {
	f1, f2 := p.Func("pkg/dedup", "", "isCounter"), p.Func("pkg/query", "", "aggrsFromFunc")
	if f1 == nil || f2 == nil {
		return nil, nil, nil, fmt.Errorf("isCounter / aggrsFromFunc not found")
	}
	e1, err := newStrEval(p, f1)
	if err != nil {
		return nil, nil, nil, err
	}
	e2, err := newStrEval(p, f2)
	if err != nil {
		return nil, nil, nil, err
	}
	cands = strCandidates(e1, e2)
	isC, aggr = map[string]bool{}, map[string]string{}
	for _, s := range cands {
		r, err := e1.Eval(s)
		if err != nil {
			return nil, nil, nil, err
		}
		isC[s] = r == "true"
		if aggr[s], err = e2.Eval(s); err != nil {
			return nil, nil, nil, err
		}
	}
	return isC, aggr, cands, nil
}

