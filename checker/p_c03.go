package main

import (
	"fmt"
	"go/ast"
	"go/token"
	"go/types"
	"strings"
)

func init() {
	register(&Property{
		ID:    "C03",
		Title: "StoreAPI fan-out merge returns each series once, sorted, with all chunks",
		Explain: "(1) Comparator agreement: the loser tree's less, responseDeduplicator.Next, sortWithoutLabels and resortingServer.Flush all order or equate series by labels.Compare over ZLabelsToPromLabels of the two series' Labels; less is evaluated (E9) over {is sentinel, is series, label order}: the sentinel is larger than everything, non-series frames come before series, series follow the label order strictly. " +
			"(2) Group closure: the deduplicator chains the buffered same-label group only when the next series' labels differ or the merged stream ended — never because a non-series frame arrived (lazy retrieval interleaves hints/warnings between equal series of different stores). " +
			"(3) Chunk identity and order: the dedup key of a chunk is computed after visiting every *Chunk field of storepb.AggrChunk (field coverage), and the final chunks are sorted by AggrChunk.Compare, whose (MinTime, MaxTime) head is evaluated (E9) against ascending time order. " +
			"(4) Flush on success: every Series implementation that sends through a flushable/batchable server passes through Flush on every successful exit that can follow a Send; the three Flush implementations forward to the wrapped server when it is flushable. " +
			"(5) Batching conserves and orders series (frame-buffer typestate on batchableServer, shared with C04). " +
			"(6) Request forwarding: the SeriesRequest built by ProxyStore.Series copies every field of the incoming request except an audited allow-list.",
		Assume: []string{"the loser tree itself (pkg/losertree) and goroutine interleavings of lazy receivers are not decided", "stores stream label-sorted series"},
		Run:    runC03,
	})
}

func runC03(c *Ctx) {
	c.Rule("series-comparator-agreement", "all four orderings compare the series' label sets with labels.Compare", 4)
	c.Rule("merge-less-order", "sentinel last, non-series first, series by label order", 1)
	c.Rule("group-closed-on-label-change-only", "same-label group chained only at a label change or end of stream", 2)
	c.Rule("chunk-identity-covers-all-subchunks", "dedup key built from every sub-chunk field", 2)
	c.Rule("chunks-sorted-by-time", "final chunks ascending by (MinTime, MaxTime)", 1)
	c.Rule("flush-on-success", "Flush on every successful exit after a Send; Flush forwards", 6)
	c.Rule("request-forwarded-completely", "every request field forwarded or allow-listed", 1)
	p := c.Load("pkg/store", "pkg/store/storepb")
	if p == nil {
		return
	}
	const rel = "pkg/store"

	// (1) comparator sites
	type cmpSite struct {
		construct string
		body      ast.Node
		fn        *Fn
		pos       token.Pos
	}
	var sites []cmpSite
	addLitIn := func(recv, name, hint string) {
		fn := p.Func(rel, recv, name)
		construct := rel + "." + name
		if recv != "" {
			construct = fmt.Sprintf("%s.(*%s).%s", rel, recv, name)
		}
		if fn == nil {
			c.Incomplete("series-comparator-agreement", construct, "", "function not found")
			return
		}
		if hint == "" {
			sites = append(sites, cmpSite{construct, fn.Body(), fn, fn.Decl.Pos()})
			return
		}
		found := false
		for _, lit := range p.Lits(fn) {
			if mentionsCall(lit.Body(), "Compare") {
				sites = append(sites, cmpSite{construct + "#" + hint, lit.Body(), fn, lit.Lit.Pos()})
				found = true
				break
			}
		}
		if !found {
			c.Incomplete("series-comparator-agreement", construct+"#"+hint, p.Pos(fn.Decl.Pos()), "no comparison literal found")
		}
	}
	addLitIn("", "NewProxyResponseLoserTree", "less")
	addLitIn("responseDeduplicator", "Next", "")
	addLitIn("", "sortWithoutLabels", "less")
	addLitIn("resortingServer", "Flush", "cmp")
	for _, s := range sites {
		info := s.fn.Info()
		n, bad := 0, ""
		ast.Inspect(s.body, func(nd ast.Node) bool {
			call, ok := nd.(*ast.CallExpr)
			if !ok {
				return true
			}
			f := calleeOf(info, call)
			if f == nil || f.Name() != "Compare" || f.Pkg() == nil || !strings.HasSuffix(f.Pkg().Path(), "model/labels") || len(call.Args) != 2 {
				return true
			}
			n++
			var srcs []string
			for _, a := range call.Args {
				t := expandDefText(s.fn, info, a)
				if !strings.Contains(t, "ZLabelsToPromLabels(") || !strings.HasSuffix(strings.TrimSuffix(t, ")"), ".Labels") {
					bad = "labels.Compare is applied to " + t + ", not to a series' complete label set"
				}
				srcs = append(srcs, t)
			}
			if len(srcs) == 2 && srcs[0] == srcs[1] {
				bad = "labels.Compare compares " + srcs[0] + " with itself"
			}
			return true
		})
		if n == 0 {
			bad = "no labels.Compare call"
		}
		c.Check(bad == "", "series-comparator-agreement", s.construct, p.Pos(s.pos), "comparator-differs", bad)
	}

	// less: truth table
	if fn := p.Func(rel, "", "NewProxyResponseLoserTree"); fn != nil {
		var less *Fn
		for _, lit := range p.Lits(fn) {
			if mentionsCall(lit.Body(), "Compare") {
				less = lit
			}
		}
		construct := rel + ".NewProxyResponseLoserTree#less"
		if less == nil || len(less.Lit.Type.Params.List) == 0 {
			c.Incomplete("merge-less-order", construct, p.Pos(fn.Decl.Pos()), "less literal not found")
		} else {
			var names []string
			for _, f := range less.Lit.Type.Params.List {
				for _, nm := range f.Names {
					names = append(names, nm.Name)
				}
			}
			if len(names) != 2 {
				c.Incomplete("merge-less-order", construct, p.Pos(less.Lit.Pos()), "less does not take two parameters")
			} else {
				a, b := names[0], names[1]
				// the sentinel is whatever the enclosing function hands to losertree.New as the maximum value
				sentinel := "maxVal"
				ast.Inspect(fn.Body(), func(nd ast.Node) bool {
					if call, ok := nd.(*ast.CallExpr); ok && len(call.Args) >= 2 {
						if f := calleeOf(fn.Info(), call); f != nil && f.Pkg() != nil && strings.HasSuffix(f.Pkg().Path(), "/losertree") && f.Name() == "New" {
							if id, ok := unparen(call.Args[1]).(*ast.Ident); ok {
								sentinel = id.Name
							}
						}
					}
					return true
				})
				x := newE9(p, less, func(e ast.Expr, text string) string {
					t := strings.ReplaceAll(text, " ", "")
					switch t {
					case a:
						return "a"
					case b:
						return "b"
					case sentinel:
						return "mx"
					case a + ".GetSeries()":
						return "as"
					case b + ".GetSeries()":
						return "bs"
					}
					return ""
				})
				x.AtomCmp = func(e ast.Expr, t string) string {
					switch {
					case strings.HasPrefix(t, "labels.Compare("):
						// which parameter each argument derives from decides the direction
						be, ok := unparen(e).(*ast.BinaryExpr)
						if !ok {
							return ""
						}
						call, ok := unparen(be.X).(*ast.CallExpr)
						if !ok || len(call.Args) != 2 {
							return ""
						}
						if z, isZero := constInt(less.Info(), be.Y); !isZero || z != 0 {
							return ""
						}
						x0, x1 := expandDefText(less, less.Info(), call.Args[0]), expandDefText(less, less.Info(), call.Args[1])
						fwd := strings.Contains(x0, a+".GetSeries()") && strings.Contains(x1, b+".GetSeries()")
						rev := strings.Contains(x0, b+".GetSeries()") && strings.Contains(x1, a+".GetSeries()")
						switch {
						case (fwd && be.Op == token.LSS) || (rev && be.Op == token.GTR):
							return "lt"
						case (fwd && be.Op == token.GTR) || (rev && be.Op == token.LSS):
							return "gt"
						}
						return ""
					case t == a+".GetWarning()!=\"\"":
						return "aw"
					case t == b+".GetWarning()!=\"\"":
						return "bw"
					case strings.HasPrefix(t, "len("+a+".GetWarning())"):
						return "wlt"
					}
					return ""
				}
				n, cx, err := e9Table([]string{"a", "b", "mx", "as", "bs", "lt", "gt", "aw", "bw", "wlt"}, intRange(0, 1),
					func(env map[string]int64) bool {
						am, bm := env["a"] == env["mx"], env["b"] == env["mx"]
						if env["lt"] == 1 && env["gt"] == 1 {
							return false
						}
						if env["mx"] != 1 || (am && env["as"] != 0) || (bm && env["bs"] != 0) {
							return false
						}
						if am && bm {
							return false // unconstrained
						}
						if !am && !bm && env["as"] == 0 && env["bs"] == 0 {
							return false // order among non-series frames is free
						}
						return true
					},
					func(env map[string]int64) (int64, error) {
						v, err := x.evalBody(less.Lit.Body.List, env)
						return b2i(v.b), err
					},
					func(env map[string]int64) int64 {
						am, bm := env["a"] == env["mx"], env["b"] == env["mx"]
						switch {
						case am:
							return 0
						case bm:
							return 1
						case env["as"] != 0 && env["bs"] != 0:
							return env["lt"]
						case env["as"] == 0:
							return 1
						}
						return 0
					})
				c.Stats["assignments_evaluated"] += n
				reportE9(c, "merge-less-order", construct, p.Pos(less.Lit.Pos()), cx, err, "the merge order differs from: sentinel last, non-series frames first, series by strict label order")
			}
		}
	} else {
		c.Incomplete("merge-less-order", rel+".NewProxyResponseLoserTree", "", "function not found")
	}

	// (2) group closure
	if fn := p.Func(rel, "responseDeduplicator", "Next"); fn == nil {
		c.Incomplete("group-closed-on-label-change-only", rel+".(*responseDeduplicator).Next", "", "function not found")
	} else {
		info := fn.Info()
		n := 0
		ast.Inspect(fn.Body(), func(nd ast.Node) bool {
			call, ok := nd.(*ast.CallExpr)
			if !ok {
				return true
			}
			if f := calleeOf(info, call); f == nil || f.Name() != "chainSeriesAndRemIdenticalChunks" {
				return true
			}
			why := ""
			for _, g := range guardsOf(p, fn, call) {
				refine(g.Cond, g.Pol, func(atom ast.Expr, t bool) {
					txt := canon(atom)
					switch {
					case strings.HasPrefix(txt, "labels.Compare(") && strings.HasSuffix(txt, ")==0") && !t:
						why = "labels differ"
					case strings.HasPrefix(txt, "labels.Compare(") && strings.HasSuffix(txt, ")!=0") && t:
						why = "labels differ"
					case strings.HasSuffix(txt, ".ok") && !t:
						why = "stream ended"
					}
				})
			}
			ob := fmt.Sprintf("%s.(*responseDeduplicator).Next#chain[%d]", rel, n)
			n++
			c.Check(why != "", "group-closed-on-label-change-only", ob, p.Pos(call.Pos()), "group-closed-early",
				"the buffered same-label group is chained on a path where neither the next series' labels differ nor the stream ended: equal series arriving after this point start a second entry for the same label set")
			return true
		})
		if n == 0 {
			c.Incomplete("group-closed-on-label-change-only", rel+".(*responseDeduplicator).Next", p.Pos(fn.Decl.Pos()), "no chaining call found")
		}
	}

	// (3) chunk identity
	if fn := p.Func(rel, "responseDeduplicator", "chainSeriesAndRemIdenticalChunks"); fn == nil {
		c.Incomplete("chunk-identity-covers-all-subchunks", rel+".(*responseDeduplicator).chainSeriesAndRemIdenticalChunks", "", "function not found")
	} else {
		info := fn.Info()
		construct := rel + ".(*responseDeduplicator).chainSeriesAndRemIdenticalChunks"
		// the field list
		var want []string
		if n := p.lookupNamed(thanosMod+"/pkg/store/storepb", "AggrChunk"); n != nil {
			if st, ok := n.Underlying().(*types.Struct); ok {
				for i := 0; i < st.NumFields(); i++ {
					if isNamed(st.Field(i).Type(), "storepb", "Chunk") {
						want = append(want, st.Field(i).Name())
					}
				}
			}
		}
		var fieldLoop *ast.RangeStmt
		listed := map[string]bool{}
		ast.Inspect(fn.Body(), func(nd ast.Node) bool {
			rs, ok := nd.(*ast.RangeStmt)
			if !ok {
				return true
			}
			cl, ok := unparen(rs.X).(*ast.CompositeLit)
			if !ok {
				return true
			}
			if sl, ok := info.TypeOf(cl).Underlying().(*types.Slice); !ok || !isNamed(sl.Elem(), "storepb", "Chunk") {
				return true
			}
			fieldLoop = rs
			for _, el := range cl.Elts {
				if sel, ok := unparen(el).(*ast.SelectorExpr); ok {
					listed[sel.Sel.Name] = true
				}
			}
			return true
		})
		var missing []string
		for _, w := range want {
			if !listed[w] {
				missing = append(missing, w)
			}
		}
		switch {
		case fieldLoop == nil || len(want) == 0:
			c.Incomplete("chunk-identity-covers-all-subchunks", construct+"#fields", p.Pos(fn.Decl.Pos()), "no loop over the sub-chunk fields found")
		default:
			c.Check(len(missing) == 0, "chunk-identity-covers-all-subchunks", construct+"#fields", p.Pos(fieldLoop.Pos()), "subchunk-not-in-identity:"+strings.Join(missing, ","),
				"sub-chunk fields of storepb.AggrChunk that do not take part in the chunk's identity: "+strings.Join(missing, ", "))
			// the key accumulator carries no state from the previous chunk: a variable the field loop writes and
			// that lives longer than one chunk (declared outside the loop over the chunks) must be written
			// unconditionally for every field — no continue / break, no write under an if.
			var chunkLoop *ast.RangeStmt
			ast.Inspect(fn.Body(), func(nd ast.Node) bool {
				if rs, ok := nd.(*ast.RangeStmt); ok && rs != fieldLoop && rs.Body.Pos() <= fieldLoop.Pos() && fieldLoop.End() <= rs.Body.End() {
					chunkLoop = rs // innermost enclosing loop: visited last
				}
				return true
			})
			stale := ""
			if chunkLoop != nil {
				skips := false
				ast.Inspect(fieldLoop.Body, func(nd ast.Node) bool {
					switch v := nd.(type) {
					case *ast.FuncLit:
						return false
					case *ast.RangeStmt, *ast.ForStmt:
						return false // a branch statement in there targets the inner loop
					case *ast.BranchStmt:
						if v.Tok == token.CONTINUE || v.Tok == token.BREAK || v.Tok == token.GOTO {
							skips = true
						}
					}
					return true
				})
				for _, st := range fieldLoop.Body.List {
					_, conditional := st.(*ast.IfStmt)
					ast.Inspect(st, func(nd ast.Node) bool {
						id, ok := nd.(*ast.Ident)
						if !ok || stale != "" {
							return true
						}
						v, ok := info.Uses[id].(*types.Var)
						if !ok || v.IsField() || v.Parent() == nil || v.Parent().Parent() == types.Universe || v == recvObj(fn) {
							return true
						}
						declaredIn := func(n ast.Node) bool { return n.Pos() <= v.Pos() && v.Pos() <= n.End() }
						if declaredIn(chunkLoop) || declaredIn(fieldLoop) {
							return true
						}
						// a variable that outlives the chunk
						if _, isArr := v.Type().Underlying().(*types.Array); !isArr {
							if _, isSl := v.Type().Underlying().(*types.Slice); !isSl {
								return true
							}
						}
						if skips || conditional {
							stale = v.Name()
						}
						return true
					})
				}
			}
			c.Check(stale == "", "chunk-identity-covers-all-subchunks", construct+"#key-fresh-per-chunk", p.Pos(fieldLoop.Pos()), "key-keeps-previous-chunk:"+stale,
				"the key buffer "+stale+" is declared outside the loop over the chunks and is not written for every sub-chunk field (continue / break / conditional write): a slot that is skipped keeps the previous chunk's checksum, so a chunk's identity depends on what was merged before it")
			// the insertion into the dedup map happens once per chunk, after all fields were visited
			var insert *ast.AssignStmt
			ast.Inspect(fn.Body(), func(nd ast.Node) bool {
				if as, ok := nd.(*ast.AssignStmt); ok && len(as.Lhs) == 1 {
					if ix, ok := unparen(as.Lhs[0]).(*ast.IndexExpr); ok && strings.HasSuffix(canon(ix.X), ".chunkDedupMap") {
						insert = as
					}
				}
				return true
			})
			switch {
			case insert == nil:
				c.Incomplete("chunk-identity-covers-all-subchunks", construct+"#key", p.Pos(fn.Decl.Pos()), "no insertion into the dedup map found")
			default:
				inside := fieldLoop.Body.Pos() <= insert.Pos() && insert.End() <= fieldLoop.Body.End()
				c.Check(!inside, "chunk-identity-covers-all-subchunks", construct+"#key", p.Pos(insert.Pos()), "chunk-keyed-by-single-subchunk",
					"a chunk is entered into the dedup map inside the loop over its sub-chunks, i.e. under the checksum of one aggregate: a second copy of an aggregated chunk finds its first aggregate taken, moves on to the next one and is kept under that — identical downsampled chunks from several stores are all returned")
			}
		}
		// chunk order
		var lessLit *Fn
		for _, lit := range p.Lits(fn) {
			if mentionsCall(lit.Body(), "Compare") {
				lessLit = lit
			}
		}
		if lessLit == nil || len(lessLit.Lit.Body.List) != 1 {
			c.Incomplete("chunks-sorted-by-time", construct+"#less", p.Pos(fn.Decl.Pos()), "sort comparison not found")
		} else {
			// less is `X[i].Compare(X[j]) <op> k`; Compare's (MinTime, MaxTime) head is evaluated
			// with its own receiver/parameter names bound to the two indexed elements.
			var cmpFn *Fn
			recvIdx, argIdx, op, k, shapeOK := "", "", token.ILLEGAL, int64(0), false
			if ret, ok := lessLit.Lit.Body.List[0].(*ast.ReturnStmt); ok && len(ret.Results) == 1 {
				if be, ok := unparen(ret.Results[0]).(*ast.BinaryExpr); ok {
					if call, ok := unparen(be.X).(*ast.CallExpr); ok && len(call.Args) == 1 {
						if f := calleeOf(lessLit.Info(), call); f != nil && f.Name() == "Compare" {
							cmpFn = p.findFuncDecl(f)
							if sel, ok := unparen(call.Fun).(*ast.SelectorExpr); ok {
								if ri, ok := unparen(sel.X).(*ast.IndexExpr); ok {
									recvIdx = canon(ri.Index)
								}
							}
							if ai, ok := unparen(call.Args[0]).(*ast.IndexExpr); ok {
								argIdx = canon(ai.Index)
							}
							if kv, ok := constInt(lessLit.Info(), be.Y); ok {
								op, k, shapeOK = be.Op, kv, true
							}
						}
					}
				}
			}
			var params []string
			if len(lessLit.Lit.Type.Params.List) > 0 {
				for _, f := range lessLit.Lit.Type.Params.List {
					for _, nm := range f.Names {
						params = append(params, nm.Name)
					}
				}
			}
			if !shapeOK || cmpFn == nil || len(params) != 2 || cmpFn.Decl.Recv == nil || len(cmpFn.Decl.Recv.List[0].Names) != 1 ||
				!((recvIdx == params[0] && argIdx == params[1]) || (recvIdx == params[1] && argIdx == params[0])) {
				c.Incomplete("chunks-sorted-by-time", construct+"#less", p.Pos(lessLit.Lit.Pos()), "sort comparison is not of the form X[i].Compare(X[j]) <op> constant")
				return
			}
			rn := cmpFn.Decl.Recv.List[0].Names[0].Name
			pn := cmpFn.Decl.Type.Params.List[0].Names[0].Name
			first, second := "i", "j" // which less-parameter the receiver / the argument stand for
			if recvIdx == params[1] {
				first, second = "j", "i"
			}
			x := newE9(p, cmpFn, func(e ast.Expr, text string) string {
				t := strings.ReplaceAll(text, " ", "")
				switch t {
				case rn + ".MinTime":
					return first + "min"
				case rn + ".MaxTime":
					return first + "max"
				case pn + ".MinTime":
					return second + "min"
				case pn + ".MaxTime":
					return second + "max"
				}
				return ""
			})
			n, cx, err := e9Table([]string{"imin", "imax", "jmin", "jmax"}, intRange(0, 2),
				func(env map[string]int64) bool {
					return !(env["imin"] == env["jmin"] && env["imax"] == env["jmax"])
				},
				func(env map[string]int64) (int64, error) {
					v, err := x.evalBody(cmpFn.Decl.Body.List, env)
					if err != nil {
						return 0, err
					}
					switch op {
					case token.GTR:
						return b2i(v.i > k), nil
					case token.LSS:
						return b2i(v.i < k), nil
					case token.GEQ:
						return b2i(v.i >= k), nil
					case token.LEQ:
						return b2i(v.i <= k), nil
					}
					return 0, fmt.Errorf("operator %s", op)
				},
				func(env map[string]int64) int64 {
					return b2i(env["imin"] < env["jmin"] || (env["imin"] == env["jmin"] && env["imax"] < env["jmax"]))
				})
			c.Stats["assignments_evaluated"] += n
			reportE9(c, "chunks-sorted-by-time", construct+"#less", p.Pos(lessLit.Lit.Pos()), cx, err, "final chunks are not sorted ascending by (MinTime, MaxTime)")
		}
	}

	// (4) flush on success
	for _, spec := range []struct{ recv, fn string }{
		{"TSDBStore", "Series"}, {"BucketStore", "Series"}, {"ProxyStore", "Series"},
		{"PrometheusStore", "Series"}, {"PrometheusStore", "handleSampledPrometheusResponse"}, {"PrometheusStore", "handleStreamedPrometheusResponse"},
	} {
		fn := p.Func(rel, spec.recv, spec.fn)
		construct := fmt.Sprintf("%s.(*%s).%s", rel, spec.recv, spec.fn)
		if fn == nil {
			c.Incomplete("flush-on-success", construct, "", "function not found")
			continue
		}
		info := fn.Info()
		isSend := func(i *types.Info, call *ast.CallExpr) bool { return isSendCall(call) }
		isFlush := func(i *types.Info, call *ast.CallExpr) bool {
			sel, ok := unparen(call.Fun).(*ast.SelectorExpr)
			if ok && sel.Sel.Name == "Flush" {
				return true
			}
			// helpers that finish the response themselves
			f := calleeOf(i, call)
			return f != nil && strings.HasPrefix(f.Name(), "handle") && strings.HasSuffix(f.Name(), "PrometheusResponse")
		}
		// sends inside literals run in place (tracing.DoInSpan): a literal that sends counts as a send at its call
		litSends := func(i *types.Info, call *ast.CallExpr) bool {
			for _, a := range call.Args {
				if fl, ok := unparen(a).(*ast.FuncLit); ok {
					found := false
					ast.Inspect(fl.Body, func(x ast.Node) bool {
						if cc, ok := x.(*ast.CallExpr); ok && isSendCall(cc) {
							found = true
						}
						return true
					})
					if found {
						return true
					}
				}
			}
			return false
		}
		e := newE3(p, fn, []Ev{{Name: "send", Match: func(i *types.Info, call *ast.CallExpr) bool { return isSend(i, call) || litSends(i, call) }}, {Name: "flush", Match: isFlush}})
		bad, pos := "", p.Pos(fn.Decl.Pos())
		nExits := 0
		for _, ex := range e.Exits() {
			if ex.Panic {
				continue
			}
			if ex.Ret != nil && !fbSuccessReturn(info, ex.Ret) {
				continue
			}
			if ex.Ret != nil && len(ex.Ret.Results) == 0 && bareReturnFails(p, fn, ex.Ret) {
				continue
			}
			nExits++
			if ex.Bits["send"]&^eNo == 0 {
				continue // nothing was sent on any path to this exit
			}
			if ex.Bits["flush"]&eNo == 0 {
				continue // a flush ran (or is the returned call) on every path
			}
			// not flushable: `if f, ok := srv.(flushableServer); ok { return f.Flush() }; return nil`
			exempt := false
			if ex.Ret != nil {
				for _, g := range precedingExitsOf(p, fn, ex.Ret) {
					if g.Init != nil && strings.Contains(exprString2(g.Init), "flushableServer") {
						exempt = true
					}
				}
			}
			if !exempt {
				bad, pos = "a successful exit can follow a Send without passing through Flush: series held back by the batching / re-sorting server are never delivered", ex.Pos
			}
		}
		if nExits == 0 {
			c.Incomplete("flush-on-success", construct, pos, "no successful exit found")
			continue
		}
		c.Check(bad == "", "flush-on-success", construct, pos, "exit-without-flush", bad)
	}
	for _, recv := range []string{"passthroughServer", "resortingServer"} {
		fn := p.Func(rel, recv, "Flush")
		construct := fmt.Sprintf("%s.(*%s).Flush", rel, recv)
		if fn == nil {
			c.Incomplete("flush-on-success", construct, "", "function not found")
			continue
		}
		forwards := false
		ast.Inspect(fn.Body(), func(nd ast.Node) bool {
			if is, ok := nd.(*ast.IfStmt); ok && is.Init != nil && strings.Contains(exprString2(is.Init), "flushableServer") {
				ast.Inspect(is.Body, func(x ast.Node) bool {
					if ret, ok := x.(*ast.ReturnStmt); ok && len(ret.Results) == 1 && strings.HasSuffix(canon(ret.Results[0]), ".Flush()") {
						forwards = true
					}
					return true
				})
			}
			return true
		})
		c.Check(forwards, "flush-on-success", construct+"#forwards", p.Pos(fn.Decl.Pos()), "flush-not-forwarded", "Flush must forward to the wrapped server when that is flushable (the batching server sits below the re-sorting server)")
	}

	// (6) request forwarding
	if fn := p.Func(rel, "ProxyStore", "Series"); fn == nil {
		c.Incomplete("request-forwarded-completely", rel+".(*ProxyStore).Series", "", "function not found")
	} else if n := p.lookupNamed(thanosMod+"/pkg/store/storepb", "SeriesRequest"); n == nil {
		c.Incomplete("request-forwarded-completely", rel+".(*ProxyStore).Series", "", "storepb.SeriesRequest not found")
	} else {
		allow := map[string]string{
			"Hints": "store-specific Any, never interpreted by downstream stores through the proxy",
			"Step":  "deprecated, superseded by QueryHints",
			"Range": "deprecated, superseded by QueryHints",
		}
		written := fieldWrites(p, []*Fn{fn}, n)
		var missing []string
		for _, f := range structFieldNames(n) {
			if _, ok := written[f]; !ok {
				if _, ok := allow[f]; !ok {
					missing = append(missing, f)
				}
			}
		}
		c.Check(len(missing) == 0, "request-forwarded-completely", rel+".(*ProxyStore).Series", p.Pos(fn.Decl.Pos()), "request-field-dropped:"+strings.Join(missing, ","),
			"fields of the incoming SeriesRequest that the proxy does not forward to the stores: "+strings.Join(missing, ", "))
	}
}

func mentionsCall(n ast.Node, name string) bool {
	found := false
	ast.Inspect(n, func(x ast.Node) bool {
		if c, ok := x.(*ast.CallExpr); ok {
			if sel, ok := unparen(c.Fun).(*ast.SelectorExpr); ok && sel.Sel.Name == name {
				found = true
			}
		}
		return !found
	})
	return found
}

// precedingExitsOf: the early-exit guards in the statement list that contains n.
func precedingExitsOf(p *Prog, fn *Fn, n ast.Node) []guardCond {
	par := p.ParentOf(fn.Pkg, n)
	if blk, ok := par.(*ast.BlockStmt); ok {
		return precedingExits(blk.List, n)
	}
	return nil
}

// bareReturnFails: a bare `return` in a function with a named error result, on a path where that
// result was just tested non-nil.
func bareReturnFails(p *Prog, fn *Fn, ret *ast.ReturnStmt) bool {
	if fn.Decl == nil || fn.Decl.Type.Results == nil {
		return false
	}
	info := fn.Info()
	var errObj types.Object
	for _, f := range fn.Decl.Type.Results.List {
		for _, nm := range f.Names {
			if o := info.Defs[nm]; o != nil && types.Identical(o.Type(), types.Universe.Lookup("error").Type()) {
				errObj = o
			}
		}
	}
	if errObj == nil {
		return false
	}
	fails := false
	for _, g := range guardsOf(p, fn, ret) {
		refine(g.Cond, g.Pol, func(atom ast.Expr, t bool) {
			if be, ok := unparen(atom).(*ast.BinaryExpr); ok && isNil(info, be.Y) && objOf(info, be.X) == errObj {
				if (be.Op == token.NEQ && t) || (be.Op == token.EQL && !t) {
					fails = true
				}
			}
		})
	}
	return fails
}
