package main

import (
	"fmt"
	"go/ast"
	"go/constant"
	"go/token"
	"go/types"
	"strings"
)

func init() {
	register(&Property{
		ID:    "C04",
		Title: "Deduplicated queries return each logical series once with replica data",
		Explain: "(1) In querier.selectFn, LabelValues and LabelNames the request's WithoutReplicaLabels is set from q.replicaLabels under exactly the guard isDedupEnabled(), nowhere else; selectFn returns the plain NewPromSeriesSet only when dedup is off and otherwise dedup.NewSeriesSet over NewPromSeriesSet(NewOverlapSplit(…)) (path conditions). " +
			"(2) isDedupEnabled == deduplicate && len(replicaLabels) > 0 (E9 truth table). " +
			"(3) chunkSeries.Iterator handles every storepb.Aggr constant except RAW, each case reads the sub-chunk of the same name first and Raw as fallback, and the two-aggregate case accepts exactly {COUNT,SUM} in both orders. " +
			"(4) chunkSeriesIterator.Next remembers the last timestamp before advancing and seeks the next chunk to lastT+1 (the overlap-skipping step). " +
			"(5) seriesServer.Send stores the series of both frame kinds (GetSeries and every element of GetBatch). " +
			"(6) Frame ownership (frame-buffer typestate): in TSDBStore.Series and batchableServer.Send/Flush a slice that was handed to Send inside a response is never appended to, re-sliced for writing or element-assigned afterwards — the re-sorting server keeps every frame until Flush, so re-using the buffer overwrites chunks of frames already 'sent'.",
		Assume: []string{"sample equality for arbitrary chunk cuts is not decided", "the frame typestate tracks one loop flag and len(buffer) tests only"},
		Run:    runC04,
	})
}

func runC04(c *Ctx) {
	c.Rule("dedup-request-consistent", "WithoutReplicaLabels set iff isDedupEnabled, in all three querier methods", 3)
	c.Rule("dedup-set-construction", "dedup series set iff dedup enabled; overlap split inside", 2)
	c.Rule("dedup-enabled-formula", "isDedupEnabled = deduplicate && len(replicaLabels) > 0", 1)
	c.Rule("aggregate-dispatch", "every aggregate reads its own sub-chunk", 5)
	c.Rule("overlap-skip", "next chunk is sought to lastT+1", 1)
	c.Rule("all-frame-kinds-stored", "series and batch frames are both stored", 2)
	c.Rule("sent-frame-not-reused", "a slice handed to Send is not written afterwards", 3)
	p := c.Load("pkg/query", "pkg/store")
	if p == nil {
		return
	}
	const rel = "pkg/query"

	// (1)
	for _, name := range []string{"selectFn", "LabelValues", "LabelNames"} {
		fn := p.Func(rel, "querier", name)
		construct := rel + ".(*querier)." + name
		if fn == nil {
			c.Incomplete("dedup-request-consistent", construct, "", "function not found")
			continue
		}
		info := fn.Info()
		n, bad, pos := 0, "", p.Pos(fn.Decl.Pos())
		ast.Inspect(fn.Body(), func(nd ast.Node) bool {
			switch v := nd.(type) {
			case *ast.AssignStmt:
				for i, lh := range v.Lhs {
					sel, ok := unparen(lh).(*ast.SelectorExpr)
					if !ok || sel.Sel.Name != "WithoutReplicaLabels" {
						continue
					}
					n++
					pos = p.Pos(v.Pos())
					if i >= len(v.Rhs) || !strings.HasSuffix(canon(v.Rhs[i]), ".replicaLabels") {
						bad = "WithoutReplicaLabels is not set from the querier's replicaLabels"
						continue
					}
					if !c04GuardedByDedup(p, fn, info, v, true) {
						bad = "WithoutReplicaLabels is set on a path that is not guarded by isDedupEnabled()"
					}
				}
			case *ast.KeyValueExpr:
				if k, ok := v.Key.(*ast.Ident); ok && k.Name == "WithoutReplicaLabels" {
					n++
					pos = p.Pos(v.Pos())
					bad = "WithoutReplicaLabels is set unconditionally in the request literal"
				}
			}
			return true
		})
		switch {
		case n == 0:
			c.Bad("dedup-request-consistent", construct, pos, "replica-labels-not-requested", "the request never asks the stores to drop the replica labels, so replicas are not merged when deduplication is on")
		default:
			c.Check(bad == "", "dedup-request-consistent", construct, pos, "replica-labels-guard", bad)
		}
	}
	if fn := p.Func(rel, "querier", "selectFn"); fn != nil {
		info := fn.Info()
		var plain, dedup *ast.ReturnStmt
		ast.Inspect(fn.Body(), func(nd ast.Node) bool {
			ret, ok := nd.(*ast.ReturnStmt)
			if !ok || len(ret.Results) == 0 {
				return true
			}
			call, ok := unparen(ret.Results[0]).(*ast.CallExpr)
			if !ok {
				return true
			}
			switch f := calleeOf(info, call); {
			case f == nil:
			case f.Name() == "NewPromSeriesSet":
				plain = ret
			case f.Name() == "NewSeriesSet" && strings.HasSuffix(f.Pkg().Path(), "pkg/dedup"):
				dedup = ret
			}
			return true
		})
		construct := rel + ".(*querier).selectFn"
		if plain == nil || dedup == nil {
			c.Bad("dedup-set-construction", construct, p.Pos(fn.Decl.Pos()), "return-shape", "selectFn must return the plain series set when dedup is off and dedup.NewSeriesSet otherwise")
		} else {
			c.Check(c04GuardedByDedup(p, fn, info, plain, false), "dedup-set-construction", construct+"#plain", p.Pos(plain.Pos()), "plain-set-with-dedup-on",
				"the undeduplicated series set is returned on a path where deduplication may be enabled")
			okD := c04GuardedByDedup(p, fn, info, dedup, true)
			// the set handed to dedup.NewSeriesSet wraps NewOverlapSplit
			inner := ""
			if call, ok := unparen(dedup.Results[0]).(*ast.CallExpr); ok && len(call.Args) > 0 {
				inner = expandDefText(fn, info, call.Args[0])
			}
			okSplit := strings.Contains(inner, "NewOverlapSplit(")
			c.Check(okD && okSplit, "dedup-set-construction", construct+"#dedup", p.Pos(dedup.Pos()), "dedup-set-shape",
				fmt.Sprintf("the deduplicating set must be built only when dedup is enabled (ok=%v) over NewPromSeriesSet(NewOverlapSplit(…)) (found %s)", okD, inner))
		}
	} else {
		c.Incomplete("dedup-set-construction", rel+".(*querier).selectFn", "", "function not found")
	}

	// (2)
	if fn := p.Func(rel, "querier", "isDedupEnabled"); fn == nil {
		c.Incomplete("dedup-enabled-formula", rel+".(*querier).isDedupEnabled", "", "function not found")
	} else {
		x := newE9(p, fn, func(e ast.Expr, text string) string {
			t := strings.ReplaceAll(text, " ", "")
			switch {
			case strings.HasSuffix(t, ".deduplicate"):
				return "d"
			case strings.HasPrefix(t, "len(") && strings.HasSuffix(t, ".replicaLabels)"):
				return "n"
			}
			return ""
		})
		n, cx, err := e9Table([]string{"d", "n"}, intRange(0, 2), func(env map[string]int64) bool { return env["d"] <= 1 },
			func(env map[string]int64) (int64, error) { v, err := x.evalBody(fn.Decl.Body.List, env); return b2i(v.b), err },
			func(env map[string]int64) int64 { return b2i(env["d"] == 1 && env["n"] > 0) })
		c.Stats["assignments_evaluated"] += n
		reportE9(c, "dedup-enabled-formula", rel+".(*querier).isDedupEnabled", p.Pos(fn.Decl.Pos()), cx, err, "isDedupEnabled differs from deduplicate && len(replicaLabels) > 0")
	}

	// (3)
	if fn := p.Func(rel, "chunkSeries", "Iterator"); fn == nil {
		c.Incomplete("aggregate-dispatch", rel+".(*chunkSeries).Iterator", "", "function not found")
	} else {
		info := fn.Info()
		construct := rel + ".(*chunkSeries).Iterator"
		handled := map[string]bool{}
		ast.Inspect(fn.Body(), func(nd ast.Node) bool {
			cc, ok := nd.(*ast.CaseClause)
			if !ok || len(cc.List) != 1 {
				return true
			}
			cn := c04AggrConst(info, cc.List[0])
			if cn == "" {
				return true
			}
			handled[cn] = true
			stem := strings.TrimPrefix(cn, "Aggr_")
			n, bad := 0, ""
			for _, st := range cc.Body {
				ast.Inspect(st, func(x ast.Node) bool {
					call, ok := x.(*ast.CallExpr)
					if !ok {
						return true
					}
					if f := calleeOf(info, call); f == nil || f.Name() != "getFirstIterator" {
						return true
					}
					n++
					if len(call.Args) < 1 {
						bad = "getFirstIterator without arguments"
						return true
					}
					first, isSel := unparen(call.Args[0]).(*ast.SelectorExpr)
					if !isSel || !strings.EqualFold(first.Sel.Name, stem) {
						bad = fmt.Sprintf("case %s reads %s first", cn, canon(call.Args[0]))
					}
					for _, a := range call.Args[1:] {
						if s, ok := unparen(a).(*ast.SelectorExpr); !ok || s.Sel.Name != "Raw" {
							bad = fmt.Sprintf("case %s falls back to %s (only Raw is a valid fallback)", cn, canon(a))
						}
					}
					return true
				})
			}
			if n == 0 {
				bad = "case " + cn + " builds no chunk iterator"
			}
			c.Check(bad == "", "aggregate-dispatch", construct+"#"+cn, p.Pos(cc.Pos()), "wrong-subchunk", bad)
			return true
		})
		// exhaustive over the enum (RAW is never requested as a single aggregate)
		var missing []string
		for _, cn := range c04AggrConsts(p) {
			if cn != "Aggr_RAW" && !handled[cn] {
				missing = append(missing, cn)
			}
		}
		c.Check(len(missing) == 0 && len(handled) > 0, "aggregate-dispatch", construct+"#exhaustive", p.Pos(fn.Decl.Pos()), "aggregate-unhandled:"+strings.Join(missing, ","),
			"aggregates without a case: "+strings.Join(missing, ", "))
		// two-aggregate case: exactly {SUM,COUNT} in both orders
		okPair := false
		ast.Inspect(fn.Body(), func(nd ast.Node) bool {
			cc, ok := nd.(*ast.CaseClause)
			if !ok || len(cc.List) != 2 {
				return true
			}
			seen := map[string]bool{}
			for _, e := range cc.List {
				be, ok := unparen(e).(*ast.BinaryExpr)
				if !ok || be.Op != token.LAND {
					return true
				}
				var parts []string
				for _, side := range []ast.Expr{be.X, be.Y} {
					eq, ok := unparen(side).(*ast.BinaryExpr)
					if !ok || eq.Op != token.EQL {
						return true
					}
					ix, ok := unparen(eq.X).(*ast.IndexExpr)
					if !ok {
						return true
					}
					idx, _ := constInt(info, ix.Index)
					parts = append(parts, fmt.Sprintf("%d=%s", idx, c04AggrConst(info, eq.Y)))
				}
				seen[strings.Join(parts, ",")] = true
			}
			if seen["0=Aggr_SUM,1=Aggr_COUNT"] && seen["0=Aggr_COUNT,1=Aggr_SUM"] {
				okPair = true
			}
			return true
		})
		c.Check(okPair, "aggregate-dispatch", construct+"#pair", p.Pos(fn.Decl.Pos()), "pair-case", "the two-aggregate case must accept exactly {COUNT,SUM} in both orders")
	}

	// (4)
	if fn := p.Func(rel, "chunkSeriesIterator", "Next"); fn == nil {
		c.Incomplete("overlap-skip", rel+".(*chunkSeriesIterator).Next", "", "function not found")
	} else {
		info := fn.Info()
		construct := rel + ".(*chunkSeriesIterator).Next"
		ok, why := false, "no `return it.Seek(…)` after switching to the next chunk"
		var firstAdvance token.Pos
		ast.Inspect(fn.Body(), func(nd ast.Node) bool {
			if call, isCall := nd.(*ast.CallExpr); isCall && firstAdvance == token.NoPos {
				if sel, isSel := unparen(call.Fun).(*ast.SelectorExpr); isSel && sel.Sel.Name == "Next" {
					firstAdvance = call.Pos()
				}
			}
			return true
		})
		ast.Inspect(fn.Body(), func(nd ast.Node) bool {
			ret, isRet := nd.(*ast.ReturnStmt)
			if !isRet || len(ret.Results) != 1 {
				return true
			}
			call, isCall := unparen(ret.Results[0]).(*ast.CallExpr)
			if !isCall || len(call.Args) != 1 {
				return true
			}
			if sel, isSel := unparen(call.Fun).(*ast.SelectorExpr); !isSel || sel.Sel.Name != "Seek" {
				return true
			}
			be, isBin := unparen(call.Args[0]).(*ast.BinaryExpr)
			if !isBin || be.Op != token.ADD {
				why = "the next chunk is sought to " + canon(call.Args[0]) + ", not to lastT+1: the sample at lastT would be returned twice (or samples skipped)"
				return true
			}
			one, isOne := constInt(info, be.Y)
			o := objOf(info, be.X)
			var def ast.Expr
			var defPos token.Pos
			if o != nil {
				def = singleDef(fn, info, o)
				if def != nil {
					defPos = def.Pos()
				}
			}
			switch {
			case !isOne || one != 1:
				why = "the next chunk is sought to " + canon(call.Args[0]) + ", not to lastT+1"
			case def == nil || !strings.HasSuffix(canon(def), ".AtT()"):
				why = "lastT is not the iterator's current timestamp (AtT())"
			case firstAdvance != token.NoPos && defPos > firstAdvance:
				why = "lastT is read after the iterator advanced"
			default:
				ok = true
			}
			return true
		})
		c.Check(ok, "overlap-skip", construct, p.Pos(fn.Decl.Pos()), "overlap-skip-missing", why)
	}

	// (5)
	if fn := p.Func(rel, "seriesServer", "Send"); fn == nil {
		c.Incomplete("all-frame-kinds-stored", rel+".(*seriesServer).Send", "", "function not found")
	} else {
		info := fn.Info()
		construct := rel + ".(*seriesServer).Send"
		fromSeries, fromBatch := false, false
		ast.Inspect(fn.Body(), func(nd ast.Node) bool {
			as, ok := nd.(*ast.AssignStmt)
			if !ok || len(as.Rhs) != 1 {
				return true
			}
			call, ok := unparen(as.Rhs[0]).(*ast.CallExpr)
			if !ok || len(call.Args) != 2 {
				return true
			}
			if id, ok := call.Fun.(*ast.Ident); !ok || id.Name != "append" || !strings.HasSuffix(canon(call.Args[0]), ".seriesSet") {
				return true
			}
			arg := canon(call.Args[1])
			switch {
			case strings.Contains(arg, "GetSeries()"):
				fromSeries = true
			default:
				// element of a range over the batch's Series
				if st, ok := unparen(call.Args[1]).(*ast.StarExpr); ok {
					if o := objOf(info, st.X); o != nil {
						ast.Inspect(fn.Body(), func(x ast.Node) bool {
							if rs, ok := x.(*ast.RangeStmt); ok && rs.Value != nil && objOf(info, rs.Value) == o {
								src := expandDefText(fn, info, rs.X)
								if strings.Contains(src, "GetBatch()") && strings.HasSuffix(src, ".Series") {
									fromBatch = true
								}
							}
							return true
						})
					}
				}
			}
			return true
		})
		c.Check(fromSeries, "all-frame-kinds-stored", construct+"#series", p.Pos(fn.Decl.Pos()), "series-frame-dropped", "single-series frames are not stored")
		c.Check(fromBatch, "all-frame-kinds-stored", construct+"#batch", p.Pos(fn.Decl.Pos()), "batch-frame-dropped", "the series of batch frames are not (all) stored: with a response batch size > 1 data would silently disappear")
	}

	// (6)
	for _, spec := range []struct {
		recv, fn string
		cfg      fbConfig
	}{
		{"TSDBStore", "Series", fbConfig{ExitFlushed: true}},
		{"batchableServer", "Send", fbConfig{EntryDirty: true}},
		{"batchableServer", "Flush", fbConfig{EntryDirty: true, ExitFlushed: true}},
	} {
		fn := p.Func("pkg/store", spec.recv, spec.fn)
		construct := fmt.Sprintf("pkg/store.(*%s).%s", spec.recv, spec.fn)
		if fn == nil {
			c.Incomplete("sent-frame-not-reused", construct, "", "function not found")
			continue
		}
		bufs := frameBuffers(fn)
		if spec.recv == "batchableServer" && len(bufs) == 0 {
			// Flush only sends; the buffer is the same field as in Send
			ast.Inspect(fn.Body(), func(nd ast.Node) bool {
				if call, ok := nd.(*ast.CallExpr); ok && isSendCall(call) {
					ast.Inspect(call, func(x ast.Node) bool {
						if sel, ok := x.(*ast.SelectorExpr); ok && sel.Sel.Name == "series" && len(bufs) == 0 {
							bufs = append(bufs, canon(sel))
						}
						return true
					})
				}
				return true
			})
		}
		if len(bufs) == 0 {
			c.Incomplete("sent-frame-not-reused", construct, p.Pos(fn.Decl.Pos()), "no frame buffer found")
			continue
		}
		for _, b := range bufs {
			cfg := spec.cfg
			if cfg.EntryDirty {
				// a field buffer: whatever state one method leaves behind is the entry state of the next call
				for _, m := range []string{"Send", "Flush"} {
					if mf := p.Func("pkg/store", spec.recv, m); mf != nil {
						if checkFrameBuffer(p, mf, b, fbConfig{EntryDirty: true}).exitSent {
							cfg.EntrySent = true
						}
					}
				}
			}
			r := checkFrameBuffer(p, fn, b, cfg)
			ob := construct + "#" + b
			if len(r.unknown) > 0 {
				c.Incomplete("sent-frame-not-reused", ob, r.unknown[0], "assignment to the frame buffer not understood")
				continue
			}
			bad, pos := "", p.Pos(fn.Decl.Pos())
			for _, f := range r.findings {
				if f.kind == "reuse" || (spec.recv == "batchableServer" && (f.kind == "loss" || f.kind == "order")) {
					bad, pos = f.msg, p.Pos(f.pos)
					break
				}
			}
			if r.sends == 0 {
				bad = "the buffer is never sent"
			}
			c.Check(bad == "", "sent-frame-not-reused", ob, pos, "frame-buffer-misuse", bad)
		}
	}
}

// c04GuardedByDedup: node n is reachable only when isDedupEnabled() evaluated to want.
func c04GuardedByDedup(p *Prog, fn *Fn, info *types.Info, n ast.Node, want bool) bool {
	ok := false
	for _, g := range guardsOf(p, fn, n) {
		refine(g.Cond, g.Pol, func(atom ast.Expr, t bool) {
			if call, isCall := unparen(atom).(*ast.CallExpr); isCall {
				if f := calleeOf(info, call); f != nil && f.Name() == "isDedupEnabled" && t == want {
					ok = true
				}
			}
		})
	}
	return ok
}

func c04AggrConst(info *types.Info, e ast.Expr) string {
	var id *ast.Ident
	switch v := unparen(e).(type) {
	case *ast.SelectorExpr:
		id = v.Sel
	case *ast.Ident:
		id = v
	}
	if id == nil {
		return ""
	}
	if cn, ok := info.Uses[id].(*types.Const); ok && strings.HasPrefix(cn.Name(), "Aggr_") && isNamed(cn.Type(), "storepb", "Aggr") {
		return cn.Name()
	}
	return ""
}

func c04AggrConsts(p *Prog) []string {
	var out []string
	for path, pk := range p.ByPath {
		if !strings.HasSuffix(path, "pkg/store/storepb") || pk.Types == nil {
			continue
		}
		sc := pk.Types.Scope()
		for _, n := range sc.Names() {
			if cn, ok := sc.Lookup(n).(*types.Const); ok && strings.HasPrefix(n, "Aggr_") && isNamed(cn.Type(), "storepb", "Aggr") && cn.Val().Kind() == constant.Int {
				out = append(out, n)
			}
		}
	}
	sortStrings(out)
	return out
}

// expandDefText prints e with single-definition locals replaced by their definitions (calls included).
func expandDefText(fn *Fn, info *types.Info, e ast.Expr) string {
	var rec func(e ast.Expr, depth int) string
	rec = func(e ast.Expr, depth int) string {
		e = unparen(e)
		switch v := e.(type) {
		case *ast.Ident:
			if depth < 4 {
				if o, ok := info.Uses[v].(*types.Var); ok && !o.IsField() {
					if d := singleDef(fn, info, o); d != nil {
						return rec(d, depth+1)
					}
					// first result of a tuple definition `x, err := f()`
					if d := singleDefTuple(fn, info, o); d != nil {
						return rec(d, depth+1)
					}
				}
			}
		case *ast.CallExpr:
			var args []string
			for _, a := range v.Args {
				args = append(args, rec(a, depth))
			}
			fun := canon(v.Fun)
			if sel, ok := unparen(v.Fun).(*ast.SelectorExpr); ok {
				if _, isPkg := info.Uses[identOf(sel.X)].(*types.PkgName); !isPkg {
					fun = rec(sel.X, depth) + "." + sel.Sel.Name
				}
			}
			return fun + "(" + strings.Join(args, ",") + ")"
		case *ast.SelectorExpr:
			return rec(v.X, depth) + "." + v.Sel.Name
		case *ast.StarExpr:
			return "*" + rec(v.X, depth)
		case *ast.UnaryExpr:
			return v.Op.String() + rec(v.X, depth)
		}
		return canon(e)
	}
	return rec(e, 0)
}

func identOf(e ast.Expr) *ast.Ident {
	id, _ := unparen(e).(*ast.Ident)
	return id
}
