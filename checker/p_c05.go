package main

import (
	"go/ast"
	"go/types"
	"strings"
)

func init() {
	register(&Property{
		ID:    "C05",
		Title: "Store pruning never skips a store that holds matching data",
		Explain: "Every skip decision is implied by a sound predicate. (1) E9: storeMatches' time test equals mint > storeMaxTime || maxt < storeMinTime on every assignment (atoms bound by provenance: parameters vs. results of TimeRange()). " +
			"(2) E12: LabelSetsMatch is summarised and compared on all finite models with empty(sets) || EXISTS set. FORALL matcher. !(set.Has(name) && !matcher.Matches(set.Get(name))): a matcher can only reject a label set that carries the matcher's name. " +
			"(3) matchersMatchAddress rejects only through matchers named __address__ (FORALL m. !(isAddress(m) && !matches(m))) and storeMatchDebugMetadata is EXISTS over the matcher sets. " +
			"(4) matchesExternalLabels and bucketBlockSet.labelMatchers reject exactly when the store has a non-empty value for the matcher's name and the matcher does not match it (E9 on the reject path condition), and forward the matcher on the agnostic path. " +
			"(5) bucketBlock.overlapsClosedInterval equals MinTime <= maxt && mint < MaxTime. " +
			"(6) The range a store advertises covers what it holds: BucketStore.TimeRange and ProxyStore.TimeRange are min/max folds over every block / client (no skipped element, no first/last shortcut, helpers checked the same way), reassigned afterwards only by the time-filter clamps; TSDBStore advertises an open end.",
		Assume: []string{"labels.Matcher.Matches and Labels.Has/Get are opaque", "relabel-based TSDB selection and the cuckoo-filter's false-negative freedom are not covered"},
		Run:    runC05,
	})
}

func runC05(c *Ctx) {
	c.Rule("time-overlap-test", "store skipped iff request range and store range are disjoint", 2)
	c.Rule("label-sets-shape", "ANY label set, ALL matchers, reject only when the name is present", 1)
	c.Rule("address-matchers-shape", "only __address__ matchers can reject; ANY over matcher sets", 2)
	c.Rule("ext-label-reject-guard", "reject iff the store has a value for the name and it does not match", 2)
	c.Rule("advertised-range-covers-all", "TimeRange is the min/max over every block / client, clamped only by the time filter", 3)
	p := c.Load("pkg/store")
	if p == nil {
		return
	}
	const rel = "pkg/store"
	maxD := 2
	if c.Tier == "thorough" {
		maxD = 3
	}
	// (6) the advertised range is the hull of what the store holds
	clamps := hullCfg{Clamps: map[string]string{
		"limitMinTime": "the configured time filter; Series clamps the request with the same function",
		"limitMaxTime": "the configured time filter; Series clamps the request with the same function",
	}}
	for _, tn := range []string{"BucketStore", "ProxyStore"} {
		construct := rel + ".(*" + tn + ").TimeRange"
		fn := p.Func(rel, tn, "TimeRange")
		if fn == nil {
			c.Incomplete("advertised-range-covers-all", construct, "", "function not found")
			continue
		}
		probs, n := hullCheck(p, fn, clamps, 0)
		if n == 0 && len(probs) == 0 {
			probs = append(probs, "no loop over the store's blocks / clients found")
		}
		c.Check(len(probs) == 0, "advertised-range-covers-all", construct, p.Pos(fn.Node().Pos()), "advertised-range-not-hull", strings.Join(probs, "; "))
	}
	if fn := p.Func(rel, "TSDBStore", "TimeRange"); fn == nil {
		c.Incomplete("advertised-range-covers-all", rel+".(*TSDBStore).TimeRange", "", "function not found")
	} else {
		// a TSDB keeps receiving samples: every return advertises an open end
		bad := ""
		inspectNoLit(fn.Body(), func(n ast.Node) bool {
			if r, ok := n.(*ast.ReturnStmt); ok {
				if len(r.Results) != 2 {
					bad = "unrecognised return"
				} else if v, isC := constInt(fn.Info(), r.Results[1]); !isC || v != 1<<63-1 {
					bad = "the advertised max time is " + exprString(r.Results[1]) + ", not math.MaxInt64: samples appended after the range was advertised would be pruned"
				}
			}
			return true
		})
		c.Check(bad == "", "advertised-range-covers-all", rel+".(*TSDBStore).TimeRange", p.Pos(fn.Node().Pos()), "advertised-range-not-open", bad)
	}
	// (1)
	if fn := p.Func(rel, "", "storeMatches"); fn == nil {
		c.Incomplete("time-overlap-test", rel+".storeMatches", "", "function not found")
	} else {
		info := fn.Info()
		var smin, smax types.Object
		inspectNoLit(fn.Body(), func(n ast.Node) bool {
			if as, ok := n.(*ast.AssignStmt); ok && len(as.Lhs) == 2 && len(as.Rhs) == 1 {
				if call, ok := unparen(as.Rhs[0]).(*ast.CallExpr); ok {
					if sel, ok := unparen(call.Fun).(*ast.SelectorExpr); ok && sel.Sel.Name == "TimeRange" {
						smin, smax = objOf(info, as.Lhs[0]), objOf(info, as.Lhs[1])
					}
				}
			}
			return true
		})
		var params []types.Object
		for _, f := range fn.Decl.Type.Params.List {
			for _, nm := range f.Names {
				params = append(params, info.Defs[nm])
			}
		}
		var guard *ast.IfStmt
		for _, st := range fn.Decl.Body.List {
			if ifs, ok := st.(*ast.IfStmt); ok && smin != nil {
				uses := false
				ast.Inspect(ifs.Cond, func(n ast.Node) bool {
					if id, ok := n.(*ast.Ident); ok && (objOf(info, id) == smin || objOf(info, id) == smax) {
						uses = true
					}
					return true
				})
				if uses && guard == nil {
					guard = ifs
				}
			}
		}
		if guard == nil || len(params) < 5 {
			c.Incomplete("time-overlap-test", rel+".storeMatches#time", p.Pos(fn.Decl.Pos()), "time-range guard over TimeRange() results not found")
		} else {
			x := newE9(p, fn, func(e ast.Expr, text string) string {
				id, ok := unparen(e).(*ast.Ident)
				if !ok {
					return ""
				}
				switch objOf(info, id) {
				case params[3]:
					return "mint"
				case params[4]:
					return "maxt"
				case smin:
					return "smin"
				case smax:
					return "smax"
				}
				return ""
			})
			n, cx, err := e9Table([]string{"mint", "maxt", "smin", "smax"}, intRange(0, 3), nil,
				func(env map[string]int64) (int64, error) { v, err := x.eval(guard.Cond, env); return b2i(v.b), err },
				func(env map[string]int64) int64 { return b2i(env["mint"] > env["smax"] || env["maxt"] < env["smin"]) })
			c.Stats["assignments_evaluated"] += n
			reportE9(c, "time-overlap-test", rel+".storeMatches#time", p.Pos(guard.Pos()), cx, err, "the store is skipped under a condition other than 'request range and store range are disjoint'")
			// the guard's body rejects
			rej := false
			ast.Inspect(guard.Body, func(n ast.Node) bool {
				if r, ok := n.(*ast.ReturnStmt); ok && len(r.Results) >= 1 {
					if tv, ok := info.Types[r.Results[0]]; ok && tv.Value != nil && tv.Value.ExactString() == "false" {
						rej = true
					}
				}
				return true
			})
			if !rej {
				c.Bad("time-overlap-test", rel+".storeMatches#time-rejects", p.Pos(guard.Pos()), "time-guard-does-not-reject", "the disjointness branch does not return false")
			}
		}
	}
	// (5)
	if fn := p.Func(rel, "bucketBlock", "overlapsClosedInterval"); fn == nil {
		c.Incomplete("time-overlap-test", rel+".(*bucketBlock).overlapsClosedInterval", "", "function not found")
	} else {
		nm := namesOf(fn)
		x := newE9(p, fn, func(e ast.Expr, text string) string {
			t := strings.ReplaceAll(text, " ", "")
			switch {
			case strings.HasSuffix(t, ".MinTime"):
				return "bmin"
			case strings.HasSuffix(t, ".MaxTime"):
				return "bmax"
			case t == nm.P(0):
				return "mint"
			case t == nm.P(1):
				return "maxt"
			}
			return ""
		})
		n, cx, err := e9Table([]string{"mint", "maxt", "bmin", "bmax"}, intRange(0, 3), nil,
			func(env map[string]int64) (int64, error) { v, err := x.evalBody(fn.Decl.Body.List, env); return b2i(v.b), err },
			func(env map[string]int64) int64 { return b2i(env["bmin"] <= env["maxt"] && env["mint"] < env["bmax"]) })
		c.Stats["assignments_evaluated"] += n
		reportE9(c, "time-overlap-test", rel+".(*bucketBlock).overlapsClosedInterval", p.Pos(fn.Decl.Pos()), cx, err, "block overlap test differs from MinTime <= maxt && mint < MaxTime (block is half-open, request closed)")
	}

	// (2)
	if fn := p.Func(rel, "", "LabelSetsMatch"); fn == nil {
		c.Incomplete("label-sets-shape", rel+".LabelSetsMatch", "", "function not found")
	} else {
		cls := bfClassifier{
			Atom: func(t string) (string, bool) {
				switch {
				case strings.Contains(t, ".Matches("):
					return "match", false
				case strings.Contains(t, ".Has("):
					return "has", false
				}
				return "", false
			},
			Domain: func(t string) string {
				switch t {
				case paramWhere(fn, func(ty string) bool { return ty == "[]labels.Labels" }):
					return "L"
				case paramWhere(fn, func(ty string) bool { return ty == "[]*labels.Matcher" }):
					return "M"
				}
				return ""
			},
		}
		f, x := extractBF(p, fn, 0, cls)
		spec := bfOr(sEmpty("L"), sAny("l", "L", nil, sAll("m", "M", nil, bfNot(bfAnd(sAtom("has", "l", "m"), bfNot(sAtom("match", "l", "m")))))))
		pos := p.Pos(fn.Decl.Pos())
		if len(x.errs) > 0 {
			c.Incomplete("label-sets-shape", rel+".LabelSetsMatch", pos, "shape not recognised: "+strings.Join(x.errs, "; "))
		} else {
			n, cx := bfEquivalent(f, spec, maxD)
			c.Stats["models_compared"] += n
			if cx != "" {
				c.Bad("label-sets-shape", rel+".LabelSetsMatch", pos, "shape:"+f.String(), "extracted "+f.String()+" differs from "+spec.String()+": "+cx+" — a store whose label set lacks the matcher's name, or whose other label set matches, would be skipped")
			} else {
				c.OK("label-sets-shape", rel+".LabelSetsMatch", pos, f.String())
			}
		}
	}
	// (3)
	if fn := p.Func(rel, "", "matchersMatchAddress"); fn == nil {
		c.Incomplete("address-matchers-shape", rel+".matchersMatchAddress", "", "function not found")
	} else {
		cls := bfClassifier{
			Atom: func(t string) (string, bool) {
				t = strings.ReplaceAll(t, " ", "")
				switch {
				case strings.HasSuffix(t, `.Name=="__address__"`):
					return "isAddr", false
				case strings.HasSuffix(t, `.Name!="__address__"`):
					return "isAddr", true
				case strings.Contains(t, ".Matches("+paramWhere(fn, func(ty string) bool { return ty == "string" })+")"):
					return "match", false
				}
				return "", false
			},
			Domain: func(t string) string {
				if t == paramWhere(fn, func(ty string) bool { return ty == "[]*labels.Matcher" }) {
					return "M"
				}
				return ""
			},
		}
		f, x := extractBF(p, fn, 0, cls)
		spec := sAll("m", "M", nil, bfNot(bfAnd(sAtom("isAddr", "m"), bfNot(sAtom("match", "m")))))
		pos := p.Pos(fn.Decl.Pos())
		if len(x.errs) > 0 {
			c.Incomplete("address-matchers-shape", rel+".matchersMatchAddress", pos, "shape not recognised: "+strings.Join(x.errs, "; "))
		} else if n, cx := bfEquivalent(f, spec, maxD); cx != "" {
			c.Stats["models_compared"] += n
			c.Bad("address-matchers-shape", rel+".matchersMatchAddress", pos, "shape:"+f.String(), "extracted "+f.String()+" differs from "+spec.String()+": "+cx)
		} else {
			c.Stats["models_compared"] += n
			c.OK("address-matchers-shape", rel+".matchersMatchAddress", pos, f.String())
		}
	}
	if fn := p.Func(rel, "", "storeMatchDebugMetadata"); fn == nil {
		c.Incomplete("address-matchers-shape", rel+".storeMatchDebugMetadata", "", "function not found")
	} else {
		cls := bfClassifier{
			Atom: func(t string) (string, bool) {
				t = strings.ReplaceAll(t, " ", "")
				switch {
				case t == lhsOfCallTo(fn, "Addr", 1):
					return "isLocal", false
				case t == paramWhere(fn, func(ty string) bool { return ty == "bool" }):
					return "debug", false
				case strings.HasSuffix(t, `.Name=="__address__"`):
					return "isAddr", false
				case strings.Contains(t, ".Matches("):
					return "match", false
				}
				return "", false
			},
			Domain: func(t string) string {
				switch {
				case t == paramWhere(fn, func(ty string) bool { return ty == "[][]*labels.Matcher" }):
					return "S"
				case strings.HasPrefix(t, "$"):
					return "M"
				}
				return ""
			},
		}
		f, x := extractBF(p, fn, 0, cls)
		spec := bfOr(sEmpty("S"), bfAnd(bfNot(sAtom("isLocal")), sAny("s", "S", nil, sAll("m", "M", []string{"s"}, bfNot(bfAnd(sAtom("isAddr", "s", "m"), bfNot(sAtom("match", "s", "m"))))))))
		pos := p.Pos(fn.Decl.Pos())
		if len(x.errs) > 0 {
			c.Incomplete("address-matchers-shape", rel+".storeMatchDebugMetadata", pos, "shape not recognised: "+strings.Join(x.errs, "; "))
		} else if n, cx := bfEquivalent(f, spec, maxD); cx != "" {
			c.Stats["models_compared"] += n
			c.Bad("address-matchers-shape", rel+".storeMatchDebugMetadata", pos, "shape:"+f.String(), "extracted "+f.String()+" differs from "+spec.String()+": "+cx)
		} else {
			c.Stats["models_compared"] += n
			c.OK("address-matchers-shape", rel+".storeMatchDebugMetadata", pos, f.String())
		}
	}

	// (4)
	for _, f := range [][3]string{{rel, "", "matchesExternalLabels"}, {rel, "bucketBlockSet", "labelMatchers"}} {
		fn := p.Func(f[0], f[1], f[2])
		construct := rel + "." + f[2]
		if fn == nil {
			c.Incomplete("ext-label-reject-guard", construct, "", "function not found")
			continue
		}
		info := fn.Info()
		var loop *ast.RangeStmt
		inspectNoLit(fn.Body(), func(n ast.Node) bool {
			if r, ok := n.(*ast.RangeStmt); ok && loop == nil {
				loop = r
			}
			return true
		})
		if loop == nil {
			c.Incomplete("ext-label-reject-guard", construct, p.Pos(fn.Decl.Pos()), "matcher loop not found")
			continue
		}
		// the value looked up for the matcher's name
		var val types.Object
		ast.Inspect(loop.Body, func(n ast.Node) bool {
			if as, ok := n.(*ast.AssignStmt); ok && len(as.Lhs) == 1 && len(as.Rhs) == 1 {
				if call, ok := unparen(as.Rhs[0]).(*ast.CallExpr); ok {
					if sel, ok := unparen(call.Fun).(*ast.SelectorExpr); ok && sel.Sel.Name == "Get" && val == nil {
						val = objOf(info, as.Lhs[0])
					}
				}
			}
			return true
		})
		nRej := 0
		ast.Inspect(loop.Body, func(n ast.Node) bool {
			ret, ok := n.(*ast.ReturnStmt)
			if !ok {
				return true
			}
			// a rejecting return: the bool result is false
			rej := false
			for _, r := range ret.Results {
				if tv, ok := info.Types[r]; ok && tv.Value != nil && tv.Value.ExactString() == "false" {
					rej = true
				}
			}
			if !rej {
				return true
			}
			nRej++
			var gs []guardCond
			for _, g := range guardsOf(p, fn, ret) {
				if within(g.Cond, loop.Body.Pos(), loop.Body.End()) {
					gs = append(gs, g)
				}
			}
			x := newE9(p, fn, func(e ast.Expr, text string) string {
				t := strings.ReplaceAll(text, " ", "")
				if id, ok := unparen(e).(*ast.Ident); ok && val != nil && objOf(info, id) == val {
					return ""
				}
				switch {
				case strings.Contains(t, ".Matches("):
					return "match"
				case val != nil && (t == val.Name()+`==""`):
					return "valEmpty"
				}
				return ""
			})
			// `v == ""`: make the comparison an atom by naming the whole binary expression
			x.Atom = func(e ast.Expr, text string) string {
				if call, ok := unparen(e).(*ast.CallExpr); ok {
					if sel, ok := unparen(call.Fun).(*ast.SelectorExpr); ok && sel.Sel.Name == "Matches" {
						return "match"
					}
				}
				return ""
			}
			x.AtomCmp = func(e ast.Expr, t string) string {
				switch {
				case val != nil && t == val.Name()+`==""`:
					return "valEmpty"
				case val != nil && t == val.Name()+`!=""`:
					return "valNonEmpty"
				}
				return ""
			}
			cnt, cx, err := e9Table([]string{"match", "valEmpty"}, []int64{0, 1}, nil,
				func(env map[string]int64) (int64, error) {
					env["valNonEmpty"] = 1 - env["valEmpty"]
					b, err := x.evalGuards(gs, env)
					return b2i(b), err
				},
				func(env map[string]int64) int64 { return b2i(env["valEmpty"] == 0 && env["match"] == 0) })
			c.Stats["assignments_evaluated"] += cnt
			reportE9(c, "ext-label-reject-guard", construct+"#reject", p.Pos(ret.Pos()), cx, err,
				"the store/block is rejected under ("+guardsString(gs)+"), not exactly 'it has a value for the matcher's name and the matcher does not match it': a matcher on a label the store does not carry must not prune it")
			return true
		})
		if nRej == 0 {
			c.Incomplete("ext-label-reject-guard", construct+"#reject", p.Pos(loop.Pos()), "no rejecting return inside the matcher loop")
		}
		// agnostic path forwards the matcher
		fwd := false
		ast.Inspect(loop.Body, func(n ast.Node) bool {
			ifs, ok := n.(*ast.IfStmt)
			if !ok || val == nil || strings.ReplaceAll(exprString(ifs.Cond), " ", "") != val.Name()+`==""` {
				return true
			}
			ast.Inspect(ifs.Body, func(m ast.Node) bool {
				if call, ok := m.(*ast.CallExpr); ok {
					if id, ok := call.Fun.(*ast.Ident); ok && id.Name == "append" && len(call.Args) == 2 && loop.Value != nil && sameObjExpr(info, call.Args[1], loop.Value) {
						fwd = true
					}
				}
				return true
			})
			return true
		})
		c.Check(fwd, "ext-label-reject-guard", construct+"#agnostic-forwarded", p.Pos(loop.Pos()), "agnostic-matcher-dropped", "a matcher on a label the store does not carry externally must be forwarded to the series selection, not dropped")
	}
}
