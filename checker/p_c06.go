package main

import (
	"fmt"
	"go/ast"
	"go/token"
	"go/types"
	"os"
	"strings"
)

func init() {
	register(&Property{
		ID:    "C06",
		Title: "Partial-response strategy is honoured under store failures",
		Explain: "(1) In the receive loops of newLazyRespSet and newEagerRespSet every non-EOF error path of cl.Recv() produces a warning response (storepb.NewWarnSeriesResponse) before the loop stops (E3 over the handler closure's exits). " +
			"(1b) Frame-timer discipline of the lazy set: every potentially blocking ring-buffer append on the success path is reached only with the frame timer disarmed (t.Reset(MaxInt64)) or absent (t == nil); otherwise a slow reader makes a healthy store time itself out. " +
			"(2) ProxyStore.Series: the abort test of the merge loop is (warning != \"\" && (PartialResponseDisabled || strategy == ABORT)) (E9), returns a non-nil status error and precedes the Send of that response; a failing newAsyncRespSet returns the error under abort/disabled and otherwise sends a warning and continues. " +
			"(3) ProxyStore.LabelNames / LabelValues: a failing store returns its error under abort/disabled and is recorded as a warning (under the mutex) otherwise (E9 on the guard, E1 on the warnings slice being appended between Lock/Unlock). " +
			"(4) E4 on cl.Recv / srv.Send / g.Wait. (5) The querier derives WARN iff partialResponse else ABORT and puts the strategy into Series, LabelNames and LabelValues requests. " +
			"(6) BucketStore.Series turns a warning response from a block into an error (a store gateway never returns partial data silently).",
		Assume: []string{"that every healthy store's series still arrive (merge correctness) is C03", "wall-clock behaviour of timers is not decided beyond the arm/disarm ordering"},
		Run:    runC06,
	})
}

func runC06(c *Ctx) {
	c.Rule("recv-error-becomes-warning", "non-EOF Recv error appends a warning response before stopping", 2)
	c.Rule("timer-disarmed-before-blocking-append", "blocking appends only with the frame timer disarmed", 2)
	c.Rule("abort-test", "abort iff warning && (disabled || ABORT); before Send", 2)
	c.Rule("fanout-failure-strategy", "store failure returned under abort, warning otherwise", 3)
	c.Rule("strategy-wiring", "querier derives and forwards the strategy", 4)
	c.Rule("gateway-warning-is-error", "block warnings become errors in the store gateway", 1)
	p := c.Load("pkg/store", "pkg/query")
	if p == nil {
		return
	}
	const rel = "pkg/store"
	isRecv := func(i *types.Info, call *ast.CallExpr) bool {
		sel, ok := unparen(call.Fun).(*ast.SelectorExpr)
		return ok && sel.Sel.Name == "Recv" && strings.HasSuffix(shortType(i.TypeOf(sel.X)), "storepb.Store_SeriesClient")
	}
	isSrvSend := func(i *types.Info, call *ast.CallExpr) bool {
		sel, ok := unparen(call.Fun).(*ast.SelectorExpr)
		if !ok || sel.Sel.Name != "Send" {
			return false
		}
		t := shortType(i.TypeOf(sel.X))
		return strings.HasSuffix(t, "Store_SeriesServer") || strings.HasSuffix(t, "flushableServer") || strings.HasSuffix(t, "Server")
	}
	isWarnCtor := func(i *types.Info, call *ast.CallExpr) bool {
		return strings.HasSuffix(funcFullName(calleeOf(i, call)), "storepb.NewWarnSeriesResponse")
	}
	// (1) the two handler closures
	for _, ctor := range []string{"newLazyRespSet", "newEagerRespSet"} {
		fn := p.Func(rel, "", ctor)
		if fn == nil {
			c.Incomplete("recv-error-becomes-warning", rel+"."+ctor, "", "function not found")
			continue
		}
		var handler *Fn
		for _, lit := range p.Lits(fn) {
			has := false
			inspectNoLit(lit.Body(), func(n ast.Node) bool {
				if call, ok := n.(*ast.CallExpr); ok && isRecv(lit.Info(), call) {
					has = true
				}
				return true
			})
			if has {
				handler = lit
			}
		}
		if handler == nil {
			c.Incomplete("recv-error-becomes-warning", rel+"."+ctor+"#handler", p.Pos(fn.Decl.Pos()), "closure calling cl.Recv() not found")
			continue
		}
		info := handler.Info()
		e := newE3(p, handler, []Ev{{Name: "recv", Match: isRecv}, {Name: "warn", Match: isWarnCtor}})
		ok, where := true, p.Pos(handler.Node().Pos())
		nErrExits := 0
		for _, ex := range e.Exits() {
			if ex.Ret == nil || ex.Bits["recv"] != eFail {
				continue
			}
			nErrExits++
			// EOF exits are fine: guarded by err == io.EOF
			eof := false
			for _, g := range guardsOf(p, handler, ex.Ret) {
				if g.Pol && strings.Contains(canon(g.Cond), "==io.EOF") {
					eof = true
				}
			}
			if eof {
				continue
			}
			if ex.Bits["warn"] != eOK {
				ok, where = false, ex.Pos
			}
		}
		_ = info
		c.Check(ok && nErrExits >= 2, "recv-error-becomes-warning", rel+"."+ctor+"#handler", where, "recv-error-without-warning",
			"a receive error other than io.EOF stops the stream without a warning response: under the warn strategy the failure of that store would be silent, under abort it would not abort")
		checkErrsReturned(c, p, handler, "recv-error-becomes-warning", "recv-tested", isRecv, &e4Opts{Accumulates: func(*types.Info, ast.Node) bool { return true }})

		// (1b) timer discipline (only where a ring buffer append can block)
		var appends []*ast.CallExpr
		inspectNoLit(handler.Body(), func(n ast.Node) bool {
			if call, ok := n.(*ast.CallExpr); ok {
				if sel, ok := unparen(call.Fun).(*ast.SelectorExpr); ok && sel.Sel.Name == "append" && strings.HasSuffix(exprString(sel.X), ".rb") {
					appends = append(appends, call)
				}
			}
			return true
		})
		if len(appends) == 0 {
			continue
		}
		tParam := ""
		if handler.Lit.Type.Params != nil && len(handler.Lit.Type.Params.List) == 1 && len(handler.Lit.Type.Params.List[0].Names) == 1 {
			tParam = handler.Lit.Type.Params.List[0].Names[0].Name
		}
		spec := FlowSpec[bool]{
			Entry: false,
			Transfer: func(n ast.Node, s bool) bool {
				if _, isDefer := n.(*ast.DeferStmt); isDefer {
					return s
				}
				inspectNoLit(n, func(x ast.Node) bool {
					if call, ok := x.(*ast.CallExpr); ok {
						if sel, ok := unparen(call.Fun).(*ast.SelectorExpr); ok && exprString(sel.X) == tParam {
							switch sel.Sel.Name {
							case "Stop":
								s = true
							case "Reset":
								s = len(call.Args) == 1 && strings.Contains(exprString(call.Args[0]), "MaxInt64")
							}
						}
					}
					return true
				})
				return s
			},
			Branch: func(cond ast.Expr, truth bool, s bool) bool {
				refine(cond, truth, func(atom ast.Expr, t bool) {
					if x, nonNil, k := nilTest(info, atom); k && exprString(unparen(x)) == tParam && nonNil != t {
						s = true // no timer at all
					}
				})
				return s
			},
			Join:  func(a, b bool) bool { return a && b },
			Equal: func(a, b bool) bool { return a == b },
		}
		r := runFlow(p, handler, spec)
		for i, a := range appends {
			st, reached := r.Before(a)
			c.Check(!reached || st, "timer-disarmed-before-blocking-append", fmt.Sprintf("%s.%s#rb.append[%d]", rel, ctor, i), p.Pos(a.Pos()), "append-with-armed-frame-timer",
				"the ring-buffer append (which blocks while the reader is slow) is reachable with the frame timer still armed: a healthy store would cancel its own stream and lose the remaining frames")
		}
	}

	// (2) ProxyStore.Series
	if fn := p.Func(rel, "ProxyStore", "Series"); fn == nil {
		c.Incomplete("abort-test", rel+".(*ProxyStore).Series", "", "function not found")
	} else {
		info := fn.Info()
		var abortIf *ast.IfStmt
		inspectNoLit(fn.Body(), func(n ast.Node) bool {
			if ifs, ok := n.(*ast.IfStmt); ok && strings.Contains(exprString(ifs.Cond), "GetWarning()") && abortIf == nil {
				abortIf = ifs
			}
			return true
		})
		if abortIf == nil {
			c.Bad("abort-test", rel+".(*ProxyStore).Series#abort", p.Pos(fn.Decl.Pos()), "no-abort-test", "the merge loop never inspects warnings: the abort strategy cannot take effect")
		} else {
			x := newE9(p, fn, func(e ast.Expr, text string) string {
				if strings.HasSuffix(canon(e), ".PartialResponseDisabled") {
					return "disabled"
				}
				return ""
			})
			x.AtomCmp = func(e ast.Expr, t string) string {
				switch {
				case strings.HasSuffix(t, `.GetWarning()!=""`):
					return "warn"
				case strings.HasSuffix(t, ".PartialResponseStrategy==storepb.PartialResponseStrategy_ABORT"):
					return "abort"
				case strings.HasSuffix(t, ".PartialResponseStrategy!=storepb.PartialResponseStrategy_ABORT"):
					return "notabort"
				}
				return ""
			}
			_, cx, err := e9Table([]string{"warn", "disabled", "abort"}, []int64{0, 1}, nil,
				func(env map[string]int64) (int64, error) {
					env["notabort"] = 1 - env["abort"]
					v, err := x.eval(abortIf.Cond, env)
					return b2i(v.b), err
				},
				func(env map[string]int64) int64 { return b2i(env["warn"] == 1 && (env["disabled"] == 1 || env["abort"] == 1)) })
			reportE9(c, "abort-test", rel+".(*ProxyStore).Series#abort", p.Pos(abortIf.Pos()), cx, err, "the abort condition differs from warning && (partial response disabled || strategy == ABORT)")
			// returns non-nil and precedes the Send in the same block
			retOK := false
			if len(abortIf.Body.List) > 0 {
				if r, ok := abortIf.Body.List[len(abortIf.Body.List)-1].(*ast.ReturnStmt); ok && len(r.Results) == 1 && !isNil(info, r.Results[0]) {
					retOK = true
				}
			}
			before := false
			if blk, ok := p.ParentOf(fn.Pkg, abortIf).(*ast.BlockStmt); ok {
				seenIf := false
				for _, st := range blk.List {
					if st == ast.Stmt(abortIf) {
						seenIf = true
						continue
					}
					hasSend := false
					ast.Inspect(st, func(m ast.Node) bool {
						if call, ok := m.(*ast.CallExpr); ok {
							if isSrvSend(info, call) {
								hasSend = true
							}
						}
						return true
					})
					if hasSend {
						before = seenIf
					}
				}
			}
			c.Check(retOK && before, "abort-test", rel+".(*ProxyStore).Series#abort-before-send", p.Pos(abortIf.Pos()), "warning-sent-before-abort-test",
				"the abort branch must return a non-nil error and come before the response is sent to the client")
		}
		// failing newAsyncRespSet
		var ctorCall *ast.CallExpr
		inspectNoLit(fn.Body(), func(n ast.Node) bool {
			if call, ok := n.(*ast.CallExpr); ok {
				if f := calleeOf(info, call); f != nil && f.Name() == "newAsyncRespSet" {
					ctorCall = call
				}
			}
			return true
		})
		if ctorCall == nil {
			c.Incomplete("fanout-failure-strategy", rel+".(*ProxyStore).Series#open-stream", p.Pos(fn.Decl.Pos()), "newAsyncRespSet call not found")
		} else {
			found, _, body := failEdgeTerminates(p, fn, ctorCall)
			ok := false
			if found && body != nil {
				// inside: if !disabled && strategy != ABORT { Send(warn); continue } else { return err }
				ast.Inspect(body, func(n ast.Node) bool {
					ifs, isIf := n.(*ast.IfStmt)
					if !isIf || !strings.Contains(exprString(ifs.Cond), "PartialResponse") {
						return true
					}
					x := newE9(p, fn, func(e ast.Expr, text string) string {
						if strings.HasSuffix(canon(e), ".PartialResponseDisabled") {
							return "disabled"
						}
						return ""
					})
					x.AtomCmp = func(e ast.Expr, t string) string {
						switch {
						case strings.HasSuffix(t, ".PartialResponseStrategy==storepb.PartialResponseStrategy_ABORT"):
							return "abort"
						case strings.HasSuffix(t, ".PartialResponseStrategy!=storepb.PartialResponseStrategy_ABORT"):
							return "notabort"
						}
						return ""
					}
					_, cx, err := e9Table([]string{"disabled", "abort"}, []int64{0, 1}, nil,
						func(env map[string]int64) (int64, error) {
							env["notabort"] = 1 - env["abort"]
							v, err := x.eval(ifs.Cond, env)
							return b2i(v.b), err
						},
						func(env map[string]int64) int64 { return b2i(env["disabled"] == 0 && env["abort"] == 0) })
					warns, conts, retsErr := false, false, false
					ast.Inspect(ifs.Body, func(m ast.Node) bool {
						switch v := m.(type) {
						case *ast.CallExpr:
							if isWarnCtor(info, v) {
								warns = true
							}
						case *ast.BranchStmt:
							if v.Tok.String() == "continue" {
								conts = true
							}
						}
						return true
					})
					if ifs.Else != nil {
						ast.Inspect(ifs.Else, func(m ast.Node) bool {
							if r, isRet := m.(*ast.ReturnStmt); isRet && len(r.Results) == 1 && !isNil(info, r.Results[0]) {
								retsErr = true
							}
							return true
						})
					}
					if err == nil && cx == "" && warns && conts && retsErr {
						ok = true
					}
					return true
				})
			}
			c.Check(ok, "fanout-failure-strategy", rel+".(*ProxyStore).Series#open-stream", p.Pos(ctorCall.Pos()), "open-stream-failure-mishandled",
				"a store whose stream cannot be opened must abort the request under abort/disabled and otherwise send a warning and continue")
		}
		checkErrsReturned(c, p, fn, "fanout-failure-strategy", "srv.Send", isSrvSend, nil)
	}

	// (3) LabelNames / LabelValues
	for _, name := range []string{"LabelNames", "LabelValues"} {
		fn := p.Func(rel, "ProxyStore", name)
		if fn == nil {
			c.Incomplete("fanout-failure-strategy", rel+".(*ProxyStore)."+name, "", "function not found")
			continue
		}
		ok := false
		for _, lit := range p.Lits(fn) {
			info := lit.Info()
			inspectNoLit(lit.Body(), func(n ast.Node) bool {
				ifs, isIf := n.(*ast.IfStmt)
				if !isIf || !strings.Contains(exprString(ifs.Cond), "PartialResponse") {
					return true
				}
				x := newE9(p, lit, func(e ast.Expr, text string) string {
					if strings.HasSuffix(canon(e), ".PartialResponseDisabled") {
						return "disabled"
					}
					return ""
				})
				x.AtomCmp = func(e ast.Expr, t string) string {
					if strings.HasSuffix(t, ".PartialResponseStrategy==storepb.PartialResponseStrategy_ABORT") {
						return "abort"
					}
					return ""
				}
				_, cx, err := e9Table([]string{"disabled", "abort"}, []int64{0, 1}, nil,
					func(env map[string]int64) (int64, error) { v, err := x.eval(ifs.Cond, env); return b2i(v.b), err },
					func(env map[string]int64) int64 { return b2i(env["disabled"] == 1 || env["abort"] == 1) })
				rets := false
				ast.Inspect(ifs.Body, func(m ast.Node) bool {
					if r, isRet := m.(*ast.ReturnStmt); isRet && len(r.Results) == 1 && !isNil(info, r.Results[0]) {
						rets = true
					}
					return true
				})
				// afterwards: warnings appended under the mutex
				warned := false
				if blk, isBlk := p.ParentOf(lit.Pkg, ifs).(*ast.BlockStmt); isBlk {
					locked := false
					for _, st := range blk.List {
						if st.Pos() < ifs.End() {
							continue
						}
						s := exprString2(st)
						if strings.Contains(s, ".Lock()") {
							locked = true
						}
						if strings.Contains(s, ".Unlock()") {
							locked = false
						}
						// the failure is recorded: its text is appended to a []string under the lock
						if as, isAs := st.(*ast.AssignStmt); isAs && len(as.Rhs) == 1 && locked && shortType(info.TypeOf(as.Lhs[0])) == "[]string" &&
							strings.HasPrefix(canon(as.Rhs[0]), "append("+canon(as.Lhs[0])+",") && strings.HasSuffix(canon(as.Rhs[0]), ".Error())") {
							warned = true
						}
					}
				}
				if os.Getenv("TVC_DEBUG") != "" {
					fmt.Fprintf(os.Stderr, "C06 label-api %s: err=%v cx=%q rets=%v warned=%v\n", name, err, cx, rets, warned)
				}
				if err == nil && cx == "" && rets && warned {
					ok = true
				}
				return true
			})
		}
		c.Check(ok, "fanout-failure-strategy", rel+".(*ProxyStore)."+name+"#store-failure", p.Pos(fn.Decl.Pos()), "label-api-failure-mishandled",
			"a failing store must fail the call under abort/disabled and be recorded as a warning (under the mutex) otherwise")
	}

	// (5) querier wiring
	if nq := p.Func("pkg/query", "", "newQuerier"); nq == nil {
		c.Incomplete("strategy-wiring", "pkg/query.newQuerier", "", "function not found")
	} else {
		info := nq.Info()
		okDerive := false
		var stratVar types.Object
		inspectNoLit(nq.Body(), func(n ast.Node) bool {
			if as, ok := n.(*ast.AssignStmt); ok && len(as.Lhs) == 1 && len(as.Rhs) == 1 && strings.HasSuffix(exprString(as.Rhs[0]), "PartialResponseStrategy_ABORT") && as.Tok.String() == ":=" {
				stratVar = objOf(info, as.Lhs[0])
			}
			return true
		})
		if stratVar != nil {
			// the flag: the parameter that receives the creator's partialResponse field at the call site
			flag := "\x00none"
			for _, g := range p.AllFuncs(true) {
				ast.Inspect(g.Body(), func(n ast.Node) bool {
					call, ok := n.(*ast.CallExpr)
					if !ok || calleeOf(g.Info(), call) != nq.Obj || nq.Obj == nil {
						return true
					}
					for i, a := range call.Args {
						if strings.HasSuffix(canon(a), ".partialResponse") {
							flag = namesOf(nq).P(i)
						}
					}
					return true
				})
			}
			inspectNoLit(nq.Body(), func(n ast.Node) bool {
				ifs, ok := n.(*ast.IfStmt)
				if !ok || exprString(ifs.Cond) != flag || len(ifs.Body.List) != 1 {
					return true
				}
				if as, ok := ifs.Body.List[0].(*ast.AssignStmt); ok && objOf(info, as.Lhs[0]) == stratVar && strings.HasSuffix(exprString(as.Rhs[0]), "PartialResponseStrategy_WARN") {
					okDerive = true
				}
				return true
			})
		}
		c.Check(okDerive, "strategy-wiring", "pkg/query.newQuerier#derive", p.Pos(nq.Decl.Pos()), "strategy-not-derived-from-flag", "the strategy must be WARN iff partialResponse, ABORT otherwise")
	}
	for _, m := range []string{"selectFn", "LabelValues", "LabelNames"} {
		fn := p.Func("pkg/query", "querier", m)
		if fn == nil {
			c.Incomplete("strategy-wiring", "pkg/query.(*querier)."+m, "", "function not found")
			continue
		}
		ok := false
		ast.Inspect(fn.Body(), func(n ast.Node) bool {
			if kv, isKV := n.(*ast.KeyValueExpr); isKV && exprString(kv.Key) == "PartialResponseStrategy" && strings.HasSuffix(exprString(kv.Value), ".partialResponseStrategy") {
				ok = true
			}
			return true
		})
		c.Check(ok, "strategy-wiring", "pkg/query.(*querier)."+m+"#request", p.Pos(fn.Decl.Pos()), "strategy-not-in-request", "the "+m+" request does not carry the querier's partial response strategy")
	}

	// (6) gateway
	if fn := p.Func(rel, "BucketStore", "Series"); fn == nil {
		c.Incomplete("gateway-warning-is-error", rel+".(*BucketStore).Series", "", "function not found")
	} else {
		ok := false
		ast.Inspect(fn.Body(), func(n ast.Node) bool {
			ifs, isIf := n.(*ast.IfStmt)
			if !isIf {
				return true
			}
			be, isBin := unparen(ifs.Cond).(*ast.BinaryExpr)
			if !isBin || be.Op != token.NEQ || canon(be.Y) != `""` || !strings.Contains(expandDefText(fn, fn.Info(), be.X), "GetWarning()") {
				return true
			}
			ast.Inspect(ifs.Body, func(m ast.Node) bool {
				if as, isAs := m.(*ast.AssignStmt); isAs && isErrorType(fn.Info().TypeOf(as.Lhs[0])) && strings.Contains(exprString(as.Rhs[0]), "status.Error(") {
					ok = true
				}
				if r, isRet := m.(*ast.ReturnStmt); isRet && len(r.Results) == 1 && !isNil(fn.Info(), r.Results[0]) {
					ok = true
				}
				return true
			})
			return true
		})
		c.Check(ok, "gateway-warning-is-error", rel+".(*BucketStore).Series#block-warning", p.Pos(fn.Decl.Pos()), "gateway-passes-warning", "a warning from a block is not converted into an error: the store gateway would return partial data silently")
	}
}

func exprString2(n ast.Node) string {
	switch v := n.(type) {
	case *ast.ExprStmt:
		return exprString(v.X)
	case *ast.AssignStmt:
		s := ""
		for _, r := range v.Rhs {
			s += exprString(r)
		}
		return s
	}
	return ""
}
