package main

import (
	"fmt"
	"go/ast"
	"go/token"
	"go/types"
	"strings"
)

func init() {
	register(&Property{
		ID:    "C07",
		Title: "Label name/value APIs cover every label seen by Series",
		Explain: "(1) Block selection agreement (E9, sibling comparison): for every small (request range, block range) the time test used by BucketStore.LabelNames/LabelValues (bucketBlock.overlapsClosedInterval on req.Start, req.End) accepts every block that bucketBlockSet.getFor — the selection used by Series — would keep; both label calls skip a block only through that test, the block matchers and the external-label matcher filter. " +
			"(2) External names: TSDBStore.LabelNames and BucketStore.LabelNames add the name of every external label that is not in the request's WithoutReplicaLabels (source of the labels from the external-label table, removal set resolved to the request field, polarity of the membership test checked); the matcher path of the bucket store goes through the block series client, whose label sets are decided by the C08 algebra with the LabelNames call site as context. " +
			"(3) LabelValues, both stores: nothing is returned for a label listed in WithoutReplicaLabels, and the external value is returned for an external label. " +
			"(4) The label calls apply the same external-label matcher filter as Series and return nothing when it fails. " +
			"(5) The proxy forwards the request fields that select data (time range, matchers, label, WithoutReplicaLabels, partial-response settings) and merges the answers of all stores that answered. " +
			"(6) Same selectors for Series and the label calls: in every store API that strips the matchers on its own labels with matchesExternalLabels, the raw request matchers are not read again after that call, and the Matchers of a forwarded request are built from the stripped list.",
		Assume: []string{"agreement between index-header label tables and series decoding is not decided", "limits may truncate results (outside the property)"},
		Run:    runC07,
	})
}

func runC07(c *Ctx) {
	c.Rule("label-block-filter-covers-series-filter", "label APIs look at every block Series would read", 3)
	c.Rule("external-names-listed", "external label names (minus replica labels) are added", 3)
	c.Rule("label-values-external-and-replica", "replica label → nothing; external label → its value", 4)
	c.Rule("label-apis-filter-external-matchers", "same external-label matcher filter as Series", 4)
	c.Rule("proxy-forwards-label-requests", "request fields forwarded; all answers merged", 4)
	c.Rule("stripped-matchers-used-downstream", "raw request matchers are not read after matchesExternalLabels; forwarded matchers come from its result", 13)
	p := c.Load("pkg/store", "pkg/store/labelpb", "pkg/store/storepb")
	if p == nil {
		return
	}
	const rel = "pkg/store"

	// (1) block filter agreement
	ov := p.Func(rel, "bucketBlock", "overlapsClosedInterval")
	gf := p.Func(rel, "bucketBlockSet", "getFor")
	if ov == nil || gf == nil {
		c.Incomplete("label-block-filter-covers-series-filter", rel+".(*bucketBlock).overlapsClosedInterval", "", "overlapsClosedInterval or getFor not found")
	} else {
		// both functions take (mint, maxt) as their first two parameters
		atomsFor := func(fn *Fn) func(e ast.Expr, text string) string {
			nm := namesOf(fn)
			return func(e ast.Expr, text string) string {
				t := strings.ReplaceAll(text, " ", "")
				switch {
				case strings.HasSuffix(t, ".MinTime"):
					return "bmin"
				case strings.HasSuffix(t, ".MaxTime"):
					return "bmax"
				case t == nm.P(0):
					return "mint"
				case t == nm.P(1):
					return "maxt"
				}
				return ""
			}
		}
		// getFor: the skip conditions of the block loop that mention the block's time range
		var skips []ast.Expr
		var early []ast.Expr
		for _, st := range gf.Decl.Body.List {
			if is, ok := st.(*ast.IfStmt); ok && is.Else == nil && terminates(is.Body.List) && mentions(canon(is.Cond), namesOf(gf).P(0)) {
				early = append(early, is.Cond)
			}
			rs, ok := st.(*ast.RangeStmt)
			if !ok {
				continue
			}
			for _, bs := range rs.Body.List {
				is, ok := bs.(*ast.IfStmt)
				if !ok || is.Else != nil || len(is.Body.List) != 1 {
					continue
				}
				br, ok := is.Body.List[0].(*ast.BranchStmt)
				if !ok || (br.Tok != token.CONTINUE && br.Tok != token.BREAK) {
					continue
				}
				t := canon(is.Cond)
				if strings.Contains(t, ".MinTime") || strings.Contains(t, ".MaxTime") {
					skips = append(skips, is.Cond)
				}
			}
		}
		if len(skips) == 0 {
			c.Incomplete("label-block-filter-covers-series-filter", rel+".(*bucketBlockSet).getFor", p.Pos(gf.Decl.Pos()), "no time-range skip condition found in the block loop")
		} else {
			xo := newE9(p, ov, atomsFor(ov))
			xg := newE9(p, gf, atomsFor(gf))
			var evalErr error
			n, cx, err := e9Table([]string{"mint", "maxt", "bmin", "bmax"}, intRange(0, 3),
				func(env map[string]int64) bool {
					if env["bmin"] >= env["bmax"] {
						return false
					}
					// only rows where Series keeps the block
					for _, e := range early {
						v, err := xg.eval(e, env)
						if err != nil {
							evalErr = err
							return false
						}
						if v.b {
							return false
						}
					}
					for _, s := range skips {
						v, err := xg.eval(s, env)
						if err != nil {
							evalErr = err
							return false
						}
						if v.b {
							return false
						}
					}
					return true
				},
				func(env map[string]int64) (int64, error) { v, err := xo.evalBody(ov.Decl.Body.List, env); return b2i(v.b), err },
				func(env map[string]int64) int64 { return 1 })
			if err == nil {
				err = evalErr
			}
			c.Stats["assignments_evaluated"] += n
			reportE9(c, "label-block-filter-covers-series-filter", rel+".(*bucketBlock).overlapsClosedInterval⊇getFor", p.Pos(ov.Decl.Pos()), cx, err,
				"a block that Series reads (kept by bucketBlockSet.getFor) is skipped by the label APIs' time test")
		}
	}
	for _, name := range []string{"LabelNames", "LabelValues"} {
		fn := p.Func(rel, "BucketStore", name)
		construct := rel + ".(*BucketStore)." + name
		if fn == nil {
			c.Incomplete("label-block-filter-covers-series-filter", construct, "", "function not found")
			continue
		}
		info := fn.Info()
		// the loop over s.blocks: every `continue` guard is one of the three audited filters
		var loop *ast.RangeStmt
		ast.Inspect(fn.Body(), func(nd ast.Node) bool {
			if rs, ok := nd.(*ast.RangeStmt); ok && strings.HasSuffix(canon(rs.X), ".blocks") && loop == nil {
				loop = rs
			}
			return true
		})
		if loop == nil {
			c.Incomplete("label-block-filter-covers-series-filter", construct, p.Pos(fn.Decl.Pos()), "no loop over the store's blocks")
			continue
		}
		bad, okTime := "", false
		for _, st := range loop.Body.List {
			is, ok := st.(*ast.IfStmt)
			if !ok || is.Else != nil || len(is.Body.List) != 1 {
				continue
			}
			if br, ok := is.Body.List[0].(*ast.BranchStmt); !ok || br.Tok != token.CONTINUE {
				continue
			}
			t := canon(is.Cond)
			switch {
			case strings.HasPrefix(t, "!") && strings.Contains(t, ".overlapsClosedInterval("):
				call, _ := unparen(unparen(is.Cond).(*ast.UnaryExpr).X).(*ast.CallExpr)
				if call != nil && len(call.Args) == 2 && strings.HasSuffix(canon(call.Args[0]), ".Start") && strings.HasSuffix(canon(call.Args[1]), ".End") {
					okTime = true
				} else {
					bad = "the time test is not applied to (req.Start, req.End): " + t
				}
			case strings.Contains(t, "matchRelabelLabels("):
			case isNegatedIdent(is.Cond):
				// `!ok` where ok is the second result of FilterExtLabelsMatchers
				if id, isId := unparen(unparen(is.Cond).(*ast.UnaryExpr).X).(*ast.Ident); isId {
					if d := singleDefTuple(fn, info, objOf(info, id)); d == nil || calleeOf(info, d) == nil || calleeOf(info, d).Name() != "FilterExtLabelsMatchers" {
						bad = "a block is skipped on a condition that Series does not apply: " + t
					}
				}
			default:
				bad = "a block is skipped on a condition that Series does not apply: " + t
			}
		}
		if !okTime && bad == "" {
			bad = "blocks are not filtered with overlapsClosedInterval(req.Start, req.End)"
		}
		c.Check(bad == "", "label-block-filter-covers-series-filter", construct, p.Pos(loop.Pos()), "label-block-skip", bad)
	}

	// (2) external names
	la := &lalg{p: p, extSrc: c08ExtSrc, self: map[types.Object]*lt{}}
	for _, spec := range []struct{ recv string }{{"TSDBStore"}, {"BucketStore"}} {
		fn := p.Func(rel, spec.recv, "LabelNames")
		construct := fmt.Sprintf("%s.(*%s).LabelNames", rel, spec.recv)
		if fn == nil {
			c.Incomplete("external-names-listed", construct, "", "function not found")
			continue
		}
		info := fn.Info()
		found, bad, pos := false, "", p.Pos(fn.Decl.Pos())
		ast.Inspect(fn.Body(), func(nd ast.Node) bool {
			call, ok := nd.(*ast.CallExpr)
			if !ok || len(call.Args) != 1 {
				return true
			}
			sel, ok := unparen(call.Fun).(*ast.SelectorExpr)
			if !ok || sel.Sel.Name != "Range" || !c08ExtSrc(info, sel.X) {
				return true
			}
			lit, ok := unparen(call.Args[0]).(*ast.FuncLit)
			if !ok || len(lit.Type.Params.List) != 1 || len(lit.Type.Params.List[0].Names) != 1 {
				return true
			}
			found = true
			pos = p.Pos(call.Pos())
			pn := lit.Type.Params.List[0].Names[0].Name
			// body: if _, ok := R[l.Name]; !ok { x = append(x, l.Name) }
			if len(lit.Body.List) != 1 {
				bad = "callback is not a single guarded append"
				return true
			}
			is, ok := lit.Body.List[0].(*ast.IfStmt)
			if !ok || is.Init == nil || is.Else != nil {
				bad = "external names are not filtered by the request's replica labels"
				return true
			}
			as, ok := is.Init.(*ast.AssignStmt)
			if !ok || len(as.Lhs) != 2 || len(as.Rhs) != 1 {
				bad = "membership test not understood"
				return true
			}
			ix, ok := unparen(as.Rhs[0]).(*ast.IndexExpr)
			if !ok || canon(ix.Index) != pn+".Name" {
				bad = "membership is not tested on the label's name"
				return true
			}
			if r := la.rset(fn, ix.X, as.Pos()); !r.known {
				bad = "the removal set is not the request's WithoutReplicaLabels: " + r.text
				return true
			}
			if canon(is.Cond) != "!"+canon(as.Lhs[1]) {
				bad = "names are added when they ARE in the replica-label set (inverted test)"
				return true
			}
			app := false
			ast.Inspect(is.Body, func(x ast.Node) bool {
				if cc, ok := x.(*ast.CallExpr); ok {
					if id, ok := cc.Fun.(*ast.Ident); ok && id.Name == "append" && len(cc.Args) == 2 && canon(cc.Args[1]) == pn+".Name" {
						app = true
					}
				}
				return true
			})
			if !app {
				bad = "the external label's name is not appended to the result"
			}
			return true
		})
		if !found {
			bad = "external label names are never added"
		}
		c.Check(bad == "", "external-names-listed", construct, pos, "external-names-missing", bad)
	}
	// bucket matcher path: label sets of the block client under the LabelNames call site
	if nb := p.Func(rel, "blockSeriesClient", "nextBatch"); nb == nil {
		c.Incomplete("external-names-listed", rel+".(*blockSeriesClient).nextBatch←LabelNames", "", "function not found")
	} else {
		info := nb.Info()
		la2 := &lalg{p: p, extSrc: c08ExtSrc, self: map[types.Object]*lt{}, callerOK: func(f *Fn) bool {
			return f.Name == "(*BucketStore).LabelNames" || strings.HasPrefix(f.Name, "(*BucketStore).LabelNames$")
		}}
		n := 0
		ast.Inspect(nb.Body(), func(nd ast.Node) bool {
			cl, ok := nd.(*ast.CompositeLit)
			if !ok || !isNamed(info.TypeOf(cl), "pkg/store", "seriesEntry") {
				return true
			}
			val := compositeField(cl, "lset")
			if val == nil {
				return true
			}
			n++
			term := la2.term(nb, val, cl.Pos())
			cex, k := lalgCheck(term)
			c.Stats["label_models"] += k
			c.Check(cex == "", "external-names-listed", rel+".(*blockSeriesClient).nextBatch←LabelNames", p.Pos(cl.Pos()), "labelset-differs-from-definition:"+term.String(),
				fmt.Sprintf("with the parameters passed by BucketStore.LabelNames the series label set is %s; %s", term, cex))
			return true
		})
		if n == 0 {
			c.Incomplete("external-names-listed", rel+".(*blockSeriesClient).nextBatch←LabelNames", p.Pos(nb.Decl.Pos()), "no series entry literal found")
		}
	}

	// (3) LabelValues
	for _, recv := range []string{"TSDBStore", "BucketStore"} {
		fn := p.Func(rel, recv, "LabelValues")
		construct := fmt.Sprintf("%s.(*%s).LabelValues", rel, recv)
		if fn == nil {
			c.Incomplete("label-values-external-and-replica", construct, "", "function not found")
			continue
		}
		info := fn.Info()
		// replica label → empty answer before anything is read
		okReplica := false
		for _, st := range fn.Decl.Body.List {
			is, ok := st.(*ast.IfStmt)
			if !ok || is.Else != nil || !terminates(is.Body.List) {
				continue
			}
			call, ok := unparen(is.Cond).(*ast.CallExpr)
			if !ok || len(call.Args) != 2 {
				continue
			}
			if f := calleeOf(info, call); f == nil || f.Name() != "Contains" {
				continue
			}
			if strings.HasSuffix(canon(call.Args[0]), ".WithoutReplicaLabels") && strings.HasSuffix(canon(call.Args[1]), ".Label") {
				if ret, ok := is.Body.List[len(is.Body.List)-1].(*ast.ReturnStmt); ok && len(ret.Results) == 2 && isNil(info, ret.Results[1]) {
					if cl := compositeOf(ret.Results[0]); cl != nil && len(cl.Elts) == 0 {
						okReplica = true
					}
				}
			}
		}
		c.Check(okReplica, "label-values-external-and-replica", construct+"#replica", p.Pos(fn.Decl.Pos()), "replica-label-values-returned",
			"values of a label that the request drops as a replica label must not be returned (Series never shows that label)")
		// external label → its value
		okExt := false
		ast.Inspect(fn.Body(), func(nd ast.Node) bool {
			is, ok := nd.(*ast.IfStmt)
			if !ok || is.Init == nil {
				return true
			}
			as, ok := is.Init.(*ast.AssignStmt)
			if !ok || len(as.Lhs) != 1 || len(as.Rhs) != 1 {
				return true
			}
			call, ok := unparen(as.Rhs[0]).(*ast.CallExpr)
			if !ok || len(call.Args) != 1 || !strings.HasSuffix(canon(call.Args[0]), ".Label") {
				return true
			}
			sel, ok := unparen(call.Fun).(*ast.SelectorExpr)
			if !ok || sel.Sel.Name != "Get" || !c08ExtSrc(info, sel.X) {
				return true
			}
			v := canon(as.Lhs[0])
			if canon(is.Cond) != v+"!=\"\"" {
				return true
			}
			// the value is put into the answer
			ast.Inspect(is.Body, func(x ast.Node) bool {
				if cl, ok := x.(*ast.CompositeLit); ok && len(cl.Elts) == 1 && canon(cl.Elts[0]) == v {
					if sl, ok := info.TypeOf(cl).Underlying().(*types.Slice); ok {
						if b, ok := sl.Elem().Underlying().(*types.Basic); ok && b.Kind() == types.String {
							okExt = true
						}
					}
				}
				return true
			})
			return true
		})
		c.Check(okExt, "label-values-external-and-replica", construct+"#external", p.Pos(fn.Decl.Pos()), "external-value-missing",
			"for an external label the store's external value must be part of the answer (Series shows it on every series)")
	}

	// (4) external-label matcher filter
	for _, spec := range []struct{ recv, fn string }{{"TSDBStore", "LabelNames"}, {"TSDBStore", "LabelValues"}} {
		fn := p.Func(rel, spec.recv, spec.fn)
		construct := fmt.Sprintf("%s.(*%s).%s", rel, spec.recv, spec.fn)
		if fn == nil {
			c.Incomplete("label-apis-filter-external-matchers", construct, "", "function not found")
			continue
		}
		info := fn.Info()
		var guardObj, matchersObj types.Object
		okArgs := false
		ast.Inspect(fn.Body(), func(nd ast.Node) bool {
			as, ok := nd.(*ast.AssignStmt)
			if ok && len(as.Rhs) == 1 && len(as.Lhs) >= 2 {
				if call, ok := unparen(as.Rhs[0]).(*ast.CallExpr); ok {
					if f := calleeOf(info, call); f != nil && f.Name() == "matchesExternalLabels" && len(call.Args) >= 2 {
						guardObj, matchersObj = objOf(info, as.Lhs[0]), objOf(info, as.Lhs[1])
						okArgs = strings.HasSuffix(canon(call.Args[0]), ".Matchers") && c08ExtSrc(info, call.Args[1])
					}
				}
			}
			return true
		})
		bad := ""
		switch {
		case guardObj == nil:
			bad = "matchesExternalLabels is not consulted"
		case !okArgs:
			bad = "matchesExternalLabels is not applied to (request matchers, external labels)"
		default:
			// every querier call uses the filtered matchers and is guarded by match
			n := 0
			ast.Inspect(fn.Body(), func(nd ast.Node) bool {
				call, ok := nd.(*ast.CallExpr)
				if !ok || !call.Ellipsis.IsValid() || len(call.Args) == 0 {
					return true
				}
				sel, ok := unparen(call.Fun).(*ast.SelectorExpr)
				if !ok || !(sel.Sel.Name == "LabelNames" || sel.Sel.Name == "LabelValues" || sel.Sel.Name == "Select") {
					return true
				}
				n++
				if objOf(info, call.Args[len(call.Args)-1]) != matchersObj {
					bad = "the TSDB is queried with matchers other than the ones left after removing the external-label matchers"
				}
				g := false
				for _, gd := range guardsOf(p, fn, call) {
					refine(gd.Cond, gd.Pol, func(atom ast.Expr, t bool) {
						if t && objOf(info, atom) == guardObj {
							g = true
						}
					})
				}
				if !g {
					bad = "the TSDB is queried although the selectors contradict the external labels"
				}
				return true
			})
			if n == 0 {
				bad = "no TSDB query found"
			}
		}
		c.Check(bad == "", "label-apis-filter-external-matchers", construct, p.Pos(fn.Decl.Pos()), "external-matcher-filter", bad)
	}
	for _, name := range []string{"LabelNames", "LabelValues"} {
		fn := p.Func(rel, "BucketStore", name)
		construct := rel + ".(*BucketStore)." + name
		if fn == nil {
			c.Incomplete("label-apis-filter-external-matchers", construct, "", "function not found")
			continue
		}
		info := fn.Info()
		ok := false
		ast.Inspect(fn.Body(), func(nd ast.Node) bool {
			as, isAs := nd.(*ast.AssignStmt)
			if !isAs || len(as.Lhs) != 2 || len(as.Rhs) != 1 {
				return true
			}
			call, isCall := unparen(as.Rhs[0]).(*ast.CallExpr)
			if !isCall {
				return true
			}
			if f := calleeOf(info, call); f == nil || f.Name() != "FilterExtLabelsMatchers" {
				return true
			}
			okObj := objOf(info, as.Lhs[1])
			// the next statement skips the block when !ok
			blk, _ := p.ParentOf(fn.Pkg, as).(*ast.BlockStmt)
			if blk == nil {
				return true
			}
			for i, st := range blk.List {
				if st == ast.Stmt(as) && i+1 < len(blk.List) {
					if is, isIf := blk.List[i+1].(*ast.IfStmt); isIf && terminates(is.Body.List) {
						if u, isU := unparen(is.Cond).(*ast.UnaryExpr); isU && u.Op == token.NOT && objOf(info, u.X) == okObj {
							ok = true
						}
					}
				}
			}
			return true
		})
		c.Check(ok, "label-apis-filter-external-matchers", construct, p.Pos(fn.Decl.Pos()), "external-matcher-filter",
			"blocks whose external labels contradict the selectors must be skipped (FilterExtLabelsMatchers, !ok → continue), as Series does through labelMatchers")
	}

	// (5) proxy
	for _, spec := range []struct {
		fn, req string
		allow   map[string]string
		result  string
	}{
		{"LabelNames", "LabelNamesRequest", map[string]string{"Limit": "applied by the proxy when merging; stores answer completely"}, "Names"},
		{"LabelValues", "LabelValuesRequest", map[string]string{"Hints": "store-specific; not interpreted through the proxy"}, "Values"},
	} {
		fn := p.Func(rel, "ProxyStore", spec.fn)
		construct := rel + ".(*ProxyStore)." + spec.fn
		if fn == nil {
			c.Incomplete("proxy-forwards-label-requests", construct, "", "function not found")
			continue
		}
		n := p.lookupNamed(thanosMod+"/pkg/store/storepb", spec.req)
		if n == nil {
			c.Incomplete("proxy-forwards-label-requests", construct, "", "request type not found")
			continue
		}
		written := fieldWrites(p, []*Fn{fn}, n)
		var missing []string
		for _, f := range structFieldNames(n) {
			if _, ok := written[f]; !ok {
				if _, ok := spec.allow[f]; !ok {
					missing = append(missing, f)
				}
			}
		}
		c.Check(len(missing) == 0, "proxy-forwards-label-requests", construct+"#request", p.Pos(fn.Decl.Pos()), "request-field-dropped:"+strings.Join(missing, ","),
			"fields of the incoming request that the proxy does not forward: "+strings.Join(missing, ", "))
		// every successful answer is appended and the merge takes all of them
		appended, merged := false, false
		var all []*Fn
		all = append(all, fn)
		all = append(all, p.Lits(fn)...)
		var collector string
		for _, f := range all {
			ast.Inspect(f.Body(), func(nd ast.Node) bool {
				as, ok := nd.(*ast.AssignStmt)
				if !ok || len(as.Lhs) != 1 || len(as.Rhs) != 1 {
					return true
				}
				call, ok := unparen(as.Rhs[0]).(*ast.CallExpr)
				if !ok || len(call.Args) != 2 {
					return true
				}
				if id, ok := call.Fun.(*ast.Ident); ok && id.Name == "append" && strings.HasSuffix(canon(call.Args[1]), "."+spec.result) && canon(call.Args[0]) == canon(as.Lhs[0]) {
					// not under an error guard
					onErr := false
					for _, g := range guardsOf(p, f, as) {
						refine(g.Cond, g.Pol, func(atom ast.Expr, t bool) {
							if canon(atom) == "err!=nil" && t {
								onErr = true
							}
						})
					}
					if !onErr {
						appended = true
						collector = canon(as.Lhs[0])
					}
				}
				return true
			})
		}
		ast.Inspect(fn.Body(), func(nd ast.Node) bool {
			call, ok := nd.(*ast.CallExpr)
			if !ok || !call.Ellipsis.IsValid() || len(call.Args) == 0 {
				return true
			}
			if f := calleeOf(fn.Info(), call); f != nil && strings.HasPrefix(f.Name(), "Merge") && canon(call.Args[len(call.Args)-1]) == collector {
				merged = true
			}
			return true
		})
		c.Check(appended && merged, "proxy-forwards-label-requests", construct+"#merge", p.Pos(fn.Decl.Pos()), "answers-not-merged",
			fmt.Sprintf("every store's answer must be collected (found=%v) and the result merged from all of them (found=%v)", appended, merged))
	}

	// (6) Series and the label calls see the same selectors: every store API strips the matchers on its own
	// external / selector labels with matchesExternalLabels and works with the stripped list from there on.
	// The raw request matchers are dead after that call (an inner store does not know the outer labels and
	// would match nothing), and what a proxy forwards is built from the stripped list.
	for _, fn := range p.AllFuncs(true) {
		if fn.Decl == nil || relPkg(fn.Pkg.PkgPath) != rel {
			continue
		}
		info := fn.Info()
		var strip *ast.CallExpr
		inspectNoLit(fn.Body(), func(nd ast.Node) bool {
			if call, ok := nd.(*ast.CallExpr); ok && strip == nil {
				if f := calleeOf(info, call); f != nil && f.Name() == "matchesExternalLabels" && len(call.Args) >= 1 {
					strip = call
				}
			}
			return true
		})
		if strip == nil {
			continue
		}
		construct := rel + "." + fn.Name
		raw := canon(strip.Args[0])
		again := ""
		ast.Inspect(fn.Body(), func(nd ast.Node) bool {
			e, ok := nd.(ast.Expr)
			if !ok || again != "" {
				return true
			}
			if e.Pos() >= strip.Args[0].Pos() && e.End() <= strip.Args[0].End() {
				return false
			}
			if _, isSel := e.(*ast.SelectorExpr); isSel && canon(e) == raw {
				again = p.Pos(e.Pos())
			}
			return true
		})
		c.Check(again == "", "stripped-matchers-used-downstream", construct+"#raw-dead", p.Pos(strip.Pos()), "raw-matchers-reused",
			"the request's matchers ("+raw+") are read again at "+again+" after matchesExternalLabels removed the ones on this store's own labels: whatever is built from them still carries matchers the stores behind do not know, so the label calls match nothing where Series matches")
		// stripped list → forwarded request (proxy only: functions that build a request with a Matchers field)
		stripped := singleAssignedFromCall(fn, info, strip, 1)
		if stripped == nil {
			continue
		}
		ast.Inspect(fn.Body(), func(nd ast.Node) bool {
			kv, ok := nd.(*ast.KeyValueExpr)
			if !ok {
				return true
			}
			if k, ok := kv.Key.(*ast.Ident); !ok || k.Name != "Matchers" {
				return true
			}
			derived := false
			seen := map[types.Object]bool{}
			var from func(e ast.Expr, d int)
			from = func(e ast.Expr, d int) {
				ast.Inspect(e, func(x ast.Node) bool {
					id, ok := x.(*ast.Ident)
					if !ok {
						return true
					}
					o := objOf(info, id)
					if o == stripped {
						derived = true
					}
					if v, ok := o.(*types.Var); ok && !v.IsField() && !seen[o] && d < 4 {
						seen[o] = true
						if def := singleDef(fn, info, o); def != nil {
							from(def, d+1)
						} else if call, idx := tupleDefIndex(fn, info, o); call != nil && idx == 0 && len(call.Args) == 1 {
							// a conversion of the whole list (PromMatchersToMatchers(matchers...)), not a call that merely takes it among other inputs
							from(call, d+1)
						}
					}
					return true
				})
			}
			from(kv.Value, 0)
			c.Check(derived, "stripped-matchers-used-downstream", construct+"#forwarded", p.Pos(kv.Pos()), "forwarded-matchers-not-from-stripped-list",
				"the Matchers of the forwarded request ("+canon(kv.Value)+") are not built from the list matchesExternalLabels returned")
			return true
		})
	}
}

// singleAssignedFromCall: the variable bound to result idx of call in `a, b, c := call(...)`.
func singleAssignedFromCall(fn *Fn, info *types.Info, call *ast.CallExpr, idx int) types.Object {
	var o types.Object
	ast.Inspect(fn.Body(), func(nd ast.Node) bool {
		if as, ok := nd.(*ast.AssignStmt); ok && len(as.Rhs) == 1 && unparen(as.Rhs[0]) == ast.Expr(call) && idx < len(as.Lhs) {
			o = objOf(info, as.Lhs[idx])
		}
		return true
	})
	return o
}

func compositeOf(e ast.Expr) *ast.CompositeLit {
	e = unparen(e)
	if u, ok := e.(*ast.UnaryExpr); ok && u.Op == token.AND {
		e = unparen(u.X)
	}
	cl, _ := e.(*ast.CompositeLit)
	return cl
}
