package main

import (
	"fmt"
	"go/ast"
	"go/types"
	"strings"
)

func init() {
	register(&Property{
		ID:    "C08",
		Title: "Stores present external labels consistently",
		Explain: "(1) Label-set algebra (E14): at every place where TSDBStore.Series, blockSeriesClient.nextBatch and the three PrometheusStore paths build the label set of an outgoing series, the expression is resolved — through local definitions, struct fields set by constructors, parameters bound at the Series call sites, and the bodies of ExtendSortedLabels / rmLabels interpreted as labels.Builder programs — into a term over S (stored labels), E (external labels), Ext and Rm. The term is evaluated in every model of a two-name universe (stored? external? dropped by the request?; nil vs empty replica set; every undetermined branch condition both ways) and must equal the definition: dropped names absent, else the external value, else the stored value. " +
			"(2) Contradicting selectors: every Send in TSDBStore.Series and PrometheusStore.Series, and every block client creation in BucketStore.Series, is reachable only after the external-label match succeeded (path condition); and in the three sibling filters (matchesExternalLabels, bucketBlockSet.labelMatchers, bucketBlock.FilterExtLabelsMatchers) every path through the loop over the matchers forwards the matcher, rejects the request, or has seen it match the store's own value (structured path enumeration) — no selector is dropped unevaluated. " +
			"(3) Frame splitting in TSDBStore.Series (frame-buffer typestate): every appended chunk is sent before the function finishes successfully or the buffer is replaced, no other response overtakes pending chunks, and every frame of a series carries the labels of the first frame.",
		Assume: []string{"labels.Builder Set/Del/Reset/Labels have their documented meaning", "what a store's external labels are is taken from the table of sources (TSDBStore.extLsetAsLabelSets/getExtLset, bucketBlock.extLset, PrometheusStore.externalLabelsFn)"},
		Run:    runC08,
	})
}

// c08ExtSources: the store's external labels, as objects.
func c08ExtSrc(info *types.Info, e ast.Expr) bool {
	e = unparen(e)
	fieldOf := func(sel *ast.SelectorExpr, typ, field string) bool {
		fo, ok := info.Uses[sel.Sel].(*types.Var)
		if !ok || !fo.IsField() || fo.Name() != field {
			return false
		}
		return isNamed(info.TypeOf(sel.X), "pkg/store", typ)
	}
	switch v := e.(type) {
	case *ast.SelectorExpr:
		return fieldOf(v, "TSDBStore", "extLsetAsLabelSets") || fieldOf(v, "bucketBlock", "extLset")
	case *ast.IndexExpr:
		if sel, ok := unparen(v.X).(*ast.SelectorExpr); ok {
			return fieldOf(sel, "TSDBStore", "extLsetAsLabelSets")
		}
	case *ast.CallExpr:
		if sel, ok := unparen(v.Fun).(*ast.SelectorExpr); ok {
			if fieldOf(sel, "PrometheusStore", "externalLabelsFn") {
				return true
			}
			if f := calleeOf(info, v); f != nil && f.Name() == "getExtLset" && isNamed(info.TypeOf(sel.X), "pkg/store", "TSDBStore") {
				return true
			}
		}
	}
	return false
}

func runC08(c *Ctx) {
	c.Rule("emitted-labelset-algebra", "emitted labels = external over stored, minus dropped replica labels, in every model", 6)
	c.Rule("no-series-when-selectors-contradict", "sends only after the external-label match", 3)
	c.Rule("frames-conserve-chunks", "every chunk appended to a frame is sent; frames repeat the series labels", 2)
	c.Rule("every-selector-evaluated-or-forwarded", "each matcher is forwarded, rejects the request, or matched the store's own label value — on every path", 3)
	p := c.Load("pkg/store", "pkg/store/labelpb")
	if p == nil {
		return
	}
	const rel = "pkg/store"
	// the three sibling filters of matchers against a store's / block's own labels
	for _, s := range [][2]string{{"", "matchesExternalLabels"}, {"bucketBlockSet", "labelMatchers"}, {"bucketBlock", "FilterExtLabelsMatchers"}} {
		construct := rel + "." + s[1]
		fn := p.Func(rel, s[0], s[1])
		if fn == nil {
			c.Incomplete("every-selector-evaluated-or-forwarded", construct, "", "function not found")
			continue
		}
		probs, n := checkMatchersAccounted(p, fn)
		if n == 0 {
			c.Incomplete("every-selector-evaluated-or-forwarded", construct, p.Pos(fn.Decl.Pos()), "no loop over the matchers found")
			continue
		}
		c.Check(len(probs) == 0, "every-selector-evaluated-or-forwarded", construct, p.Pos(fn.Decl.Pos()), "selector-dropped-unevaluated", strings.Join(probs, "; "))
	}
	type site struct {
		recv, fn string
		callers  []string // restricts parameter resolution
	}
	sites := []site{
		{"TSDBStore", "Series", nil},
		{"blockSeriesClient", "nextBatch", []string{"(*BucketStore).Series"}},
		{"PrometheusStore", "Series", nil},
		{"PrometheusStore", "handleSampledPrometheusResponse", nil},
		{"PrometheusStore", "handleStreamedPrometheusResponse", nil},
	}
	models := 0
	for _, st := range sites {
		fn := p.Func(rel, st.recv, st.fn)
		construct := fmt.Sprintf("%s.(*%s).%s", rel, st.recv, st.fn)
		if fn == nil {
			c.Incomplete("emitted-labelset-algebra", construct, "", "function not found")
			continue
		}
		info := fn.Info()
		la := &lalg{p: p, extSrc: c08ExtSrc, self: map[types.Object]*lt{}}
		if st.callers != nil {
			la.callerOK = func(f *Fn) bool {
				for _, n := range st.callers {
					if f.Name == n || strings.HasPrefix(f.Name, n+"$") {
						return true
					}
				}
				return false
			}
		}
		n := 0
		ast.Inspect(fn.Body(), func(nd ast.Node) bool {
			cl, ok := nd.(*ast.CompositeLit)
			if !ok {
				return true
			}
			t := info.TypeOf(cl)
			var key string
			switch {
			case isNamed(t, "storepb", "Series"):
				key = "Labels"
			case isNamed(t, "pkg/store", "seriesEntry"):
				key = "lset"
			default:
				return true
			}
			val := compositeField(cl, key)
			if val == nil {
				return true
			}
			ob := fmt.Sprintf("%s#%d", construct, n)
			n++
			term := la.term(fn, val, cl.Pos())
			cex, k := lalgCheck(term)
			models += k
			c.Check(cex == "", "emitted-labelset-algebra", ob, p.Pos(cl.Pos()), "labelset-differs-from-definition:"+term.String(),
				fmt.Sprintf("the series label set is built as %s; %s", term, cex))
			return true
		})
		if n == 0 {
			c.Incomplete("emitted-labelset-algebra", construct, p.Pos(fn.Decl.Pos()), "no outgoing series literal found")
		}
	}
	c.Stats["label_models"] += models

	// (2) contradicting selectors
	for _, st := range []struct{ recv, fn, guard string }{{"TSDBStore", "Series", "match"}, {"PrometheusStore", "Series", "match"}} {
		fn := p.Func(rel, st.recv, st.fn)
		construct := fmt.Sprintf("%s.(*%s).%s", rel, st.recv, st.fn)
		if fn == nil {
			c.Incomplete("no-series-when-selectors-contradict", construct, "", "function not found")
			continue
		}
		info := fn.Info()
		// the guard variable is the first result of matchesExternalLabels
		var guardObj types.Object
		ast.Inspect(fn.Body(), func(nd ast.Node) bool {
			as, ok := nd.(*ast.AssignStmt)
			if ok && len(as.Rhs) == 1 && len(as.Lhs) >= 1 {
				if call, ok := unparen(as.Rhs[0]).(*ast.CallExpr); ok {
					if f := calleeOf(info, call); f != nil && f.Name() == "matchesExternalLabels" {
						guardObj = objOf(info, as.Lhs[0])
					}
				}
			}
			return true
		})
		if guardObj == nil {
			c.Incomplete("no-series-when-selectors-contradict", construct, p.Pos(fn.Decl.Pos()), "no matchesExternalLabels call whose result is kept")
			continue
		}
		bad, n := "", 0
		ast.Inspect(fn.Body(), func(nd ast.Node) bool {
			call, ok := nd.(*ast.CallExpr)
			if !ok || !(isSendCall(call) || isFlushCallTo(info, call, "handleS")) {
				return true
			}
			n++
			ok = false
			for _, g := range guardsOf(p, fn, call) {
				refine(g.Cond, g.Pol, func(atom ast.Expr, t bool) {
					if t && objOf(info, atom) == guardObj {
						ok = true
					}
				})
			}
			if !ok && bad == "" {
				bad = p.Pos(call.Pos())
			}
			return true
		})
		if n == 0 {
			c.Incomplete("no-series-when-selectors-contradict", construct, p.Pos(fn.Decl.Pos()), "no Send found")
			continue
		}
		c.Check(bad == "", "no-series-when-selectors-contradict", construct, bad, "send-without-external-match",
			"a response is sent on a path where the external-label match did not succeed: a request whose selectors contradict the external labels must return no series")
	}
	if fn := p.Func(rel, "BucketStore", "Series"); fn == nil {
		c.Incomplete("no-series-when-selectors-contradict", rel+".(*BucketStore).Series", "", "function not found")
	} else {
		info := fn.Info()
		n, bad := 0, ""
		visit := func(f *Fn) {
			ast.Inspect(f.Body(), func(nd ast.Node) bool {
				call, ok := nd.(*ast.CallExpr)
				if !ok {
					return true
				}
				if cf := calleeOf(info, call); cf == nil || cf.Name() != "newBlockSeriesClient" {
					return true
				}
				n++
				ok = false
				for _, g := range guardsOf(p, f, call) {
					refine(g.Cond, g.Pol, func(atom ast.Expr, t bool) {
						if id, isId := unparen(atom).(*ast.Ident); isId && t {
							if d := singleDefTuple(fn, info, objOf(info, id)); d != nil {
								if cf := calleeOf(info, d); cf != nil && cf.Name() == "labelMatchers" {
									ok = true
								}
							}
						}
					})
				}
				if !ok {
					bad = p.Pos(call.Pos())
				}
				return true
			})
		}
		visit(fn)
		c.Check(n > 0 && bad == "", "no-series-when-selectors-contradict", rel+".(*BucketStore).Series", bad, "block-read-without-external-match",
			fmt.Sprintf("a block is read on a path where bucketBlockSet.labelMatchers did not report a match (%d block client creations seen)", n))
	}

	// (3) frames
	if fn := p.Func(rel, "TSDBStore", "Series"); fn == nil {
		c.Incomplete("frames-conserve-chunks", rel+".(*TSDBStore).Series", "", "function not found")
	} else {
		bufs := frameBuffers(fn)
		if len(bufs) == 0 {
			c.Incomplete("frames-conserve-chunks", rel+".(*TSDBStore).Series", p.Pos(fn.Decl.Pos()), "no frame buffer (slice appended to and carried by Send) found")
		}
		for _, b := range bufs {
			r := checkFrameBuffer(p, fn, b, fbConfig{ExitFlushed: true})
			ob := rel + ".(*TSDBStore).Series#" + b
			if len(r.unknown) > 0 {
				c.Incomplete("frames-conserve-chunks", ob, r.unknown[0], "assignment to the frame buffer not understood")
				continue
			}
			bad, pos := "", ""
			for _, f := range r.findings {
				if f.kind == "loss" || f.kind == "order" {
					bad, pos = f.msg, p.Pos(f.pos)
					break
				}
			}
			c.Check(bad == "", "frames-conserve-chunks", ob, pos, "chunks-lost-or-overtaken", bad)
		}
		// every frame literal of the chunk loop repeats the labels of the series' first literal
		info := fn.Info()
		var lits []*ast.CompositeLit
		ast.Inspect(fn.Body(), func(nd ast.Node) bool {
			if cl, ok := nd.(*ast.CompositeLit); ok && isNamed(info.TypeOf(cl), "storepb", "Series") {
				lits = append(lits, cl)
			}
			return true
		})
		okLabels := len(lits) >= 2
		for _, cl := range lits[min(1, len(lits)):] {
			v := compositeField(cl, "Labels")
			sel, isSel := v.(*ast.SelectorExpr)
			if v == nil || !isSel || sel.Sel.Name != "Labels" {
				okLabels = false
				continue
			}
			d := singleDef(fn, info, objOf(info, sel.X))
			if d == nil || unparen(d) != ast.Expr(lits[0]) {
				okLabels = false
			}
		}
		c.Check(okLabels, "frames-conserve-chunks", rel+".(*TSDBStore).Series#frame-labels", p.Pos(fn.Decl.Pos()), "frame-labels-differ",
			"every frame of a split series must carry the label set computed for the series (the Labels of the first storepb.Series literal)")
	}
}

// isFlushCallTo: helper calls that send on our behalf (name prefix), e.g. handleSampledPrometheusResponse.
func isFlushCallTo(info *types.Info, call *ast.CallExpr, prefix string) bool {
	f := calleeOf(info, call)
	return f != nil && strings.HasPrefix(f.Name(), prefix)
}

// singleDefTuple returns the call defining o in a tuple assignment `a, o := f()` (unique), or nil.
func singleDefTuple(fn *Fn, info *types.Info, o types.Object) *ast.CallExpr {
	if o == nil {
		return nil
	}
	var def *ast.CallExpr
	n := 0
	ast.Inspect(fn.Body(), func(x ast.Node) bool {
		if as, ok := x.(*ast.AssignStmt); ok {
			for _, l := range as.Lhs {
				if objOf(info, l) == o {
					n++
					if len(as.Rhs) == 1 {
						def, _ = unparen(as.Rhs[0]).(*ast.CallExpr)
					}
				}
			}
		}
		return true
	})
	if n == 1 {
		return def
	}
	return nil
}
