package main

import (
	"fmt"
	"go/ast"
	"go/token"
	"go/types"
	"sort"
	"strings"
)

func init() {
	register(&Property{
		ID:    "C09",
		Title: "Series request limits are enforced",
		Explain: "(1) Series are reserved exactly once per request path: the eager seriesLimiter.Reserve in blockSeriesClient.ExpandPostings is reached whenever the postings are non-empty and NOT lazily expanded for THIS request, and the per-batch Reserve in nextBatch whenever they ARE lazily expanded (E9 implication check of each path condition against the predicate lazyExpanded(), all other conditions universally quantified); every series entry with chunks is appended only after chunksLimiter.Reserve returned nil (E3). " +
			"(2) E4: every call of SeriesLimiter.Reserve / ChunksLimiter.Reserve / BytesLimiter.ReserveWithType in package store tests its error and returns on failure; on the store-gateway path the returned error is httpgrpc.Errorf(codes.ResourceExhausted, …). " +
			"(3) E9: Limiter.ReserveWithType fails iff the limiter is set, limit != 0 and the value returned by the atomic Add exceeds the limit. (4) BucketStore.Series maps the block error's status code through to the client (status.FromError → code) instead of masking it. " +
			"(5) limitedServer.Send forwards a series or batch frame only after both limiters accepted it (E3), counting every series and chunk of a batch.",
		Assume: []string{"the counts passed equal the counts finally returned after merging across blocks (not decided)"},
		Run:    runC09,
	})
}

// freeE9 builds an evaluator in which every boolean-valued leaf that the table does not name
// becomes a free atom (universally quantified by the caller).
func freeE9(p *Prog, fn *Fn, known func(e ast.Expr, text string) string, free map[string]bool) *E9 {
	info := fn.Info()
	x := newE9(p, fn, func(e ast.Expr, text string) string {
		if n := known(e, text); n != "" {
			return n
		}
		e = unparen(e)
		isLeaf := false
		switch v := e.(type) {
		case *ast.SelectorExpr, *ast.CallExpr:
			isLeaf = true
		case *ast.Ident:
			if o := objOf(info, v); o != nil {
				if _, isVar := o.(*types.Var); isVar && singleDef(fn, info, o) == nil {
					isLeaf = true
				}
			}
		}
		if !isLeaf {
			return ""
		}
		if tv, ok := info.Types[e]; ok && (isBoolType(tv.Type) || isIntegerType(tv.Type)) {
			if tv.Value != nil {
				return ""
			}
			name := "free:" + strings.ReplaceAll(text, " ", "")
			free[name] = true
			return name
		}
		return ""
	})
	return x
}

func isIntegerType(t types.Type) bool {
	b, ok := t.Underlying().(*types.Basic)
	return ok && b.Info()&types.IsInteger != 0
}

// impliesGuards checks  pre(env) ⇒ guards(env)  over all assignments of the named and free atoms.
func impliesGuards(x *E9, gs []guardCond, named []string, free map[string]bool, domain []int64, pre func(env map[string]int64) bool) (string, error) {
	// discover free atoms
	for i := 0; i < 4; i++ {
		env := map[string]int64{}
		for _, n := range named {
			env[n] = 0
		}
		for f := range free {
			env[f] = 0
		}
		if _, err := x.evalGuards(gs, env); err == nil {
			break
		}
	}
	atoms := append([]string{}, named...)
	for f := range free {
		atoms = append(atoms, f)
	}
	sort.Strings(atoms)
	if len(atoms) > 10 {
		return "", fmt.Errorf("too many atoms (%d)", len(atoms))
	}
	_, cx, err := e9Table(atoms, domain, pre,
		func(env map[string]int64) (int64, error) { b, err := x.evalGuards(gs, env); return b2i(b), err },
		func(env map[string]int64) int64 { return 1 })
	return cx, err
}

func runC09(c *Ctx) {
	c.Rule("series-reserved-on-every-path", "eager reserve iff not lazily expanded; per-batch reserve iff lazily expanded; chunks reserved before the entry is kept", 3)
	c.Rule("limit-errors-returned", "limiter errors tested and returned (ResourceExhausted on the gateway path)", 10)
	c.Rule("limiter-decision", "ReserveWithType fails iff limit != 0 && Add(num) > limit", 1)
	c.Rule("status-code-passed-through", "block errors keep their gRPC status code", 1)
	c.Rule("limited-server-reserves-before-send", "series/batch frames forwarded only after both limiters accepted", 2)
	p := c.Load("pkg/store")
	if p == nil {
		return
	}
	const rel = "pkg/store"
	isLimiterCall := func(kind string) func(*types.Info, *ast.CallExpr) bool {
		return func(info *types.Info, call *ast.CallExpr) bool {
			sel, ok := unparen(call.Fun).(*ast.SelectorExpr)
			if !ok || (sel.Sel.Name != "Reserve" && sel.Sel.Name != "ReserveWithType") {
				return false
			}
			tv, ok := info.Types[sel.X]
			if !ok {
				return false
			}
			ts := types.TypeString(tv.Type, nil)
			if !strings.HasSuffix(ts, "Limiter") {
				return false
			}
			return kind == "" || strings.Contains(strings.ToLower(ts+"."+exprString(sel.X)), kind)
		}
	}
	isLazyExpanded := func(e ast.Expr, text string) string {
		if call, ok := unparen(e).(*ast.CallExpr); ok {
			if sel, ok := unparen(call.Fun).(*ast.SelectorExpr); ok && sel.Sel.Name == "lazyExpanded" {
				return "lazy"
			}
		}
		return ""
	}

	// (1a) ExpandPostings
	if fn := p.Func(rel, "blockSeriesClient", "ExpandPostings"); fn == nil {
		c.Incomplete("series-reserved-on-every-path", rel+".(*blockSeriesClient).ExpandPostings", "", "function not found")
	} else {
		info := fn.Info()
		var res *ast.CallExpr
		inspectNoLit(fn.Body(), func(n ast.Node) bool {
			if call, ok := n.(*ast.CallExpr); ok && isLimiterCall("series")(info, call) {
				res = call
			}
			return true
		})
		if res == nil {
			c.Bad("series-reserved-on-every-path", rel+".(*blockSeriesClient).ExpandPostings#eager", p.Pos(fn.Decl.Pos()), "no-eager-series-reserve", "ExpandPostings never reserves series")
		} else {
			gs := guardsOf(p, fn, res)
			// drop guards about emptiness / errors of the expansion itself (they return before any series exists)
			var kept []guardCond
			for _, g := range gs {
				if hasNilTestDisjunct(info, g.Cond) {
					continue // `err != nil`, `ps == nil || len(ps.postings) == 0`: nothing was expanded
				}
				kept = append(kept, g)
			}
			free := map[string]bool{}
			x := freeE9(p, fn, isLazyExpanded, free)
			cx, err := impliesGuards(x, kept, []string{"lazy"}, free, []int64{0, 1}, func(env map[string]int64) bool { return env["lazy"] == 0 })
			reportE9(c, "series-reserved-on-every-path", rel+".(*blockSeriesClient).ExpandPostings#eager", p.Pos(res.Pos()), cx, err,
				"the eager series reservation is not reached on every path on which this request's postings are NOT lazily expanded (path condition: "+guardsString(kept)+"): such a request is never charged against the series limit")
		}
	}
	// (1b) nextBatch
	if fn := p.Func(rel, "blockSeriesClient", "nextBatch"); fn == nil {
		c.Incomplete("series-reserved-on-every-path", rel+".(*blockSeriesClient).nextBatch", "", "function not found")
	} else {
		info := fn.Info()
		var res *ast.CallExpr
		inspectNoLit(fn.Body(), func(n ast.Node) bool {
			if call, ok := n.(*ast.CallExpr); ok && isLimiterCall("series")(info, call) {
				res = call
			}
			return true
		})
		if res == nil {
			c.Bad("series-reserved-on-every-path", rel+".(*blockSeriesClient).nextBatch#lazy", p.Pos(fn.Decl.Pos()), "no-lazy-series-reserve", "nextBatch never reserves the series matched by lazily expanded postings")
		} else {
			// only guards that sit after the series loop (same nesting level as the reserve)
			var kept []guardCond
			for _, g := range guardsOf(p, fn, res) {
				if g.Pol { // enclosing ifs
					kept = append(kept, g)
				}
			}
			free := map[string]bool{}
			x := freeE9(p, fn, isLazyExpanded, free)
			cx, err := impliesGuards(x, kept, []string{"lazy"}, free, []int64{0, 1}, func(env map[string]int64) bool { return env["lazy"] == 1 })
			reportE9(c, "series-reserved-on-every-path", rel+".(*blockSeriesClient).nextBatch#lazy", p.Pos(res.Pos()), cx, err,
				"the per-batch series reservation is not reached whenever the postings are lazily expanded (enclosing conditions: "+guardsString(kept)+")")
		}
		// chunks reserved before the entry is kept
		e := newE3(p, fn, []Ev{{Name: "chunks", Match: isLimiterCall("chunks")}})
		nApp := 0
		inspectNoLit(fn.Body(), func(n ast.Node) bool {
			as, ok := n.(*ast.AssignStmt)
			if !ok || len(as.Lhs) != 1 || canon(as.Lhs[0]) != namesOf(fn).Recv+".entries" {
				return true
			}
			if call, ok := unparen(as.Rhs[0]).(*ast.CallExpr); !ok || exprString(call.Fun) != "append" {
				return true
			}
			nApp++
			b, _ := e.Before(as, "chunks")
			skip := false
			for _, g := range guardsOf(p, fn, as) {
				if g.Pol && strings.HasSuffix(canon(g.Cond), ".skipChunks") {
					skip = true
				}
			}
			c.Check(b == eOK || skip, "series-reserved-on-every-path", fmt.Sprintf("%s.(*blockSeriesClient).nextBatch#entry[%d]", rel, nApp-1), p.Pos(as.Pos()), "entry-kept-without-chunk-reserve",
				"a series entry with chunk references is kept on a path where chunksLimiter.Reserve is "+evBitsString(b)+" (and chunks are not skipped): its chunks would be loaded without being charged")
			return true
		})
		if nApp == 0 {
			c.Incomplete("series-reserved-on-every-path", rel+".(*blockSeriesClient).nextBatch#entry", p.Pos(fn.Decl.Pos()), "no append to b.entries found")
		}
	}

	// (2) E4 over all limiter call sites
	nSites := 0
	for _, fn := range p.AllFuncs(true) {
		if fn.Pkg.PkgPath != thanosMod+"/"+rel {
			continue
		}
		for _, u := range append([]*Fn{fn}, p.Lits(fn)...) {
			info := u.Info()
			var calls []*ast.CallExpr
			inspectNoLit(u.Body(), func(n ast.Node) bool {
				if call, ok := n.(*ast.CallExpr); ok && isLimiterCall("")(info, call) {
					calls = append(calls, call)
				}
				return true
			})
			if len(calls) == 0 {
				continue
			}
			// wrappers returning the call directly (Limiter.Reserve → ReserveWithType) are fine
			n := checkErrsReturned(c, p, u, "limit-errors-returned", "limiter", isLimiterCall(""), nil)
			nSites += n
			file := p.Fset.Position(u.Node().Pos()).Filename
			if !strings.HasSuffix(file, "bucket.go") {
				continue
			}
			for i, call := range calls {
				found, _, body := failEdgeTerminates(p, u, call)
				construct := fmt.Sprintf("%s.%s#resource-exhausted[%d]", rel, u.Name, i)
				if !found || body == nil {
					c.Bad("limit-errors-returned", construct, p.Pos(call.Pos()), "limit-error-branch-missing", "the limiter error is not handled by an `if err != nil` branch")
					continue
				}
				okCode := false
				ast.Inspect(body, func(n ast.Node) bool {
					if r, ok := n.(*ast.ReturnStmt); ok && len(r.Results) > 0 {
						if cl, ok := unparen(r.Results[len(r.Results)-1]).(*ast.CallExpr); ok && strings.HasSuffix(funcFullName(calleeOf(info, cl)), "httpgrpc.Errorf") && len(cl.Args) > 0 {
							if strings.Contains(exprString(cl.Args[0]), "ResourceExhausted") {
								okCode = true
							}
						}
					}
					return true
				})
				c.Check(okCode, "limit-errors-returned", construct, p.Pos(call.Pos()), "limit-error-not-resource-exhausted", "an exceeded limit on the store-gateway path is not reported as ResourceExhausted")
			}
		}
	}
	c.Stats["limiter_call_sites"] += nSites

	// (3) limiter decision
	if fn := p.Func(rel, "Limiter", "ReserveWithType"); fn == nil {
		c.Incomplete("limiter-decision", rel+".(*Limiter).ReserveWithType", "", "function not found")
	} else {
		x := newE9(p, fn, func(e ast.Expr, text string) string {
			t := strings.ReplaceAll(text, " ", "")
			switch {
			case t == namesOf(fn).Recv:
				return "lset"
			case strings.HasSuffix(t, ".limit"):
				return "limit"
			case strings.HasSuffix(t, ".reserved.Add("+namesOf(fn).P(0)+")"):
				return "added"
			case strings.HasPrefix(t, "errors.Errorf(") || strings.HasPrefix(t, "errors.New(") || strings.HasPrefix(t, "fmt.Errorf("):
				return "ERR"
			}
			return ""
		})
		n, cx, err := e9TableD([]string{"lset", "limit", "added"}, map[string][]int64{"lset": {0, 1}, "limit": {0, 1, 2, 3}, "added": {0, 1, 2, 3, 4}}, nil,
			func(env map[string]int64) (int64, error) {
				env["ERR"] = 1
				v, err := x.evalBody(fn.Decl.Body.List, env)
				return v.i, err
			},
			func(env map[string]int64) int64 { return b2i(env["lset"] != 0 && env["limit"] != 0 && env["added"] > env["limit"]) })
		c.Stats["assignments_evaluated"] += n
		reportE9(c, "limiter-decision", rel+".(*Limiter).ReserveWithType", p.Pos(fn.Decl.Pos()), cx, err, "the limiter does not fail exactly when limit != 0 and the atomically added total exceeds the limit")
	}

	// (4) status code pass-through in BucketStore.Series
	if fn := p.Func(rel, "BucketStore", "Series"); fn == nil {
		c.Incomplete("status-code-passed-through", rel+".(*BucketStore).Series", "", "function not found")
	} else {
		info := fn.Info()
		ok := false
		inspectNoLit(fn.Body(), func(n ast.Node) bool {
			ret, isRet := n.(*ast.ReturnStmt)
			if !isRet || len(ret.Results) != 1 {
				return true
			}
			call, isCall := unparen(ret.Results[0]).(*ast.CallExpr)
			if !isCall || !strings.HasSuffix(funcFullName(calleeOf(info, call)), "status.Error") || len(call.Args) < 1 {
				return true
			}
			id, isID := unparen(call.Args[0]).(*ast.Ident)
			if !isID {
				return true
			}
			o := objOf(info, id)
			// assigned from s.Code() under status.FromError(...) ok
			ast.Inspect(fn.Body(), func(m ast.Node) bool {
				as, isAs := m.(*ast.AssignStmt)
				if !isAs || len(as.Lhs) != 1 || objOf(info, as.Lhs[0]) != o || as.Tok != token.ASSIGN {
					return true
				}
				if cl, isCl := unparen(as.Rhs[0]).(*ast.CallExpr); isCl && strings.HasSuffix(exprString(cl.Fun), ".Code") {
					for _, g := range guardsOf(p, fn, as) {
						if g.Pol && g.Init != nil && strings.Contains(exprString(g.Init.(*ast.AssignStmt).Rhs[0]), "status.FromError(") {
							ok = true
						}
					}
				}
				return true
			})
			return true
		})
		c.Check(ok, "status-code-passed-through", rel+".(*BucketStore).Series#block-error-code", p.Pos(fn.Decl.Pos()), "status-code-masked",
			"the error of the block fan-out is not returned with its own gRPC code (status.FromError → Code()): ResourceExhausted from a limiter would reach the client as Aborted")
	}

	// (5) limitedServer.Send
	if fn := p.Func(rel, "limitedServer", "Send"); fn == nil {
		c.Incomplete("limited-server-reserves-before-send", rel+".(*limitedServer).Send", "", "function not found")
	} else {
		e := newE3(p, fn, []Ev{
			{Name: "series", Match: isLimiterCall("series")},
			{Name: "samples", Match: func(i *types.Info, call *ast.CallExpr) bool {
				return isLimiterCall("")(i, call) && !isLimiterCall("series")(i, call)
			}},
		})
		nFwd := 0
		inspectNoLit(fn.Body(), func(n ast.Node) bool {
			call, ok := n.(*ast.CallExpr)
			if !ok {
				return true
			}
			sel, ok := unparen(call.Fun).(*ast.SelectorExpr)
			if !ok || sel.Sel.Name != "Send" || !strings.HasSuffix(exprString(sel.X), "Store_SeriesServer") {
				return true
			}
			nFwd++
			sb, _ := e.Before(call, "series")
			cb, _ := e.Before(call, "samples")
			// the passthrough branch: neither a series nor a batch frame
			passthrough := false
			for _, g := range guardsOf(p, fn, call) {
				// `if x := response.GetSeries(); x != nil {…} else if y := response.GetBatch(); y != nil {…} else { here }`
				if as, ok := g.Init.(*ast.AssignStmt); ok && !g.Pol && len(as.Rhs) == 1 {
					if t := canon(as.Rhs[0]); strings.HasSuffix(t, ".GetSeries()") || strings.HasSuffix(t, ".GetBatch()") {
						passthrough = true
					}
				}
			}
			construct := fmt.Sprintf("%s.(*limitedServer).Send#forward[%d]", rel, nFwd-1)
			c.Check((sb == eOK && cb == eOK) || (passthrough && sb == eNo && cb == eNo), "limited-server-reserves-before-send", construct, p.Pos(call.Pos()), "frame-forwarded-without-reserve",
				"a frame is forwarded with the series reservation "+evBitsString(sb)+" and the samples reservation "+evBitsString(cb))
			return true
		})
		// both frame kinds contribute to the counts
		single, batch := false, false
		// the series count: what is handed to the series limiter
		var countVar types.Object
		inspectNoLit(fn.Body(), func(n ast.Node) bool {
			if call, ok := n.(*ast.CallExpr); ok && isLimiterCall("series")(fn.Info(), call) && len(call.Args) >= 1 {
				countVar = objOf(fn.Info(), call.Args[0])
			}
			return true
		})
		ast.Inspect(fn.Body(), func(n ast.Node) bool {
			ifs, ok := n.(*ast.IfStmt)
			if !ok || ifs.Init == nil {
				return true
			}
			ias, ok := ifs.Init.(*ast.AssignStmt)
			if !ok || len(ias.Rhs) != 1 {
				return true
			}
			init := exprString(ias.Rhs[0])
			counts := false
			ast.Inspect(ifs.Body, func(m ast.Node) bool {
				switch v := m.(type) {
				case *ast.AssignStmt:
					if countVar != nil && objOf(fn.Info(), v.Lhs[0]) == countVar {
						counts = true
					}
				case *ast.IncDecStmt:
					if countVar != nil && objOf(fn.Info(), v.X) == countVar {
						counts = true
					}
				}
				return true
			})
			if strings.Contains(init, "GetSeries()") && counts {
				single = true
			}
			if strings.Contains(init, "GetBatch()") && counts {
				batch = true
			}
			return true
		})
		c.Check(single && batch && nFwd >= 1, "limited-server-reserves-before-send", rel+".(*limitedServer).Send#both-frame-kinds", p.Pos(fn.Decl.Pos()), "frame-kind-not-counted",
			fmt.Sprintf("series frames counted: %v, batch frames counted: %v", single, batch))
	}
}
