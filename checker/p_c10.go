package main

import (
	"fmt"
	"go/ast"
	"go/token"
	"go/types"
	"strings"
)

func init() {
	register(&Property{
		ID:    "C10",
		Title: "Store gateway answers equal a direct TSDB read of the same blocks",
		Explain: "Two structural necessary conditions. (A) Posting-group algebra: the three sorted two-pointer walks of postingGroup.mergeKeys are read off the syntax (which comparison case emits which element, which tails are copied, how the cursors advance) and must be the union of the remove keys (both add-all), add keys minus the remove keys of the add-all group (exactly one add-all) and the intersection of the add keys (neither); a return that skips the subtraction must be guarded by a condition that implies the two key ranges are disjoint on every ordering of their first/last elements. (B) Cache-key non-interference. The expanded-postings cache is keyed by block and matchers (C13), not by the request's time range, so what is stored must not depend on the time range: in blockSeriesClient.nextBatch every append to b.expandedPostings is evaluated (E9) over all path conditions that lead to it — lazy-expansion flag, lazy-matcher outcome, and every boolean derived from a call that takes the request's mint/maxt — and must be the same for both values of each time-derived condition; the list is written to the cache only at end of stream, from that field. " +
			"A warm entry written by a narrow-range request is otherwise missing series for a later wide-range request with the same selectors.",
		Assume: []string{"equality with a TSDB read for arbitrary blocks, selectors, batch sizes, partitioning and index-header sampling is a differential runtime property and is not decided"},
		Run:    runC10,
	})
}

func runC10(c *Ctx) {
	c.Rule("cached-postings-independent-of-time-range", "what enters the expanded-postings cache does not depend on mint/maxt", 2)
	c.Rule("posting-group-merge-algebra", "mergeKeys: union of removes / adds minus removes / intersection of adds, as sorted walks", 3)
	p := c.Load("pkg/store")
	if p == nil {
		return
	}
	const rel = "pkg/store"
	runC10Merge(c, p)
	fn := p.Func(rel, "blockSeriesClient", "nextBatch")
	if fn == nil {
		c.Incomplete("cached-postings-independent-of-time-range", rel+".(*blockSeriesClient).nextBatch", "", "function not found")
		return
	}
	info := fn.Info()
	construct := rel + ".(*blockSeriesClient).nextBatch"
	// time-derived booleans: locals defined from a call with an argument mentioning mint / maxt
	timeDerived := map[types.Object]string{}
	ast.Inspect(fn.Body(), func(nd ast.Node) bool {
		as, ok := nd.(*ast.AssignStmt)
		if !ok || len(as.Rhs) != 1 {
			return true
		}
		call, ok := unparen(as.Rhs[0]).(*ast.CallExpr)
		if !ok {
			return true
		}
		uses := false
		for _, a := range call.Args {
			t := canon(a)
			if strings.HasSuffix(t, ".mint") || strings.HasSuffix(t, ".maxt") || strings.HasSuffix(t, ".MinTime") || strings.HasSuffix(t, ".MaxTime") {
				uses = true
			}
		}
		if !uses {
			return true
		}
		for _, lh := range as.Lhs {
			if o := objOf(info, lh); o != nil && isBoolType(o.Type()) {
				timeDerived[o] = canon(call.Fun)
			}
		}
		return true
	})
	if len(timeDerived) == 0 {
		c.Incomplete("cached-postings-independent-of-time-range", construct, p.Pos(fn.Decl.Pos()), "no condition derived from the request's time range found (anchor moved?)")
		return
	}
	// appends to the cached list
	n := 0
	ast.Inspect(fn.Body(), func(nd ast.Node) bool {
		as, ok := nd.(*ast.AssignStmt)
		if !ok || len(as.Lhs) != 1 || !strings.HasSuffix(canon(as.Lhs[0]), ".expandedPostings") || len(as.Rhs) != 1 {
			return true
		}
		call, ok := unparen(as.Rhs[0]).(*ast.CallExpr)
		if !ok {
			return true
		}
		if id, ok := call.Fun.(*ast.Ident); !ok || id.Name != "append" {
			return true
		}
		ob := fmt.Sprintf("%s#append[%d]", construct, n)
		n++
		// path conditions inside the per-series loop
		var loop ast.Node
		for par := p.ParentOf(fn.Pkg, as); par != nil; par = p.ParentOf(fn.Pkg, par) {
			if _, ok := par.(*ast.ForStmt); ok {
				loop = par
			}
			if _, ok := par.(*ast.RangeStmt); ok {
				loop = par
			}
		}
		var gs []guardCond
		for _, g := range guardsOf(p, fn, as) {
			if loop != nil && g.Cond.Pos() > loop.Pos() && !allNilTests(info, g.Cond) {
				gs = append(gs, g)
			}
		}
		// atoms: identifiers of boolean locals; `!m.Matches(v)` style calls → one atom per text
		names := map[string]bool{}
		var tnames []string
		x := newE9(p, fn, func(e ast.Expr, text string) string {
			if id, ok := unparen(e).(*ast.Ident); ok {
				if o, ok := info.Uses[id].(*types.Var); ok && isBoolType(o.Type()) {
					names[id.Name] = true
					return id.Name
				}
			}
			if call, ok := unparen(e).(*ast.CallExpr); ok {
				if tv, ok := info.Types[call]; ok && isBoolType(tv.Type) {
					k := "call:" + canon(call.Fun)
					names[k] = true
					return k
				}
			}
			return ""
		})
		// collect the atom names syntactically (evaluation short-circuits)
		for _, g := range gs {
			ast.Inspect(g.Cond, func(y ast.Node) bool {
				switch v := y.(type) {
				case *ast.Ident:
					if o, ok := info.Uses[v].(*types.Var); ok && isBoolType(o.Type()) {
						names[v.Name] = true
					}
				case *ast.CallExpr:
					if tv, ok := info.Types[v]; ok && isBoolType(tv.Type) {
						names["call:"+canon(v.Fun)] = true
						return false
					}
				}
				return true
			})
		}
		var all []string
		for k := range names {
			all = append(all, k)
		}
		sortStrings(all)
		for o := range timeDerived {
			if names[o.Name()] {
				tnames = append(tnames, o.Name())
			}
		}
		sortStrings(tnames)
		if len(all) > 10 {
			c.Incomplete("cached-postings-independent-of-time-range", ob, p.Pos(as.Pos()), "too many conditions on the path")
			return true
		}
		cx := ""
		var everr error
		cnt := 0
		for m := 0; m < 1<<len(all) && cx == "" && everr == nil; m++ {
			env := map[string]int64{}
			for i, k := range all {
				env[k] = int64((m >> i) & 1)
			}
			base, err := x.evalGuards(gs, env)
			cnt++
			if err != nil {
				everr = err
				break
			}
			for _, tn := range tnames {
				env2 := map[string]int64{}
				for k, v := range env {
					env2[k] = v
				}
				env2[tn] = 1 - env[tn]
				other, err := x.evalGuards(gs, env2)
				cnt++
				if err != nil {
					everr = err
					break
				}
				if other != base {
					cx = fmt.Sprintf("whether the series enters the cached postings depends on %s (= %s of the request's time range) at {%s}", tn, timeDerived[objByName(timeDerived, tn)], envString(env, all))
					break
				}
			}
		}
		c.Stats["assignments_evaluated"] += cnt
		reportE9(c, "cached-postings-independent-of-time-range", ob, p.Pos(as.Pos()), cx, everr,
			"the expanded-postings cache is keyed by block and matchers only, but its content depends on the time range of the request that filled it")
		return true
	})
	if n == 0 {
		c.Incomplete("cached-postings-independent-of-time-range", construct+"#append", p.Pos(fn.Decl.Pos()), "no append to the cached postings list found")
	}
	// the cache write uses that list
	okStore := false
	ast.Inspect(fn.Body(), func(nd ast.Node) bool {
		if call, ok := nd.(*ast.CallExpr); ok {
			if f := calleeOf(info, call); f != nil && f.Name() == "storeExpandedPostingsToCache" {
				for _, a := range call.Args {
					if strings.Contains(stmtText(p, a), ".expandedPostings") {
						okStore = true
					}
				}
			}
		}
		return true
	})
	c.Check(okStore, "cached-postings-independent-of-time-range", construct+"#store", p.Pos(fn.Decl.Pos()), "cache-write-source", "the expanded postings written to the cache must be the list accumulated over the whole stream")
	_ = token.NoPos
}

func objByName(m map[types.Object]string, name string) types.Object {
	for o := range m {
		if o.Name() == name {
			return o
		}
	}
	return nil
}

func envString(env map[string]int64, keys []string) string {
	var parts []string
	for _, k := range keys {
		parts = append(parts, fmt.Sprintf("%s=%d", k, env[k]))
	}
	return strings.Join(parts, " ")
}

// posting-group algebra: matchers on one label name are folded by postingGroup.mergeKeys with three
// sorted walks. add-all ∧ add-all: the remove sets are united; exactly one add-all: its remove keys are
// subtracted from the other's add keys; neither: the add keys are intersected.
func runC10Merge(c *Ctx, p *Prog) {
	const rule = "posting-group-merge-algebra"
	const rel = "pkg/store"
	construct := rel + ".(postingGroup).mergeKeys"
	fn := p.Func(rel, "postingGroup", "mergeKeys")
	if fn == nil {
		c.Incomplete(rule, construct, "", "function not found")
		return
	}
	info := fn.Info()
	recv := recvObj(fn)
	var other types.Object
	if ps := fn.Decl.Type.Params; ps != nil && len(ps.List) == 1 && len(ps.List[0].Names) == 1 {
		other = info.Defs[ps.List[0].Names[0]]
	}
	if recv == nil || other == nil {
		c.Incomplete(rule, construct, p.Pos(fn.Decl.Pos()), "receiver / parameter not recognised")
		return
	}
	rn, on := recv.Name(), other.Name()
	var chain *ast.IfStmt
	for _, st := range fn.Body().List {
		if ifs, ok := st.(*ast.IfStmt); ok && canon(ifs.Cond) == rn+".addAll&&"+on+".addAll" {
			chain = ifs
		}
	}
	if chain == nil {
		c.Incomplete(rule, construct, p.Pos(fn.Decl.Pos()), "the case split on the two add-all flags was not found")
		return
	}
	second, _ := chain.Else.(*ast.IfStmt)
	if second == nil || (canon(second.Cond) != rn+".addAll||"+on+".addAll" && canon(second.Cond) != on+".addAll||"+rn+".addAll") {
		c.Incomplete(rule, construct, p.Pos(chain.Pos()), "the `exactly one add-all` case was not found")
		return
	}
	third, _ := second.Else.(*ast.BlockStmt)
	if third == nil {
		c.Incomplete(rule, construct, p.Pos(second.Pos()), "the `no add-all` case was not found")
		return
	}
	type branch struct {
		name, op, fa, fb string
		list             []ast.Stmt
		result           string // field of the receiver that takes the walk's output
	}
	for _, br := range []branch{
		{"both-add-all", "union", "removeKeys", "removeKeys", chain.Body.List, "removeKeys"},
		{"one-add-all", "difference", "addKeys", "removeKeys", second.Body.List, "addKeys"},
		{"no-add-all", "intersection", "addKeys", "addKeys", third.List, "addKeys"},
	} {
		cons := construct + "#" + br.name
		w := findMergeWalk(p, fn, br.list)
		if w == nil {
			c.Bad(rule, cons, p.Pos(fn.Decl.Pos()), "walk-missing", "no sorted two-pointer walk over the two key lists in this case")
			continue
		}
		var probs []string
		probs = append(probs, w.Problems...)
		if op := w.Op(); op != br.op && len(w.Problems) == 0 {
			probs = append(probs, fmt.Sprintf("%s: the walk computes %s of %s and %s; this case needs their %s", p.Pos(w.Loop.Pos()), op, w.A, w.B, br.op))
		}
		if listField(w.A) != br.fa || listField(w.B) != br.fb || (w.A == w.B) {
			probs = append(probs, fmt.Sprintf("%s: the walk runs over %s and %s; this case needs the %s of one group and the %s of the other", p.Pos(w.Loop.Pos()), w.A, w.B, br.fa, br.fb))
		}
		// who is who in the subtraction: the group with add-all is the one whose remove keys are subtracted
		if br.op == "difference" {
			ownerA, ownerB := strings.TrimSuffix(w.A, "."+br.fa), strings.TrimSuffix(w.B, "."+br.fb)
			defaults, swapped := map[string]string{}, map[string]string{}
			for _, st := range br.list {
				switch v := st.(type) {
				case *ast.AssignStmt:
					if len(v.Lhs) == 1 && len(v.Rhs) == 1 {
						defaults[canon(v.Lhs[0])] = canon(v.Rhs[0])
					}
				case *ast.IfStmt:
					if canon(v.Cond) == rn+".addAll" && v.Else == nil {
						for _, s := range v.Body.List {
							if as, ok := s.(*ast.AssignStmt); ok && len(as.Lhs) == 1 && len(as.Rhs) == 1 {
								swapped[canon(as.Lhs[0])] = canon(as.Rhs[0])
							}
						}
					}
				}
				if st == ast.Stmt(w.Loop) {
					break
				}
			}
			okRoles := defaults[ownerB] == on && defaults[ownerA] == "&"+rn && swapped[ownerB] == "&"+rn && swapped[ownerA] == on
			if !okRoles {
				probs = append(probs, fmt.Sprintf("%s: the remove keys must come from the group that has add-all (%s when %s.addAll, else %s) and the add keys from the other; found defaults %v, swapped %v", p.Pos(second.Pos()), rn, rn, on, defaults, swapped))
			}
		}
		// exits before the walk
		for _, st := range br.list {
			if st == ast.Stmt(w.Loop) {
				break
			}
			var visit func(ifs *ast.IfStmt)
			visit = func(ifs *ast.IfStmt) {
				hasRet := false
				for _, s := range ifs.Body.List {
					if _, ok := s.(*ast.ReturnStmt); ok {
						hasRet = true
					}
				}
				if hasRet {
					guard := canon(ifs.Cond)
					switch {
					case br.op == "union" && guard == "len("+w.A+")==0":
						found := false
						for _, s := range ifs.Body.List {
							if as, ok := s.(*ast.AssignStmt); ok && len(as.Lhs) == 1 && canon(as.Lhs[0]) == rn+"."+br.result && canon(as.Rhs[0]) == w.B {
								found = true
							}
						}
						if !found {
							probs = append(probs, p.Pos(ifs.Pos())+": with an empty "+w.A+" the union is "+w.B+", which is not what is returned")
						}
					case br.op == "union" && guard == "len("+w.B+")==0":
						for _, s := range ifs.Body.List {
							if _, ok := s.(*ast.ReturnStmt); !ok {
								probs = append(probs, p.Pos(s.Pos())+": with an empty "+w.B+" the union is "+w.A+" unchanged")
							}
						}
					case br.op == "difference":
						cond := ifs.Cond
						cex, err := boundaryGuardImpliesDisjoint(p, fn, cond, w.A, w.B)
						switch {
						case err != nil:
							probs = append(probs, "a return before the subtraction walk is guarded by a condition this analysis cannot decide: "+err.Error())
						case cex != "":
							probs = append(probs, p.Pos(ifs.Pos())+": the walk that subtracts "+w.B+" from "+w.A+" is skipped under `"+exprString(cond)+"`, which does not imply that nothing is to be subtracted — "+cex)
						}
					default:
						probs = append(probs, p.Pos(ifs.Pos())+": a return before the walk under `"+exprString(ifs.Cond)+"` is not one of the empty-list shortcuts")
					}
				}
				if e, ok := ifs.Else.(*ast.IfStmt); ok {
					visit(e)
				}
			}
			if ifs, ok := st.(*ast.IfStmt); ok {
				visit(ifs)
			}
			if _, ok := st.(*ast.ReturnStmt); ok {
				probs = append(probs, p.Pos(st.Pos())+": unconditional return before the walk")
			}
		}
		// the result takes the walk's output
		okRes := false
		var flagsOK = br.op != "difference"
		nilled, cleared := false, false
		after := false
		for _, st := range br.list {
			if st == ast.Stmt(w.Loop) {
				after = true
				continue
			}
			as, ok := st.(*ast.AssignStmt)
			if !after || !ok || len(as.Lhs) != 1 || len(as.Rhs) != 1 {
				continue
			}
			l, r := canon(as.Lhs[0]), canon(as.Rhs[0])
			switch {
			case l == rn+"."+br.result:
				if w.OutCount != nil {
					okRes = r == w.A+"[:"+w.OutCount.Name()+"]"
				} else {
					okRes = r == w.Out
				}
			case l == rn+".addAll" && r == "false":
				cleared = true
			case l == rn+".removeKeys" && r == "nil":
				nilled = true
			}
		}
		if br.op == "difference" {
			flagsOK = cleared && nilled
		}
		if !okRes {
			probs = append(probs, fmt.Sprintf("%s: the output of the walk is not what %s.%s is set to", p.Pos(w.Loop.Pos()), rn, br.result))
		}
		if !flagsOK {
			probs = append(probs, fmt.Sprintf("%s: after the subtraction the group must stop being add-all and drop its remove keys", p.Pos(w.Loop.Pos())))
		}
		c.Check(len(probs) == 0, rule, cons, p.Pos(w.Loop.Pos()), "merge-walk:"+br.op, strings.Join(probs, "; "))
	}
}
