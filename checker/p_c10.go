package main

import (
	"fmt"
	"go/ast"
	"go/token"
	"go/types"
	"strings"
)

func init() {
	register(&Property{
		ID:    "C10",
		Title: "Store gateway answers equal a direct TSDB read of the same blocks",
		Explain: "One structural necessary condition only — cache-key non-interference. The expanded-postings cache is keyed by block and matchers (C13), not by the request's time range, so what is stored must not depend on the time range: in blockSeriesClient.nextBatch every append to b.expandedPostings is evaluated (E9) over all path conditions that lead to it — lazy-expansion flag, lazy-matcher outcome, and every boolean derived from a call that takes the request's mint/maxt — and must be the same for both values of each time-derived condition; the list is written to the cache only at end of stream, from that field. " +
			"A warm entry written by a narrow-range request is otherwise missing series for a later wide-range request with the same selectors.",
		Assume: []string{"equality with a TSDB read for arbitrary blocks, selectors, batch sizes, partitioning and index-header sampling is a differential runtime property and is not decided"},
		Run:    runC10,
	})
}

func runC10(c *Ctx) {
	c.Rule("cached-postings-independent-of-time-range", "what enters the expanded-postings cache does not depend on mint/maxt", 2)
	p := c.Load("pkg/store")
	if p == nil {
		return
	}
	const rel = "pkg/store"
	fn := p.Func(rel, "blockSeriesClient", "nextBatch")
	if fn == nil {
		c.Incomplete("cached-postings-independent-of-time-range", rel+".(*blockSeriesClient).nextBatch", "", "function not found")
		return
	}
	info := fn.Info()
	construct := rel + ".(*blockSeriesClient).nextBatch"
	// time-derived booleans: locals defined from a call with an argument mentioning mint / maxt
	timeDerived := map[types.Object]string{}
	ast.Inspect(fn.Body(), func(nd ast.Node) bool {
		as, ok := nd.(*ast.AssignStmt)
		if !ok || len(as.Rhs) != 1 {
			return true
		}
		call, ok := unparen(as.Rhs[0]).(*ast.CallExpr)
		if !ok {
			return true
		}
		uses := false
		for _, a := range call.Args {
			t := canon(a)
			if strings.HasSuffix(t, ".mint") || strings.HasSuffix(t, ".maxt") || strings.HasSuffix(t, ".MinTime") || strings.HasSuffix(t, ".MaxTime") {
				uses = true
			}
		}
		if !uses {
			return true
		}
		for _, lh := range as.Lhs {
			if o := objOf(info, lh); o != nil && isBoolType(o.Type()) {
				timeDerived[o] = canon(call.Fun)
			}
		}
		return true
	})
	if len(timeDerived) == 0 {
		c.Incomplete("cached-postings-independent-of-time-range", construct, p.Pos(fn.Decl.Pos()), "no condition derived from the request's time range found (anchor moved?)")
		return
	}
	// appends to the cached list
	n := 0
	ast.Inspect(fn.Body(), func(nd ast.Node) bool {
		as, ok := nd.(*ast.AssignStmt)
		if !ok || len(as.Lhs) != 1 || !strings.HasSuffix(canon(as.Lhs[0]), ".expandedPostings") || len(as.Rhs) != 1 {
			return true
		}
		call, ok := unparen(as.Rhs[0]).(*ast.CallExpr)
		if !ok {
			return true
		}
		if id, ok := call.Fun.(*ast.Ident); !ok || id.Name != "append" {
			return true
		}
		ob := fmt.Sprintf("%s#append[%d]", construct, n)
		n++
		// path conditions inside the per-series loop
		var loop ast.Node
		for par := p.ParentOf(fn.Pkg, as); par != nil; par = p.ParentOf(fn.Pkg, par) {
			if _, ok := par.(*ast.ForStmt); ok {
				loop = par
			}
			if _, ok := par.(*ast.RangeStmt); ok {
				loop = par
			}
		}
		var gs []guardCond
		for _, g := range guardsOf(p, fn, as) {
			if loop != nil && g.Cond.Pos() > loop.Pos() && !strings.Contains(canon(g.Cond), "err") {
				gs = append(gs, g)
			}
		}
		// atoms: identifiers of boolean locals; `!m.Matches(v)` style calls → one atom per text
		names := map[string]bool{}
		var tnames []string
		x := newE9(p, fn, func(e ast.Expr, text string) string {
			if id, ok := unparen(e).(*ast.Ident); ok {
				if o, ok := info.Uses[id].(*types.Var); ok && isBoolType(o.Type()) {
					names[id.Name] = true
					return id.Name
				}
			}
			if call, ok := unparen(e).(*ast.CallExpr); ok {
				if tv, ok := info.Types[call]; ok && isBoolType(tv.Type) {
					k := "call:" + canon(call.Fun)
					names[k] = true
					return k
				}
			}
			return ""
		})
		// collect the atom names syntactically (evaluation short-circuits)
		for _, g := range gs {
			ast.Inspect(g.Cond, func(y ast.Node) bool {
				switch v := y.(type) {
				case *ast.Ident:
					if o, ok := info.Uses[v].(*types.Var); ok && isBoolType(o.Type()) {
						names[v.Name] = true
					}
				case *ast.CallExpr:
					if tv, ok := info.Types[v]; ok && isBoolType(tv.Type) {
						names["call:"+canon(v.Fun)] = true
						return false
					}
				}
				return true
			})
		}
		var all []string
		for k := range names {
			all = append(all, k)
		}
		sortStrings(all)
		for o := range timeDerived {
			if names[o.Name()] {
				tnames = append(tnames, o.Name())
			}
		}
		sortStrings(tnames)
		if len(all) > 10 {
			c.Incomplete("cached-postings-independent-of-time-range", ob, p.Pos(as.Pos()), "too many conditions on the path")
			return true
		}
		cx := ""
		var everr error
		cnt := 0
		for m := 0; m < 1<<len(all) && cx == "" && everr == nil; m++ {
			env := map[string]int64{}
			for i, k := range all {
				env[k] = int64((m >> i) & 1)
			}
			base, err := x.evalGuards(gs, env)
			cnt++
			if err != nil {
				everr = err
				break
			}
			for _, tn := range tnames {
				env2 := map[string]int64{}
				for k, v := range env {
					env2[k] = v
				}
				env2[tn] = 1 - env[tn]
				other, err := x.evalGuards(gs, env2)
				cnt++
				if err != nil {
					everr = err
					break
				}
				if other != base {
					cx = fmt.Sprintf("whether the series enters the cached postings depends on %s (= %s of the request's time range) at {%s}", tn, timeDerived[objByName(timeDerived, tn)], envString(env, all))
					break
				}
			}
		}
		c.Stats["assignments_evaluated"] += cnt
		reportE9(c, "cached-postings-independent-of-time-range", ob, p.Pos(as.Pos()), cx, everr,
			"the expanded-postings cache is keyed by block and matchers only, but its content depends on the time range of the request that filled it")
		return true
	})
	if n == 0 {
		c.Incomplete("cached-postings-independent-of-time-range", construct+"#append", p.Pos(fn.Decl.Pos()), "no append to the cached postings list found")
	}
	// the cache write uses that list
	okStore := false
	ast.Inspect(fn.Body(), func(nd ast.Node) bool {
		if call, ok := nd.(*ast.CallExpr); ok {
			if f := calleeOf(info, call); f != nil && f.Name() == "storeExpandedPostingsToCache" {
				for _, a := range call.Args {
					if strings.Contains(stmtText(p, a), ".expandedPostings") {
						okStore = true
					}
				}
			}
		}
		return true
	})
	c.Check(okStore, "cached-postings-independent-of-time-range", construct+"#store", p.Pos(fn.Decl.Pos()), "cache-write-source", "the expanded postings written to the cache must be the list accumulated over the whole stream")
	_ = token.NoPos
}

func objByName(m map[types.Object]string, name string) types.Object {
	for o := range m {
		if o.Name() == name {
			return o
		}
	}
	return nil
}

func envString(env map[string]int64, keys []string) string {
	var parts []string
	for _, k := range keys {
		parts = append(parts, fmt.Sprintf("%s=%d", k, env[k]))
	}
	return strings.Join(parts, " ")
}
