package main

import (
	"fmt"
	"go/ast"
	"go/token"
	"strings"
)

func init() {
	register(&Property{
		ID:    "C11",
		Title: "Binary index-header answers equal the full index",
		Explain: "One clause only — 'missing values are reported as not found', as result shape. (1) In the format-V1 branch of BinaryReader.postingsOffset every iteration over the requested values appends exactly one range on every path (the found range or NotFoundRange), so the answer stays aligned with the request, as the Reader interface promises. " +
			"(2) In the sampled (V2) branch the three situations in which a value cannot exist — before the first value of the name, past the last sampled offset, and between two table entries — each append NotFoundRange (and only those do). " +
			"(3) PostingsOffset turns a single NotFoundRange (or a missing answer) into NotFoundRangeErr.",
		Assume: []string{"the sampled binary search / table scan arithmetic, label names, label values and symbol lookups are not decided"},
		Run:    runC11,
	})
}

func runC11(c *Ctx) {
	c.Rule("one-range-per-requested-value", "V1: every iteration appends once; V2: the three miss cases append NotFoundRange", 2)
	c.Rule("single-lookup-reports-not-found", "NotFoundRange → NotFoundRangeErr", 1)
	c.Rule("sampled-offsets-stride", "value k kept iff (k-1) mod sampling == 0, also for sampling 1", 3)
	c.Rule("sampled-offsets-searched-completely", "each lookup round searches the whole sampled table", 1)
	p := c.Load("pkg/block/indexheader")
	if p == nil {
		return
	}
	const rel = "pkg/block/indexheader"
	fn := p.Func(rel, "BinaryReader", "postingsOffset")
	if fn == nil {
		c.Incomplete("one-range-per-requested-value", rel+".(*BinaryReader).postingsOffset", "", "function not found")
		return
	}
	construct := rel + ".(*BinaryReader).postingsOffset"
	// every round of the search over the sampled offsets looks at the whole table: sort.Search over
	// len(offsets) with the predicate indexing by its own parameter, result used as it is. (A round may
	// leave the scan at the last sampled offset with the wanted value still ahead; a search that starts
	// behind the previous position then runs off the end and reports existing values as missing.)
	{
		info := fn.Info()
		n, bad := 0, ""
		ast.Inspect(fn.Body(), func(nd ast.Node) bool {
			call, ok := nd.(*ast.CallExpr)
			if !ok || len(call.Args) != 2 {
				return true
			}
			f := calleeOf(info, call)
			if f == nil || f.Pkg() == nil || f.Pkg().Path() != "sort" || f.Name() != "Search" {
				return true
			}
			lit, ok := unparen(call.Args[1]).(*ast.FuncLit)
			if !ok || len(lit.Type.Params.List) != 1 || len(lit.Type.Params.List[0].Names) != 1 || len(lit.Body.List) != 1 {
				return true
			}
			ret, ok := lit.Body.List[0].(*ast.ReturnStmt)
			if !ok || len(ret.Results) != 1 {
				return true
			}
			cmp, ok := unparen(ret.Results[0]).(*ast.BinaryExpr)
			if !ok || cmp.Op != token.GEQ {
				return true
			}
			// left side: <table>[<something>].value
			sel, ok := unparen(cmp.X).(*ast.SelectorExpr)
			if !ok || sel.Sel.Name != "value" {
				return true
			}
			ix, ok := unparen(sel.X).(*ast.IndexExpr)
			if !ok {
				return true
			}
			n++
			table := canon(ix.X)
			if objOf(info, ix.Index) != info.Defs[lit.Type.Params.List[0].Names[0]] {
				bad = "the predicate looks at " + canon(ix) + ", an index shifted away from the searched position"
			}
			if canon(call.Args[0]) != "len("+table+")" && bad == "" {
				bad = "the search covers " + canon(call.Args[0]) + " entries, not the whole table " + table
			}
			// the result is used unmodified
			if par, ok := p.ParentOf(fn.Pkg, call).(*ast.AssignStmt); !ok || len(par.Rhs) != 1 || unparen(par.Rhs[0]) != ast.Expr(call) {
				if bad == "" {
					bad = "the position found by the search is adjusted (" + stmtText(p, p.ParentOf(fn.Pkg, call)) + ")"
				}
			}
			return true
		})
		switch {
		case n == 0:
			c.Check(false, "sampled-offsets-searched-completely", construct+"#search", p.Pos(fn.Decl.Pos()), "search-shape",
				"no `sort.Search(len(offsets), func(i) { return offsets[i].value >= wanted })` over the sampled offsets found: a search over part of the table, or with a shifted index, is not covered by this analysis")
		default:
			c.Check(bad == "", "sampled-offsets-searched-completely", construct+"#search", p.Pos(fn.Decl.Pos()), "search-narrowed", bad)
		}
	}
	// the V1 branch
	var v1 *ast.IfStmt
	for _, st := range fn.Decl.Body.List {
		if is, ok := st.(*ast.IfStmt); ok && strings.Contains(stmtText(p, is.Cond), "FormatV1") {
			v1 = is
		}
	}
	// names by role: the requested values are the variadic parameter, the answer is what the last return hands back
	valuesName := namesOf(fn).P(1)
	rngsName := "\x00none"
	if last, ok := fn.Decl.Body.List[len(fn.Decl.Body.List)-1].(*ast.ReturnStmt); ok && len(last.Results) == 2 {
		rngsName = canon(last.Results[0])
	}
	isAppend := func(st ast.Stmt) (string, bool) {
		as, ok := st.(*ast.AssignStmt)
		if !ok || len(as.Lhs) != 1 || len(as.Rhs) != 1 || canon(as.Lhs[0]) != rngsName {
			return "", false
		}
		call, ok := unparen(as.Rhs[0]).(*ast.CallExpr)
		if !ok || len(call.Args) != 2 {
			return "", false
		}
		if id, ok := call.Fun.(*ast.Ident); !ok || id.Name != "append" || canon(call.Args[0]) != rngsName {
			return "", false
		}
		return canon(call.Args[1]), true
	}
	if v1 == nil {
		c.OK("one-range-per-requested-value", construct+"#v1", p.Pos(fn.Decl.Pos()), "no separate V1 branch")
	} else {
		var loop *ast.RangeStmt
		ast.Inspect(v1.Body, func(nd ast.Node) bool {
			if rs, ok := nd.(*ast.RangeStmt); ok && canon(rs.X) == valuesName {
				loop = rs
			}
			return true
		})
		bad := ""
		if loop == nil {
			bad = "the V1 branch does not iterate over the requested values"
		} else {
			// every path through the body appends exactly once: walk the statement list; an if-body that
			// leaves the iteration must have appended before leaving; the fall-through must append at the end
			var walk func(list []ast.Stmt, appended int) (fallthroughAppended int, ok bool)
			walk = func(list []ast.Stmt, appended int) (int, bool) {
				for _, st := range list {
					if _, isApp := isAppend(st); isApp {
						appended++
						continue
					}
					switch v := st.(type) {
					case *ast.IfStmt:
						inner, ok := walk(v.Body.List, appended)
						if !ok {
							return 0, false
						}
						if terminates(v.Body.List) {
							if inner != 1 {
								return 0, false
							}
						} else if inner != appended {
							// conditional append that falls through: both paths must agree → not accepted
							return 0, false
						}
						if v.Else != nil {
							return 0, false
						}
					case *ast.BranchStmt:
						if v.Tok == token.CONTINUE || v.Tok == token.BREAK {
							return appended, true
						}
					}
				}
				return appended, true
			}
			n, ok := walk(loop.Body.List, 0)
			if !ok || n != 1 {
				bad = "an iteration over the requested values can finish without appending exactly one range: a value that does not exist is dropped from the answer instead of being reported as NotFoundRange, and the answer is no longer aligned with the request"
			}
		}
		c.Check(bad == "", "one-range-per-requested-value", construct+"#v1", p.Pos(v1.Pos()), "v1-missing-value-dropped", bad)
	}
	// V2 miss cases
	notFound := 0
	var contexts []string
	ast.Inspect(fn.Body(), func(nd ast.Node) bool {
		st, ok := nd.(ast.Stmt)
		if !ok {
			return true
		}
		if arg, isApp := isAppend(st); isApp && arg == "NotFoundRange" {
			if v1 != nil && v1.Pos() <= st.Pos() && st.End() <= v1.End() {
				return true
			}
			notFound++
			ctx := ""
			for par := p.ParentOf(fn.Pkg, st); par != nil; par = p.ParentOf(fn.Pkg, par) {
				switch v := par.(type) {
				case *ast.ForStmt:
					if v.Cond != nil && ctx == "" {
						ctx = stmtText(p, v.Cond)
					}
				case *ast.IfStmt:
					if ctx == "" {
						ctx = "else-of:" + stmtText(p, v.Cond)
					}
				}
				if ctx != "" {
					break
				}
			}
			contexts = append(contexts, ctx)
		}
		return true
	})
	want := []string{"§vi<len(§values)&&§values[§vi]<§e.offsets[0].value", "len(§rngs)<len(§values)", "else-of:string(§value)==§wanted"}
	okV2 := notFound == 3
	bindV2 := shapeBind{"§values": valuesName, "§rngs": rngsName}
	for i := range want {
		if i >= len(contexts) || !matchShape(want[i], contexts[i], bindV2) {
			okV2 = false
		}
	}
	c.Check(okV2, "one-range-per-requested-value", construct+"#v2-misses", p.Pos(fn.Decl.Pos()), "v2-miss-cases",
		"the sampled lookup must append NotFoundRange for values before the first value, past the end of the table, and between table entries (found "+strings.Join(contexts, " | ")+")")

	// sampling: value number k (1-based) of a label is kept in memory iff (k−1) mod sampling == 0, for
	// every sampling rate including 1 ("keep all"): every test of the running value count against the
	// sampling rate is compared (E9) with that formula.
	if init := p.Func(rel, "BinaryReader", "init"); init == nil {
		c.Incomplete("sampled-offsets-stride", rel+".(*BinaryReader).init", "", "function not found")
	} else {
		n := 0
		for _, f := range append([]*Fn{init}, p.Lits(init)...) {
			inspectNoLit(f.Body(), func(nd ast.Node) bool {
				is, ok := nd.(*ast.IfStmt)
				if !ok {
					return true
				}
				t := stmtText(p, is.Cond)
				if !strings.Contains(t, "postingOffsetsInMemSampling") || !strings.Contains(t, "%") {
					return true
				}
				// the counter: the identifier on the left of %
				var counter string
				ast.Inspect(is.Cond, func(x ast.Node) bool {
					if be, ok := x.(*ast.BinaryExpr); ok && be.Op == token.REM {
						ast.Inspect(be.X, func(y ast.Node) bool {
							if id, ok := y.(*ast.Ident); ok && counter == "" {
								counter = id.Name
							}
							return true
						})
					}
					return true
				})
				ob := fmt.Sprintf("%s.(*BinaryReader).init#stride[%d]", rel, n)
				n++
				x := newE9(p, f, func(e ast.Expr, text string) string {
					tt := strings.ReplaceAll(text, " ", "")
					switch {
					case tt == counter:
						return "k"
					case strings.HasSuffix(tt, ".postingOffsetsInMemSampling"):
						return "s"
					}
					return ""
				})
				// is the condition the "kept" test or its negation? decide at k=1 (always kept)
				first, err0 := x.eval(is.Cond, map[string]int64{"k": 1, "s": 3})
				cnt, cx, err := e9Table([]string{"k", "s"}, intRange(1, 9), func(env map[string]int64) bool { return env["s"] <= 4 },
					func(env map[string]int64) (int64, error) { v, err := x.eval(is.Cond, env); return b2i(v.b), err },
					func(env map[string]int64) int64 {
						kept := (env["k"]-1)%env["s"] == 0
						if first.b {
							return b2i(kept)
						}
						return b2i(!kept)
					})
				if err == nil {
					err = err0
				}
				c.Stats["assignments_evaluated"] += cnt
				reportE9(c, "sampled-offsets-stride", ob, p.Pos(is.Pos()), cx, err,
					"the test that decides which values are kept in memory differs from (k−1) mod sampling == 0; with a sampling rate of 1 not every value would be kept")
				return true
			})
		}
		if n == 0 {
			c.Incomplete("sampled-offsets-stride", rel+".(*BinaryReader).init", p.Pos(init.Decl.Pos()), "no sampling test found")
		}
	}

	if po := p.Func(rel, "BinaryReader", "PostingsOffset"); po == nil {
		c.Incomplete("single-lookup-reports-not-found", rel+".(*BinaryReader).PostingsOffset", "", "function not found")
	} else {
		ok := false
		ast.Inspect(po.Body(), func(nd ast.Node) bool {
			if is, isIf := nd.(*ast.IfStmt); isIf {
				t := stmtText(p, is.Cond)
				r := lhsOfCallTo(po, "postingsOffset", 0) // the ranges returned by the multi-value lookup
				if strings.Contains(t, "len("+r+")!=1") && strings.Contains(t, r+"[0]==NotFoundRange") && strings.Contains(stmtText(p, is.Body), "NotFoundRangeErr") {
					ok = true
				}
			}
			return true
		})
		c.Check(ok, "single-lookup-reports-not-found", rel+".(*BinaryReader).PostingsOffset", p.Pos(po.Decl.Pos()), "not-found-not-reported",
			"a single lookup must return NotFoundRangeErr when the value does not exist")
	}
}
