package main

import (
	"fmt"
	"go/ast"
	"go/constant"
	"go/token"
	"go/types"
	"strings"
)

func init() {
	register(&Property{
		ID:    "C12",
		Title: "Cached posting-list encodings decode to the original list",
		Explain: "(1) Codec table: the header constants are distinct and prefix-free; each is…Encoded predicate tests one header; every decoder checks its own predicate first and strips len(the same header); every encoder writes the header of the decoder with the same name stem; decodePostings dispatches each predicate to the decoder that checks that predicate and rejects unknown input. " +
			"(2) Decoders never write into the bytes they are given (borrowed-slice write analysis): in every function of postings_codec.go that handles encoded input, append / copy / element writes / snappy Decode destinations are never the input, a slice cut from it, or a parameter that still is the caller's memory on some path (path-sensitive for the 'copy the remainder first' idiom of the streamed decoder). A cache entry is shared by all readers: writing into it makes every later decode of the same entry return a different list. " +
			"(3) Seek on both decoded iterators returns early only when the current value already is >= the target and otherwise advances with Next until At() >= target.",
		Assume: []string{"the varint/snappy arithmetic itself (round trip of values) is not decided"},
		Run:    runC12,
	})
}

func runC12(c *Ctx) {
	c.Rule("codec-headers-prefix-free", "header constants distinct and prefix-free", 1)
	c.Rule("codec-table-consistent", "predicate, decoder, encoder and dispatch agree per codec", 5)
	c.Rule("decoder-never-writes-input", "no write into borrowed bytes", 3)
	c.Rule("seek-advances-to-target", "Seek = early return when cur >= x, else Next until At() >= x", 2)
	c.Rule("pooled-buffer-released-once", "the pooled decode buffer is released once; the aliasing test does not depend on slice length", 2)
	p := c.Load("pkg/store")
	if p == nil {
		return
	}
	const rel = "pkg/store"
	pk := p.Pkg(rel)
	if pk == nil {
		c.Incomplete("codec-table-consistent", rel, "", "package not loaded")
		return
	}
	var fns []*Fn
	for _, fn := range p.AllFuncs(true) {
		if fn.Pkg == pk && fn.Decl != nil && strings.HasSuffix(p.Fset.Position(fn.Decl.Pos()).Filename, "pkg/store/postings_codec.go") {
			fns = append(fns, fn)
		}
	}
	if len(fns) == 0 {
		c.Incomplete("codec-table-consistent", rel+"/postings_codec.go", "", "no function found in postings_codec.go")
		return
	}
	info := pk.TypesInfo

	// header constants
	headers := map[string]string{} // const name -> value
	sc := pk.Types.Scope()
	for _, n := range sc.Names() {
		if cn, ok := sc.Lookup(n).(*types.Const); ok && strings.HasPrefix(n, "codecHeader") && cn.Val().Kind() == constant.String {
			headers[n] = constant.StringVal(cn.Val())
		}
	}
	{
		bad := ""
		for a, va := range headers {
			for b, vb := range headers {
				if a < b && (strings.HasPrefix(va, vb) || strings.HasPrefix(vb, va)) {
					bad = fmt.Sprintf("%s=%q and %s=%q are not prefix-free: input of one codec is taken for the other", a, va, b, vb)
				}
			}
		}
		if len(headers) < 2 {
			c.Incomplete("codec-headers-prefix-free", rel+".codecHeader*", "", "fewer than two codec header constants found")
		} else {
			c.Check(bad == "", "codec-headers-prefix-free", rel+".codecHeader*", "", "headers-overlap", bad)
		}
	}
	constOf := func(e ast.Expr) string {
		var found string
		ast.Inspect(e, func(n ast.Node) bool {
			if id, ok := n.(*ast.Ident); ok {
				if cn, ok := info.Uses[id].(*types.Const); ok {
					if _, isH := headers[cn.Name()]; isH {
						found = cn.Name()
					}
				}
			}
			return true
		})
		return found
	}
	// predicates: func(input) bool { return bytes.HasPrefix(input, []byte(H)) }
	predConst := map[string]string{}
	for _, fn := range fns {
		if len(fn.Decl.Body.List) != 1 {
			continue
		}
		ret, ok := fn.Decl.Body.List[0].(*ast.ReturnStmt)
		if !ok || len(ret.Results) != 1 {
			continue
		}
		call, ok := unparen(ret.Results[0]).(*ast.CallExpr)
		if !ok || len(call.Args) != 2 {
			continue
		}
		if f := calleeOf(info, call); f == nil || f.Name() != "HasPrefix" {
			continue
		}
		if h := constOf(call.Args[1]); h != "" {
			predConst[fn.Name] = h
		}
	}
	// decoders: name ends in "Decode", first statement rejects !pred(input), strips len(H)
	type codec struct{ pred, header, stripped string }
	decoders := map[string]*codec{}
	for _, fn := range fns {
		if !strings.HasSuffix(fn.Name, "Decode") || fn.Decl.Recv != nil {
			continue
		}
		d := &codec{}
		decoders[fn.Name] = d
		if len(fn.Decl.Body.List) > 0 {
			if is, ok := fn.Decl.Body.List[0].(*ast.IfStmt); ok && terminates(is.Body.List) {
				if u, ok := unparen(is.Cond).(*ast.UnaryExpr); ok && u.Op == token.NOT {
					if call, ok := unparen(u.X).(*ast.CallExpr); ok {
						if f := calleeOf(info, call); f != nil {
							d.pred = f.Name()
							d.header = predConst[f.Name()]
						}
					}
				}
			}
		}
		ast.Inspect(fn.Body(), func(n ast.Node) bool {
			if sl, ok := n.(*ast.SliceExpr); ok && sl.Low != nil && sl.High == nil {
				if call, ok := unparen(sl.Low).(*ast.CallExpr); ok {
					if id, ok := call.Fun.(*ast.Ident); ok && id.Name == "len" && len(call.Args) == 1 {
						if h := constOf(call.Args[0]); h != "" {
							if d.stripped != "" && d.stripped != h {
								d.stripped = "<several>"
							} else {
								d.stripped = h
							}
						}
					}
				}
			}
			return true
		})
		bad := ""
		switch {
		case d.pred == "" || d.header == "":
			bad = "the decoder does not start by rejecting input without its header"
		case d.stripped != d.header:
			bad = fmt.Sprintf("the decoder checks header %s but strips len(%s)", d.header, d.stripped)
		}
		c.Check(bad == "", "codec-table-consistent", rel+"."+fn.Name, p.Pos(fn.Decl.Pos()), "decoder-header-mismatch", bad)
	}
	// encoders: name ends in "Encode" and writes a header: must be the header of the decoder with the same stem
	for _, fn := range fns {
		if !strings.HasSuffix(fn.Name, "Encode") || fn.Decl.Recv != nil {
			continue
		}
		written := ""
		ast.Inspect(fn.Body(), func(n ast.Node) bool {
			call, ok := n.(*ast.CallExpr)
			if !ok || written != "" {
				return true
			}
			name := ""
			if id, ok := call.Fun.(*ast.Ident); ok {
				name = id.Name
			} else if sel, ok := unparen(call.Fun).(*ast.SelectorExpr); ok {
				name = sel.Sel.Name
			}
			if name == "copy" && len(call.Args) == 2 {
				written = constOf(call.Args[1])
			}
			if name == "WriteString" && len(call.Args) == 1 {
				written = constOf(call.Args[0])
			}
			return true
		})
		if written == "" {
			continue // helper without header (…NoHeader)
		}
		stem := strings.TrimSuffix(fn.Name, "Encode")
		var dec *codec
		decName := ""
		for dn, d := range decoders {
			ds := strings.TrimSuffix(dn, "Decode")
			if ds == stem || (strings.HasSuffix(ds, strings.Title(stem)) && len(ds) > len(decName)) {
				if ds == stem {
					dec, decName = d, dn
					break
				}
				dec, decName = d, dn
			}
		}
		bad := ""
		switch {
		case dec == nil:
			bad = "no decoder with the same name stem"
		case dec.header != written:
			bad = fmt.Sprintf("the encoder writes %s but %s expects %s", written, decName, dec.header)
		}
		c.Check(bad == "", "codec-table-consistent", rel+"."+fn.Name, p.Pos(fn.Decl.Pos()), "encoder-header-mismatch", bad)
	}
	// dispatch
	if fn := p.Func(rel, "", "decodePostings"); fn == nil {
		c.Incomplete("codec-table-consistent", rel+".decodePostings", "", "function not found")
	} else {
		bad, n, hasDefaultReject := "", 0, false
		ast.Inspect(fn.Body(), func(nd ast.Node) bool {
			cc, ok := nd.(*ast.CaseClause)
			if !ok {
				return true
			}
			if cc.List == nil {
				if terminates(cc.Body) {
					hasDefaultReject = true
				}
				return true
			}
			if len(cc.List) != 1 || len(cc.Body) != 1 {
				return true
			}
			call, ok := unparen(cc.List[0]).(*ast.CallExpr)
			if !ok {
				return true
			}
			pf := calleeOf(info, call)
			as, ok := cc.Body[0].(*ast.AssignStmt)
			if pf == nil || !ok || len(as.Rhs) != 1 {
				return true
			}
			n++
			dn := canon(as.Rhs[0])
			d := decoders[dn]
			switch {
			case d == nil:
				bad = fmt.Sprintf("case %s dispatches to %s, which is not a decoder of this file", pf.Name(), dn)
			case d.pred != pf.Name():
				bad = fmt.Sprintf("input recognised by %s is handed to %s, which expects %s", pf.Name(), dn, d.pred)
			}
			return true
		})
		if n < len(decoders) && bad == "" {
			bad = fmt.Sprintf("%d decoders but only %d dispatch cases", len(decoders), n)
		}
		if !hasDefaultReject && bad == "" {
			bad = "input with an unknown header is not rejected"
		}
		c.Check(bad == "", "codec-table-consistent", rel+".decodePostings", p.Pos(fn.Decl.Pos()), "dispatch-mismatch", bad)
	}

	// (2) borrowed writes
	cfgc := borrowCfg{taintedField: func(i *types.Info, sel *ast.SelectorExpr) bool {
		// fields initialised from a parameter named input in a constructor literal of this file
		fo, ok := i.Uses[sel.Sel].(*types.Var)
		if !ok || !fo.IsField() || !isByteSlice(fo.Type()) {
			return false
		}
		return c12BorrowedFields(p, fns)[fo]
	}}
	total := 0
	for _, fn := range fns {
		hasSliceParam := false
		for _, f := range fn.Decl.Type.Params.List {
			for _, nm := range f.Names {
				if o := info.Defs[nm]; o != nil && isByteSlice(o.Type()) {
					hasSliceParam = true
				}
			}
		}
		usesBorrowed := false
		ast.Inspect(fn.Body(), func(n ast.Node) bool {
			if sel, ok := n.(*ast.SelectorExpr); ok && cfgc.taintedField(info, sel) {
				usesBorrowed = true
			}
			return true
		})
		if !hasSliceParam && !usesBorrowed {
			continue
		}
		// encoders own their buffers: only functions on the decode side are in scope
		if strings.HasSuffix(fn.Name, "Encode") || strings.Contains(fn.Name, "Encode") {
			continue
		}
		fs, w := checkBorrowedWrites(p, fn, cfgc)
		total += w
		construct := rel + "." + fn.Name
		if len(fs) == 0 {
			c.OK("decoder-never-writes-input", construct, p.Pos(fn.Decl.Pos()), fmt.Sprintf("%d write operations inspected", w))
		}
		for _, f := range fs {
			c.Bad("decoder-never-writes-input", construct, p.Pos(f.pos), "write-into-borrowed-bytes", f.what)
		}
	}
	c.Stats["write_operations_inspected"] += total

	// (3) Seek
	for _, recv := range []string{"diffVarintPostings", "streamedDiffVarintPostings"} {
		fn := p.Func(rel, recv, "Seek")
		construct := fmt.Sprintf("%s.(*%s).Seek", rel, recv)
		if fn == nil {
			c.Incomplete("seek-advances-to-target", construct, "", "function not found")
			continue
		}
		if len(fn.Decl.Type.Params.List) != 1 || len(fn.Decl.Type.Params.List[0].Names) != 1 {
			c.Incomplete("seek-advances-to-target", construct, p.Pos(fn.Decl.Pos()), "unexpected signature")
			continue
		}
		x := fn.Decl.Type.Params.List[0].Names[0].Name
		early, loop := false, false
		for _, st := range fn.Decl.Body.List {
			switch v := st.(type) {
			case *ast.IfStmt:
				t := canon(v.Cond)
				if v.Else == nil && (strings.HasSuffix(t, ">="+x) || strings.HasPrefix(t, x+"<=")) && len(v.Body.List) == 1 {
					if ret, ok := v.Body.List[0].(*ast.ReturnStmt); ok && len(ret.Results) == 1 && canon(ret.Results[0]) == "true" {
						early = true
					}
				}
			case *ast.ForStmt:
				if v.Cond != nil && strings.HasSuffix(canon(v.Cond), ".Next()") && len(v.Body.List) == 1 {
					if is, ok := v.Body.List[0].(*ast.IfStmt); ok {
						t := canon(is.Cond)
						if strings.HasSuffix(t, ".At()>="+x) || strings.HasPrefix(t, x+"<=") {
							if ret, ok := is.Body.List[0].(*ast.ReturnStmt); ok && len(ret.Results) == 1 && canon(ret.Results[0]) == "true" {
								loop = true
							}
						}
					}
				}
			}
		}
		c.Check(early && loop, "seek-advances-to-target", construct, p.Pos(fn.Decl.Pos()), "seek-shape",
			fmt.Sprintf("Seek must return true at once only when the current value is >= the target (found=%v) and otherwise advance with Next until At() >= target (found=%v)", early, loop))
	}

	// (5) a decoded list owns its buffer exclusively: the pooled decode buffer goes onto the release list
	// once. The second candidate (what the decompressor returned) is released only when it is a different
	// array, and the aliasing test has to work for the zero-length slice the pool hands out — it must not
	// observe the length of its arguments (no len(), no index into the argument itself; only into its
	// full-capacity reslice).
	if fn := p.Func(rel, "", "diffVarintSnappyDecode"); fn == nil {
		c.Incomplete("pooled-buffer-released-once", rel+".diffVarintSnappyDecode", "", "function not found")
	} else {
		info := fn.Info()
		construct := rel + ".diffVarintSnappyDecode"
		// the pooled buffer: defined from a dereference of the result of <pool>.Get
		var pooled types.Object
		inspectNoLit(fn.Body(), func(nd ast.Node) bool {
			as, ok := nd.(*ast.AssignStmt)
			if !ok || len(as.Lhs) != 1 || len(as.Rhs) != 1 {
				return true
			}
			if st, ok := unparen(as.Rhs[0]).(*ast.StarExpr); ok {
				if call := singleDefTuple(fn, info, objOf(info, st.X)); call != nil {
					if f := calleeOf(info, call); f != nil && f.Name() == "Get" {
						pooled = objOf(info, as.Lhs[0])
					}
				}
			}
			return true
		})
		var releases []*ast.AssignStmt
		var list types.Object
		inspectNoLit(fn.Body(), func(nd ast.Node) bool {
			as, ok := nd.(*ast.AssignStmt)
			if !ok || len(as.Lhs) != 1 || len(as.Rhs) != 1 {
				return true
			}
			call, ok := unparen(as.Rhs[0]).(*ast.CallExpr)
			if !ok || len(call.Args) != 2 {
				return true
			}
			if id, ok := call.Fun.(*ast.Ident); !ok || id.Name != "append" || canon(call.Args[0]) != canon(as.Lhs[0]) {
				return true
			}
			if sl, ok := info.TypeOf(as.Lhs[0]).Underlying().(*types.Slice); !ok || sl.Elem().String() != "[]byte" {
				return true
			}
			list = objOf(info, as.Lhs[0])
			releases = append(releases, as)
			return true
		})
		if pooled == nil || list == nil {
			c.Incomplete("pooled-buffer-released-once", construct, p.Pos(fn.Decl.Pos()), "pooled buffer / release list not recognised")
		} else {
			nPooled, bad := 0, ""
			var aliasFn *types.Func
			for _, as := range releases {
				arg := unparen(as.Rhs[0]).(*ast.CallExpr).Args[1]
				if objOf(info, arg) == pooled {
					nPooled++
					continue
				}
				// any other buffer: only when it is not the pooled array
				guarded := false
				for _, g := range guardsOf(p, fn, as) {
					refine(g.Cond, g.Pol, func(atom ast.Expr, t bool) {
						call, ok := unparen(atom).(*ast.CallExpr)
						if !ok || t || len(call.Args) != 2 {
							return
						}
						a0, a1 := objOf(info, call.Args[0]), objOf(info, call.Args[1])
						if (a0 == objOf(info, arg) && a1 == pooled) || (a1 == objOf(info, arg) && a0 == pooled) {
							if f := calleeOf(info, call); f != nil {
								aliasFn, guarded = f, true
							}
						}
					})
				}
				if !guarded {
					bad = "`" + stmtText(p, as) + "` puts " + canon(arg) + " on the release list without first establishing that it is not the pooled buffer " + pooled.Name() + " itself: the same array would go back to the pool twice and back two decoded lists at once"
				}
			}
			if nPooled != 1 && bad == "" {
				bad = fmt.Sprintf("the pooled buffer %s is put on the release list %d times", pooled.Name(), nPooled)
			}
			c.Check(bad == "", "pooled-buffer-released-once", construct, p.Pos(fn.Decl.Pos()), "buffer-released-twice", bad)
			if aliasFn != nil {
				af := p.findFuncDecl(aliasFn)
				acons := rel + "." + aliasFn.Name()
				if af == nil {
					c.Incomplete("pooled-buffer-released-once", acons, "", "body of the aliasing test not found")
				} else {
					ainfo := af.Info()
					params := map[types.Object]bool{}
					for _, f := range af.Decl.Type.Params.List {
						for _, nm := range f.Names {
							params[ainfo.Defs[nm]] = true
						}
					}
					why := ""
					ast.Inspect(af.Body(), func(nd ast.Node) bool {
						switch v := nd.(type) {
						case *ast.CallExpr:
							if id, ok := v.Fun.(*ast.Ident); ok && id.Name == "len" && len(v.Args) == 1 && params[objOf(ainfo, v.Args[0])] {
								why = "it tests len(" + canon(v.Args[0]) + ")"
							}
						case *ast.IndexExpr:
							if params[objOf(ainfo, v.X)] {
								why = "it indexes " + canon(v) + ", which exists only when the slice has a length"
							}
						case *ast.RangeStmt:
							if params[objOf(ainfo, v.X)] {
								why = "it ranges over " + canon(v.X)
							}
						}
						return true
					})
					c.Check(why == "", "pooled-buffer-released-once", acons+"#length-independent", p.Pos(af.Decl.Pos()), "alias-test-observes-length",
						"the aliasing test decides whether the decompressor's result is the pooled buffer; the pool hands out zero-length slices, so a test that depends on the length of its arguments ("+why+") never recognises it")
				}
			}
		}
	}
}

var c12FieldCache map[*Prog]map[*types.Var]bool

// c12BorrowedFields: struct fields that a constructor of this file fills from a []byte parameter.
func c12BorrowedFields(p *Prog, fns []*Fn) map[*types.Var]bool {
	if c12FieldCache == nil {
		c12FieldCache = map[*Prog]map[*types.Var]bool{}
	}
	if m, ok := c12FieldCache[p]; ok {
		return m
	}
	m := map[*types.Var]bool{}
	for _, fn := range fns {
		info := fn.Info()
		params := map[types.Object]bool{}
		for _, f := range fn.Decl.Type.Params.List {
			for _, nm := range f.Names {
				if o := info.Defs[nm]; o != nil && isByteSlice(o.Type()) {
					params[o] = true
				}
			}
		}
		if len(params) == 0 {
			continue
		}
		ast.Inspect(fn.Body(), func(n ast.Node) bool {
			kv, ok := n.(*ast.KeyValueExpr)
			if !ok {
				return true
			}
			k, ok := kv.Key.(*ast.Ident)
			if !ok {
				return true
			}
			fo, ok := info.Uses[k].(*types.Var)
			if !ok || !fo.IsField() {
				return true
			}
			root := unparen(kv.Value)
			for {
				if sl, ok := root.(*ast.SliceExpr); ok {
					root = unparen(sl.X)
					continue
				}
				break
			}
			if o := objOf(info, root); o != nil && params[o] {
				m[fo] = true
			}
			return true
		})
	}
	c12FieldCache[p] = m
	return m
}
