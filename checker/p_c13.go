package main

import (
	"go/ast"
	"go/types"
	"sort"
	"strings"
)

func init() {
	register(&Property{
		ID:    "C13",
		Title: "Cache keys never conflate different cached items",
		Explain: "E5 key/format injectivity: each key constructor is read by an abstract interpreter over string construction (+, +=, fmt.Sprintf with constant format, strings.Builder/bytes.Buffer writes, strconv, strings.Join, hashes) into a format term (literals, typed atoms, optional parts, repetitions, hash(term)); " +
			"a term is accepted only when uniquely decodable: every variable-length atom is last, fixed-length, self-delimiting, or followed by a literal whose first byte is outside the atom's alphabet (left to right), or it is the only such atom and the remainder is decodable from the right; the input of a hash must itself be uniquely decodable (collision resistance of blake2b is trusted). " +
			"Covered: the three cases of store/cache CacheKey.String, the postings and expanded-postings hash inputs, LabelMatchersToString, the matchers-cache cacheKey, cachekey.BucketCacheKey.String. Key namespaces of CacheKey.String have pairwise prefix-free leading literals; KeyType/Size/String switch over the same key types (E11); every CacheKey literal takes Block from ULID.String() (who-constructs, justifying the fixed-length class); the remote index cache builds its keys through CacheKey.String only.",
		Assume: []string{"blake2b-256 collision resistance", "labels.Matcher.String() is self-delimiting (quoted value)", "compression scheme names are lower-case identifiers"},
		Run:    runC13,
	})
}

func runC13(c *Ctx) {
	c.Rule("key-uniquely-decodable", "format term of each key constructor is uniquely decodable", 6)
	c.Rule("key-field-coverage", "block id, payload and compression scheme are part of the key", 3)
	c.Rule("key-namespaces-prefix-free", "leading literals of different key kinds are prefix-free", 1)
	c.Rule("key-type-switch-agreement", "KeyType/Size/String handle the same key types", 1)
	c.Rule("block-is-ulid", "CacheKey.Block always comes from ULID.String()", 3)
	c.Rule("remote-cache-uses-key-string", "remote index cache keys are built by CacheKey.String", 4)
	p := c.Load("pkg/store/cache", "pkg/store/cache/cachekey")
	if p == nil {
		return
	}
	const rel = "pkg/store/cache"
	classify := func(e ast.Expr, text string, t types.Type) (string, string) {
		switch {
		case strings.HasSuffix(text, ".Block"):
			return "", "ulid"
		case strings.HasSuffix(text, ".Compression"):
			return "", "lowerdash"
		case strings.HasSuffix(text, ".String()") && t != nil && types.TypeString(t, nil) == "string":
			if call, ok := unparen(e).(*ast.CallExpr); ok {
				if sel, ok := unparen(call.Fun).(*ast.SelectorExpr); ok {
					// Matcher.String() quotes its value; MatchType.String() is an enum
					return "", classOfStringer(p, sel.X, text)
				}
			}
		case strings.HasSuffix(text, ".Verb") || strings.HasPrefix(text, "string(ck.Verb"):
			return "", "lowerdash"
		case strings.HasSuffix(text, ".ObjectStorageConfigHash"):
			return "", "hex"
		}
		return "", ""
	}
	report := func(construct, pos string, ts []fT, errs []string) {
		if len(errs) > 0 {
			c.Incomplete("key-uniquely-decodable", construct, pos, "key construction not understood: "+strings.Join(errs, "; "))
			return
		}
		whys := decodableAll(ts)
		if len(whys) == 0 {
			c.OK("key-uniquely-decodable", construct, pos, termsString(ts))
		}
		for _, why := range whys {
			c.Bad("key-uniquely-decodable", construct, pos, "ambiguous:"+why, "key format "+termsString(ts)+" is not uniquely decodable: two different items can yield the same key ("+why+")")
		}
	}

	// CacheKey.String — one term per case clause
	var prefixes []string
	if fn := p.Func(rel, "CacheKey", "String"); fn == nil {
		c.Incomplete("key-uniquely-decodable", rel+".CacheKey.String", "", "function not found")
	} else {
		var sw *ast.TypeSwitchStmt
		ast.Inspect(fn.Body(), func(n ast.Node) bool {
			if s, ok := n.(*ast.TypeSwitchStmt); ok && sw == nil {
				sw = s
			}
			return true
		})
		if sw == nil {
			c.Incomplete("key-uniquely-decodable", rel+".CacheKey.String", p.Pos(fn.Decl.Pos()), "type switch over the key kinds not found")
		} else {
			for _, cl := range sw.Body.List {
				cc := cl.(*ast.CaseClause)
				if cc.List == nil {
					continue
				}
				kind := exprString(cc.List[0])
				var ret *ast.ReturnStmt
				for _, st := range cc.Body {
					if r, ok := st.(*ast.ReturnStmt); ok {
						ret = r
					}
				}
				if ret == nil || len(ret.Results) != 1 {
					c.Incomplete("key-uniquely-decodable", rel+".CacheKey.String#"+kind, p.Pos(cc.Pos()), "no return in case clause")
					continue
				}
				x := newE5(p, fn, classify)
				ts := x.terms(ret.Results[0])
				report(rel+".CacheKey.String#"+kind, p.Pos(ret.Pos()), ts, x.errs)
				prefixes = append(prefixes, leadingLiteral(ts))
				// field coverage: block, the key payload and (for compressed kinds) the compression scheme
				hasBlock, hasKey, hasComp := false, false, false
				for _, a := range atomList(ts) {
					n := a.Raw
					switch {
					case strings.HasSuffix(n, ".Block"):
						hasBlock = true
					case strings.HasSuffix(n, ".Compression"):
						hasComp = true
					case strings.Contains(n, ".Key.(") || mentionsKeyPayload(fn, a):
						hasKey = true
					}
				}
				needComp := kind != "CacheKeySeries"
				c.Check(hasBlock && hasKey && (hasComp || !needComp), "key-field-coverage", rel+".CacheKey.String#"+kind, p.Pos(ret.Pos()), "key-misses-field",
					"the key of kind "+kind+" does not contain all of block id, payload and compression scheme ("+termsString(ts)+")")
			}
		}
	}
	// namespaces
	{
		ok, why := len(prefixes) >= 3, ""
		for i := range prefixes {
			for j := range prefixes {
				if i != j && (prefixes[i] == "" || strings.HasPrefix(prefixes[j], prefixes[i])) {
					ok, why = false, "prefix "+prefixes[i]+" vs "+prefixes[j]
				}
			}
		}
		sort.Strings(prefixes)
		c.Check(ok, "key-namespaces-prefix-free", rel+".CacheKey.String#namespaces", "", "namespace-prefix-clash:"+strings.Join(prefixes, ","), "the key kinds must start with pairwise prefix-free literals ("+strings.Join(prefixes, ", ")+") "+why)
	}
	// other constructors (whole function result)
	for _, f := range [][3]string{{rel, "", "LabelMatchersToString"}, {rel, "", "cacheKey"}, {rel + "/cachekey", "BucketCacheKey", "String"}} {
		fn := p.Func(f[0], f[1], f[2])
		construct := f[0] + "." + f[2]
		if f[1] != "" {
			construct = f[0] + "." + f[1] + "." + f[2]
		}
		if fn == nil {
			c.Incomplete("key-uniquely-decodable", construct, "", "function not found")
			continue
		}
		// every return of a string result
		n := 0
		inspectNoLit(fn.Body(), func(nd ast.Node) bool {
			r, ok := nd.(*ast.ReturnStmt)
			if !ok || len(r.Results) == 0 {
				return true
			}
			res := r.Results[0]
			if s, isC := constString(fn.Info(), res); isC && s == "" {
				return true
			}
			x := newE5(p, fn, classify)
			ts := x.terms(res)
			key := construct
			if n > 0 {
				key = construct + "#alt"
			}
			n++
			report(key, p.Pos(r.Pos()), ts, x.errs)
			return true
		})
		if n == 0 {
			c.Incomplete("key-uniquely-decodable", construct, p.Pos(fn.Decl.Pos()), "no string result found")
		}
	}

	// E11: same key types in KeyType / Size / String
	{
		sets := map[string][]string{}
		for _, name := range []string{"KeyType", "Size", "String"} {
			fn := p.Func(rel, "CacheKey", name)
			if fn == nil {
				continue
			}
			var ks []string
			ast.Inspect(fn.Body(), func(n ast.Node) bool {
				if sw, ok := n.(*ast.TypeSwitchStmt); ok {
					for _, cl := range sw.Body.List {
						for _, e := range cl.(*ast.CaseClause).List {
							ks = append(ks, exprString(e))
						}
					}
				}
				return true
			})
			sort.Strings(ks)
			sets[name] = ks
		}
		same := len(sets) == 3 && strings.Join(sets["KeyType"], ",") == strings.Join(sets["Size"], ",") && strings.Join(sets["Size"], ",") == strings.Join(sets["String"], ",") && len(sets["String"]) >= 3
		c.Check(same, "key-type-switch-agreement", rel+".CacheKey", "", "key-type-sets-differ", "CacheKey.KeyType/Size/String do not handle the same key types: "+
			strings.Join(sets["KeyType"], ",")+" | "+strings.Join(sets["Size"], ",")+" | "+strings.Join(sets["String"], ","))
	}

	// who constructs CacheKey: Block from ULID.String()
	for _, fn := range p.AllFuncs(true) {
		if fn.Pkg.PkgPath != thanosMod+"/"+rel {
			continue
		}
		info := fn.Info()
		ast.Inspect(fn.Body(), func(n ast.Node) bool {
			cl, ok := n.(*ast.CompositeLit)
			if !ok {
				return true
			}
			tv, ok := info.Types[cl]
			if !ok {
				return true
			}
			nt := namedOf(tv.Type)
			if nt == nil || nt.Obj().Name() != "CacheKey" || len(cl.Elts) == 0 {
				return true
			}
			var blk ast.Expr = cl.Elts[0]
			for _, el := range cl.Elts {
				if kv, ok := el.(*ast.KeyValueExpr); ok && exprString(kv.Key) == "Block" {
					blk = kv.Value
				}
			}
			if kv, ok := blk.(*ast.KeyValueExpr); ok {
				blk = kv.Value
			}
			isULIDString := func(e ast.Expr) bool {
				call, ok := unparen(e).(*ast.CallExpr)
				if !ok {
					return false
				}
				sel, ok := unparen(call.Fun).(*ast.SelectorExpr)
				if !ok || sel.Sel.Name != "String" {
					return false
				}
				t, ok := info.Types[sel.X]
				ts := types.TypeString(t.Type, nil)
				return ok && strings.Contains(ts, "/ulid") && strings.HasSuffix(ts, ".ULID")
			}
			okB := isULIDString(blk)
			if id, isID := unparen(blk).(*ast.Ident); isID && !okB {
				if o := objOf(info, id); o != nil {
					if d := singleDef(fn, info, o); d != nil {
						okB = isULIDString(d)
					}
				}
			}
			c.Check(okB, "block-is-ulid", relPkg(fn.Pkg.PkgPath)+"."+fn.Name+"#CacheKey.Block", p.Pos(cl.Pos()), "block-not-from-ulid:"+exprString(blk),
				"CacheKey.Block is built from "+exprString(blk)+", not from ULID.String(): the fixed-length assumption of the key format no longer holds")
			// remote cache: the literal must be immediately followed by .String()
			if strings.Contains(fn.Name, "RemoteIndexCache") {
				par := p.ParentOf(fn.Pkg, cl)
				okS := false
				if sel, ok := par.(*ast.SelectorExpr); ok && sel.Sel.Name == "String" {
					okS = true
				}
				c.Check(okS, "remote-cache-uses-key-string", relPkg(fn.Pkg.PkgPath)+"."+fn.Name+"#key", p.Pos(cl.Pos()), "remote-key-not-from-String", "the remote index cache derives a key from CacheKey by other means than CacheKey.String()")
			}
			return true
		})
	}
}

// classOfStringer: format class of X.String() by the static type name of X (text heuristics on
// the printed expression are avoided: the decision uses the method's receiver type).
func classOfStringer(p *Prog, recv ast.Expr, text string) string {
	// labels.Matcher.String() quotes its value
	for _, pk := range p.Roots {
		if tv, ok := pk.TypesInfo.Types[recv]; ok && strings.HasSuffix(strings.TrimPrefix(shortType(tv.Type), "*"), "labels.Matcher") {
			return "quoted"
		}
	}
	return "free"
}

// mentionsKeyPayload: the atom's expression mentions a local that was bound to the key payload
// (`x := c.Key.(CacheKeyPostings)`).
func mentionsKeyPayload(fn *Fn, a fT) bool {
	if a.Src == nil || a.Info == nil {
		return false
	}
	found := false
	ast.Inspect(a.Src, func(n ast.Node) bool {
		id, ok := n.(*ast.Ident)
		if !ok || found {
			return true
		}
		o := objOf(a.Info, id)
		if o == nil {
			return true
		}
		if d := singleDef(fn, a.Info, o); d != nil && strings.Contains(canon(d), ".Key.(") {
			found = true
		}
		return true
	})
	return found
}
