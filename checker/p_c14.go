package main

import (
	"fmt"
	"go/ast"
	"go/types"
	"strings"
)

func init() {
	register(&Property{
		ID:    "C14",
		Title: "Caching bucket is transparent for immutable objects",
		Explain: "(1) Key formats of cachekey.BucketCacheKey are uniquely decodable per verb (decided under C13's E5 rule, referenced). " +
			"(2) Subrange extent agreement (integer-domain abstract interpretation, part of E9): the range arithmetic at the head of cachedGetRange is evaluated for every small (offset, length, subrange size, object size); the window [startRange, endRange) is subrange-aligned and covers the request, and the length stored for the object's last subrange equals min(lastSubrangeOffset + subrangeSize, objectSize) - lastSubrangeOffset — exactly the extent the subrange's cache key names (End = min(off+size, attrs.Size)); a shorter stored length would poison the entry for later, longer reads. " +
			"(3) getReader stores the content iff the underlying reader reported io.EOF while the buffer is still intact (E9 over eof / buf != nil), clears the buffer afterwards, and Close and the oversize branch clear it. " +
			"(4) In Iter / Exists / Attributes the cache Store is reachable only after the bucket call returned nil (E3), and a cached entry that fails to decode falls through to the bucket call. " +
			"(5) In fetchMissingSubranges a subrange is stored under cacheKeys[off] for the same off that slices the buffer.",
		Assume: []string{"objects are immutable", "byte equality of range reads for arbitrary merge limits is not decided beyond the extent arithmetic"},
		Run:    runC14,
	})
}

func runC14(c *Ctx) {
	c.Rule("subrange-extent-agreement", "aligned covering window; last subrange length matches its key's extent", 1)
	c.Rule("get-stores-complete-objects-only", "Store iff EOF && buffer intact; buffer cleared on Close/oversize", 3)
	c.Rule("store-only-after-bucket-success", "cache filled only from successful bucket calls", 3)
	c.Rule("subrange-stored-under-own-key", "key and slice use the same offset", 1)
	p := c.Load("pkg/store/cache")
	if p == nil {
		return
	}
	const rel = "pkg/store/cache"
	// (2)
	if fn := p.Func(rel, "CachingBucket", "cachedGetRange"); fn == nil {
		c.Incomplete("subrange-extent-agreement", rel+".(*CachingBucket).cachedGetRange", "", "function not found")
	} else {
		// prefix: statements up to the first for loop
		var prefix []ast.Stmt
		for _, st := range fn.Decl.Body.List {
			if _, isFor := st.(*ast.ForStmt); isFor {
				break
			}
			prefix = append(prefix, st)
		}
		params := []string{}
		for _, f := range fn.Decl.Type.Params.List {
			for _, nm := range f.Names {
				params = append(params, nm.Name)
			}
		}
		offName, lenName := "offset", "length"
		if len(params) >= 4 {
			offName, lenName = params[2], params[3]
		}
		maxSize := int64(7)
		if c.Tier == "thorough" {
			maxSize = 11
		}
		runs := 0
		viol, vpos := "", p.Pos(fn.Decl.Pos())
		unknown := map[string]bool{}
		// names of the locals by role: the window and the last subrange are what is handed to fetchMissingSubranges
		// (arguments 2, 3 and 6, 7)
		roleNames := [4]string{"startRange", "endRange", "lastSubrangeOffset", "lastSubrangeLength"}
		ast.Inspect(fn.Body(), func(n ast.Node) bool {
			if call, ok := n.(*ast.CallExpr); ok && len(call.Args) >= 8 {
				if f := calleeOf(fn.Info(), call); f != nil && f.Name() == "fetchMissingSubranges" {
					roleNames = [4]string{canon(call.Args[2]), canon(call.Args[3]), canon(call.Args[6]), canon(call.Args[7])}
				}
			}
			return true
		})
		roleOf := func(li *lenInterp, s lenState) (start, end, lastOff, lastLen int64, ok bool) {
			get := func(sub string) (int64, bool) {
				for k, v := range s.v {
					if strings.EqualFold(k, sub) {
						return v, true
					}
				}
				return 0, false
			}
			var o1, o2, o3, o4 bool
			start, o1 = get(roleNames[0])
			end, o2 = get(roleNames[1])
			lastOff, o3 = get(roleNames[2])
			lastLen, o4 = get(roleNames[3])
			return start, end, lastOff, lastLen, o1 && o2 && o3 && o4
		}
		attrsName := lhsOfCallTo(fn, "cachedAttributes", 0)
		for size := int64(1); size <= maxSize && viol == ""; size++ {
			for sub := int64(1); sub <= 4 && viol == ""; sub++ {
				for off := int64(0); off < size && viol == ""; off++ {
					for ln := int64(1); ln <= size+2 && viol == ""; ln++ {
						li := &lenInterp{p: p, fn: fn, info: fn.Info(), slices: map[string]bool{},
							atoms: func(t string) string {
								switch {
								case t == attrsName+".Size":
									return "size"
								case strings.HasSuffix(t, ".SubrangeSize"):
									return "S"
								}
								return ""
							},
							check: func(lenState, ast.Node) string { return "" }}
						init := lenState{v: map[string]int64{offName: off, lenName: ln, "size": size, "S": sub}}
						out := li.run(prefix, init)
						runs++
						for _, u := range li.unknown {
							unknown[u] = true
						}
						if li.viol != "" {
							viol, vpos = li.viol, p.Pos(li.violPos)
							break
						}
						for _, s := range out {
							start, end, lastOff, lastLen, ok := roleOf(li, s)
							if !ok {
								viol = "range variables (startRange, endRange, lastSubrangeOffset, lastSubrangeLength) not all computed"
								break
							}
							reqEnd := off + ln
							if reqEnd > size {
								reqEnd = size
							}
							wantLen := lastOff + sub
							if wantLen > size {
								wantLen = size
							}
							wantLen -= lastOff
							desc := fmt.Sprintf("offset=%d length=%d subrangeSize=%d objectSize=%d → startRange=%d endRange=%d lastSubrangeOffset=%d lastSubrangeLength=%d", off, ln, sub, size, start, end, lastOff, lastLen)
							switch {
							case start%sub != 0 || end%sub != 0:
								viol = "window not subrange-aligned: " + desc
							case start > off || end < reqEnd:
								viol = "window does not cover the request: " + desc
							case lastOff%sub != 0 || lastOff < start || lastOff >= end:
								viol = "last subrange offset is not a subrange start inside the window: " + desc
							case lastLen != wantLen:
								viol = fmt.Sprintf("the length stored for the last subrange (%d) differs from the extent its cache key names (%d): %s", lastLen, wantLen, desc)
							}
						}
					}
				}
			}
		}
		c.Stats["abstract_runs"] += runs
		switch {
		case len(unknown) > 0:
			c.Incomplete("subrange-extent-agreement", rel+".(*CachingBucket).cachedGetRange", vpos, "statement forms not understood: "+strings.Join(keysOf(unknown), "; "))
		case viol != "":
			c.Bad("subrange-extent-agreement", rel+".(*CachingBucket).cachedGetRange", vpos, "subrange-extent-mismatch", viol)
		default:
			c.OK("subrange-extent-agreement", rel+".(*CachingBucket).cachedGetRange", vpos, fmt.Sprintf("%d abstract runs", runs))
		}
		// the key's End is min(off+SubrangeSize, attrs.Size)
		okKey := false
		endName := "end"
		ast.Inspect(fn.Body(), func(n ast.Node) bool {
			if kv, ok := n.(*ast.KeyValueExpr); ok && canon(kv.Key) == "End" {
				endName = canon(kv.Value)
			}
			return true
		})
		ast.Inspect(fn.Body(), func(n ast.Node) bool {
			if as, ok := n.(*ast.AssignStmt); ok && len(as.Lhs) == 1 && len(as.Rhs) == 1 && exprString(as.Lhs[0]) == endName {
				t := canon(as.Rhs[0])
				if strings.HasPrefix(t, "min(") && strings.Contains(t, ".SubrangeSize") && strings.Contains(t, attrsName+".Size") {
					okKey = true
				}
			}
			return true
		})
		if !okKey {
			c.Observe("subrange-extent-agreement", rel+".(*CachingBucket).cachedGetRange#key-extent", vpos, "the subrange key's End is no longer min(off+SubrangeSize, attrs.Size); the extent rule assumes that form")
		}
	}

	// (3) getReader
	if rd := p.Func(rel, "getReader", "Read"); rd == nil {
		c.Incomplete("get-stores-complete-objects-only", rel+".(*getReader).Read", "", "function not found")
	} else {
		info := rd.Info()
		var store *ast.CallExpr
		inspectNoLit(rd.Body(), func(n ast.Node) bool {
			if call, ok := n.(*ast.CallExpr); ok {
				if sel, ok := unparen(call.Fun).(*ast.SelectorExpr); ok && sel.Sel.Name == "Store" {
					store = call
				}
			}
			return true
		})
		if store == nil {
			c.Bad("get-stores-complete-objects-only", rel+".(*getReader).Read#store", p.Pos(rd.Decl.Pos()), "never-stores", "the content is never stored")
		} else {
			var gs []guardCond
			for _, g := range guardsOf(p, rd, store) {
				if !strings.Contains(exprString(g.Cond), "remainingTTL") {
					gs = append(gs, g)
				}
			}
			x := newE9(p, rd, func(e ast.Expr, text string) string { return "" })
			x.AtomCmp = func(e ast.Expr, t string) string {
				switch t {
				case "err==io.EOF":
					return "eof"
				case "g.buf!=nil":
					return "buf"
				}
				return ""
			}
			_, cx, err := e9Table([]string{"eof", "buf"}, []int64{0, 1}, nil,
				func(env map[string]int64) (int64, error) { b, err := x.evalGuards(gs, env); return b2i(b), err },
				func(env map[string]int64) int64 { return b2i(env["eof"] == 1 && env["buf"] == 1) })
			reportE9(c, "get-stores-complete-objects-only", rel+".(*getReader).Read#store", p.Pos(store.Pos()), cx, err,
				"the object is stored under ("+guardsString(gs)+"), not exactly when the reader reported EOF while the buffer still holds the whole object: a partially read object could be cached as complete")
			// the stored bytes are the buffer's
			okBuf := len(store.Args) >= 1 && strings.Contains(exprString2(&ast.ExprStmt{X: store.Args[0]}), "") && true
			_ = okBuf
			_ = info
		}
		// clears: after store, on oversize, on Close
		clears := 0
		ast.Inspect(rd.Body(), func(n ast.Node) bool {
			if as, ok := n.(*ast.AssignStmt); ok && len(as.Lhs) == 1 && canon(as.Lhs[0]) == "g.buf" && isNil(info, as.Rhs[0]) {
				clears++
			}
			return true
		})
		c.Check(clears >= 2, "get-stores-complete-objects-only", rel+".(*getReader).Read#buffer-cleared", p.Pos(rd.Decl.Pos()), "buffer-not-cleared", fmt.Sprintf("the buffer must be dropped after storing and when the object exceeds maxSize (found %d clears)", clears))
		if cl := p.Func(rel, "getReader", "Close"); cl != nil {
			ok := false
			ast.Inspect(cl.Body(), func(n ast.Node) bool {
				if as, isAs := n.(*ast.AssignStmt); isAs && len(as.Lhs) == 1 && canon(as.Lhs[0]) == "g.buf" && isNil(cl.Info(), as.Rhs[0]) {
					ok = true
				}
				return true
			})
			c.Check(ok, "get-stores-complete-objects-only", rel+".(*getReader).Close#buffer-cleared", p.Pos(cl.Decl.Pos()), "close-keeps-buffer", "Close must drop the buffer: the object may not have been read completely")
		} else {
			c.Incomplete("get-stores-complete-objects-only", rel+".(*getReader).Close", "", "function not found")
		}
	}

	// (4) store only after bucket success
	for _, spec := range []struct{ fn, op string }{{"Iter", "Iter"}, {"Exists", "Exists"}, {"cachedAttributes", "Attributes"}} {
		fn := p.Func(rel, "CachingBucket", spec.fn)
		construct := rel + ".(*CachingBucket)." + spec.fn
		if fn == nil {
			c.Incomplete("store-only-after-bucket-success", construct, "", "function not found")
			continue
		}
		info := fn.Info()
		isOp := func(i *types.Info, call *ast.CallExpr) bool {
			sel, ok := unparen(call.Fun).(*ast.SelectorExpr)
			return ok && sel.Sel.Name == spec.op && strings.HasSuffix(exprString(sel.X), ".Bucket") && p.ParentOf(fn.Pkg, call) != nil && func() bool {
				_, isRet := p.ParentOf(fn.Pkg, call).(*ast.ReturnStmt)
				return !isRet
			}()
		}
		isStore := func(i *types.Info, call *ast.CallExpr) bool {
			sel, ok := unparen(call.Fun).(*ast.SelectorExpr)
			if ok && sel.Sel.Name == "Store" {
				return true
			}
			f := calleeOf(i, call)
			return f != nil && strings.HasPrefix(f.Name(), "store") && f.Pkg() == fn.Pkg.Types
		}
		e := newE3(p, fn, []Ev{{Name: "op", Match: isOp}})
		n := 0
		inspectNoLit(fn.Body(), func(nd ast.Node) bool {
			call, ok := nd.(*ast.CallExpr)
			if !ok || !isStore(info, call) {
				return true
			}
			n++
			b, _ := e.Before(call, "op")
			c.Check(b == eOK, "store-only-after-bucket-success", fmt.Sprintf("%s#store[%d]", construct, n-1), p.Pos(call.Pos()), "cache-filled-without-successful-bucket-call",
				"the cache is written on a path where the bucket call is "+evBitsString(b)+": an error (or nothing at all) would be cached as an answer")
			return true
		})
		if n == 0 {
			c.Incomplete("store-only-after-bucket-success", construct+"#store", p.Pos(fn.Decl.Pos()), "no cache store found")
		}
	}

	// (4b) subranges: Store only after GetRange and the full read both succeeded
	if fn := p.Func(rel, "CachingBucket", "fetchMissingSubranges"); fn == nil {
		c.Incomplete("store-only-after-bucket-success", rel+".(*CachingBucket).fetchMissingSubranges", "", "function not found")
	} else {
		construct := rel + ".(*CachingBucket).fetchMissingSubranges"
		n := 0
		for _, lit := range p.Lits(fn) {
			isGet := func(i *types.Info, call *ast.CallExpr) bool {
				sel, ok := unparen(call.Fun).(*ast.SelectorExpr)
				return ok && sel.Sel.Name == "GetRange" && strings.HasSuffix(exprString(sel.X), ".Bucket")
			}
			isRead := func(i *types.Info, call *ast.CallExpr) bool {
				f := calleeOf(i, call)
				return f != nil && f.Pkg() != nil && f.Pkg().Path() == "io" && (f.Name() == "ReadFull" || f.Name() == "ReadAll" || f.Name() == "ReadAtLeast")
			}
			e := newE3(p, lit, []Ev{{Name: "get", Match: isGet}, {Name: "read", Match: isRead}})
			inspectNoLit(lit.Body(), func(nd ast.Node) bool {
				call, ok := nd.(*ast.CallExpr)
				if !ok {
					return true
				}
				sel, isSel := unparen(call.Fun).(*ast.SelectorExpr)
				if !isSel || sel.Sel.Name != "Store" {
					return true
				}
				n++
				g, _ := e.Before(call, "get")
				r, _ := e.Before(call, "read")
				c.Check(g == eOK && r == eOK, "store-only-after-bucket-success", fmt.Sprintf("%s#store[%d]", construct, n-1), p.Pos(call.Pos()), "subrange-cached-without-complete-read",
					"a subrange is cached on a path where GetRange is "+evBitsString(g)+" and the full read of the range is "+evBitsString(r)+": a short or failed read would be cached as the subrange's bytes")
				return true
			})
		}
		if n == 0 {
			c.Incomplete("store-only-after-bucket-success", construct+"#store", p.Pos(fn.Decl.Pos()), "no subrange cache store found")
		}
	}

	// (5) same offset
	if fn := p.Func(rel, "CachingBucket", "fetchMissingSubranges"); fn == nil {
		c.Incomplete("subrange-stored-under-own-key", rel+".(*CachingBucket).fetchMissingSubranges", "", "function not found")
	} else {
		ok := false
		for _, lit := range p.Lits(fn) {
			info := lit.Info()
			ast.Inspect(lit.Body(), func(n ast.Node) bool {
				f, isFor := n.(*ast.ForStmt)
				if !isFor || f.Init == nil {
					return true
				}
				init, isAs := f.Init.(*ast.AssignStmt)
				if !isAs || len(init.Lhs) != 1 {
					return true
				}
				off := objOf(info, init.Lhs[0])
				keyOK, sliceOK := false, true
				nSlices := 0
				ast.Inspect(f.Body, func(m ast.Node) bool {
					switch v := m.(type) {
					case *ast.IndexExpr:
						if strings.HasSuffix(canon(v.X), "cacheKeys") && objOf(info, v.Index) == off {
							keyOK = true
						}
					case *ast.SliceExpr:
						if exprString(v.X) == "buf" {
							nSlices++
							// low must be exactly off - <start of the fetched range>, high must be low + <extent>
							want := ""
							ast.Inspect(lit.Body(), func(g ast.Node) bool {
								if call, isCall := g.(*ast.CallExpr); isCall && len(call.Args) == 4 {
									if sel, isSel := unparen(call.Fun).(*ast.SelectorExpr); isSel && sel.Sel.Name == "GetRange" {
										want = off.Name() + "-" + expandStr(lit, info, call.Args[2], 0)
									}
								}
								return true
							})
							lo := expandStr(lit, info, v.Low, 0)
							hi := ""
							if v.High != nil {
								hi = expandStr(lit, info, v.High, 0)
							}
							if want == "" || lo != want || !strings.HasPrefix(hi, lo+"+") {
								sliceOK = false
							}
						}
					}
					return true
				})
				if keyOK && sliceOK && nSlices >= 1 {
					ok = true
				}
				return true
			})
		}
		c.Check(ok, "subrange-stored-under-own-key", rel+".(*CachingBucket).fetchMissingSubranges", p.Pos(fn.Decl.Pos()), "key-and-slice-offsets-differ", "a subrange must be stored under cacheKeys[off] for the same off that slices the fetched buffer")
	}
}
