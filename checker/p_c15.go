package main

import (
	"fmt"
	"go/ast"
	"go/token"
	"go/types"
	"strings"
)

func init() {
	register(&Property{
		ID:    "C15",
		Title: "Store gateway picks blocks that cover the query at allowed resolutions",
		Explain: "Structural necessary conditions of bucketBlockSet.getFor only. (1) The block loop visits every block of the chosen resolution (it ranges over s.blocks[i] itself, not a searched sub-slice: MaxTime is not monotonic for overlapping blocks) and the blocks are kept sorted by (MinTime, MaxTime) in add (E9 truth table of the comparator). " +
			"(2) A block is skipped exactly when it does not overlap the query — block half-open, query closed — (E9: disjunction of the skip conditions ⇔ ¬(MinTime <= maxt ∧ mint < MaxTime)), and the condition that ends the scan is monotone in MinTime, so it also holds for every later block. " +
			"(3) A visited block is dropped only by the block matchers. " +
			"(4) Resolution: the scan starts at the first resolution not above the requested maximum, and every recursive call passes the next finer resolution, guarded by its existence. " +
			"(5) Gap filling: the part of the range before a block is requested as [start, MinTime−1], the tail as [start, maxt], start begins at mint, and the gap cursor never moves backwards (start = max(start, MaxTime)) — with overlapping blocks a cursor that jumps back makes two gap requests overlap and the same lower-resolution block is selected twice.",
		Assume: []string{"coverage of every instant and absence of duplicates for arbitrary layouts are not decided beyond these conditions"},
		Run:    runC15,
	})
}

func runC15(c *Ctx) {
	c.Rule("all-blocks-of-resolution-visited", "range over s.blocks[i]; blocks sorted by (MinTime, MaxTime)", 2)
	c.Rule("skip-iff-no-overlap", "skipped ⇔ no overlap; scan end monotone", 2)
	c.Rule("dropped-only-by-matchers", "a visited block is kept unless the block matchers reject it", 1)
	c.Rule("resolution-steps", "first allowed resolution; recursion to the next finer one", 2)
	c.Rule("gap-requests", "front gap, tail gap, cursor start and monotonicity", 4)
	p := c.Load("pkg/store")
	if p == nil {
		return
	}
	const rel = "pkg/store"
	fn := p.Func(rel, "bucketBlockSet", "getFor")
	if fn == nil {
		c.Incomplete("all-blocks-of-resolution-visited", rel+".(*bucketBlockSet).getFor", "", "function not found")
		return
	}
	info := fn.Info()
	construct := rel + ".(*bucketBlockSet).getFor"
	var loop *ast.RangeStmt
	var resLoop *ast.ForStmt
	for _, st := range fn.Decl.Body.List {
		switch v := st.(type) {
		case *ast.RangeStmt:
			loop = v
		case *ast.ForStmt:
			resLoop = v
		}
	}
	if loop == nil || loop.Value == nil {
		c.Incomplete("all-blocks-of-resolution-visited", construct, p.Pos(fn.Decl.Pos()), "block loop not found")
		return
	}
	bv := canon(loop.Value)
	// local names are placeholders (§…): a rename does not change the verdict
	bind := shapeBind{"§b": bv}
	// parameters by position: mint, maxt, max resolution, block matchers
	var params []string
	for _, f := range fn.Decl.Type.Params.List {
		for _, nm := range f.Names {
			params = append(params, nm.Name)
		}
	}
	if len(params) != 4 {
		c.Incomplete("all-blocks-of-resolution-visited", construct, p.Pos(fn.Decl.Pos()), "unexpected signature")
		return
	}
	pMint, pMaxt, pRes, pMatchers := params[0], params[1], params[2], params[3]
	bind["§mint"], bind["§maxt"], bind["§maxres"], bind["§matchers"] = pMint, pMaxt, pRes, pMatchers
	// the gap cursor: the local defined as `x := mint`
	startName := ""
	for _, st := range fn.Decl.Body.List {
		if as, ok := st.(*ast.AssignStmt); ok && len(as.Lhs) == 1 && len(as.Rhs) == 1 && as.Tok == token.DEFINE && canon(as.Rhs[0]) == pMint {
			startName = canon(as.Lhs[0])
		}
	}
	bind["§start"] = startName
	// (1)
	c.Check(matchShape("§s.blocks[§i]", canon(loop.X), bind), "all-blocks-of-resolution-visited", construct+"#loop", p.Pos(loop.Pos()), "partial-scan",
		"the scan ranges over "+canon(loop.X)+" instead of all blocks of the resolution (s.blocks[i]): with overlapping blocks MaxTime is not sorted, so a block that still overlaps the range can sit before any searched position")
	if add := p.Func(rel, "bucketBlockSet", "add"); add == nil {
		c.Incomplete("all-blocks-of-resolution-visited", rel+".(*bucketBlockSet).add", "", "function not found")
	} else {
		var less *Fn
		for _, l := range p.Lits(add) {
			less = l
		}
		if less == nil || len(less.Lit.Type.Params.List) == 0 {
			c.Incomplete("all-blocks-of-resolution-visited", rel+".(*bucketBlockSet).add#less", p.Pos(add.Decl.Pos()), "sort comparator not found")
		} else {
			var ns []string
			for _, f := range less.Lit.Type.Params.List {
				for _, nm := range f.Names {
					ns = append(ns, nm.Name)
				}
			}
			x := newE9(p, less, func(e ast.Expr, text string) string {
				t := strings.ReplaceAll(text, " ", "")
				if len(ns) != 2 {
					return ""
				}
				switch {
				case strings.HasSuffix(t, "["+ns[0]+"].meta.MinTime"):
					return "jmin"
				case strings.HasSuffix(t, "["+ns[0]+"].meta.MaxTime"):
					return "jmax"
				case strings.HasSuffix(t, "["+ns[1]+"].meta.MinTime"):
					return "kmin"
				case strings.HasSuffix(t, "["+ns[1]+"].meta.MaxTime"):
					return "kmax"
				}
				return ""
			})
			n, cx, err := e9Table([]string{"jmin", "jmax", "kmin", "kmax"}, intRange(0, 2), nil,
				func(env map[string]int64) (int64, error) { v, err := x.evalBody(less.Lit.Body.List, env); return b2i(v.b), err },
				func(env map[string]int64) int64 {
					return b2i(env["jmin"] < env["kmin"] || (env["jmin"] == env["kmin"] && env["jmax"] < env["kmax"]))
				})
			c.Stats["assignments_evaluated"] += n
			reportE9(c, "all-blocks-of-resolution-visited", rel+".(*bucketBlockSet).add#less", p.Pos(less.Lit.Pos()), cx, err, "blocks are not kept sorted by (MinTime, MaxTime): the scan's early end relies on ascending MinTime")
		}
		// the sort runs on every path that stored a block (must-pass-through): a shortcut that skips it
		// for blocks "that go last anyway" is wrong for overlapping blocks, whichever bound it compares
		info := add.Info()
		e := newE3(p, add, []Ev{
			{Name: "store", MatchNode: func(i *types.Info, n ast.Node) bool {
				as, ok := n.(*ast.AssignStmt)
				if !ok {
					return false
				}
				for _, r := range as.Rhs {
					if call, ok := unparen(r).(*ast.CallExpr); ok && len(call.Args) >= 2 {
						if id, ok := call.Fun.(*ast.Ident); ok && id.Name == "append" && isNamedPtr(i.TypeOf(call.Args[len(call.Args)-1]), "pkg/store", "bucketBlock") {
							return true
						}
					}
				}
				return false
			}},
			{Name: "sort", Match: func(i *types.Info, call *ast.CallExpr) bool {
				f := calleeOf(i, call)
				return f != nil && f.Pkg() != nil && (f.Pkg().Path() == "sort" || f.Pkg().Path() == "slices") && strings.HasPrefix(f.Name(), "S")
			}},
		})
		stored, bad, where := false, "", p.Pos(add.Decl.Pos())
		for _, ex := range e.Exits() {
			if ex.Panic || ex.Bits["store"]&eOK == 0 {
				continue
			}
			stored = true
			if ex.Bits["sort"]&eNo != 0 {
				// a list of at most one block is sorted as it is
				trivial := false
				if ex.Ret != nil {
					for _, g := range guardsOf(p, add, ex.Ret) {
						t := canon(g.Cond)
						if g.Pol && strings.HasPrefix(t, "len(") && (strings.HasSuffix(t, ")==1") || strings.HasSuffix(t, ")<=1") || strings.HasSuffix(t, ")<2")) {
							trivial = true
						}
					}
				}
				if !trivial {
					bad, where = "a block is added and the function returns without sorting on some path "+evBitsString(ex.Bits["sort"]), ex.Pos
				}
			}
		}
		_ = info
		switch {
		case !stored:
			c.Incomplete("all-blocks-of-resolution-visited", rel+".(*bucketBlockSet).add#sorted-after-every-add", p.Pos(add.Decl.Pos()), "the append of the new block was not found")
		default:
			c.Check(bad == "", "all-blocks-of-resolution-visited", rel+".(*bucketBlockSet).add#sorted-after-every-add", where, "add-without-sort",
				bad+": getFor ends its scan at the first block that starts after the range, which is only sound while blocks are in (MinTime, MaxTime) order")
		}
	}

	// (2)
	atoms := func(e ast.Expr, text string) string {
		t := strings.ReplaceAll(text, " ", "")
		switch {
		case t == bv+".meta.MinTime":
			return "bmin"
		case t == bv+".meta.MaxTime":
			return "bmax"
		case t == pMint:
			return "mint"
		case t == pMaxt:
			return "maxt"
		}
		return ""
	}
	var skips []ast.Expr
	var brk ast.Expr
	for _, st := range loop.Body.List {
		is, ok := st.(*ast.IfStmt)
		if !ok || is.Else != nil || len(is.Body.List) != 1 {
			continue
		}
		br, ok := is.Body.List[0].(*ast.BranchStmt)
		if !ok {
			continue
		}
		switch br.Tok {
		case token.CONTINUE:
			skips = append(skips, is.Cond)
		case token.BREAK:
			skips = append(skips, is.Cond)
			brk = is.Cond
		}
	}
	x := newE9(p, fn, atoms)
	if len(skips) == 0 {
		c.Bad("skip-iff-no-overlap", construct+"#skip", p.Pos(loop.Pos()), "no-skip", "blocks outside the query range are not skipped")
	} else {
		n, cx, err := e9Table([]string{"mint", "maxt", "bmin", "bmax"}, intRange(0, 3),
			func(env map[string]int64) bool { return env["bmin"] < env["bmax"] && env["mint"] <= env["maxt"] },
			func(env map[string]int64) (int64, error) {
				for _, s := range skips {
					v, err := x.eval(s, env)
					if err != nil {
						return 0, err
					}
					if v.b {
						return 1, nil
					}
				}
				return 0, nil
			},
			func(env map[string]int64) int64 { return b2i(!(env["bmin"] <= env["maxt"] && env["mint"] < env["bmax"])) })
		c.Stats["assignments_evaluated"] += n
		reportE9(c, "skip-iff-no-overlap", construct+"#skip", p.Pos(loop.Pos()), cx, err, "a block is skipped although it overlaps the query range (block half-open, query closed), or visited although it does not")
	}
	if brk == nil {
		c.OK("skip-iff-no-overlap", construct+"#scan-end", p.Pos(loop.Pos()), "no early end of the scan")
	} else {
		cx := ""
		var everr error
		cnt := 0
		for mint := int64(0); mint <= 2 && cx == ""; mint++ {
			for maxt := mint; maxt <= 3 && cx == ""; maxt++ {
				for b1 := int64(0); b1 <= 3 && cx == ""; b1++ {
					for b2 := b1; b2 <= 4 && cx == ""; b2++ {
						for bmax := int64(1); bmax <= 5; bmax++ {
							v1, e1 := x.eval(brk, map[string]int64{"mint": mint, "maxt": maxt, "bmin": b1, "bmax": bmax})
							v2, e2 := x.eval(brk, map[string]int64{"mint": mint, "maxt": maxt, "bmin": b2, "bmax": bmax + 1})
							cnt++
							if e1 != nil || e2 != nil {
								everr = e1
								if everr == nil {
									everr = e2
								}
								cx = "x"
								break
							}
							if v1.b && !v2.b {
								cx = fmt.Sprintf("the scan ends at a block with MinTime=%d but a later block (MinTime=%d) does not satisfy the condition (mint=%d maxt=%d)", b1, b2, mint, maxt)
								break
							}
						}
					}
				}
			}
		}
		c.Stats["assignments_evaluated"] += cnt
		if everr != nil {
			cx = ""
		}
		reportE9(c, "skip-iff-no-overlap", construct+"#scan-end", p.Pos(brk.Pos()), cx, everr, "the condition that ends the scan is not monotone in MinTime")
	}

	// (3)
	var keep *ast.AssignStmt
	ast.Inspect(loop.Body, func(nd ast.Node) bool {
		if as, ok := nd.(*ast.AssignStmt); ok && len(as.Rhs) == 1 {
			if call, ok := unparen(as.Rhs[0]).(*ast.CallExpr); ok && len(call.Args) == 2 {
				if id, ok := call.Fun.(*ast.Ident); ok && id.Name == "append" && canon(call.Args[1]) == bv {
					keep = as
				}
			}
		}
		return true
	})
	if keep == nil {
		c.Bad("dropped-only-by-matchers", construct+"#keep", p.Pos(loop.Pos()), "block-never-kept", "visited blocks are never added to the result")
	} else {
		bad := ""
		for _, g := range guardsOf(p, fn, keep) {
			if g.Cond.Pos() < loop.Body.Pos() {
				continue
			}
			t := canon(g.Cond)
			isSkip := false
			for _, s := range skips {
				if s == g.Cond {
					isSkip = true
				}
			}
			if isSkip {
				continue
			}
			if !mentions(t, pMatchers) && !strings.Contains(t, "matchRelabelLabels") {
				bad = "a visited block is kept only under `" + t + "`"
			}
		}
		c.Check(bad == "", "dropped-only-by-matchers", construct+"#keep", p.Pos(keep.Pos()), "block-dropped", bad)
	}

	// (4)
	okRes := resLoop != nil && resLoop.Cond != nil && len(resLoop.Body.List) == 0 &&
		matchShape("§i<len(§s.resolutions)&&§s.resolutions[§i]>§maxres", canon(resLoop.Cond), bind)
	c.Check(okRes, "resolution-steps", construct+"#first-allowed", p.Pos(fn.Decl.Pos()), "resolution-choice",
		"the scan must start at the first resolution that is not above the requested maximum (resolutions are ordered coarse to fine)")
	var recs []*ast.CallExpr
	ast.Inspect(fn.Body(), func(nd ast.Node) bool {
		if call, ok := nd.(*ast.CallExpr); ok && len(call.Args) == 4 {
			if f := calleeOf(info, call); f != nil && f.Name() == "getFor" {
				recs = append(recs, call)
			}
		}
		return true
	})
	badRec := ""
	for _, call := range recs {
		if !matchShape("§s.resolutions[§i+1]", canon(call.Args[2]), bind) {
			badRec = "a gap is filled at " + canon(call.Args[2]) + " instead of the next finer resolution"
		}
		if canon(call.Args[3]) != pMatchers {
			badRec = "gap filling drops the block matchers"
		}
		// the conditions of the if statements around the call (up to the block loop), split into conjuncts:
		// one tests that a finer resolution exists; any other may only exclude an empty gap, i.e. it must
		// hold whenever the requested interval [arg0, arg1] is non-empty
		g := false
		var conj []ast.Expr
		var child ast.Node = call
		for par := p.ParentOf(fn.Pkg, call); par != nil && par != ast.Node(loop) && par != fn.Node(); par = p.ParentOf(fn.Pkg, par) {
			if is, ok := par.(*ast.IfStmt); ok {
				if child == ast.Node(is.Body) {
					conj = append(conj, splitAnd(is.Cond)...)
				} else if child != ast.Node(is.Init) && child != ast.Node(is.Cond) {
					badRec = "a gap-filling call sits in an else branch"
				}
			}
			child = par
		}
		for _, cj := range conj {
			if matchShape("§i+1<len(§s.resolutions)", canon(cj), bind) {
				g = true
				continue
			}
			nonEmpty := &ast.BinaryExpr{X: call.Args[0], Op: token.LEQ, Y: call.Args[1]}
			holds, ok, cex := impliedOnSmallDomain(info, []ast.Expr{nonEmpty}, cj, 0, 5)
			switch {
			case !ok:
				badRec = "the condition `" + canon(cj) + "` around a gap-filling call is not understood"
			case !holds:
				badRec = fmt.Sprintf("the gap [%s, %s] is not filled when `%s` is false, although it is non-empty then (e.g. %s): the instants of that gap that only finer blocks cover are lost",
					canon(call.Args[0]), canon(call.Args[1]), canon(cj), fmtAtomEnv(cex))
			}
		}
		if !g && badRec == "" {
			badRec = "a recursive call is not guarded by the existence of a finer resolution"
		}
	}
	if len(recs) < 2 && badRec == "" {
		badRec = fmt.Sprintf("%d gap-filling calls found, want the front gap and the tail", len(recs))
	}
	c.Check(badRec == "", "resolution-steps", construct+"#recursion", p.Pos(fn.Decl.Pos()), "recursion-shape", badRec)

	// (5)
	front, tail := false, false
	for _, call := range recs {
		a0, a1 := canon(call.Args[0]), canon(call.Args[1])
		inLoop := loop.Body.Pos() <= call.Pos() && call.End() <= loop.Body.End()
		if inLoop && startName != "" && a0 == startName && a1 == bv+".meta.MinTime-1" {
			front = true
		}
		if !inLoop && call.Pos() > loop.End() && startName != "" && a0 == startName && a1 == pMaxt {
			tail = true
		}
	}
	c.Check(front, "gap-requests", construct+"#front", p.Pos(loop.Pos()), "front-gap", "the gap before a block must be requested as [start, MinTime−1]")
	c.Check(tail, "gap-requests", construct+"#tail", p.Pos(fn.Decl.Pos()), "tail-gap", "the gap after the last block must be requested as [start, maxt]")
	initOK := false
	for _, st := range fn.Decl.Body.List {
		if as, ok := st.(*ast.AssignStmt); ok && len(as.Lhs) == 1 && startName != "" && canon(as.Lhs[0]) == startName && as.Tok == token.DEFINE && canon(as.Rhs[0]) == pMint {
			initOK = true
		}
	}
	c.Check(initOK, "gap-requests", construct+"#cursor-start", p.Pos(fn.Decl.Pos()), "cursor-start", "the gap cursor must start at mint")
	mono, nAssign, pos := true, 0, p.Pos(loop.Pos())
	ast.Inspect(loop.Body, func(nd ast.Node) bool {
		as, ok := nd.(*ast.AssignStmt)
		if !ok || len(as.Lhs) != 1 || startName == "" || canon(as.Lhs[0]) != startName {
			return true
		}
		nAssign++
		pos = p.Pos(as.Pos())
		r := canon(as.Rhs[0])
		okMax := r == "max("+startName+","+bv+".meta.MaxTime)" || r == "max("+bv+".meta.MaxTime,"+startName+")"
		okGuard := false
		if is, ok := enclosingIf(p, fn, as); ok && r == bv+".meta.MaxTime" {
			t := canon(is.Cond)
			if t == bv+".meta.MaxTime>"+startName || t == startName+"<"+bv+".meta.MaxTime" {
				okGuard = true
			}
		}
		if !okMax && !okGuard {
			mono = false
		}
		return true
	})
	c.Check(mono && nAssign > 0, "gap-requests", construct+"#cursor-monotonic", pos, "gap-cursor-moves-back",
		"the gap cursor is set to the block's MaxTime unconditionally: with overlapping blocks (a long block followed by shorter ones that end earlier) it jumps back, the following gap requests overlap and select the same lower-resolution block twice")
}
