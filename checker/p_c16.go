package main

import (
	"go/ast"
	"go/token"
	"go/types"
	"sort"
	"strings"
)

func init() {
	register(&Property{
		ID:    "C16",
		Title: "Lazy index headers stay correct under concurrent idle unloading",
		Explain: "E1 lockset dataflow over go/cfg for LazyBinaryReader.{reader,readerErr} under readerMx and ReaderPool.lazyReaders under lazyReadersMx: every read holds >=R, every write holds W (join = minimum over paths; deferred unlocks and deferred literals run as exit epilogue; load is entered with R held and every caller is checked to hold it; every function exits at its entry lock level). " +
			"Non-nil discipline: every dereference of r.reader is dominated, within the current lock epoch (no Unlock/RUnlock in between), by load() having returned nil or by a non-nil test of r.reader. " +
			"Window re-check: after load's unlock→lock upgrade window the deferred epilogue re-acquires R and re-reads r.reader, turning nil into a non-nil error. unloadIfIdleSince nils the field on every path on which the inner Close succeeded. Every method of the indexheader.Reader interface implemented by LazyBinaryReader that touches the inner reader follows the RLock/defer RUnlock/load idiom.",
		Assume: []string{"sync.RWMutex semantics; atomic usedAt needs no lock", "equality of answers with an always-loaded header is not decided"},
		Run:    runC16,
	})
}

func runC16(c *Ctx) {
	c.Rule("lockset", "guarded field read under >=R, written under W; lock balance at exits; load entered with R", 20)
	c.Rule("reader-nonnil", "r.reader dereferenced only after load()==nil or a non-nil test in the same lock epoch", 7)
	c.Rule("window-recheck", "after the unlock→lock window load re-reads r.reader under R and fails if it is nil", 1)
	c.Rule("unload-nils", "the field is nil'ed on every path on which the inner Close succeeded", 1)
	c.Rule("reader-iface-covered", "every indexheader.Reader method of LazyBinaryReader is analysed", 6)
	p := c.Load("pkg/block/indexheader")
	if p == nil {
		return
	}
	const rel = "pkg/block/indexheader"
	cfg := &locksetCfg{
		Rule: "lockset",
		Guards: []guardSpec{
			{rel, "LazyBinaryReader", "reader", "readerMx"},
			{rel, "LazyBinaryReader", "readerErr", "readerMx"},
			{rel, "ReaderPool", "lazyReaders", "lazyReadersMx"},
		},
		HeldOnEntry: map[string]map[string]int8{"(*LazyBinaryReader).load": {"readerMx": 1}},
	}
	res := &locksetResult{}
	var lazyMethods []*Fn
	for _, fn := range p.AllFuncs(true) {
		// constructors build the object before it is shared
		if fn.Decl.Recv == nil && (strings.HasPrefix(fn.Name, "New") || strings.HasPrefix(fn.Name, "new")) {
			continue
		}
		checkLockset(c, p, cfg, fn, lockState{}, res)
		if strings.HasPrefix(fn.Name, "(*LazyBinaryReader).") {
			lazyMethods = append(lazyMethods, fn)
		}
	}
	c.Stats["functions_analysed"] += res.Funcs
	c.Stats["guarded_accesses"] += res.Accesses

	// non-nil discipline for r.reader
	isReaderSel := func(info *types.Info, e ast.Expr) bool {
		sel, ok := unparen(e).(*ast.SelectorExpr)
		return ok && cfg.guardFor(info, sel) != nil && sel.Sel.Name == "reader"
	}
	for _, fn := range lazyMethods {
		info := fn.Info()
		var derefs []*ast.SelectorExpr
		var scan func(n ast.Node)
		scan = func(n ast.Node) {
			ast.Inspect(n, func(x ast.Node) bool {
				if sel, ok := x.(*ast.SelectorExpr); ok && isReaderSel(info, sel.X) {
					derefs = append(derefs, sel)
				}
				return true
			})
		}
		scan(fn.Body())
		if len(derefs) == 0 {
			continue
		}
		// flow: 0 unknown, 1 known non-nil; pending load error tracked through E3
		e := newE3(p, fn, []Ev{{Name: "load", Match: func(i *types.Info, call *ast.CallExpr) bool {
			f := calleeOf(i, call)
			return f != nil && f.Name() == "load" && strings.Contains(funcFullName(f), "LazyBinaryReader")
		}}})
		spec := FlowSpec[bool]{
			Entry: false,
			Transfer: func(n ast.Node, s bool) bool {
				if _, isDefer := n.(*ast.DeferStmt); isDefer {
					return s
				}
				inspectNoLit(n, func(x ast.Node) bool {
					switch v := x.(type) {
					case *ast.CallExpr:
						if _, op := lockOp(info, v); op == "Unlock" || op == "RUnlock" {
							s = false
						}
					case *ast.AssignStmt:
						for i, l := range v.Lhs {
							if isReaderSel(info, l) {
								s = i < len(v.Rhs) && !isNil(info, v.Rhs[i]) && len(v.Lhs) == len(v.Rhs)
							}
						}
					}
					return true
				})
				return s
			},
			Branch: func(cond ast.Expr, truth bool, s bool) bool {
				refine(cond, truth, func(atom ast.Expr, t bool) {
					if x, nonNil, ok := nilTest(info, atom); ok && isReaderSel(info, x) {
						s = nonNil == t
					}
				})
				return s
			},
			Join:  func(a, b bool) bool { return a && b },
			Equal: func(a, b bool) bool { return a == b },
		}
		r := runFlow(p, fn, spec)
		for _, d := range derefs {
			known, reached := r.Before(d)
			lb, _ := e.Before(d, "load")
			ok := !reached || known || lb == eOK
			c.Check(ok, "reader-nonnil", relPkg(fn.Pkg.PkgPath)+"."+fn.Name+"#r.reader."+d.Sel.Name, p.Pos(d.Pos()), "deref-without-load:"+d.Sel.Name,
				"r.reader."+d.Sel.Name+" is reachable without load() having returned nil or a non-nil test of r.reader in the current lock epoch (load state "+evBitsString(lb)+")")
		}
	}

	// window re-check in load
	if load := p.Func(rel, "LazyBinaryReader", "load"); load == nil {
		c.Incomplete("window-recheck", rel+".(*LazyBinaryReader).load", "", "function not found")
	} else {
		info := load.Info()
		ok := false
		recheckWhy := ""
		var windowPos token.Pos
		ast.Inspect(load.Body(), func(n ast.Node) bool {
			blk, isBlk := n.(*ast.BlockStmt)
			if !isBlk {
				return true
			}
			for i, st := range blk.List {
				es, isE := st.(*ast.ExprStmt)
				if !isE {
					continue
				}
				call, isC := es.X.(*ast.CallExpr)
				if !isC {
					continue
				}
				if _, op := lockOp(info, call); op != "RLock" || i == 0 {
					continue
				}
				prev, isP := blk.List[i-1].(*ast.ExprStmt)
				if !isP {
					continue
				}
				pc, isPC := prev.X.(*ast.CallExpr)
				if !isPC {
					continue
				}
				if _, pop := lockOp(info, pc); pop != "Unlock" {
					continue
				}
				// Unlock(); RLock()  — the window. A re-check must follow.
				windowPos = call.Pos()
				for _, after := range blk.List[i+1:] {
					ifs, isIf := after.(*ast.IfStmt)
					if !isIf {
						continue
					}
					// the guard must hold whenever (result error is nil && r.reader is nil), whatever the
					// value of any other quantity it mentions: (ret == nil && reader == nil) => guard
					atomNames := map[string]bool{"ret": true, "reader": true}
					x := newE9(p, load, func(e ast.Expr, text string) string {
						e = unparen(e)
						if isReaderSel(info, e) {
							return "reader"
						}
						if isNil(info, e) {
							return ""
						}
						switch v := e.(type) {
						case *ast.Ident:
							if o := objOf(info, v); o != nil {
								if types.TypeString(o.Type(), nil) == "error" {
									return "ret"
								}
								if _, isVar := o.(*types.Var); isVar {
									atomNames["free:"+v.Name] = true
									return "free:" + v.Name
								}
							}
						case *ast.SelectorExpr:
							atomNames["free:"+text] = true
							return "free:" + text
						}
						return ""
					})
					// discover free atoms with a dry run
					dry := map[string]int64{"ret": 0, "reader": 0}
					for i := 0; i < 4; i++ {
						if _, err := x.eval(ifs.Cond, dry); err == nil {
							break
						}
						for a := range atomNames {
							if _, has := dry[a]; !has {
								dry[a] = 0
							}
						}
					}
					var atoms []string
					for a := range atomNames {
						atoms = append(atoms, a)
					}
					sort.Strings(atoms)
					_, cx, err := e9Table(atoms, []int64{0, 1}, func(env map[string]int64) bool { return env["ret"] == 0 && env["reader"] == 0 },
						func(env map[string]int64) (int64, error) { v, err := x.eval(ifs.Cond, env); return b2i(v.b), err },
						func(env map[string]int64) int64 { return 1 })
					if err != nil || cx != "" {
						recheckWhy = "the re-check `" + exprString(ifs.Cond) + "` does not cover every nil-result path: " + cx
						if err != nil {
							recheckWhy = "re-check condition not understood: " + err.Error()
						}
						continue
					}
					// the body must make the result a non-nil error
					ast.Inspect(ifs.Body, func(m ast.Node) bool {
						switch v := m.(type) {
						case *ast.AssignStmt:
							for j, l := range v.Lhs {
								if o := objOf(info, l); o != nil && types.TypeString(o.Type(), nil) == "error" && j < len(v.Rhs) && !isNil(info, v.Rhs[j]) {
									ok = true
								}
							}
						case *ast.ReturnStmt:
							if len(v.Results) > 0 && !isNil(info, v.Results[len(v.Results)-1]) {
								ok = true
							}
						}
						return true
					})
				}
			}
			return true
		})
		if !windowPos.IsValid() {
			c.Observe("window-recheck", rel+".(*LazyBinaryReader).load", p.Pos(load.Decl.Pos()), "no Unlock();RLock() window found (lock upgrade removed?) — lockset rule still applies")
			c.OK("window-recheck", rel+".(*LazyBinaryReader).load", p.Pos(load.Decl.Pos()), "no window")
		} else {
			c.Check(ok, "window-recheck", rel+".(*LazyBinaryReader).load", p.Pos(windowPos), "no-recheck-after-window",
				"after re-acquiring the read lock load does not re-read r.reader and fail when it was unloaded in the window. "+recheckWhy)
		}
	}

	// unload nils the field whenever Close succeeded
	if un := p.Func(rel, "LazyBinaryReader", "unloadIfIdleSince"); un == nil {
		c.Incomplete("unload-nils", rel+".(*LazyBinaryReader).unloadIfIdleSince", "", "function not found")
	} else {
		info := un.Info()
		e := newE3(p, un, []Ev{
			{Name: "close", Match: func(i *types.Info, call *ast.CallExpr) bool {
				sel, ok := unparen(call.Fun).(*ast.SelectorExpr)
				return ok && sel.Sel.Name == "Close" && isReaderSel(i, sel.X)
			}},
			{Name: "nil", MatchNode: func(i *types.Info, n ast.Node) bool {
				as, ok := n.(*ast.AssignStmt)
				if !ok {
					return false
				}
				for j, l := range as.Lhs {
					if isReaderSel(i, l) && j < len(as.Rhs) && isNil(i, as.Rhs[j]) {
						return true
					}
				}
				return false
			}},
		})
		_ = info
		good := true
		where := p.Pos(un.Decl.Pos())
		nclose := len(e.Calls("close"))
		for _, ex := range e.Exits() {
			if ex.Panic {
				continue
			}
			cb := ex.Bits["close"]
			if cb&(eOK|ePend|eUnk) != 0 && ex.Bits["nil"] != eOK {
				good, where = false, ex.Pos
			}
		}
		if nclose == 0 {
			c.Incomplete("unload-nils", rel+".(*LazyBinaryReader).unloadIfIdleSince", where, "no Close of the inner reader found")
		} else {
			c.Check(good, "unload-nils", rel+".(*LazyBinaryReader).unloadIfIdleSince", where, "closed-reader-kept",
				"an exit is reachable on which the inner reader was closed (or its error not tested) but r.reader is not set to nil: later calls would use a closed reader")
		}
	}

	// interface coverage: every method of the Reader interface has a LazyBinaryReader method that was analysed above
	var iface *types.Interface
	if o := p.Pkg(rel).Types.Scope().Lookup("Reader"); o != nil {
		iface, _ = o.Type().Underlying().(*types.Interface)
	}
	if iface == nil {
		c.Incomplete("reader-iface-covered", rel+".Reader", "", "interface not found")
		return
	}
	for i := 0; i < iface.NumMethods(); i++ {
		m := iface.Method(i)
		fn := p.Func(rel, "LazyBinaryReader", m.Name())
		if fn == nil {
			c.Bad("reader-iface-covered", rel+".(*LazyBinaryReader)."+m.Name(), "", "method-missing", "interface method has no LazyBinaryReader implementation")
			continue
		}
		if m.Name() == "Close" {
			c.OK("reader-iface-covered", rel+".(*LazyBinaryReader)."+m.Name(), p.Pos(fn.Decl.Pos()), "delegates to unloadIfIdleSince")
			continue
		}
		// must call load() under RLock and delegate to r.reader
		info := fn.Info()
		hasLoad, hasDeleg := false, false
		ast.Inspect(fn.Body(), func(n ast.Node) bool {
			if call, ok := n.(*ast.CallExpr); ok {
				if f := calleeOf(info, call); f != nil && f.Name() == "load" {
					hasLoad = true
				}
				if sel, ok := unparen(call.Fun).(*ast.SelectorExpr); ok && isReaderSel(info, sel.X) && sel.Sel.Name == m.Name() {
					hasDeleg = true
				}
			}
			return true
		})
		c.Check(hasLoad && hasDeleg, "reader-iface-covered", rel+".(*LazyBinaryReader)."+m.Name(), p.Pos(fn.Decl.Pos()), "idiom-missing",
			"Reader method does not follow the load-then-delegate idiom (load called: "+boolStr(hasLoad)+", delegates to r.reader."+m.Name()+": "+boolStr(hasDeleg)+")")
	}
}

func boolStr(b bool) string {
	if b {
		return "yes"
	}
	return "no"
}
