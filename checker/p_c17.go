package main

import (
	"fmt"
	"go/ast"
	"go/token"
	"go/types"
	"sort"
	"strings"
)

func init() {
	register(&Property{
		ID:    "C17",
		Title: "Pooled buffers are released exactly once and pool budgets hold",
		Explain: "(1) Double release: the checker derives which functions construct a 'closing' loser tree (losertree.New with a close callback that calls Close on its sequences) and, per function, by an E3 typestate whether a response set can be closed twice on one path (a deferred/explicit Close of a value that is also handed to a closing tree). If so, every pooled resource released by the transitive Close implementations of respSet (sync.Pool / pool.* Put of a receiver field) must be released idempotently: the Put is guarded by a non-nil test of a receiver field that is cleared inside the guard. " +
			"(2) Single owner: each result of ShardInfo.Matcher(pool) reaches at most one Close owner on every path of the creating function (direct/deferred Close, or hand-over to a constructor that stores it in a struct whose Close closes that field); paths with no owner are observations (leak to GC, not a double release). " +
			"(3) Budget: in BucketedPool.Get the amount added to usedTotal is the amount tested against maxTotal on that path (same variable / structurally equal expression, no reassignment in between); Put subtracts cap(*b); usedTotal is accessed only under mtx (E1 lockset). " +
			"(4) Request-scoped release methods (writecapnp.Request.Close) run at most once per path at each call site (E3 count).",
		Assume: []string{"sync.Pool hands each pooled object to one Get at a time provided it was Put once", "no aliasing of pooled buffers through unsafe"},
		Run:    runC17,
	})
}

// putOfReceiverField: call is X.Put(recv.F) into a pool; returns F's selector.
func putOfReceiverField(info *types.Info, call *ast.CallExpr, recv types.Object) *ast.SelectorExpr {
	sel, ok := unparen(call.Fun).(*ast.SelectorExpr)
	if !ok || sel.Sel.Name != "Put" || len(call.Args) != 1 {
		return nil
	}
	f := calleeOf(info, call)
	if f == nil {
		return nil
	}
	fn := funcFullName(f)
	if fn != "(sync.Pool).Put" && !strings.Contains(fn, "/pkg/pool.") {
		return nil
	}
	arg, ok := unparen(call.Args[0]).(*ast.SelectorExpr)
	if !ok {
		return nil
	}
	if id, ok := unparen(arg.X).(*ast.Ident); ok && objOf(info, id) == recv {
		return arg
	}
	return nil
}

func recvObj(fn *Fn) types.Object {
	if fn.Decl == nil || fn.Decl.Recv == nil || len(fn.Decl.Recv.List[0].Names) != 1 {
		return nil
	}
	return fn.Info().Defs[fn.Decl.Recv.List[0].Names[0]]
}

// findMethod finds the declaration of method name on named type n among the loaded roots.
func (p *Prog) findMethod(n *types.Named, name string) *Fn {
	if n == nil || n.Obj().Pkg() == nil {
		return nil
	}
	for _, pk := range p.Roots {
		if pk.Types != n.Obj().Pkg() {
			continue
		}
		for _, f := range pk.Syntax {
			for _, d := range f.Decls {
				fd, ok := d.(*ast.FuncDecl)
				if !ok || fd.Body == nil || fd.Name.Name != name || strings.TrimPrefix(recvTypeName(fd), "*") != n.Obj().Name() {
					continue
				}
				obj, _ := pk.TypesInfo.Defs[fd.Name].(*types.Func)
				return &Fn{Pkg: pk, Decl: fd, Obj: obj, Name: fnDisplayName(fd)}
			}
		}
	}
	return nil
}

func runC17(c *Ctx) {
	c.Rule("double-close-idempotent", "a value closed by both a closing tree and its creator requires idempotent release of pooled fields", 2)
	c.Rule("matcher-single-owner", "each ShardInfo.Matcher result has at most one Close owner per path", 4)
	c.Rule("pool-budget", "amount added to the usage counter is the amount tested against the limit; Put subtracts cap", 2)
	c.Rule("pool-lockset", "usedTotal only under mtx", 5)
	c.Rule("request-close-once", "request-scoped Close at most once per path", 1)
	c.Rule("shard-buffer-released-after-join", "a response set joins its receive goroutine before releasing the shard matcher buffer", 2)
	p := c.Load("pkg/store", "pkg/store/storepb", "pkg/losertree", "pkg/pool", "pkg/receive/writecapnp", "pkg/receive")
	if p == nil {
		return
	}

	// ---- (1) closing trees and double closers
	closingCtors := map[*types.Func]bool{}
	for _, fn := range p.AllFuncs(true) {
		info := fn.Info()
		ast.Inspect(fn.Body(), func(n ast.Node) bool {
			call, ok := n.(*ast.CallExpr)
			if !ok {
				return true
			}
			f := calleeOf(info, call)
			if f == nil || f.Pkg() == nil || f.Pkg().Path() != thanosMod+"/pkg/losertree" || f.Name() != "New" || len(call.Args) == 0 {
				return true
			}
			if lit, ok := unparen(call.Args[len(call.Args)-1]).(*ast.FuncLit); ok {
				closes := false
				ast.Inspect(lit.Body, func(m ast.Node) bool {
					if cl, ok := m.(*ast.CallExpr); ok {
						if sel, ok := unparen(cl.Fun).(*ast.SelectorExpr); ok && sel.Sel.Name == "Close" {
							closes = true
						}
					}
					return true
				})
				if closes && fn.Obj != nil {
					closingCtors[fn.Obj] = true
				}
			}
			return true
		})
	}
	if len(closingCtors) == 0 {
		c.Incomplete("double-close-idempotent", "closing-tree-constructors", "", "no constructor of a closing loser tree found")
	}
	respSetIface, _ := func() (*types.Interface, bool) {
		if o := p.Pkg("pkg/store").Types.Scope().Lookup("respSet"); o != nil {
			i, ok := o.Type().Underlying().(*types.Interface)
			return i, ok
		}
		return nil, false
	}()
	if respSetIface == nil {
		c.Incomplete("double-close-idempotent", "pkg/store.respSet", "", "interface not found")
		return
	}
	isRespSetClose := func(info *types.Info, call *ast.CallExpr) bool {
		sel, ok := unparen(call.Fun).(*ast.SelectorExpr)
		if !ok || sel.Sel.Name != "Close" {
			return false
		}
		tv, ok := info.Types[sel.X]
		if !ok {
			return false
		}
		if types.Identical(tv.Type.Underlying(), respSetIface) {
			return true
		}
		return types.Implements(tv.Type, respSetIface) && !types.IsInterface(tv.Type)
	}
	doubleClosers := []string{}
	for _, fn := range p.AllFuncs(true) {
		if fn.Pkg.PkgPath != thanosMod+"/pkg/store" {
			continue
		}
		info := fn.Info()
		hasTree := false
		ast.Inspect(fn.Body(), func(n ast.Node) bool {
			if call, ok := n.(*ast.CallExpr); ok {
				if f := calleeOf(info, call); f != nil && closingCtors[f] {
					hasTree = true
				}
			}
			return true
		})
		if !hasTree {
			continue
		}
		e := newE3(p, fn, []Ev{
			{Name: "tree", Match: func(i *types.Info, call *ast.CallExpr) bool { f := calleeOf(i, call); return f != nil && closingCtors[f] }},
			{Name: "close", Match: isRespSetClose},
			{Name: "deferclose", MatchNode: func(i *types.Info, n ast.Node) bool {
				d, ok := n.(*ast.DeferStmt)
				return ok && isRespSetClose(i, d.Call)
			}},
		})
		construct := relPkg(fn.Pkg.PkgPath) + "." + fn.Name
		dbl, where := false, ""
		for _, tc := range e.Calls("tree") {
			cb, _ := e.Before(tc, "close")
			db, _ := e.Before(tc, "deferclose")
			if cb&^eNo != 0 || db&^eNo != 0 {
				dbl, where = true, p.Pos(tc.Pos())
			}
		}
		for _, cc := range e.Calls("close") {
			tb, _ := e.Before(cc, "tree")
			if tb&^eNo != 0 {
				dbl, where = true, p.Pos(cc.Pos())
			}
		}
		if dbl {
			doubleClosers = append(doubleClosers, construct+" at "+where)
			c.Observe("double-close-idempotent", construct+"#double-closer", where, "response sets handed to a closing loser tree are also closed by this function on the same path: Close implementations must be idempotent")
		} else {
			c.OK("double-close-idempotent", construct+"#single-closer", p.Pos(fn.Decl.Pos()), "closing tree is the only closer on every path")
		}
	}
	// Close implementations of respSet and what they release
	var impls []*types.Named
	sc := p.Pkg("pkg/store").Types.Scope()
	for _, nm := range sc.Names() {
		if tn, ok := sc.Lookup(nm).(*types.TypeName); ok {
			if n, ok := tn.Type().(*types.Named); ok && !types.IsInterface(n) && types.Implements(types.NewPointer(n), respSetIface) {
				impls = append(impls, n)
			}
		}
	}
	sort.Slice(impls, func(i, j int) bool { return impls[i].Obj().Name() < impls[j].Obj().Name() })
	if len(impls) < 2 {
		c.Incomplete("double-close-idempotent", "pkg/store.respSet#implementations", "", fmt.Sprintf("expected at least lazyRespSet and eagerRespSet, found %d", len(impls)))
	}
	seenClose := map[*types.Func]bool{}
	var walkClose func(fn *Fn, chain string, depth int)
	walkClose = func(fn *Fn, chain string, depth int) {
		if fn == nil || fn.Obj == nil || seenClose[fn.Obj] || depth > 3 {
			return
		}
		seenClose[fn.Obj] = true
		info := fn.Info()
		recv := recvObj(fn)
		ast.Inspect(fn.Body(), func(n ast.Node) bool {
			call, ok := n.(*ast.CallExpr)
			if !ok {
				return true
			}
			if recv != nil {
				if fsel := putOfReceiverField(info, call, recv); fsel != nil {
					construct := relPkg(fn.Pkg.PkgPath) + "." + fn.Name + "#Put(" + exprString(fsel) + ")"
					idem := idempotentPut(p, fn, call, recv)
					switch {
					case idem:
						c.OK("double-close-idempotent", construct, p.Pos(call.Pos()), "guarded by a receiver field that is cleared in the guard")
					case len(doubleClosers) > 0:
						c.Bad("double-close-idempotent", construct, p.Pos(call.Pos()), "non-idempotent-pool-put:"+exprString(fsel),
							"reached via "+chain+": the pooled field is Put on every call, and "+strings.Join(doubleClosers, "; ")+" closes the same response set twice — the same buffer enters the pool twice")
					default:
						c.OK("double-close-idempotent", construct, p.Pos(call.Pos()), "not idempotent, but no function closes a response set twice")
					}
				}
			}
			// follow recv.field.Close()
			if sel, ok := unparen(call.Fun).(*ast.SelectorExpr); ok && sel.Sel.Name == "Close" {
				if tv, ok := info.Types[sel.X]; ok {
					if n := namedOf(tv.Type); n != nil {
						walkClose(p.findMethod(n, "Close"), chain+" → "+n.Obj().Name()+".Close", depth+1)
					}
				}
			}
			return true
		})
	}
	for _, n := range impls {
		walkClose(p.findMethod(n, "Close"), n.Obj().Name()+".Close", 0)
	}

	// ---- (2) single owner of Matcher results
	closesField := func(n *types.Named, field string) bool {
		m := p.findMethod(n, "Close")
		if m == nil {
			return false
		}
		found := false
		ast.Inspect(m.Body(), func(x ast.Node) bool {
			if call, ok := x.(*ast.CallExpr); ok {
				if sel, ok := unparen(call.Fun).(*ast.SelectorExpr); ok && sel.Sel.Name == "Close" {
					if fs, ok := unparen(sel.X).(*ast.SelectorExpr); ok && fs.Sel.Name == field {
						found = true
					}
				}
			}
			return true
		})
		return found
	}
	// takesOwnership: callee stores param i into a struct field whose owner's Close closes it, or closes it itself.
	takesOwnership := func(callee *types.Func, argIdx int) bool {
		var target *Fn
		for _, fn := range p.AllFuncs(true) {
			if fn.Obj == callee {
				target = fn
			}
		}
		if target == nil {
			return false
		}
		sig := callee.Type().(*types.Signature)
		if argIdx >= sig.Params().Len() {
			return false
		}
		param := sig.Params().At(argIdx)
		info := target.Info()
		owns := false
		ast.Inspect(target.Body(), func(x ast.Node) bool {
			switch v := x.(type) {
			case *ast.CompositeLit:
				tv, ok := info.Types[v]
				if !ok {
					return true
				}
				n := namedOf(tv.Type)
				for _, el := range v.Elts {
					if kv, ok := el.(*ast.KeyValueExpr); ok {
						if id, ok := unparen(kv.Value).(*ast.Ident); ok && objOf(info, id) == param {
							if k, ok := kv.Key.(*ast.Ident); ok && n != nil && closesField(n, k.Name) {
								owns = true
							}
						}
					}
				}
			case *ast.CallExpr:
				if sel, ok := unparen(v.Fun).(*ast.SelectorExpr); ok && sel.Sel.Name == "Close" {
					if id, ok := unparen(sel.X).(*ast.Ident); ok && objOf(info, id) == param {
						owns = true
					}
				}
			}
			return true
		})
		return owns
	}
	for _, fn := range p.AllFuncs(true) {
		if !strings.HasPrefix(fn.Pkg.PkgPath, thanosMod+"/pkg/store") {
			continue
		}
		units := append([]*Fn{fn}, p.Lits(fn)...)
		for _, u := range units {
			info := u.Info()
			// matcher variables created here
			var vars []types.Object
			inspectNoLit(u.Body(), func(n ast.Node) bool {
				as, ok := n.(*ast.AssignStmt)
				if !ok || len(as.Rhs) != 1 || len(as.Lhs) != 1 {
					return true
				}
				call, ok := unparen(as.Rhs[0]).(*ast.CallExpr)
				if !ok || !isCallTo(info, call, "(pkg/store/storepb.ShardInfo).Matcher") {
					return true
				}
				if o := objOf(info, as.Lhs[0]); o != nil {
					vars = append(vars, o)
				}
				return true
			})
			for _, v := range vars {
				maxOwners, minOwners := matcherOwners(p, u, v, takesOwnership, -1, 0)
				construct := relPkg(u.Pkg.PkgPath) + "." + u.Name + "#" + v.Name()
				if maxOwners >= 2 {
					c.Bad("matcher-single-owner", construct, p.Pos(v.Pos()), "two-close-owners", "the shard matcher obtained here reaches two Close owners on some path: its pooled buffer is released twice")
				} else {
					c.OK("matcher-single-owner", construct, p.Pos(v.Pos()), "")
					if minOwners == 0 {
						c.Observe("matcher-single-owner", construct+"#leak", p.Pos(v.Pos()), "on some path the matcher reaches no Close owner (buffer is left to the GC; not a double release)")
					}
				}
			}
		}
	}

	// ---- (3) budget accounting
	checkPoolBudget(c, p)

	// ---- (4) request close once
	for _, fn := range p.AllFuncs(true) {
		if !strings.HasPrefix(fn.Pkg.PkgPath, thanosMod+"/pkg/receive") {
			continue
		}
		info := fn.Info()
		match := func(i *types.Info, call *ast.CallExpr) bool {
			return isCallTo(i, call, "(pkg/receive/writecapnp.Request).Close")
		}
		has := false
		ast.Inspect(fn.Body(), func(n ast.Node) bool {
			if call, ok := n.(*ast.CallExpr); ok && match(info, call) {
				has = true
			}
			return true
		})
		if !has {
			continue
		}
		// count closes per path, per receiver variable; (re)definition of the variable is a new object
		recvs := map[types.Object]bool{}
		ast.Inspect(fn.Body(), func(n ast.Node) bool {
			if call, ok := n.(*ast.CallExpr); ok && match(info, call) {
				if sel, ok := unparen(call.Fun).(*ast.SelectorExpr); ok {
					if o := objOf(info, sel.X); o != nil {
						recvs[o] = true
					}
				}
			}
			return true
		})
		for o := range recvs {
			o := o
			spec := FlowSpec[int]{
				Entry: 0,
				Transfer: func(n ast.Node, s int) int {
					for _, a := range assignedObjs(info, n) {
						if a == o {
							s = 0
						}
					}
					ast.Inspect(n, func(x ast.Node) bool {
						if _, isLit := x.(*ast.FuncLit); isLit {
							return false
						}
						if call, ok := x.(*ast.CallExpr); ok && match(info, call) {
							if sel, ok := unparen(call.Fun).(*ast.SelectorExpr); ok && objOf(info, sel.X) == o {
								s++
							}
						}
						return true
					})
					if s > 2 {
						s = 2
					}
					return s
				},
				Join: func(a, b int) int {
					if a > b {
						return a
					}
					return b
				},
				Equal: func(a, b int) bool { return a == b },
			}
			r := runFlow(p, fn, spec)
			worst := 0
			for _, ex := range r.Exits() {
				st := ex.State
				if ex.Ret != nil {
					st = spec.Transfer(ex.Ret, st)
				}
				if st > worst {
					worst = st
				}
			}
			c.Check(worst <= 1, "request-close-once", relPkg(fn.Pkg.PkgPath)+"."+fn.Name+"#"+o.Name(), p.Pos(o.Pos()), "request-closed-twice",
				"a path closes the capnp request twice: its pooled symbol table is returned to the pool twice")
		}
	}

	// ---- (5) the shard matcher's pooled buffer is used by the response set's receive goroutine
	// (MatchesZLabels); every Close method that releases it first joins that goroutine — a WaitGroup
	// Wait or a receive from the done channel — on every path. Otherwise the buffer is back in the pool
	// while its previous owner still hashes into it and a concurrent request can take it.
	for _, fn := range p.AllFuncs(true) {
		if fn.Decl == nil || fn.Decl.Recv == nil || relPkg(fn.Pkg.PkgPath) != "pkg/store" {
			continue
		}
		info := fn.Info()
		isRelease := func(i *types.Info, call *ast.CallExpr) bool {
			sel, ok := unparen(call.Fun).(*ast.SelectorExpr)
			return ok && sel.Sel.Name == "Close" && isNamedPtr(i.TypeOf(sel.X), "storepb", "ShardMatcher")
		}
		has := false
		inspectNoLit(fn.Body(), func(n ast.Node) bool {
			if call, ok := n.(*ast.CallExpr); ok && isRelease(info, call) {
				has = true
			}
			return true
		})
		if !has {
			continue
		}
		// only types whose constructor starts a goroutine: those have something to join
		recvT := recvTypeName(fn.Decl)
		hasWorker := false
		for _, g := range p.AllFuncs(true) {
			if relPkg(g.Pkg.PkgPath) != "pkg/store" || g.Decl == nil {
				continue
			}
			builds := false
			ast.Inspect(g.Body(), func(n ast.Node) bool {
				switch v := n.(type) {
				case *ast.CompositeLit:
					if isNamed(g.Info().TypeOf(v), "pkg/store", strings.TrimPrefix(recvT, "*")) {
						builds = true
					}
				}
				return true
			})
			if !builds {
				continue
			}
			ast.Inspect(g.Body(), func(n ast.Node) bool {
				if _, ok := n.(*ast.GoStmt); ok {
					hasWorker = true
				}
				return true
			})
		}
		if !hasWorker {
			continue
		}
		e := newE3(p, fn, []Ev{
			{Name: "join", Match: func(i *types.Info, call *ast.CallExpr) bool {
				sel, ok := unparen(call.Fun).(*ast.SelectorExpr)
				return ok && sel.Sel.Name == "Wait" && strings.HasSuffix(types.TypeString(i.TypeOf(sel.X), nil), "sync.WaitGroup")
			}, MatchNode: func(i *types.Info, n ast.Node) bool {
				es, ok := n.(*ast.ExprStmt)
				if !ok {
					return false
				}
				u, ok := unparen(es.X).(*ast.UnaryExpr)
				return ok && u.Op == token.ARROW
			}},
			{Name: "release", Match: isRelease},
		})
		for _, rel := range e.Calls("release") {
			b, _ := e.Before(rel, "join")
			c.Check(b&eNo == 0 && b != 0, "shard-buffer-released-after-join", "pkg/store."+fn.Name, p.Pos(rel.Pos()), "buffer-released-before-join",
				"the shard matcher's buffer is returned to the pool on a path where the receive goroutine has not been joined "+evBitsString(b)+": it may still be hashing labels into that buffer while another request takes it from the pool")
		}
	}
}

// matcherOwners computes, over all paths of unit u, the maximum and minimum number of Close owners
// the matcher variable v reaches. State -1 = not created yet on this path; creation (assignment
// from ShardInfo.Matcher) resets to 0 (a new object per loop iteration). Goroutine / callback
// literals that mention v are analysed recursively from the state at their creation point.
func matcherOwners(p *Prog, u *Fn, v types.Object, takesOwnership func(*types.Func, int) bool, entry int, depth int) (int, int) {
	info := u.Info()
	var spec FlowSpec[int]
	callOwners := func(call *ast.CallExpr) int {
		cnt := 0
		if sel, ok := unparen(call.Fun).(*ast.SelectorExpr); ok && sel.Sel.Name == "Close" {
			if id, ok := unparen(sel.X).(*ast.Ident); ok && objOf(info, id) == v {
				cnt++
			}
		}
		if f := calleeOf(info, call); f != nil {
			for i, a := range call.Args {
				if id, ok := unparen(a).(*ast.Ident); ok && objOf(info, id) == v && takesOwnership(f, i) {
					cnt++
				}
			}
		}
		return cnt
	}
	spec = FlowSpec[int]{
		Entry: entry,
		Transfer: func(n ast.Node, s int) int {
			if as, ok := n.(*ast.AssignStmt); ok && len(as.Lhs) == 1 && len(as.Rhs) == 1 && objOf(info, as.Lhs[0]) == v {
				if call, ok := unparen(as.Rhs[0]).(*ast.CallExpr); ok && isCallTo(info, call, "(pkg/store/storepb.ShardInfo).Matcher") {
					return 0
				}
			}
			if s < 0 {
				return s
			}
			if d, ok := n.(*ast.DeferStmt); ok {
				s += callOwners(d.Call)
			} else {
				inspectNoLit(n, func(x ast.Node) bool {
					if call, ok := x.(*ast.CallExpr); ok {
						s += callOwners(call)
					}
					return true
				})
			}
			// literals created in this node
			if depth < 3 {
				ast.Inspect(n, func(x ast.Node) bool {
					lit, ok := x.(*ast.FuncLit)
					if !ok {
						return true
					}
					uses := false
					ast.Inspect(lit.Body, func(y ast.Node) bool {
						if id, ok := y.(*ast.Ident); ok && objOf(info, id) == v {
							uses = true
						}
						return true
					})
					if uses {
						mx, _ := matcherOwners(p, &Fn{Pkg: u.Pkg, Lit: lit, Name: u.Name + "$lit"}, v, takesOwnership, s, depth+1)
						if mx > s {
							s = mx
						}
					}
					return false
				})
			}
			if s > 2 {
				s = 2
			}
			return s
		},
		Join: func(a, b int) int {
			if a > b {
				return a
			}
			return b
		},
		Equal: func(a, b int) bool { return a == b },
	}
	r := runFlow(p, u, spec)
	maxO, minO := entry, 99
	for _, ex := range r.Exits() {
		if ex.Panic {
			continue
		}
		st := ex.State
		if ex.Ret != nil {
			st = spec.Transfer(ex.Ret, st)
		}
		if st > maxO {
			maxO = st
		}
		if st >= 0 && st < minO {
			minO = st
		}
	}
	return maxO, minO
}

// idempotentPut: the Put call lies inside `if recv.G != nil { ... }` and recv.G (or the pooled field) is
// set to nil inside that guard.
func idempotentPut(p *Prog, fn *Fn, call *ast.CallExpr, recv types.Object) bool {
	info := fn.Info()
	for par := p.ParentOf(fn.Pkg, call); par != nil && par != fn.Node(); par = p.ParentOf(fn.Pkg, par) {
		ifs, ok := par.(*ast.IfStmt)
		if !ok || !within(call, ifs.Body.Pos(), ifs.Body.End()) {
			continue
		}
		var guarded []string
		refine(ifs.Cond, true, func(atom ast.Expr, t bool) {
			if x, nonNil, ok := nilTest(info, atom); ok && nonNil == t {
				if sel, ok := unparen(x).(*ast.SelectorExpr); ok {
					if id, ok := unparen(sel.X).(*ast.Ident); ok && objOf(info, id) == recv {
						guarded = append(guarded, sel.Sel.Name)
					}
				}
			}
		})
		for _, g := range guarded {
			cleared := false
			ast.Inspect(ifs.Body, func(n ast.Node) bool {
				if as, ok := n.(*ast.AssignStmt); ok && as.Tok == token.ASSIGN {
					for i, l := range as.Lhs {
						if sel, ok := unparen(l).(*ast.SelectorExpr); ok && sel.Sel.Name == g && i < len(as.Rhs) && isNil(info, as.Rhs[i]) {
							if id, ok := unparen(sel.X).(*ast.Ident); ok && objOf(info, id) == recv {
								cleared = true
							}
						}
					}
				}
				return true
			})
			if cleared {
				return true
			}
		}
	}
	return false
}

// resolveLocal follows single-assignment locals: `used := uint64(cap(*b))` -> the defining expression.
func resolveLocal(fn *Fn, e ast.Expr) ast.Expr {
	info := fn.Info()
	for depth := 0; depth < 4; depth++ {
		id, ok := unparen(e).(*ast.Ident)
		if !ok {
			return e
		}
		o := objOf(info, id)
		if o == nil {
			return e
		}
		var def ast.Expr
		n := 0
		ast.Inspect(fn.Body(), func(x ast.Node) bool {
			if as, ok := x.(*ast.AssignStmt); ok {
				for i, l := range as.Lhs {
					if objOf(info, l) == o {
						n++
						if len(as.Lhs) == len(as.Rhs) {
							def = as.Rhs[i]
						}
					}
				}
			}
			return true
		})
		if n != 1 || def == nil {
			return e
		}
		e = def
	}
	return e
}

func checkPoolBudget(c *Ctx, p *Prog) {
	const rel = "pkg/pool"
	get := p.Func(rel, "BucketedPool", "Get")
	put := p.Func(rel, "BucketedPool", "Put")
	if get == nil || put == nil {
		c.Incomplete("pool-budget", rel+".BucketedPool", "", "Get/Put not found")
		return
	}
	isField := func(info *types.Info, e ast.Expr, name string) bool {
		sel, ok := unparen(e).(*ast.SelectorExpr)
		return ok && sel.Sel.Name == name && info.Selections[sel] != nil
	}
	// additions to usedTotal, in any method of the pool (a helper that adds without testing the
	// limit in the same critical section makes check and update non-atomic)
	type add struct {
		fn   *Fn
		stmt *ast.AssignStmt
		amt  ast.Expr
	}
	var adds []add
	for _, fn := range p.AllFuncs(true) {
		if fn.Pkg.PkgPath != thanosMod+"/"+rel || fn.Decl.Recv == nil || !strings.Contains(fn.Name, "BucketedPool") {
			continue
		}
		fi := fn.Info()
		ast.Inspect(fn.Body(), func(n ast.Node) bool {
			as, ok := n.(*ast.AssignStmt)
			if !ok || len(as.Lhs) != 1 || !isField(fi, as.Lhs[0], "usedTotal") {
				return true
			}
			switch as.Tok {
			case token.ADD_ASSIGN:
				adds = append(adds, add{fn, as, as.Rhs[0]})
			case token.ASSIGN:
				if b, ok := unparen(as.Rhs[0]).(*ast.BinaryExpr); ok && b.Op == token.ADD && isField(fi, b.X, "usedTotal") {
					adds = append(adds, add{fn, as, b.Y})
				}
			}
			return true
		})
	}
	if len(adds) == 0 {
		c.Incomplete("pool-budget", rel+".(*BucketedPool).Get", p.Pos(get.Decl.Pos()), "no increase of usedTotal found in any BucketedPool method")
	}
	perFn := map[string]int{}
	for _, a := range adds {
		get := a.fn
		info := get.Info()
		i := perFn[get.Name]
		perFn[get.Name]++
		construct := fmt.Sprintf("%s.%s#add[%d]", rel, get.Name, i)
		// nearest preceding guard in the same or an enclosing block: if maxTotal > 0 && usedTotal+E > maxTotal { return ..., err }
		var guardAmt ast.Expr
		var guardPos token.Pos
		node := ast.Node(a.stmt)
		for par := p.ParentOf(get.Pkg, node); par != nil && guardAmt == nil; par = p.ParentOf(get.Pkg, par) {
			blk, ok := par.(*ast.BlockStmt)
			if ok {
				for _, st := range blk.List {
					if st.Pos() >= a.stmt.Pos() {
						break
					}
					ifs, ok := st.(*ast.IfStmt)
					if !ok || len(ifs.Body.List) == 0 {
						continue
					}
					if _, isRet := ifs.Body.List[len(ifs.Body.List)-1].(*ast.ReturnStmt); !isRet {
						continue
					}
					var cands []ast.Expr
					var walk func(e ast.Expr)
					walk = func(e ast.Expr) {
						e = unparen(e)
						if b, ok := e.(*ast.BinaryExpr); ok {
							if b.Op == token.LAND {
								walk(b.X)
								walk(b.Y)
								return
							}
							sum, lim := b.X, b.Y
							if b.Op == token.LSS || b.Op == token.LEQ {
								sum, lim = b.Y, b.X
							} else if b.Op != token.GTR && b.Op != token.GEQ {
								return
							}
							if !isField(info, lim, "maxTotal") {
								return
							}
							if s, ok := unparen(sum).(*ast.BinaryExpr); ok && s.Op == token.ADD {
								if isField(info, s.X, "usedTotal") {
									cands = append(cands, s.Y)
								} else if isField(info, s.Y, "usedTotal") {
									cands = append(cands, s.X)
								}
							}
						}
					}
					walk(ifs.Cond)
					if len(cands) == 1 {
						guardAmt, guardPos = cands[0], ifs.Pos() // the last such guard before the add wins
					}
				}
			}
			if par == get.Node() {
				break
			}
			node = par
		}
		if guardAmt == nil {
			c.Bad("pool-budget", construct, p.Pos(a.stmt.Pos()), "add-without-limit-test", "usedTotal is increased without a test of usedTotal+amount against maxTotal in the same function: limit check and accounting are not one atomic step")
			continue
		}
		// same critical section: no unlock between the limit test and the add
		released := false
		ast.Inspect(get.Body(), func(n ast.Node) bool {
			if call, ok := n.(*ast.CallExpr); ok && call.Pos() > guardPos && call.Pos() < a.stmt.Pos() {
				if _, op := lockOp(info, call); op == "Unlock" || op == "RUnlock" {
					if _, isDefer := p.ParentOf(get.Pkg, call).(*ast.DeferStmt); !isDefer {
						released = true
					}
				}
			}
			return true
		})
		if released {
			c.Bad("pool-budget", construct, p.Pos(a.stmt.Pos()), "lock-released-between-test-and-add", "the mutex is released between the limit test and the accounting: concurrent Gets can all pass the test")
			continue
		}
		same := sameObjExpr(info, stripConv(info, guardAmt), stripConv(info, a.amt)) ||
			sameObjExpr(info, stripConv(info, resolveLocal(get, guardAmt)), stripConv(info, resolveLocal(get, a.amt)))
		c.Check(same, "pool-budget", construct, p.Pos(a.stmt.Pos()), "tested-amount-differs-from-added-amount",
			fmt.Sprintf("the limit test at %s checks usedTotal+%s but %s is added: the budget can be overshot", p.Pos(guardPos), exprString(guardAmt), exprString(a.amt)))
	}
	// Put subtracts cap(*param)
	pinfo := put.Info()
	var param types.Object
	if len(put.Decl.Type.Params.List) == 1 && len(put.Decl.Type.Params.List[0].Names) == 1 {
		param = pinfo.Defs[put.Decl.Type.Params.List[0].Names[0]]
	}
	nsub := 0
	ast.Inspect(put.Body(), func(n ast.Node) bool {
		as, ok := n.(*ast.AssignStmt)
		if !ok || as.Tok != token.SUB_ASSIGN || len(as.Lhs) != 1 || !isField(pinfo, as.Lhs[0], "usedTotal") {
			return true
		}
		nsub++
		amt := stripConv(pinfo, resolveLocal(put, stripConv(pinfo, as.Rhs[0])))
		ok2 := false
		if call, isCall := amt.(*ast.CallExpr); isCall && len(call.Args) == 1 {
			if id, isID := call.Fun.(*ast.Ident); isID && id.Name == "cap" {
				if st, isStar := unparen(call.Args[0]).(*ast.StarExpr); isStar {
					if pid, isP := unparen(st.X).(*ast.Ident); isP && objOf(pinfo, pid) == param {
						ok2 = true
					}
				}
			}
		}
		c.Check(ok2, "pool-budget", rel+".(*BucketedPool).Put#sub", p.Pos(as.Pos()), "put-subtracts-other-than-cap", "Put subtracts "+exprString(as.Rhs[0])+" which is not cap(*b), the quantity Get accounted")
		return true
	})
	if nsub == 0 {
		c.Bad("pool-budget", rel+".(*BucketedPool).Put#sub", p.Pos(put.Decl.Pos()), "put-does-not-subtract", "Put never decreases usedTotal")
	}
	// lockset
	cfg := &locksetCfg{Rule: "pool-lockset", Guards: []guardSpec{{rel, "BucketedPool", "usedTotal", "mtx"}}}
	res := &locksetResult{}
	for _, fn := range p.AllFuncs(true) {
		if fn.Pkg.PkgPath == thanosMod+"/"+rel && fn.Decl.Recv != nil {
			checkLockset(c, p, cfg, fn, lockState{}, res)
		}
	}
	c.Stats["guarded_accesses"] += res.Accesses
}
