package main

import (
	"fmt"
	"go/ast"
	"go/token"
	"go/types"
	"strings"
)

func init() {
	register(&Property{
		ID:    "C18",
		Title: "Hashring places each series on distinct, deterministic, zone-balanced nodes",
		Explain: "(1) Hash purity (hasher typestate): in every function of pkg/receive/hashring.go and in labelpb.HashWithPrefix, a hash value is written only on a hasher that is fresh from its constructor or was Reset since its last sum — never on one taken from a pool, a field or a parameter without Reset, and never again after Sum without Reset. " +
			"(2) Placement purity (effect analysis over the call graph): no function reachable from any Hashring.GetN or from the ring constructors reads the clock, the environment or the process-global math/rand source. " +
			"(3) Order independence mechanisms: newSimpleHashring sorts the endpoints by address before building the ring; newKetamaHashring sorts the sections before computing replicas; a section's hash input mentions only the endpoint's address and the section number. " +
			"(4) Distinctness mechanisms: nextSectionReplica returns a section only after testing that its endpoint is not among the replicas chosen so far, calculateSectionReplicas records exactly the endpoint it appends, both GetN reject n >= number of endpoints before indexing, and hashmod's index (hash+n) mod len is evaluated (E9) to be injective in n below len. " +
			"(5) HashWithPrefix's buffered and streaming paths emit the same component sequence (prefix, separator, then name, separator, value, separator per label).",
		Assume: []string{"zone balance counts and behaviour under duplicate endpoint addresses are not decided", "xxhash/md5 are deterministic functions of their input"},
		Run:    runC18,
	})
}

func runC18(c *Ctx) {
	c.Rule("hash-is-pure-function-of-input", "hashers fresh or Reset before Write", 3)
	c.Rule("placement-reads-no-ambient-state", "no clock / env / global rand reachable from placement", 4)
	c.Rule("ring-order-independent", "sorted before use; hash input = address + section number", 3)
	c.Rule("replicas-distinct-mechanism", "membership test before choosing; index guarded", 4)
	c.Rule("hash-paths-agree", "fast and streaming paths of HashWithPrefix write the same sequence", 1)
	p := c.Load("pkg/receive", "pkg/store/labelpb")
	if p == nil {
		return
	}
	const rel = "pkg/receive"
	pk := p.Pkg(rel)
	if pk == nil {
		c.Incomplete("hash-is-pure-function-of-input", rel, "", "package not loaded")
		return
	}

	// (1) hashers
	var scope []*Fn
	for _, fn := range p.AllFuncs(true) {
		if fn.Decl == nil {
			continue
		}
		file := p.Fset.Position(fn.Decl.Pos()).Filename
		if strings.HasSuffix(file, "pkg/receive/hashring.go") || (strings.HasSuffix(file, "pkg/store/labelpb/label.go") && strings.HasPrefix(fn.Name, "Hash")) {
			scope = append(scope, fn)
		}
	}
	nOps := 0
	for _, fn := range scope {
		fs, n := checkHashers(p, fn)
		if n == 0 {
			continue
		}
		nOps += n
		construct := relPkg(fn.Pkg.PkgPath) + "." + fn.Name
		if len(fs) == 0 {
			c.OK("hash-is-pure-function-of-input", construct, p.Pos(fn.Decl.Pos()), fmt.Sprintf("%d hasher operations", n))
		}
		for _, f := range fs {
			c.Bad("hash-is-pure-function-of-input", construct, p.Pos(f.pos), "hasher-carries-state", f.what)
		}
	}
	c.Stats["hasher_operations"] += nOps

	// (2) ambient state
	entries := []struct{ recv, fn string }{
		{"simpleHashring", "GetN"}, {"ketamaHashring", "GetN"}, {"multiHashring", "GetN"}, {"shuffleShardHashring", "GetN"},
		{"", "NewMultiHashring"},
	}
	for _, e := range entries {
		fn := p.Func(rel, e.recv, e.fn)
		construct := rel + "." + e.fn
		if e.recv != "" {
			construct = fmt.Sprintf("%s.(%s).%s", rel, e.recv, e.fn)
		}
		if fn == nil {
			c.Incomplete("placement-reads-no-ambient-state", construct, "", "function not found")
			continue
		}
		bad, pos := "", p.Pos(fn.Decl.Pos())
		reach := reachableFuncs(p, fn)
		for _, rf := range reach {
			info := rf.Info()
			ast.Inspect(rf.Body(), func(n ast.Node) bool {
				call, ok := n.(*ast.CallExpr)
				if !ok || bad != "" {
					return true
				}
				f := calleeOf(info, call)
				if f == nil || f.Pkg() == nil {
					return true
				}
				sig, _ := f.Type().(*types.Signature)
				pkgLevel := sig != nil && sig.Recv() == nil
				full := f.Pkg().Path() + "." + f.Name()
				switch {
				case full == "time.Now" || full == "time.Since" || full == "os.Getenv" || full == "os.Hostname" || full == "os.Getpid":
					// metrics timing is not placement: only flag when the value can reach the result — conservatively, any use in these functions
					bad, pos = rf.Name+" calls "+full, p.Pos(call.Pos())
				case pkgLevel && (f.Pkg().Path() == "math/rand" || f.Pkg().Path() == "math/rand/v2") && f.Name() != "New" && f.Name() != "NewSource" && f.Name() != "NewPCG" && f.Name() != "NewZipf":
					bad, pos = rf.Name+" draws from the process-global random source ("+full+")", p.Pos(call.Pos())
				}
				return true
			})
		}
		c.Stats["functions_reached"] += len(reach)
		c.Check(bad == "", "placement-reads-no-ambient-state", construct, pos, "ambient-state-in-placement", bad+": the chosen node would not depend only on tenant, labels and the configured endpoints")
	}

	// (3) order independence
	if fn := p.Func(rel, "", "newSimpleHashring"); fn == nil {
		c.Incomplete("ring-order-independent", rel+".newSimpleHashring", "", "function not found")
	} else {
		info := fn.Info()
		var param types.Object
		if len(fn.Decl.Type.Params.List) > 0 && len(fn.Decl.Type.Params.List[0].Names) > 0 {
			param = info.Defs[fn.Decl.Type.Params.List[0].Names[0]]
		}
		sorted, pos := false, token.NoPos
		ast.Inspect(fn.Body(), func(n ast.Node) bool {
			call, ok := n.(*ast.CallExpr)
			if !ok || len(call.Args) != 2 {
				return true
			}
			f := calleeOf(info, call)
			if f == nil || !(f.Name() == "SortFunc" || f.Name() == "SortStableFunc" || f.Name() == "Slice" || f.Name() == "SliceStable") || objOf(info, call.Args[0]) != param {
				return true
			}
			if lit, ok := unparen(call.Args[1]).(*ast.FuncLit); ok {
				t := canon(lit.Body.List[len(lit.Body.List)-1].(*ast.ReturnStmt).Results[0])
				if strings.Count(t, ".Address") == 2 {
					sorted, pos = true, call.Pos()
				}
			}
			return true
		})
		// the ring is built from the parameter after the sort
		okUse := false
		ast.Inspect(fn.Body(), func(n ast.Node) bool {
			if ret, ok := n.(*ast.ReturnStmt); ok && len(ret.Results) == 2 && isNil(info, ret.Results[1]) && ret.Pos() > pos && sorted {
				if mentionsObj(info, ret.Results[0], param) {
					okUse = true
				}
			}
			return true
		})
		c.Check(sorted && okUse, "ring-order-independent", rel+".newSimpleHashring", p.Pos(fn.Decl.Pos()), "endpoints-not-sorted",
			"the hashmod ring must be built from the endpoints sorted by address; otherwise the node for a series depends on the order of the configuration")
	}
	if fn := p.Func(rel, "", "newKetamaHashring"); fn == nil {
		c.Incomplete("ring-order-independent", rel+".newKetamaHashring", "", "function not found")
	} else {
		info := fn.Info()
		isSort := func(i *types.Info, call *ast.CallExpr) bool {
			f := calleeOf(i, call)
			if f == nil {
				return false
			}
			return (f.Name() == "Sort" || f.Name() == "Stable") && (f.Pkg().Path() == "sort" || strings.HasSuffix(f.Pkg().Path(), rel))
		}
		isCalc := func(i *types.Info, call *ast.CallExpr) bool {
			f := calleeOf(i, call)
			return f != nil && f.Name() == "calculateSectionReplicas"
		}
		e := newE3(p, fn, []Ev{{Name: "sort", Match: isSort}})
		n, bad := 0, ""
		ast.Inspect(fn.Body(), func(nd ast.Node) bool {
			if call, ok := nd.(*ast.CallExpr); ok && isCalc(info, call) {
				n++
				if b, _ := e.Before(call, "sort"); b != eOK {
					bad = "replicas are computed on sections that are not (always) sorted by hash"
				}
			}
			return true
		})
		if n == 0 {
			bad = "calculateSectionReplicas is not called"
		}
		c.Check(bad == "", "ring-order-independent", rel+".newKetamaHashring#sorted", p.Pos(fn.Decl.Pos()), "sections-not-sorted", bad)
		// hash input
		bad = ""
		nW := 0
		ast.Inspect(fn.Body(), func(nd ast.Node) bool {
			call, ok := nd.(*ast.CallExpr)
			if !ok || len(call.Args) != 1 {
				return true
			}
			sel, ok := unparen(call.Fun).(*ast.SelectorExpr)
			if !ok || !strings.HasPrefix(sel.Sel.Name, "Write") || !isHasherType(info.TypeOf(sel.X)) {
				return true
			}
			nW++
			hasAddr := false
			ast.Inspect(call.Args[0], func(x ast.Node) bool {
				switch v := x.(type) {
				case *ast.SelectorExpr:
					if fo, ok := info.Uses[v.Sel].(*types.Var); ok && fo.IsField() {
						if fo.Name() == "Address" {
							hasAddr = true
						} else {
							bad = "the section hash depends on " + canon(v) + " (only the endpoint address and the section number may enter)"
						}
						return false
					}
				case *ast.Ident:
					if o, ok := info.Uses[v].(*types.Var); ok && !o.IsField() {
						// loop variables: the range key (position in the configuration) must not enter
						ast.Inspect(fn.Body(), func(y ast.Node) bool {
							if rs, ok := y.(*ast.RangeStmt); ok && rs.Key != nil && objOf(info, rs.Key) == o {
								bad = "the section hash depends on " + v.Name + ", the endpoint's position in the configuration"
							}
							return true
						})
					}
				}
				return true
			})
			if !hasAddr && bad == "" {
				bad = "the section hash does not include the endpoint address"
			}
			return true
		})
		if nW == 0 {
			bad = "no hash input found"
		}
		c.Check(bad == "", "ring-order-independent", rel+".newKetamaHashring#hash-input", p.Pos(fn.Decl.Pos()), "hash-input-provenance", bad)
	}

	// (4) distinctness
	if fn := p.Func(rel, "", "nextSectionReplica"); fn == nil {
		c.Incomplete("replicas-distinct-mechanism", rel+".nextSectionReplica", "", "function not found")
	} else {
		info := fn.Info()
		n, bad := 0, ""
		ast.Inspect(fn.Body(), func(nd ast.Node) bool {
			ret, ok := nd.(*ast.ReturnStmt)
			if !ok || len(ret.Results) != 1 {
				return true
			}
			if v, isC := constInt(info, ret.Results[0]); isC && v < 0 {
				return true
			}
			n++
			guarded := false
			for _, g := range guardsOf(p, fn, ret) {
				refine(g.Cond, g.Pol, func(atom ast.Expr, t bool) {
					id, ok := unparen(atom).(*ast.Ident)
					if !ok || t {
						return
					}
					// `_, ok := replicas[rep.endpointIndex]`
					if g.Init != nil {
						if as, ok := g.Init.(*ast.AssignStmt); ok && len(as.Lhs) == 2 && len(as.Rhs) == 1 && objOf(info, as.Lhs[1]) == objOf(info, id) {
							if ix, ok := unparen(as.Rhs[0]).(*ast.IndexExpr); ok && strings.HasSuffix(canon(ix.Index), ".endpointIndex") {
								if _, isMap := info.TypeOf(ix.X).Underlying().(*types.Map); isMap {
									guarded = true
								}
							}
						}
					}
				})
			}
			if !guarded {
				bad = "a section is returned without testing that its endpoint is not already among the chosen replicas"
			}
			return true
		})
		if n == 0 {
			bad = "no section is ever returned"
		}
		c.Check(bad == "", "replicas-distinct-mechanism", rel+".nextSectionReplica", p.Pos(fn.Decl.Pos()), "replica-membership-untested", bad)
	}
	if fn := p.Func(rel, "", "calculateSectionReplicas"); fn == nil {
		c.Incomplete("replicas-distinct-mechanism", rel+".calculateSectionReplicas", "", "function not found")
	} else {
		bad, n := "", 0
		ast.Inspect(fn.Body(), func(nd ast.Node) bool {
			as, ok := nd.(*ast.AssignStmt)
			if !ok || len(as.Rhs) != 1 {
				return true
			}
			call, ok := unparen(as.Rhs[0]).(*ast.CallExpr)
			if !ok || len(call.Args) != 2 {
				return true
			}
			if id, ok := call.Fun.(*ast.Ident); !ok || id.Name != "append" || !strings.HasSuffix(canon(call.Args[0]), ".replicas") {
				return true
			}
			n++
			val := canon(call.Args[1])
			blk, _ := p.ParentOf(fn.Pkg, as).(*ast.BlockStmt)
			recorded := false
			if blk != nil {
				for _, st := range blk.List {
					if a2, ok := st.(*ast.AssignStmt); ok && len(a2.Lhs) == 1 {
						if ix, ok := unparen(a2.Lhs[0]).(*ast.IndexExpr); ok && canon(ix.Index) == val {
							recorded = true
						}
					}
				}
			}
			if !recorded {
				bad = "the endpoint appended to the section's replicas (" + val + ") is not recorded in the set that nextSectionReplica tests"
			}
			return true
		})
		if n == 0 {
			bad = "no replica is ever appended"
		}
		c.Check(bad == "", "replicas-distinct-mechanism", rel+".calculateSectionReplicas", p.Pos(fn.Decl.Pos()), "replica-not-recorded", bad)
	}
	for _, recv := range []string{"simpleHashring", "ketamaHashring"} {
		fn := p.Func(rel, recv, "GetN")
		construct := fmt.Sprintf("%s.(%s).GetN", rel, recv)
		if fn == nil {
			c.Incomplete("replicas-distinct-mechanism", construct, "", "function not found")
			continue
		}
		okGuard := false
		if len(fn.Decl.Body.List) > 0 {
			if is, ok := fn.Decl.Body.List[0].(*ast.IfStmt); ok && terminates(is.Body.List) {
				// n is the last parameter (tenant, series, n)
				nName := "\x00none"
				if ps := namesOf(fn).Params; len(ps) > 0 {
					nName = ps[len(ps)-1]
				}
				if be, ok := unparen(is.Cond).(*ast.BinaryExpr); ok && be.Op == token.GEQ && canon(be.X) == nName {
					t := canon(be.Y)
					if strings.Contains(t, "len(") || strings.HasSuffix(t, ".numEndpoints") {
						okGuard = true
					}
				}
			}
		}
		c.Check(okGuard, "replicas-distinct-mechanism", construct+"#guard", p.Pos(fn.Decl.Pos()), "replica-index-unguarded",
			"GetN must reject n >= number of endpoints before anything is indexed")
		if recv == "simpleHashring" {
			// index expression of the returned element
			var ixe ast.Expr
			ast.Inspect(fn.Body(), func(nd ast.Node) bool {
				if ret, ok := nd.(*ast.ReturnStmt); ok && len(ret.Results) == 2 {
					if ix, ok := unparen(ret.Results[0]).(*ast.IndexExpr); ok {
						ixe = ix.Index
					}
				}
				return true
			})
			if ixe == nil {
				c.Incomplete("replicas-distinct-mechanism", construct+"#index", p.Pos(fn.Decl.Pos()), "index expression not found")
			} else {
				x := newE9(p, fn, func(e ast.Expr, text string) string {
					t := strings.ReplaceAll(text, " ", "")
					switch {
					case strings.Contains(t, "HashWithPrefix("):
						return "h"
					case len(namesOf(fn).Params) > 0 && t == namesOf(fn).Params[len(namesOf(fn).Params)-1]:
						return "n"
					case strings.HasPrefix(t, "len("):
						return "len"
					}
					return ""
				})
				var evalErr error
				cx := ""
				cnt := 0
				for ln := int64(1); ln <= 5 && cx == "" && evalErr == nil; ln++ {
					for h := int64(0); h <= 6 && cx == "" && evalErr == nil; h++ {
						seen := map[int64]int64{}
						for n := int64(0); n < ln; n++ {
							v, err := x.eval(ixe, map[string]int64{"h": h, "n": n, "len": ln})
							cnt++
							if err != nil {
								evalErr = err
								break
							}
							if v.i < 0 || v.i >= ln {
								cx = fmt.Sprintf("index %d out of range for len=%d h=%d n=%d", v.i, ln, h, n)
								break
							}
							if prev, dup := seen[v.i]; dup {
								cx = fmt.Sprintf("replicas %d and %d of one series land on the same node (len=%d h=%d)", prev, n, ln, h)
								break
							}
							seen[v.i] = n
						}
					}
				}
				c.Stats["assignments_evaluated"] += cnt
				reportE9(c, "replicas-distinct-mechanism", construct+"#index", p.Pos(ixe.Pos()), cx, evalErr, "hashmod index is not injective in n")
			}
		}
	}

	// (5) HashWithPrefix paths
	if fn := p.Func("pkg/store/labelpb", "", "HashWithPrefix"); fn == nil {
		c.Incomplete("hash-paths-agree", "pkg/store/labelpb.HashWithPrefix", "", "function not found")
	} else {
		// per-label components in the buffered path: appends inside the range body outside the if;
		// in the streaming path: Write* calls inside the inner range.
		var outer *ast.RangeStmt
		for _, st := range fn.Decl.Body.List {
			if rs, ok := st.(*ast.RangeStmt); ok {
				outer = rs
			}
		}
		comp := func(e ast.Expr, v string) string {
			t := canon(e)
			t = strings.TrimSuffix(t, "...")
			switch {
			case t == v+".Name":
				return "name"
			case t == v+".Value":
				return "value"
			case t == "sep" || t == "sep[0]":
				return "sep"
			}
			return "?" + t
		}
		var fast, slow []string
		bad := ""
		if outer == nil || outer.Value == nil {
			bad = "no loop over the labels"
		} else {
			ov := canon(outer.Value)
			for _, st := range outer.Body.List {
				switch v := st.(type) {
				case *ast.AssignStmt:
					if call, ok := unparen(v.Rhs[0]).(*ast.CallExpr); ok && len(call.Args) == 2 {
						if id, ok := call.Fun.(*ast.Ident); ok && id.Name == "append" {
							fast = append(fast, comp(call.Args[1], ov))
						}
					}
				case *ast.IfStmt:
					ast.Inspect(v.Body, func(x ast.Node) bool {
						rs, ok := x.(*ast.RangeStmt)
						if !ok || rs.Value == nil {
							return true
						}
						iv := canon(rs.Value)
						if !strings.HasSuffix(canon(rs.X), "[i:]") && !strings.Contains(canon(rs.X), "["+canon(outer.Key)+":]") {
							bad = "the streaming path does not continue from the current label: " + canon(rs.X)
						}
						for _, s2 := range rs.Body.List {
							if as, ok := s2.(*ast.AssignStmt); ok && len(as.Rhs) == 1 {
								if call, ok := unparen(as.Rhs[0]).(*ast.CallExpr); ok && len(call.Args) == 1 {
									slow = append(slow, comp(call.Args[0], iv))
								}
							}
						}
						return false
					})
				}
			}
			if bad == "" && (strings.Join(fast, ",") != "name,sep,value,sep" || strings.Join(slow, ",") != strings.Join(fast, ",")) {
				bad = fmt.Sprintf("per-label components differ: buffered path writes [%s], streaming path writes [%s]", strings.Join(fast, ","), strings.Join(slow, ","))
			}
		}
		c.Check(bad == "", "hash-paths-agree", "pkg/store/labelpb.HashWithPrefix", p.Pos(fn.Decl.Pos()), "hash-paths-differ", bad)
	}
}

func mentionsObj(info *types.Info, n ast.Node, o types.Object) bool {
	found := false
	ast.Inspect(n, func(x ast.Node) bool {
		if id, ok := x.(*ast.Ident); ok && info.Uses[id] == o {
			found = true
		}
		return !found
	})
	return found
}
