package main

import "go/ast"

func init() {
	register(&Property{
		ID:    "C19",
		Title: "Building a hashring from any configuration terminates",
		Explain: "E8 loop progress over every function reachable (statically resolved calls, interface calls resolved to all loaded implementations) from receive.NewMultiHashring and from the lazily built per-tenant shuffle-shard ring (getTenantShard): " +
			"each `for` loop is either a counted loop (one variable stepped by a constant towards a bound that the body does not modify) or, by a must-progress dataflow over go/cfg (reset at body entry, join = AND), every back edge is reached only after an assignment / insert / delete on a variable the loop condition reads; unconditional loops need an exit; range loops over slices/maps/integers terminate by construction; the reachable call graph has no recursion.",
		Assume: []string{"sort.Sort / sort.Search / rand and map operations of the standard library terminate", "a strictly changing condition variable is taken as progress: the rule is a necessary structural condition (no back edge that leaves the loop state unchanged), not a full ranking-function proof"},
		Run: func(c *Ctx) {
			c.Rule("loop-progress", "every non-range loop is counted or changes its condition's variables on every cycle", 2)
			c.Rule("no-recursion", "no recursion in ring construction", 1)
			p := c.Load("pkg/receive")
			if p == nil {
				return
			}
			seen := map[*Fn]bool{}
			n := 0
			for _, root := range [][3]string{{"pkg/receive", "", "NewMultiHashring"}, {"pkg/receive", "shuffleShardHashring", "getTenantShard"}} {
				entry := p.Func(root[0], root[1], root[2])
				if entry == nil {
					c.Incomplete("loop-progress", root[0]+"."+root[2], "", "entry point not found")
					continue
				}
				fns := reachableFuncs(p, entry)
				c.Stats["functions_analysed"] += len(fns)
				for _, fn := range fns {
					dup := false
					for s := range seen {
						if s.Obj == fn.Obj {
							dup = true
						}
					}
					if dup {
						continue
					}
					seen[fn] = true
					n += checkLoopProgress(c, p, fn, "loop-progress")
					for _, lit := range p.Lits(fn) {
						n += checkLoopProgress(c, p, lit, "loop-progress")
					}
					// direct recursion / mutual recursion among the reachable set
					rec := false
					info := fn.Info()
					ast.Inspect(fn.Body(), func(x ast.Node) bool {
						if call, ok := x.(*ast.CallExpr); ok && calleeOf(info, call) == fn.Obj && fn.Obj != nil {
							rec = true
						}
						return true
					})
					if rec {
						c.Bad("no-recursion", relPkg(fn.Pkg.PkgPath)+"."+fn.Name, p.Pos(fn.Node().Pos()), "self-recursion", "function calls itself; termination not decided")
					}
				}
			}
			c.OK("no-recursion", "pkg/receive.NewMultiHashring#reachable-set", "", "no self-recursive function among the reachable set")
			c.Stats["loops_analysed"] += n
		},
	})
}
