package main

import (
	"go/ast"
	"go/token"
	"go/types"
	"strings"
)

func init() {
	register(&Property{
		ID:    "C19",
		Title: "Building a hashring from any configuration terminates",
		Explain: "E8 loop progress over every function reachable (statically resolved calls, interface calls resolved to all loaded implementations) from receive.NewMultiHashring and from the lazily built per-tenant shuffle-shard ring (getTenantShard): " +
			"each `for` loop is either a counted loop (one variable stepped by a constant towards a bound that the body does not modify) or, by a must-progress dataflow over go/cfg (reset at body entry, join = AND), every back edge is reached only after an assignment / insert / delete on a variable the loop condition reads; unconditional loops need an exit; range loops over slices/maps/integers terminate by construction; the reachable call graph has no recursion. " +
			"Usable or error (necessary structure): newKetamaHashring returns an error when there are fewer endpoints than the replication factor; calculateSectionReplicas gives up on a section only after a search with the zone constraint switched off; and in nextSectionReplica every path that passes over a section either found its endpoint among the chosen replicas or runs with the zone constraint on (structured path enumeration) — so with enough endpoints the relaxed full-lap search (C20) always finds one and no section is left with fewer replicas than GetN indexes.",
		Assume: []string{"sort.Sort / sort.Search / rand and map operations of the standard library terminate", "a strictly changing condition variable is taken as progress: the rule is a necessary structural condition (no back edge that leaves the loop state unchanged), not a full ranking-function proof"},
		Run: func(c *Ctx) {
			c.Rule("loop-progress", "every non-range loop is counted or changes its condition's variables on every cycle", 2)
			c.Rule("no-recursion", "no recursion in ring construction", 1)
			c.Rule("ring-usable-or-error", "too few endpoints is an error; otherwise every section gets its replicas: the relaxed search skips used endpoints only and is tried before giving up", 3)
			p := c.Load("pkg/receive")
			if p == nil {
				return
			}
			seen := map[*Fn]bool{}
			n := 0
			for _, root := range [][3]string{{"pkg/receive", "", "NewMultiHashring"}, {"pkg/receive", "shuffleShardHashring", "getTenantShard"}} {
				entry := p.Func(root[0], root[1], root[2])
				if entry == nil {
					c.Incomplete("loop-progress", root[0]+"."+root[2], "", "entry point not found")
					continue
				}
				fns := reachableFuncs(p, entry)
				c.Stats["functions_analysed"] += len(fns)
				for _, fn := range fns {
					dup := false
					for s := range seen {
						if s.Obj == fn.Obj {
							dup = true
						}
					}
					if dup {
						continue
					}
					seen[fn] = true
					n += checkLoopProgress(c, p, fn, "loop-progress")
					for _, lit := range p.Lits(fn) {
						n += checkLoopProgress(c, p, lit, "loop-progress")
					}
					// direct recursion / mutual recursion among the reachable set
					rec := false
					info := fn.Info()
					ast.Inspect(fn.Body(), func(x ast.Node) bool {
						if call, ok := x.(*ast.CallExpr); ok && calleeOf(info, call) == fn.Obj && fn.Obj != nil {
							rec = true
						}
						return true
					})
					if rec {
						c.Bad("no-recursion", relPkg(fn.Pkg.PkgPath)+"."+fn.Name, p.Pos(fn.Node().Pos()), "self-recursion", "function calls itself; termination not decided")
					}
				}
			}
			c.OK("no-recursion", "pkg/receive.NewMultiHashring#reachable-set", "", "no self-recursive function among the reachable set")
			c.Stats["loops_analysed"] += n
			runC19Usable(c, p)
		},
	})
}

func runC19Usable(c *Ctx, p *Prog) {
	const rel, rule = "pkg/receive", "ring-usable-or-error"
	// (1) too few endpoints → error
	if fn := p.Func(rel, "", "newKetamaHashring"); fn == nil {
		c.Incomplete(rule, rel+".newKetamaHashring", "", "function not found")
	} else {
		info := fn.Info()
		ok := false
		for _, st := range fn.Body().List {
			ifs, isIf := st.(*ast.IfStmt)
			if !isIf || len(ifs.Body.List) == 0 {
				continue
			}
			b := shapeBind{}
			if !matchShape("len(§eps)<int(§rf)", canon(ifs.Cond), b) && !matchShape("uint64(len(§eps))<§rf", canon(ifs.Cond), b) && !matchShape("int(§rf)>len(§eps)", canon(ifs.Cond), b) {
				continue
			}
			if ret, isRet := ifs.Body.List[len(ifs.Body.List)-1].(*ast.ReturnStmt); isRet && len(ret.Results) == 2 && !isNil(info, ret.Results[1]) {
				ok = true
			}
		}
		c.Check(ok, rule, rel+".newKetamaHashring#too-few-endpoints", p.Pos(fn.Decl.Pos()), "too-few-endpoints-accepted",
			"fewer endpoints than the replication factor must be rejected with an error before the ring is built")
	}
	// (2) give up only after the relaxed search
	if fn := p.Func(rel, "", "calculateSectionReplicas"); fn == nil {
		c.Incomplete(rule, rel+".calculateSectionReplicas", "", "function not found")
	} else {
		info := fn.Info()
		isRelaxed := func(e ast.Expr) bool {
			call, ok := unparen(e).(*ast.CallExpr)
			if !ok || len(call.Args) == 0 {
				return false
			}
			f := calleeOf(info, call)
			if f == nil || f.Name() != "nextSectionReplica" {
				return false
			}
			tv, ok := info.Types[call.Args[len(call.Args)-1]]
			return ok && tv.Value != nil && tv.Value.String() == "false"
		}
		assignsRelaxed := func(st ast.Stmt, v string) bool {
			as, ok := st.(*ast.AssignStmt)
			return ok && len(as.Lhs) == 1 && len(as.Rhs) == 1 && canon(as.Lhs[0]) == v && isRelaxed(as.Rhs[0])
		}
		found, bad := 0, ""
		ast.Inspect(fn.Body(), func(nd ast.Node) bool {
			blk, ok := nd.(*ast.BlockStmt)
			if !ok {
				return true
			}
			for k, st := range blk.List {
				ifs, ok := st.(*ast.IfStmt)
				if !ok || len(ifs.Body.List) == 0 || ifs.Init != nil {
					continue
				}
				if br, isBreak := ifs.Body.List[len(ifs.Body.List)-1].(*ast.BranchStmt); !isBreak || br.Tok != token.BREAK {
					continue
				}
				b := shapeBind{}
				if !matchShape("§next<0", canon(ifs.Cond), b) {
					continue
				}
				found++
				v := b["§next"]
				okPrev := false
				if k > 0 {
					switch prev := blk.List[k-1].(type) {
					case *ast.AssignStmt:
						okPrev = assignsRelaxed(prev, v)
					case *ast.IfStmt:
						// `if next < 0 { next = relaxed search }`: whenever the give-up test still sees next < 0, the relaxed search ran last
						okPrev = prev.Else == nil && canon(prev.Cond) == canon(ifs.Cond) && len(prev.Body.List) > 0 && assignsRelaxed(prev.Body.List[len(prev.Body.List)-1], v)
					}
				}
				if !okPrev {
					bad = "the replica search of a section is abandoned at " + p.Pos(ifs.Pos()) + " without the search without the zone constraint having been the last one tried"
				}
			}
			return true
		})
		_ = info
		if found == 0 {
			// no way to give up at all is fine as long as the loop terminates (loop-progress)
			c.OK(rule, rel+".calculateSectionReplicas#relaxed-before-giving-up", p.Pos(fn.Decl.Pos()), "the replica loop is never abandoned")
		} else {
			c.Check(bad == "", rule, rel+".calculateSectionReplicas#relaxed-before-giving-up", p.Pos(fn.Decl.Pos()), "gives-up-without-relaxed-search", bad)
		}
	}
	// (3) the relaxed search passes over used endpoints only
	if fn := p.Func(rel, "", "nextSectionReplica"); fn == nil {
		c.Incomplete(rule, rel+".nextSectionReplica", "", "function not found")
	} else {
		info := fn.Info()
		// the zone-constraint switch: the bool parameter
		var sw types.Object
		for _, f := range fn.Decl.Type.Params.List {
			for _, nm := range f.Names {
				if o := info.Defs[nm]; o != nil && isBoolType(o.Type()) {
					sw = o
				}
			}
		}
		var loop *ast.ForStmt
		ast.Inspect(fn.Body(), func(nd ast.Node) bool {
			if f, ok := nd.(*ast.ForStmt); ok && loop == nil {
				loop = f
			}
			return true
		})
		switch {
		case sw == nil || loop == nil:
			c.Incomplete(rule, rel+".nextSectionReplica#relaxed-skips-used-only", p.Pos(fn.Decl.Pos()), "walk loop or zone-constraint parameter not found")
		default:
			paths, err := enumPaths(loop.Body.List)
			var probs []string
			if err != nil {
				probs = append(probs, err.Error())
			}
			for _, pth := range paths {
				if pth.End != "next" {
					continue
				}
				used, strict := false, false
				for _, cnd := range pth.Conds {
					if id, ok := unparen(cnd.Atom).(*ast.Ident); ok && cnd.Pol {
						o := objOf(info, id)
						if o == sw {
							strict = true
						}
						ast.Inspect(loop.Body, func(x ast.Node) bool {
							if as, ok := x.(*ast.AssignStmt); ok && len(as.Lhs) == 2 && len(as.Rhs) == 1 && objOf(info, as.Lhs[1]) == o {
								if ix, ok := unparen(as.Rhs[0]).(*ast.IndexExpr); ok {
									if _, isMap := info.TypeOf(ix.X).Underlying().(*types.Map); isMap && strings.HasSuffix(canon(ix.Index), ".endpointIndex") {
										used = true
									}
								}
							}
							return true
						})
					}
				}
				if used || strict {
					continue
				}
				var took []string
				for _, cnd := range pth.Conds {
					t := exprString(cnd.Atom)
					if !cnd.Pol {
						t = "!(" + t + ")"
					}
					took = append(took, t)
				}
				for _, o := range pth.Opaque {
					took = append(took, "¬/∨ "+exprString(o))
				}
				probs = append(probs, "a section is passed over on the path ["+strings.Join(took, " ∧ ")+"], which neither found its endpoint among the chosen replicas nor requires the zone constraint ("+sw.Name()+") to be on")
			}
			c.Check(len(probs) == 0, rule, rel+".nextSectionReplica#relaxed-skips-used-only", p.Pos(loop.Pos()), "relaxed-search-still-constrained",
				strings.Join(probs, "; ")+": with unbalanced zones the relaxed search finds nothing, sections keep fewer replicas than the replication factor and GetN indexes past them")
		}
	}
}
