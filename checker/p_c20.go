package main

import (
	"go/ast"
	"go/token"
	"go/types"
	"strings"
)

func init() {
	register(&Property{
		ID:    "C20",
		Title: "Adding a node to a ketama ring only moves series onto the new node",
		Explain: "Structural necessary conditions only. (1) Section positions are independent of the other endpoints: a section's hash input mentions only its endpoint's address and its section number (shared with C18), so adding an endpoint inserts new sections and leaves every existing section where it was. " +
			"(2) Lookup is successor search with wrap-around: the series' section is the first section whose hash is >= the series hash (sort.Search with that predicate over the sorted sections), index len → 0. " +
			"(3) Replicas are the next distinct endpoints clockwise: nextSectionReplica scans (from + k) mod len for k = 1..len, and calculateSectionReplicas starts the walk at the section itself (from = i − 1). " +
			"(4) Sections name their endpoint by index into the ring's endpoint list and Nodes() returns that list itself: in every function of pkg/receive that calls Nodes(), the result (and its aliases by assignment / reslicing) is never sorted, reversed, element-assigned, copied into or appended through. " +
			"With (1)–(4) a new endpoint can only be inserted into a series' replica walk; it cannot reorder the remaining endpoints.",
		Assume: []string{"availability zones are not configured (with zones the balance rule may reorder)", "the relational statement over all series and hash values is not decided beyond these conditions"},
		Run:    runC20,
	})
}

func runC20(c *Ctx) {
	c.Rule("section-position-independent-of-other-endpoints", "hash input = address + section number", 1)
	c.Rule("successor-lookup-with-wraparound", "first section with hash >= v; len → 0", 1)
	c.Rule("replicas-by-clockwise-walk", "(from+k) mod len, k from 1; walk starts at the section", 2)
	c.Rule("ring-endpoints-never-reordered", "what Nodes() returns is read or copied, never sorted or written in place", 4)
	p := c.Load("pkg/receive")
	if p == nil {
		return
	}
	const rel = "pkg/receive"
	if fn := p.Func(rel, "", "newKetamaHashring"); fn == nil {
		c.Incomplete("section-position-independent-of-other-endpoints", rel+".newKetamaHashring", "", "function not found")
	} else {
		info := fn.Info()
		bad, nW := "", 0
		ast.Inspect(fn.Body(), func(nd ast.Node) bool {
			call, ok := nd.(*ast.CallExpr)
			if !ok || len(call.Args) != 1 {
				return true
			}
			sel, ok := unparen(call.Fun).(*ast.SelectorExpr)
			if !ok || !strings.HasPrefix(sel.Sel.Name, "Write") || !isHasherType(info.TypeOf(sel.X)) {
				return true
			}
			nW++
			hasAddr := false
			ast.Inspect(call.Args[0], func(x ast.Node) bool {
				switch v := x.(type) {
				case *ast.SelectorExpr:
					if fo, ok := info.Uses[v.Sel].(*types.Var); ok && fo.IsField() {
						if fo.Name() == "Address" {
							hasAddr = true
						} else {
							bad = "the section hash depends on " + canon(v)
						}
						return false
					}
				case *ast.Ident:
					if o, ok := info.Uses[v].(*types.Var); ok && !o.IsField() {
						ast.Inspect(fn.Body(), func(y ast.Node) bool {
							if rs, ok := y.(*ast.RangeStmt); ok && rs.Key != nil && objOf(info, rs.Key) == o {
								bad = "the section hash depends on " + v.Name + ", the endpoint's position in the list: adding an endpoint would move existing sections"
							}
							return true
						})
						if strings.Contains(strings.ToLower(v.Name), "numsections") || v.Name == "endpoints" {
							bad = "the section hash depends on " + v.Name + ", which changes when an endpoint is added"
						}
					}
				case *ast.CallExpr:
					if id, ok := v.Fun.(*ast.Ident); ok && id.Name == "len" {
						bad = "the section hash depends on " + canon(v) + ", which changes when an endpoint is added"
					}
				}
				return true
			})
			if !hasAddr && bad == "" {
				bad = "the section hash does not include the endpoint address"
			}
			return true
		})
		if nW == 0 {
			bad = "no hash input found"
		}
		c.Check(bad == "", "section-position-independent-of-other-endpoints", rel+".newKetamaHashring", p.Pos(fn.Decl.Pos()), "section-hash-input", bad)
	}
	if fn := p.Func(rel, "ketamaHashring", "GetN"); fn == nil {
		c.Incomplete("successor-lookup-with-wraparound", rel+".(ketamaHashring).GetN", "", "function not found")
	} else {
		okSearch, okWrap := false, false
		info := fn.Info()
		rn := namesOf(fn).Recv
		secs := rn + ".sections"
		hv := lhsOfCallTo(fn, "HashWithPrefix", 0) // the series hash
		var pos types.Object                        // the variable holding the search result
		ast.Inspect(fn.Body(), func(nd ast.Node) bool {
			switch v := nd.(type) {
			case *ast.AssignStmt:
				// pos = [uint64(] sort.Search(len(sections), func(k int) bool { return sections[k].hash >= hash }) [)]
				if len(v.Lhs) != 1 || len(v.Rhs) != 1 {
					return true
				}
				r := unparen(v.Rhs[0])
				if conv, ok := r.(*ast.CallExpr); ok && len(conv.Args) == 1 {
					if tv, ok := info.Types[conv.Fun]; ok && tv.IsType() {
						r = unparen(conv.Args[0])
					}
				}
				call, ok := r.(*ast.CallExpr)
				if !ok || len(call.Args) != 2 {
					return true
				}
				if f := calleeOf(info, call); f == nil || f.Pkg() == nil || f.Pkg().Path() != "sort" || f.Name() != "Search" {
					return true
				}
				lit, ok := unparen(call.Args[1]).(*ast.FuncLit)
				if !ok || len(lit.Body.List) != 1 || len(lit.Type.Params.List) != 1 || len(lit.Type.Params.List[0].Names) != 1 {
					return true
				}
				ret, ok := lit.Body.List[0].(*ast.ReturnStmt)
				if !ok || len(ret.Results) != 1 {
					return true
				}
				k := lit.Type.Params.List[0].Names[0].Name
				if canon(call.Args[0]) == "len("+secs+")" && canon(ret.Results[0]) == secs+"["+k+"].hash>="+hv {
					okSearch = true
					pos = objOf(info, v.Lhs[0])
				}
			}
			return true
		})
		ast.Inspect(fn.Body(), func(nd ast.Node) bool {
			// if pos == <number of sections> { pos = 0 }
			v, ok := nd.(*ast.IfStmt)
			if !ok || pos == nil || len(v.Body.List) != 1 || v.Else != nil {
				return true
			}
			be, ok := unparen(v.Cond).(*ast.BinaryExpr)
			if !ok || be.Op != token.EQL || objOf(info, be.X) != pos {
				return true
			}
			bound := expandDefText(fn, info, be.Y)
			as, ok := v.Body.List[0].(*ast.AssignStmt)
			if ok && len(as.Lhs) == 1 && len(as.Rhs) == 1 && objOf(info, as.Lhs[0]) == pos && canon(as.Rhs[0]) == "0" && strings.Contains(bound, "len("+secs+")") {
				okWrap = true
			}
			return true
		})
		c.Check(okSearch && okWrap, "successor-lookup-with-wraparound", rel+".(ketamaHashring).GetN", p.Pos(fn.Decl.Pos()), "lookup-shape",
			"the series' section must be the first one with hash >= the series hash, wrapping to section 0 past the end")
	}
	if fn := p.Func(rel, "", "nextSectionReplica"); fn == nil {
		c.Incomplete("replicas-by-clockwise-walk", rel+".nextSectionReplica", "", "function not found")
	} else {
		info := fn.Info()
		wb := shapeBind{}
		var walk *ast.ForStmt
		ast.Inspect(fn.Body(), func(nd ast.Node) bool {
			f, isFor := nd.(*ast.ForStmt)
			if !isFor || f.Init == nil || f.Cond == nil || f.Post == nil {
				return true
			}
			if matchShape("§k:=1", stmtText(p, f.Init), wb) && matchShape("§k<=len(§ring)", stmtText(p, f.Cond), wb) && matchShape("§k++", stmtText(p, f.Post), wb) && len(f.Body.List) > 0 &&
				matchShape("§j:=(§from+§k)%len(§ring)", stmtText(p, f.Body.List[0]), wb) {
				walk = f
			}
			return true
		})
		bad := ""
		if walk == nil {
			bad = "candidates must be visited in ring order (from+k) mod len for k = 1..len"
		} else {
			// every section index the function returns comes out of that walk; the only other result is "none" (negative)
			ast.Inspect(fn.Body(), func(nd ast.Node) bool {
				ret, ok := nd.(*ast.ReturnStmt)
				if !ok || len(ret.Results) != 1 || bad != "" {
					return true
				}
				if v, isC := constInt(info, ret.Results[0]); isC && v < 0 {
					return true
				}
				inWalk := walk.Body.Pos() <= ret.Pos() && ret.End() <= walk.Body.End()
				if !inWalk || canon(ret.Results[0]) != wb["§j"] {
					bad = "a section is returned by `" + stmtText(p, ret) + "`, which is not the candidate of the ring-order walk (from+k) mod len: a different walk can start at a different section (e.g. clamp from = −1 to 0 and skip the section's own endpoint) and reorder the replicas of existing series"
				}
				return true
			})
		}
		c.Check(bad == "", "replicas-by-clockwise-walk", rel+".nextSectionReplica", p.Pos(fn.Decl.Pos()), "walk-shape", bad)
	}
	if fn := p.Func(rel, "", "calculateSectionReplicas"); fn == nil {
		c.Incomplete("replicas-by-clockwise-walk", rel+".calculateSectionReplicas", "", "function not found")
	} else {
		startOK, advOK := false, false
		info := fn.Info()
		// roles: from = the second argument of nextSectionReplica; next = what its result is bound to;
		// i = the key of the loop over the sections
		var fromObj, nextObj, keyObj types.Object
		ast.Inspect(fn.Body(), func(nd ast.Node) bool {
			switch v := nd.(type) {
			case *ast.RangeStmt:
				if keyObj == nil && v.Key != nil {
					keyObj = objOf(info, v.Key)
				}
			case *ast.AssignStmt:
				if len(v.Lhs) == 1 && len(v.Rhs) == 1 {
					if call, ok := unparen(v.Rhs[0]).(*ast.CallExpr); ok && len(call.Args) >= 2 {
						if f := calleeOf(info, call); f != nil && f.Name() == "nextSectionReplica" {
							fromObj, nextObj = objOf(info, call.Args[1]), objOf(info, v.Lhs[0])
						}
					}
				}
			}
			return true
		})
		ast.Inspect(fn.Body(), func(nd ast.Node) bool {
			as, ok := nd.(*ast.AssignStmt)
			if !ok || len(as.Lhs) != 1 || len(as.Rhs) != 1 || fromObj == nil || objOf(info, as.Lhs[0]) != fromObj {
				return true
			}
			if be, ok := unparen(as.Rhs[0]).(*ast.BinaryExpr); ok && be.Op == token.SUB && objOf(info, be.X) == keyObj && canon(be.Y) == "1" {
				startOK = true
			}
			if objOf(info, as.Rhs[0]) == nextObj && nextObj != nil {
				advOK = true
			}
			return true
		})
		c.Check(startOK && advOK, "replicas-by-clockwise-walk", rel+".calculateSectionReplicas", p.Pos(fn.Decl.Pos()), "walk-start",
			"the replica walk of section i must start at the section itself (from = i−1) and continue from the last chosen section")
	}
	// (4) sections refer to their endpoint by index into the ring's endpoint list, and Nodes() hands that very
	// list out: nobody may reorder or overwrite what Nodes() returned (copying it first is fine).
	isNodes := func(info *types.Info, call *ast.CallExpr) bool {
		sel, ok := unparen(call.Fun).(*ast.SelectorExpr)
		if !ok || sel.Sel.Name != "Nodes" || len(call.Args) != 0 {
			return false
		}
		sl, ok := info.TypeOf(call).Underlying().(*types.Slice)
		return ok && isNamed(sl.Elem(), "pkg/receive", "Endpoint")
	}
	total := 0
	for _, fn := range p.AllFuncs(true) {
		if fn.Decl == nil {
			continue
		}
		n, viol := borrowedResultWrites(p, fn, isNodes)
		if n == 0 {
			continue
		}
		total += n
		var what []string
		where := p.Pos(fn.Decl.Pos())
		for _, v := range viol {
			what = append(what, p.Pos(v.Pos)+": "+v.What)
			where = p.Pos(v.Pos)
		}
		c.Check(len(viol) == 0, "ring-endpoints-never-reordered", relPkg(fn.Pkg.PkgPath)+"."+fn.Name, where, "nodes-result-mutated",
			"the slice returned by Nodes() is the ring's own endpoint list, which every section indexes: "+strings.Join(what, "; ")+" — existing sections would resolve to different endpoints, i.e. series move between pre-existing nodes")
	}
	if total == 0 {
		c.Incomplete("ring-endpoints-never-reordered", rel, "", "no call of Nodes() found")
	}
}
