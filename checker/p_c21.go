package main

import (
	"go/ast"
	"go/token"
	"go/types"
	"strings"
)

func init() {
	register(&Property{
		ID:    "C21",
		Title: "Shuffle-sharded tenants get stable sub-rings",
		Explain: "(1) getTenantShardCached returns either the value cached under the tenant or the result of getTenantShard(tenant), and stores exactly that result under the same tenant. " +
			"(2) shuffleShardHashring.GetN delegates to the tenant ring's GetN only (all replicas come from the sub-ring). " +
			"(3) Map-order independence of the selection: every stateful random stream used inside the loop over the zones (a Go map) is created inside that loop body and seeded by ShuffleShardSeed(tenant, zone-of-this-iteration); no stream created outside the loop is advanced inside it (its draws would be handed to zones in map-iteration order, which differs between computations); the per-zone sections are sorted before the selection; the hasher typestate of C18 covers ShuffleShardSeed. " +
			"(4) take is the shard size when zone awareness is off and ceil(shardSize/zones) otherwise, and a zone smaller than take is an error, not a silent truncation.",
		Assume: []string{"exact sub-ring sizes when selections collide are not decided"},
		Run:    runC21,
	})
}

func runC21(c *Ctx) {
	c.Rule("shard-cached-under-tenant", "cache key and value are the tenant and its computed ring", 1)
	c.Rule("shard-getn-delegates", "GetN answers from the tenant's sub-ring only", 1)
	c.Rule("zone-selection-order-independent", "per-zone random stream created and seeded inside the zone loop; sections sorted", 3)
	c.Rule("shard-size-per-zone", "take = ss or ceil(ss/zones); too small a zone is an error", 2)
	p := c.Load("pkg/receive")
	if p == nil {
		return
	}
	const rel = "pkg/receive"

	// (1)
	if fn := p.Func(rel, "shuffleShardHashring", "getTenantShardCached"); fn == nil {
		c.Incomplete("shard-cached-under-tenant", rel+".(*shuffleShardHashring).getTenantShardCached", "", "function not found")
	} else {
		info := fn.Info()
		var tenant types.Object
		if len(fn.Decl.Type.Params.List) == 1 && len(fn.Decl.Type.Params.List[0].Names) == 1 {
			tenant = info.Defs[fn.Decl.Type.Params.List[0].Names[0]]
		}
		var getKey, addKey, addVal, computed, computeArg types.Object
		var cachedVal types.Object
		retCached, retComputed := false, false
		ast.Inspect(fn.Body(), func(nd ast.Node) bool {
			switch v := nd.(type) {
			case *ast.AssignStmt:
				if len(v.Rhs) == 1 && len(v.Lhs) == 2 {
					if call, ok := unparen(v.Rhs[0]).(*ast.CallExpr); ok {
						if sel, ok := unparen(call.Fun).(*ast.SelectorExpr); ok {
							switch {
							case sel.Sel.Name == "Get" && strings.HasSuffix(canon(sel.X), ".cache") && len(call.Args) == 1:
								getKey = objOf(info, call.Args[0])
								cachedVal = objOf(info, v.Lhs[0])
							case sel.Sel.Name == "getTenantShard" && len(call.Args) == 1:
								computeArg = objOf(info, call.Args[0])
								computed = objOf(info, v.Lhs[0])
							}
						}
					}
				}
			case *ast.CallExpr:
				if sel, ok := unparen(v.Fun).(*ast.SelectorExpr); ok && sel.Sel.Name == "Add" && strings.HasSuffix(canon(sel.X), ".cache") && len(v.Args) == 2 {
					addKey, addVal = objOf(info, v.Args[0]), objOf(info, v.Args[1])
				}
			case *ast.ReturnStmt:
				if len(v.Results) == 2 && isNil(info, v.Results[1]) {
					switch objOf(info, v.Results[0]) {
					case cachedVal:
						if cachedVal != nil {
							retCached = true
						}
					case computed:
						if computed != nil {
							retComputed = true
						}
					}
				}
			}
			return true
		})
		bad := ""
		switch {
		case tenant == nil:
			bad = "unexpected signature"
		case getKey != tenant:
			bad = "the cache is not consulted under the tenant"
		case computeArg != tenant:
			bad = "the sub-ring is not computed for the tenant"
		case addKey != tenant || addVal == nil || addVal != computed:
			bad = "the computed sub-ring is not stored under the tenant (a later lookup would return a different ring)"
		case !retCached || !retComputed:
			bad = "the function does not return the cached value on a hit and the computed value on a miss"
		}
		c.Check(bad == "", "shard-cached-under-tenant", rel+".(*shuffleShardHashring).getTenantShardCached", p.Pos(fn.Decl.Pos()), "cache-key-or-value", bad)
	}

	// (2)
	if fn := p.Func(rel, "shuffleShardHashring", "GetN"); fn == nil {
		c.Incomplete("shard-getn-delegates", rel+".(*shuffleShardHashring).GetN", "", "function not found")
	} else {
		info := fn.Info()
		ok := false
		var ring types.Object
		ast.Inspect(fn.Body(), func(nd ast.Node) bool {
			switch v := nd.(type) {
			case *ast.AssignStmt:
				if len(v.Rhs) == 1 {
					if call, isCall := unparen(v.Rhs[0]).(*ast.CallExpr); isCall {
						if sel, isSel := unparen(call.Fun).(*ast.SelectorExpr); isSel && sel.Sel.Name == "getTenantShardCached" && len(call.Args) == 1 && canon(call.Args[0]) == namesOf(fn).P(0) {
							ring = objOf(info, v.Lhs[0])
						}
					}
				}
			case *ast.ReturnStmt:
				if len(v.Results) == 1 {
					if call, isCall := unparen(v.Results[0]).(*ast.CallExpr); isCall && len(call.Args) == 3 {
						if sel, isSel := unparen(call.Fun).(*ast.SelectorExpr); isSel && sel.Sel.Name == "GetN" && ring != nil && objOf(info, sel.X) == ring &&
							canon(call.Args[0]) == namesOf(fn).P(0) && canon(call.Args[1]) == namesOf(fn).P(1) && canon(call.Args[2]) == namesOf(fn).P(2) {
							ok = true
						}
					}
				}
			}
			return true
		})
		// no other successful return
		others := 0
		ast.Inspect(fn.Body(), func(nd ast.Node) bool {
			ret, isRet := nd.(*ast.ReturnStmt)
			if !isRet {
				return true
			}
			switch len(ret.Results) {
			case 2:
				if isNil(info, ret.Results[1]) {
					others++
				}
			case 1:
				call, isCall := unparen(ret.Results[0]).(*ast.CallExpr)
				if !isCall {
					others++
					break
				}
				sel, isSel := unparen(call.Fun).(*ast.SelectorExpr)
				if !isSel || sel.Sel.Name != "GetN" || ring == nil || objOf(info, sel.X) != ring {
					others++
				}
			default:
				others++
			}
			return true
		})
		c.Check(ok && others == 0, "shard-getn-delegates", rel+".(*shuffleShardHashring).GetN", p.Pos(fn.Decl.Pos()), "getn-not-delegated",
			"GetN must return the tenant ring's GetN(tenant, ts, n) and nothing else: any other endpoint could lie outside the tenant's sub-ring")
	}

	// (3), (4)
	fn := p.Func(rel, "shuffleShardHashring", "getTenantShard")
	if fn == nil {
		c.Incomplete("zone-selection-order-independent", rel+".(*shuffleShardHashring).getTenantShard", "", "function not found")
		return
	}
	info := fn.Info()
	construct := rel + ".(*shuffleShardHashring).getTenantShard"
	// every *rand.Rand method call: the stream must be defined inside the innermost enclosing range-over-map body
	type mapLoop struct {
		rs  *ast.RangeStmt
		key types.Object
	}
	var loops []mapLoop
	ast.Inspect(fn.Body(), func(nd ast.Node) bool {
		if rs, ok := nd.(*ast.RangeStmt); ok {
			if _, isMap := info.TypeOf(rs.X).Underlying().(*types.Map); isMap {
				var k types.Object
				if rs.Key != nil {
					k = objOf(info, rs.Key)
				}
				loops = append(loops, mapLoop{rs, k})
			}
		}
		return true
	})
	isRandStream := func(t types.Type) bool {
		return isNamed(t, "math/rand", "Rand") || isNamed(t, "math/rand/v2", "Rand")
	}
	nDraws, bad, badPos := 0, "", p.Pos(fn.Decl.Pos())
	ast.Inspect(fn.Body(), func(nd ast.Node) bool {
		call, ok := nd.(*ast.CallExpr)
		if !ok {
			return true
		}
		sel, ok := unparen(call.Fun).(*ast.SelectorExpr)
		if !ok || !isRandStream(info.TypeOf(sel.X)) {
			return true
		}
		nDraws++
		o := objOf(info, sel.X)
		var inner *mapLoop
		for i := range loops {
			l := &loops[i]
			if l.rs.Body.Pos() <= call.Pos() && call.End() <= l.rs.Body.End() {
				if inner == nil || l.rs.Pos() > inner.rs.Pos() {
					inner = l
				}
			}
		}
		if inner == nil {
			return true // not inside a map loop: order of draws is the program order
		}
		def := singleDef(fn, info, o)
		switch {
		case def == nil:
			bad, badPos = "the random stream "+canon(sel.X)+" has no single definition", p.Pos(call.Pos())
		case !(inner.rs.Body.Pos() <= def.Pos() && def.End() <= inner.rs.Body.End()):
			bad, badPos = "the random stream "+canon(sel.X)+" is created outside the loop over the zones (a map) and advanced inside it: the zones receive its draws in map-iteration order, so recomputing the tenant's sub-ring gives a different node set", p.Pos(call.Pos())
		default:
			// seeded by ShuffleShardSeed(tenant, <loop key>)
			seedTxt := expandDefText(fn, info, def)
			k := ""
			if inner.key != nil {
				k = inner.key.Name()
			}
			if !strings.Contains(seedTxt, "ShuffleShardSeed("+namesOf(fn).P(0)+","+k+")") {
				bad, badPos = "the per-zone random stream is seeded by "+seedTxt+", not by ShuffleShardSeed(tenant, "+k+")", p.Pos(def.Pos())
			}
		}
		return true
	})
	switch {
	case nDraws == 0:
		c.Incomplete("zone-selection-order-independent", construct+"#stream", p.Pos(fn.Decl.Pos()), "no random draw found")
	default:
		c.Check(bad == "", "zone-selection-order-independent", construct+"#stream", badPos, "stream-shared-across-map-iterations", bad)
	}
	// global rand in this function
	usesGlobal := ""
	ast.Inspect(fn.Body(), func(nd ast.Node) bool {
		if call, ok := nd.(*ast.CallExpr); ok {
			if f := calleeOf(info, call); f != nil && f.Pkg() != nil && strings.HasPrefix(f.Pkg().Path(), "math/rand") {
				if sig, ok := f.Type().(*types.Signature); ok && sig.Recv() == nil && !strings.HasPrefix(f.Name(), "New") {
					usesGlobal = f.Name()
				}
			}
		}
		return true
	})
	c.Check(usesGlobal == "", "zone-selection-order-independent", construct+"#global-rand", p.Pos(fn.Decl.Pos()), "global-rand", "the selection draws from the process-global random source (rand."+usesGlobal+")")
	// sections per zone sorted before the selection loop
	sortedPos, selPos := token.NoPos, token.NoPos
	ast.Inspect(fn.Body(), func(nd ast.Node) bool {
		call, ok := nd.(*ast.CallExpr)
		if !ok {
			return true
		}
		if f := calleeOf(info, call); f != nil && (f.Name() == "Sort" || f.Name() == "Stable") && len(call.Args) == 1 && sortedPos == token.NoPos {
			// the per-zone section lists: an element of a map of section lists
			if ix, ok := unparen(call.Args[0]).(*ast.IndexExpr); ok {
				if m, ok := info.TypeOf(ix.X).Underlying().(*types.Map); ok && strings.HasSuffix(shortType(m.Elem()), "sections") {
					sortedPos = call.Pos()
				}
			}
		}
		if sel, ok := unparen(call.Fun).(*ast.SelectorExpr); ok && isRandStream(info.TypeOf(sel.X)) && selPos == token.NoPos {
			selPos = call.Pos()
		}
		return true
	})
	c.Check(sortedPos != token.NoPos && selPos != token.NoPos && sortedPos < selPos, "zone-selection-order-independent", construct+"#sections-sorted", p.Pos(fn.Decl.Pos()), "sections-not-sorted",
		"the sections of each zone must be sorted by hash before positions are searched in them")

	// (4)
	okTake := false
	var takeVar types.Object
	ast.Inspect(fn.Body(), func(nd ast.Node) bool {
		is, ok := nd.(*ast.IfStmt)
		if !ok || is.Else == nil || !strings.HasSuffix(canon(is.Cond), ".ZoneAwarenessDisabled") {
			return true
		}
		thenTxt, elseTxt := "", ""
		var thenVar, elseVar types.Object
		if len(is.Body.List) == 1 {
			if as, ok := is.Body.List[0].(*ast.AssignStmt); ok && len(as.Lhs) == 1 {
				thenVar = objOf(info, as.Lhs[0])
				thenTxt = expandDefText(fn, info, as.Rhs[0])
			}
		}
		if eb, ok := is.Else.(*ast.BlockStmt); ok && len(eb.List) == 1 {
			if as, ok := eb.List[0].(*ast.AssignStmt); ok && len(as.Lhs) == 1 {
				elseVar = objOf(info, as.Lhs[0])
				// the per-zone share: ShuffleShardExpectedInstancesPerZone(<shard size>, len(<zones map>))
				if call, ok := unparen(as.Rhs[0]).(*ast.CallExpr); ok && len(call.Args) == 2 {
					elseTxt = canon(call.Fun) + "(" + expandDefText(fn, info, call.Args[0]) + "," + canon(call.Args[1]) + ")"
				}
			}
		}
		// both branches set the same variable: the shard size itself, or the per-zone share of it over the zones map
		zones := ""
		for _, l := range loops {
			if l.rs.Value != nil && zones == "" {
				zones = canon(l.rs.X)
			}
		}
		size := "getShardSize(" + namesOf(fn).P(0) + ")"
		if thenVar != nil && thenVar == elseVar && strings.Contains(thenTxt, size) &&
			strings.HasPrefix(elseTxt, "ShuffleShardExpectedInstancesPerZone(") && strings.Contains(elseTxt, size+",len("+zones+"))") {
			okTake = true
			takeVar = thenVar
		}
		return true
	})
	if ef := p.Func(rel, "", "ShuffleShardExpectedInstancesPerZone"); ef != nil && okTake {
		t := ""
		if len(ef.Decl.Body.List) == 1 {
			if ret, ok := ef.Decl.Body.List[0].(*ast.ReturnStmt); ok && len(ret.Results) == 1 {
				t = canon(ret.Results[0])
			}
		}
		if t != "int(math.Ceil(float64("+namesOf(ef).P(0)+")/float64("+namesOf(ef).P(1)+")))" {
			okTake = false
		}
	}
	c.Check(okTake, "shard-size-per-zone", construct+"#take", p.Pos(fn.Decl.Pos()), "take-formula", "take must be the shard size without zone awareness and ceil(shardSize/zones) with it")
	okErr := false
	ast.Inspect(fn.Body(), func(nd ast.Node) bool {
		is, ok := nd.(*ast.IfStmt)
		if !ok || len(is.Body.List) == 0 || takeVar == nil {
			return true
		}
		// take > len(<the zone's nodes: the value variable of the loop over the zones>)
		be, isBin := unparen(is.Cond).(*ast.BinaryExpr)
		if !isBin || be.Op != token.GTR || objOf(info, be.X) != takeVar {
			return true
		}
		isZoneNodes := false
		for _, l := range loops {
			if l.rs.Value != nil && canon(be.Y) == "len("+canon(l.rs.Value)+")" {
				isZoneNodes = true
			}
		}
		if !isZoneNodes {
			return true
		}
		if ret, ok := is.Body.List[len(is.Body.List)-1].(*ast.ReturnStmt); ok && len(ret.Results) == 2 && isNil(info, ret.Results[0]) && !isNil(info, ret.Results[1]) {
			okErr = true
		}
		return true
	})
	c.Check(okErr, "shard-size-per-zone", construct+"#too-small-zone", p.Pos(fn.Decl.Pos()), "zone-truncated", "a zone with fewer nodes than take must be reported as an error")

	// every pick finds a node: the search for the next node that is not picked yet goes once around the
	// WHOLE section list of the zone, starting at the random position and wrapping past the end. Since
	// take <= number of nodes of the zone (checked above), a full lap always meets an unpicked node; a walk
	// that stops at the end of the list leaves the tenant with fewer nodes than configured.
	var lap *ast.RangeStmt
	var lapFor *ast.ForStmt
	bind := shapeBind{}
	ast.Inspect(fn.Body(), func(nd ast.Node) bool {
		var body *ast.BlockStmt
		okHead := false
		switch v := nd.(type) {
		case *ast.RangeStmt:
			b := shapeBind{}
			if v.Key != nil && v.Value == nil && matchShape("len(§S)", canon(v.X), b) {
				b["§j"] = canon(v.Key)
				body, okHead, bind = v.Body, true, b
				if lapBodyOK(p, body, bind) {
					lap = v
				}
			}
		case *ast.ForStmt:
			b := shapeBind{}
			if v.Init != nil && v.Cond != nil && v.Post != nil && matchShape("§j:=0", stmtText(p, v.Init), b) && matchShape("§j<len(§S)", canon(v.Cond), b) && matchShape("§j++", stmtText(p, v.Post), b) {
				body, okHead, bind = v.Body, true, b
				if lapBodyOK(p, body, bind) {
					lapFor = v
				}
			}
		}
		_ = okHead
		return true
	})
	pickOK := lap != nil || lapFor != nil
	why := "no loop of the form `for j := range len(S) { idx := (start + j) % len(S); sec := S[idx]; … }` was found around the pick"
	if pickOK {
		// the only way to move on without picking is the already-selected test; the pick ends the lap
		var body *ast.BlockStmt
		if lap != nil {
			body = lap.Body
		} else {
			body = lapFor.Body
		}
		paths, err := enumPaths(body.List[2:])
		if err != nil {
			pickOK, why = false, err.Error()
		}
		for _, pth := range paths {
			picked := false
			for _, a := range pth.Acts {
				if as, ok := a.(*ast.AssignStmt); ok && len(as.Rhs) == 1 {
					if call, ok := unparen(as.Rhs[0]).(*ast.CallExpr); ok {
						if id, ok := call.Fun.(*ast.Ident); ok && id.Name == "append" {
							picked = true
						}
					}
				}
			}
			skippedBecauseSelected := false
			for _, cnd := range pth.Conds {
				if id, ok := unparen(cnd.Atom).(*ast.Ident); ok && cnd.Pol {
					o := objOf(info, id)
					ast.Inspect(body, func(x ast.Node) bool {
						if as, ok := x.(*ast.AssignStmt); ok && len(as.Lhs) == 2 && len(as.Rhs) == 1 && objOf(info, as.Lhs[1]) == o {
							if ix, ok := unparen(as.Rhs[0]).(*ast.IndexExpr); ok {
								if _, isMap := info.TypeOf(ix.X).Underlying().(*types.Map); isMap {
									skippedBecauseSelected = true
								}
							}
						}
						return true
					})
				}
			}
			switch {
			case picked && pth.End != "break" && pth.End != "return":
				pickOK, why = false, "after a node is picked the search goes on: more than one node per draw"
			case !picked && pth.End == "next" && !skippedBecauseSelected:
				pickOK, why = false, "a section is passed over for a reason other than `its node is already picked`"
			case !picked && pth.End != "next":
				pickOK, why = false, "the search ends without picking a node"
			}
		}
	}
	c.Check(pickOK, "shard-size-per-zone", construct+"#every-draw-picks-a-node", p.Pos(fn.Decl.Pos()), "pick-walk-not-a-full-lap", why)
}

// lapBodyOK: first statement `idx := (start + j) % len(S)`, second `sec := S[idx]`.
func lapBodyOK(p *Prog, body *ast.BlockStmt, b shapeBind) bool {
	if len(body.List) < 3 {
		return false
	}
	b1 := shapeBind{}
	for k, v := range b {
		b1[k] = v
	}
	if !matchShape("§idx:=(§start+§j)%len(§S)", stmtText(p, body.List[0]), b1) && !matchShape("§idx:=(§j+§start)%len(§S)", stmtText(p, body.List[0]), b1) {
		return false
	}
	if !matchShape("§sec:=§S[§idx]", stmtText(p, body.List[1]), b1) {
		return false
	}
	for k, v := range b1 {
		b[k] = v
	}
	return true
}
