package main

import (
	"fmt"
	"go/ast"
	"go/token"
	"go/types"
	"strings"
)

func init() {
	register(&Property{
		ID:    "C22",
		Title: "An acknowledged remote write reached quorum for every series",
		Explain: "(1) E9: writeQuorum() read as a formula over the atom rf and compared on rf in 1..8 (thorough 1..24) with the documented table rf==2 -> 1, else floor(rf/2)+1. " +
			"(2) fanoutForward: successThreshold is writeQuorum() and only ever overwritten by the constant 1 under `alreadyReplicated`; failureThreshold's defining expression is compared (E9, all assignments of nrep,S in 0..6) with nrep - S + 1; canReturnEarly is summarised (E12) and compared on all finite models with FORALL i. !(successes[i] < S && conflictFailures[i] < F); its call passes the counters incremented on the success / conflict branches and the two thresholds in the right positions. " +
			"(3) Audited exits: every return of fanoutForward yields ctx.Err(), the distribution error or writeErrors.ErrOrNil(); each ErrOrNil exit is immediately preceded by a scan over all per-series errors that adds the series' error iff failures[i] >= failureThreshold (guard compared by E9). " +
			"(4) Per response, failures/successes are incremented once per series id of that response (exactly one increment site per counter, inside a range over resp.seriesIDs, on the err != nil / else branch respectively); distributeTimeseriesToReplicas appends every series under every requested replica number (no continue/break in the replica loop, appends at the loop body's top level) or returns an error. " +
			"(5) The replica header is rejected iff rep > rf before forwarding (E9), and decremented only when replicated.",
		Assume: []string{"peers really store what they acknowledge (remote side is out of scope)", "a response carries exactly the series ids that were sent to that peer"},
		Run:    runC22,
	})
}

func recvFieldAtom(names map[string]string) func(e ast.Expr, text string) string {
	return func(e ast.Expr, text string) string {
		t := strings.ReplaceAll(text, " ", "")
		return names[t]
	}
}

func runC22(c *Ctx) {
	c.Rule("quorum-table", "writeQuorum == (rf==2 ? 1 : rf/2+1)", 1)
	c.Rule("thresholds", "successThreshold/failureThreshold definitions", 2)
	c.Rule("early-return-shape", "canReturnEarly == ALL i. !(succ<S && confl<F)", 2)
	c.Rule("audited-exits", "only audited return values; ErrOrNil preceded by the failure scan", 3)
	c.Rule("count-once", "one increment per counter per response series id", 3)
	c.Rule("distribute-all", "every series under every replica or an error", 1)
	c.Rule("replica-header", "rep > rf rejected; decrement only when replicated", 2)
	p := c.Load("pkg/receive")
	if p == nil {
		return
	}
	const rel = "pkg/receive"
	hi := int64(8)
	if c.Tier == "thorough" {
		hi = 24
	}
	// (1)
	wq := p.Func(rel, "Handler", "writeQuorum")
	if wq == nil {
		c.Incomplete("quorum-table", rel+".(*Handler).writeQuorum", "", "function not found")
	} else {
		x := newE9(p, wq, recvFieldAtom(map[string]string{"h.options.ReplicationFactor": "rf"}))
		n, cx, err := e9Table([]string{"rf"}, intRange(1, hi), nil,
			func(env map[string]int64) (int64, error) {
				v, err := x.evalBody(wq.Decl.Body.List, env)
				return v.i, err
			},
			func(env map[string]int64) int64 {
				if env["rf"] == 2 {
					return 1
				}
				return env["rf"]/2 + 1
			})
		c.Stats["assignments_evaluated"] += n
		reportE9(c, "quorum-table", rel+".(*Handler).writeQuorum", p.Pos(wq.Decl.Pos()), cx, err, "writeQuorum differs from floor(rf/2)+1 (rf=2: 1)")
	}

	ff := p.Func(rel, "Handler", "fanoutForward")
	if ff == nil {
		c.Incomplete("thresholds", rel+".(*Handler).fanoutForward", "", "function not found")
		return
	}
	info := ff.Info()
	// locate the threshold variables by provenance
	var sVar, fVar types.Object
	var fDef ast.Expr
	inspectNoLit(ff.Body(), func(n ast.Node) bool {
		as, ok := n.(*ast.AssignStmt)
		if !ok || as.Tok != token.DEFINE || len(as.Lhs) != 1 || len(as.Rhs) != 1 {
			return true
		}
		if call, ok := unparen(as.Rhs[0]).(*ast.CallExpr); ok {
			if f := calleeOf(info, call); f != nil && f == wq.Obj {
				sVar = objOf(info, as.Lhs[0])
			}
		}
		return true
	})
	if sVar == nil {
		c.Bad("thresholds", rel+".fanoutForward#successThreshold", p.Pos(ff.Decl.Pos()), "success-threshold-not-quorum", "no variable is initialised from writeQuorum(): the success threshold is not the write quorum")
		return
	}
	// all other assignments to sVar: constant 1 under alreadyReplicated
	okS := true
	inspectNoLit(ff.Body(), func(n ast.Node) bool {
		as, ok := n.(*ast.AssignStmt)
		if !ok || as.Tok == token.DEFINE {
			return true
		}
		for i, l := range as.Lhs {
			if objOf(info, l) != sVar {
				continue
			}
			v, isC := constInt(info, as.Rhs[i])
			guarded := false
			for par := p.ParentOf(ff.Pkg, n); par != nil && par != ff.Node(); par = p.ParentOf(ff.Pkg, par) {
				if ifs, ok := par.(*ast.IfStmt); ok && within(n, ifs.Body.Pos(), ifs.Body.End()) && strings.HasSuffix(exprString(ifs.Cond), "alreadyReplicated") {
					guarded = true
				}
			}
			if !isC || v != 1 || !guarded || as.Tok != token.ASSIGN {
				okS = false
			}
		}
		return true
	})
	c.Check(okS, "thresholds", rel+".fanoutForward#successThreshold", p.Pos(sVar.Pos()), "success-threshold-overwritten", "the success threshold is overwritten other than by `= 1` under alreadyReplicated")
	// failure threshold: the variable defined from an expression mentioning sVar and len(replicas)
	inspectNoLit(ff.Body(), func(n ast.Node) bool {
		as, ok := n.(*ast.AssignStmt)
		if !ok || as.Tok != token.DEFINE || len(as.Lhs) != 1 || len(as.Rhs) != 1 {
			return true
		}
		usesS := false
		ast.Inspect(as.Rhs[0], func(m ast.Node) bool {
			if id, ok := m.(*ast.Ident); ok && objOf(info, id) == sVar {
				usesS = true
			}
			return true
		})
		if usesS && fVar == nil {
			if _, isCall := unparen(as.Rhs[0]).(*ast.CallExpr); !isCall || strings.HasPrefix(exprString(as.Rhs[0]), "int(") {
				fVar, fDef = objOf(info, as.Lhs[0]), as.Rhs[0]
			}
		}
		return true
	})
	if fVar == nil {
		c.Bad("thresholds", rel+".fanoutForward#failureThreshold", p.Pos(ff.Decl.Pos()), "no-failure-threshold", "no failure threshold derived from the success threshold found")
		return
	}
	{
		x := newE9(p, ff, func(e ast.Expr, text string) string {
			if id, ok := unparen(e).(*ast.Ident); ok && objOf(info, id) == sVar {
				return "S"
			}
			if strings.ReplaceAll(text, " ", "") == "len(params.replicas)" {
				return "nrep"
			}
			return ""
		})
		n, cx, err := e9Table([]string{"S", "nrep"}, intRange(0, 6), nil,
			func(env map[string]int64) (int64, error) { v, err := x.eval(fDef, env); return v.i, err },
			func(env map[string]int64) int64 { return env["nrep"] - env["S"] + 1 })
		c.Stats["assignments_evaluated"] += n
		reportE9(c, "thresholds", rel+".fanoutForward#failureThreshold", p.Pos(fDef.Pos()), cx, err, "failureThreshold differs from len(replicas) - successThreshold + 1")
	}

	// counters: which variable is incremented where
	var succVar, failVar, conflVar, seriesErrsVar types.Object
	var succInc, failInc, conflInc []*ast.IncDecStmt
	var respErrIf *ast.IfStmt
	ast.Inspect(ff.Body(), func(n ast.Node) bool {
		ifs, ok := n.(*ast.IfStmt)
		if ok && respErrIf == nil {
			if x, nonNil, k := nilTest(info, ifs.Cond); k && nonNil && strings.HasSuffix(exprString(x), ".err") && ifs.Else != nil {
				respErrIf = ifs
			}
		}
		return true
	})
	if respErrIf == nil {
		c.Incomplete("count-once", rel+".fanoutForward#response-branch", p.Pos(ff.Decl.Pos()), "`if resp.err != nil {...} else {...}` not found")
		return
	}
	collectInc := func(root ast.Node) []*ast.IncDecStmt {
		var out []*ast.IncDecStmt
		ast.Inspect(root, func(n ast.Node) bool {
			if s, ok := n.(*ast.IncDecStmt); ok && s.Tok == token.INC {
				if _, isIx := unparen(s.X).(*ast.IndexExpr); isIx {
					out = append(out, s)
				}
			}
			return true
		})
		return out
	}
	ixBase := func(s *ast.IncDecStmt) types.Object { return objOf(info, unparen(s.X).(*ast.IndexExpr).X) }
	for _, s := range collectInc(respErrIf.Body) {
		// the one nested under a conflict test is the conflict counter
		underConflict := false
		for par := p.ParentOf(ff.Pkg, s); par != nil && par != ast.Node(respErrIf.Body); par = p.ParentOf(ff.Pkg, par) {
			if ifs, ok := par.(*ast.IfStmt); ok && strings.Contains(strings.ToLower(exprString(ifs.Cond)), "conflict") {
				underConflict = true
			}
		}
		if underConflict {
			conflVar = ixBase(s)
			conflInc = append(conflInc, s)
		} else {
			failVar = ixBase(s)
			failInc = append(failInc, s)
		}
	}
	for _, s := range collectInc(respErrIf.Else) {
		succVar = ixBase(s)
		succInc = append(succInc, s)
	}
	allInc := collectInc(ff.Body())
	countFor := func(o types.Object) int {
		n := 0
		for _, s := range allInc {
			if ixBase(s) == o {
				n++
			}
		}
		return n
	}
	inRespLoop := func(s *ast.IncDecStmt) bool {
		for par := p.ParentOf(ff.Pkg, s); par != nil && par != ff.Node(); par = p.ParentOf(ff.Pkg, par) {
			if r, ok := par.(*ast.RangeStmt); ok {
				ix := unparen(s.X).(*ast.IndexExpr)
				return strings.HasSuffix(exprString(r.X), ".seriesIDs") && r.Value != nil && sameObjExpr(info, r.Value, ix.Index)
			}
		}
		return false
	}
	for _, t := range []struct {
		name string
		v    types.Object
		inc  []*ast.IncDecStmt
	}{{"successes", succVar, succInc}, {"failures", failVar, failInc}, {"conflictFailures", conflVar, conflInc}} {
		construct := rel + ".fanoutForward#" + t.name
		if t.v == nil || len(t.inc) == 0 {
			c.Bad("count-once", construct, p.Pos(respErrIf.Pos()), "counter-not-incremented", "no per-series increment of the "+t.name+" counter on its response branch")
			continue
		}
		ok := len(t.inc) == 1 && countFor(t.v) == 1 && inRespLoop(t.inc[0])
		c.Check(ok, "count-once", construct, p.Pos(t.inc[0].Pos()), "counter-incremented-not-exactly-once",
			fmt.Sprintf("%s must be incremented exactly once per series id of the response (sites on branch: %d, in function: %d, inside `range resp.seriesIDs` indexed by its value: %v)", t.name, len(t.inc), countFor(t.v), inRespLoop(t.inc[0])))
	}
	// seriesErrs: the slice whose element's Add is called next to failures++
	if len(failInc) == 1 {
		if blk, ok := p.ParentOf(ff.Pkg, failInc[0]).(*ast.BlockStmt); ok {
			for _, st := range blk.List {
				if es, ok := st.(*ast.ExprStmt); ok {
					if call, ok := es.X.(*ast.CallExpr); ok {
						if sel, ok := unparen(call.Fun).(*ast.SelectorExpr); ok && sel.Sel.Name == "Add" {
							if ix, ok := unparen(sel.X).(*ast.IndexExpr); ok && sameObjExpr(info, ix.Index, unparen(failInc[0].X).(*ast.IndexExpr).Index) {
								seriesErrsVar = objOf(info, ix.X)
							}
						}
					}
				}
			}
		}
	}
	c.Check(seriesErrsVar != nil, "count-once", rel+".fanoutForward#seriesErrs", p.Pos(respErrIf.Pos()), "error-not-recorded-with-failure",
		"the response error is not added to the per-series error set in the same loop body (and for the same series id) that increments failures")

	// (2c) canReturnEarly shape and call
	cre := p.Func(rel, "", "canReturnEarly")
	if cre == nil {
		c.Incomplete("early-return-shape", rel+".canReturnEarly", "", "function not found")
	} else {
		cls := bfClassifier{
			Atom: func(t string) (string, bool) {
				t = strings.ReplaceAll(t, " ", "")
				switch {
				case strings.HasPrefix(t, "successes[$") && strings.HasSuffix(t, "]<successThreshold"):
					return "succLT", false
				case strings.HasPrefix(t, "successes[$") && strings.HasSuffix(t, "]>=successThreshold"):
					return "succLT", true
				case strings.HasPrefix(t, "conflictFailures[$") && strings.HasSuffix(t, "]<failureThreshold"):
					return "conflLT", false
				case strings.HasPrefix(t, "conflictFailures[$") && strings.HasSuffix(t, "]>=failureThreshold"):
					return "conflLT", true
				}
				return "", false
			},
			Domain: func(t string) string {
				if t == "successes" || t == "conflictFailures" {
					return "N"
				}
				return ""
			},
		}
		f, x := extractBF(p, cre, 0, cls)
		spec := sAll("i", "N", nil, bfNot(bfAnd(sAtom("succLT", "i"), sAtom("conflLT", "i"))))
		pos := p.Pos(cre.Decl.Pos())
		if len(x.errs) > 0 {
			c.Incomplete("early-return-shape", rel+".canReturnEarly", pos, "shape not recognised: "+strings.Join(x.errs, "; "))
		} else {
			n, cx := bfEquivalent(f, spec, 3)
			c.Stats["models_compared"] += n
			if cx != "" {
				c.Bad("early-return-shape", rel+".canReturnEarly", pos, "shape:"+f.String(), "extracted "+f.String()+" differs from "+spec.String()+": "+cx)
			} else {
				c.OK("early-return-shape", rel+".canReturnEarly", pos, f.String())
			}
		}
		// call-site argument provenance
		var call *ast.CallExpr
		ast.Inspect(ff.Body(), func(n ast.Node) bool {
			if cl, ok := n.(*ast.CallExpr); ok && calleeOf(info, cl) == cre.Obj {
				call = cl
			}
			return true
		})
		if call == nil || len(call.Args) != 4 {
			c.Bad("early-return-shape", rel+".fanoutForward#canReturnEarly-call", p.Pos(ff.Decl.Pos()), "no-early-return-call", "canReturnEarly is not called with (successes, conflictFailures, S, F)")
		} else {
			want := []types.Object{succVar, conflVar, sVar, fVar}
			names := []string{"successes counter", "conflict-failure counter", "success threshold", "failure threshold"}
			ok, why := true, ""
			for i, a := range call.Args {
				if objOf(info, a) != want[i] || want[i] == nil {
					ok = false
					why += fmt.Sprintf("argument %d (%s) is not the %s; ", i, exprString(a), names[i])
				}
			}
			c.Check(ok, "early-return-shape", rel+".fanoutForward#canReturnEarly-call", p.Pos(call.Pos()), "early-return-args", why)
		}
	}

	// (3) audited exits
	var distErr types.Object
	inspectNoLit(ff.Body(), func(n ast.Node) bool {
		if as, ok := n.(*ast.AssignStmt); ok && len(as.Rhs) == 1 {
			if call, ok := unparen(as.Rhs[0]).(*ast.CallExpr); ok {
				if f := calleeOf(info, call); f != nil && f.Name() == "distributeTimeseriesToReplicas" && len(as.Lhs) == 2 {
					distErr = objOf(info, as.Lhs[1])
				}
			}
		}
		return true
	})
	nRet := 0
	inspectNoLit(ff.Body(), func(n ast.Node) bool {
		ret, ok := n.(*ast.ReturnStmt)
		if !ok || len(ret.Results) != 2 {
			return true
		}
		nRet++
		r := unparen(ret.Results[1])
		construct := fmt.Sprintf("%s.fanoutForward#return[%d]", rel, nRet-1)
		txt := strings.ReplaceAll(exprString(r), " ", "")
		switch {
		case txt == "ctx.Err()" || isContextErr(info, r):
			c.OK("audited-exits", construct, p.Pos(ret.Pos()), "context error")
		case distErr != nil && objOf(info, r) == distErr:
			// must be on the non-nil edge of the distribution error
			ok := false
			for par := p.ParentOf(ff.Pkg, ret); par != nil && par != ff.Node(); par = p.ParentOf(ff.Pkg, par) {
				if ifs, isIf := par.(*ast.IfStmt); isIf {
					if x, nonNil, k := nilTest(info, ifs.Cond); k && nonNil && objOf(info, x) == distErr && within(ret, ifs.Body.Pos(), ifs.Body.End()) {
						ok = true
					}
				}
			}
			c.Check(ok, "audited-exits", construct, p.Pos(ret.Pos()), "distribution-error-returned-unconditionally", "the distribution error is returned outside its non-nil branch")
		case strings.HasSuffix(txt, ".ErrOrNil()"):
			ok, why := scanPrecedes(p, ff, ret, seriesErrsVar, failVar, fVar)
			c.Check(ok, "audited-exits", construct, p.Pos(ret.Pos()), "ack-without-failure-scan", why)
		default:
			c.Bad("audited-exits", construct, p.Pos(ret.Pos()), "unaudited-return:"+txt, "fanoutForward returns "+txt+": only ctx.Err(), the distribution error and writeErrors.ErrOrNil() (after the per-series failure scan) are audited acknowledgement paths")
		}
		return true
	})

	// (4b) distribute: replica loop
	if df := p.Func(rel, "Handler", "distributeTimeseriesToReplicas"); df == nil {
		c.Incomplete("distribute-all", rel+".distributeTimeseriesToReplicas", "", "function not found")
	} else {
		dinfo := df.Info()
		var loop *ast.RangeStmt
		ast.Inspect(df.Body(), func(n ast.Node) bool {
			if r, ok := n.(*ast.RangeStmt); ok && exprString(r.X) == "replicas" {
				loop = r
			}
			return true
		})
		if loop == nil {
			c.Bad("distribute-all", rel+".distributeTimeseriesToReplicas", p.Pos(df.Decl.Pos()), "no-replica-loop", "no loop over the requested replica numbers")
		} else {
			skips := false
			ast.Inspect(loop.Body, func(n ast.Node) bool {
				if b, ok := n.(*ast.BranchStmt); ok && (b.Tok == token.CONTINUE || b.Tok == token.BREAK) {
					skips = true
				}
				return true
			})
			appends := 0
			for _, st := range loop.Body.List {
				if as, ok := st.(*ast.AssignStmt); ok && len(as.Rhs) == 1 {
					if call, ok := unparen(as.Rhs[0]).(*ast.CallExpr); ok {
						if id, ok := call.Fun.(*ast.Ident); ok && id.Name == "append" && (strings.HasSuffix(exprString(as.Lhs[0]), ".seriesIDs") || strings.HasSuffix(exprString(as.Lhs[0]), ".timeSeries")) {
							appends++
						}
					}
				}
			}
			// every series loop nest above the replica loop must not skip either (only error returns)
			outerSkips := false
			ast.Inspect(df.Body(), func(n ast.Node) bool {
				if b, ok := n.(*ast.BranchStmt); ok && (b.Tok == token.CONTINUE || b.Tok == token.BREAK) {
					outerSkips = true
				}
				return true
			})
			_ = dinfo
			c.Check(!skips && !outerSkips && appends == 2, "distribute-all", rel+".distributeTimeseriesToReplicas", p.Pos(loop.Pos()), "series-not-recorded-for-every-replica",
				fmt.Sprintf("each series must be appended (timeSeries and seriesIDs) under every requested replica number or an error returned (continue/break in replica loop: %v, elsewhere: %v, unconditional appends: %d)", skips, outerSkips, appends))
		}
	}

	// (5) replica header
	if hr := p.Func(rel, "Handler", "handleRequest"); hr == nil {
		c.Incomplete("replica-header", rel+".handleRequest", "", "function not found")
	} else {
		hinfo := hr.Info()
		var guard *ast.IfStmt
		var fwd *ast.CallExpr
		inspectNoLit(hr.Body(), func(n ast.Node) bool {
			switch v := n.(type) {
			case *ast.IfStmt:
				returnsBad := false
				ast.Inspect(v.Body, func(m ast.Node) bool {
					if r, ok := m.(*ast.ReturnStmt); ok && len(r.Results) > 0 && exprString(r.Results[len(r.Results)-1]) == "errBadReplica" {
						returnsBad = true
					}
					return true
				})
				if returnsBad {
					guard = v
				}
			case *ast.CallExpr:
				if f := calleeOf(hinfo, v); f != nil && f.Name() == "forward" {
					fwd = v
				}
			}
			return true
		})
		if guard == nil || fwd == nil {
			c.Bad("replica-header", rel+".handleRequest#guard", p.Pos(hr.Decl.Pos()), "no-bad-replica-guard", "no guard returning errBadReplica before forwarding")
		} else {
			x := newE9(p, hr, recvFieldAtom(map[string]string{"rep": "rep", "h.options.ReplicationFactor": "rf"}))
			n, cx, err := e9Table([]string{"rep", "rf"}, intRange(0, 5), nil,
				func(env map[string]int64) (int64, error) { v, err := x.eval(guard.Cond, env); return b2i(v.b), err },
				func(env map[string]int64) int64 { return b2i(env["rep"] > env["rf"]) })
			c.Stats["assignments_evaluated"] += n
			reportE9(c, "replica-header", rel+".handleRequest#guard", p.Pos(guard.Pos()), cx, err, "the replica header guard differs from rep > replicationFactor")
			c.Check(guard.End() < fwd.Pos(), "replica-header", rel+".handleRequest#guard-before-forward", p.Pos(guard.Pos()), "guard-after-forward", "the bad-replica guard does not precede forwarding")
		}
		// decrement only when replicated
		okDec := false
		inspectNoLit(hr.Body(), func(n ast.Node) bool {
			if d, ok := n.(*ast.IncDecStmt); ok && d.Tok == token.DEC {
				if ifs, ok := p.ParentOf(hr.Pkg, p.ParentOf(hr.Pkg, d)).(*ast.IfStmt); ok && strings.HasSuffix(exprString(ifs.Cond), "replicated") {
					okDec = true
				}
			}
			return true
		})
		c.Check(okDec, "replica-header", rel+".handleRequest#decrement", p.Pos(hr.Decl.Pos()), "replica-index-decrement", "the 1-based replica number is not decremented exactly under `replicated`")
	}
}

func reportE9(c *Ctx, rule, construct, pos, cx string, err error, what string) {
	switch {
	case err != nil:
		c.Incomplete(rule, construct, pos, "expression not understood: "+err.Error())
	case cx != "":
		c.Bad(rule, construct, pos, "formula-mismatch", what+": "+cx)
	default:
		c.OK(rule, construct, pos, "")
	}
}

// scanPrecedes: the return is immediately preceded (same block) by `for i, e := range seriesErrs
// { if failures[i] >= F { writeErrors.Add(e) ... } }`.
func scanPrecedes(p *Prog, ff *Fn, ret *ast.ReturnStmt, seriesErrs, failVar, fVar types.Object) (bool, string) {
	info := ff.Info()
	blk, ok := p.ParentOf(ff.Pkg, ret).(*ast.BlockStmt)
	if !ok {
		if cc, isCC := p.ParentOf(ff.Pkg, ret).(*ast.CaseClause); isCC {
			blk = &ast.BlockStmt{List: cc.Body}
		} else if cc, isCC := p.ParentOf(ff.Pkg, ret).(*ast.CommClause); isCC {
			blk = &ast.BlockStmt{List: cc.Body}
		} else {
			return false, "return is not in a statement list"
		}
	}
	var scan *ast.RangeStmt
	for _, st := range blk.List {
		if st.Pos() >= ret.Pos() {
			break
		}
		if r, ok := st.(*ast.RangeStmt); ok && objOf(info, r.X) == seriesErrs && seriesErrs != nil {
			scan = r
		}
	}
	if scan == nil {
		return false, "writeErrors.ErrOrNil() is returned without the preceding scan over all per-series errors: a request could be acknowledged although a series missed quorum"
	}
	for _, st := range scan.Body.List {
		ifs, ok := st.(*ast.IfStmt)
		if !ok {
			continue
		}
		x := newE9(p, ff, func(e ast.Expr, text string) string {
			e = unparen(e)
			if ix, ok := e.(*ast.IndexExpr); ok && objOf(info, ix.X) == failVar && scan.Key != nil && sameObjExpr(info, ix.Index, scan.Key) {
				return "f"
			}
			if id, ok := e.(*ast.Ident); ok && objOf(info, id) == fVar {
				return "F"
			}
			return ""
		})
		_, cx, err := e9Table([]string{"f", "F"}, intRange(0, 4), nil,
			func(env map[string]int64) (int64, error) { v, err := x.eval(ifs.Cond, env); return b2i(v.b), err },
			func(env map[string]int64) int64 { return b2i(env["f"] >= env["F"]) })
		if err != nil {
			return false, "failure-scan guard not understood: " + err.Error()
		}
		if cx != "" {
			return false, "the failure scan's guard differs from failures[i] >= failureThreshold: " + cx
		}
		adds := false
		ast.Inspect(ifs.Body, func(n ast.Node) bool {
			if call, ok := n.(*ast.CallExpr); ok {
				if sel, ok := unparen(call.Fun).(*ast.SelectorExpr); ok && sel.Sel.Name == "Add" && len(call.Args) == 1 && scan.Value != nil && sameObjExpr(info, call.Args[0], scan.Value) {
					adds = true
				}
			}
			return true
		})
		if !adds {
			return false, "the failure scan does not add the failed series' error to writeErrors"
		}
		return true, ""
	}
	return false, "the scan over per-series errors has no `failures[i] >= failureThreshold` guard"
}
