package main

import (
	"fmt"
	"go/ast"
	"go/token"
	"go/types"
	"sort"
	"strings"
)

func init() {
	register(&Property{
		ID:    "C23",
		Title: "Failed replicated writes report retryable and permanent failures correctly",
		Explain: "(1) Contradiction rule: the threshold handed to newReplicationErrors (which classifies a series' errors as conflict-dominated) is the same variable as the failure threshold that fanoutForward compares with failures[i] / hands to canReturnEarly — two sites deciding one predicate must use one value. " +
			"(2) E9: the decision tail of replicationErrors.Cause is read as a formula over (cnt = count of the most frequent known cause, n = len(errs), T = threshold) and compared on all assignments with cnt <= n in 0..5 against: cnt >= T -> that cause; else n >= T -> errUnavailable; else nil. " +
			"(3) E11 sibling tables: every `switch errors.Cause(err)` over the write sentinels in pkg/receive (HTTP protobuf, OTLP, gRPC, Cap'n Proto) maps errNotReady and errUnavailable to the retryable class (503 / Unavailable / unavailable) and errConflict to the conflict class (409 / AlreadyExists / alreadyExists); none of the three may be missing (it would fall to the default 500/Internal arm). Other sentinels are compared across siblings and reported as observations. " +
			"(4) writeErrors.Cause lists the retryable sentinels before errConflict and returns the first listed cause with a non-zero count, so one retryable series makes the whole request retryable.",
		Assume: []string{"isConflict / isNotReady / isUnavailable classify single errors correctly (opaque)", "the most frequent cause is at index 0 after sort.Sort(sort.Reverse(expErrs))"},
		Run:    runC23,
	})
}

func statusClass(name string) string {
	n := strings.ToLower(name)
	switch {
	case strings.Contains(n, "unavailable"):
		return "retryable"
	case strings.Contains(n, "conflict"), strings.Contains(n, "alreadyexists"):
		return "conflict"
	case strings.Contains(n, "badrequest"), strings.Contains(n, "invalidargument"):
		return "bad-request"
	case strings.Contains(n, "internal"):
		return "internal"
	case strings.Contains(n, "toolarge"), strings.Contains(n, "resourceexhausted"), strings.Contains(n, "toomany"):
		return "limit"
	}
	return ""
}

func runC23(c *Ctx) {
	c.Rule("threshold-agreement", "classifier threshold == failure threshold (same variable)", 1)
	c.Rule("cause-decision", "replicationErrors.Cause tail == spec", 1)
	c.Rule("status-table", "errNotReady/errUnavailable -> retryable, errConflict -> conflict in every handler", 12)
	c.Rule("request-cause-order", "writeErrors.Cause prefers retryable causes", 1)
	c.Rule("early-return-only-when-determined", "canReturnEarly: a series is decided iff successes >= success threshold or conflict failures >= failure threshold", 2)
	p := c.Load("pkg/receive")
	if p == nil {
		return
	}
	const rel = "pkg/receive"
	ff := p.Func(rel, "Handler", "fanoutForward")
	wq := p.Func(rel, "Handler", "writeQuorum")
	if ff == nil || wq == nil {
		c.Incomplete("threshold-agreement", rel+".fanoutForward", "", "fanoutForward / writeQuorum not found")
	} else {
		info := ff.Info()
		// failure threshold = the variable compared (>=) with an indexed counter inside a range over
		// the per-series error slice, guarding writeErrors.Add
		var fVar types.Object
		ast.Inspect(ff.Body(), func(n ast.Node) bool {
			ifs, ok := n.(*ast.IfStmt)
			if !ok {
				return true
			}
			b, ok := unparen(ifs.Cond).(*ast.BinaryExpr)
			if !ok || (b.Op != token.GEQ && b.Op != token.GTR) {
				return true
			}
			if _, isIx := unparen(b.X).(*ast.IndexExpr); !isIx {
				return true
			}
			adds := false
			ast.Inspect(ifs.Body, func(m ast.Node) bool {
				if call, ok := m.(*ast.CallExpr); ok {
					if sel, ok := unparen(call.Fun).(*ast.SelectorExpr); ok && sel.Sel.Name == "Add" && strings.HasSuffix(strings.TrimPrefix(shortType(info.TypeOf(sel.X)), "*"), "receive.writeErrors") {
						adds = true
					}
				}
				return true
			})
			if adds {
				if o := objOf(info, b.Y); o != nil {
					fVar = o
				}
			}
			return true
		})
		var ctor *ast.CallExpr
		ast.Inspect(ff.Body(), func(n ast.Node) bool {
			if call, ok := n.(*ast.CallExpr); ok {
				if f := calleeOf(info, call); f != nil && f.Name() == "newReplicationErrors" {
					ctor = call
				}
			}
			return true
		})
		switch {
		case fVar == nil:
			c.Incomplete("threshold-agreement", rel+".fanoutForward#failure-threshold", p.Pos(ff.Decl.Pos()), "the failure scan `failures[i] >= F → writeErrors.Add` was not found")
		case ctor == nil || len(ctor.Args) < 1:
			c.Incomplete("threshold-agreement", rel+".fanoutForward#newReplicationErrors", p.Pos(ff.Decl.Pos()), "call of newReplicationErrors not found")
		default:
			same := objOf(info, ctor.Args[0]) == fVar
			c.Check(same, "threshold-agreement", rel+".fanoutForward#newReplicationErrors", p.Pos(ctor.Pos()), "classifier-threshold:"+exprString(ctor.Args[0]),
				fmt.Sprintf("replicationErrors classify a series with threshold %s while fanoutForward declares it failed at %s: for even replication factors the two differ (RF 4: two conflicts make quorum impossible yet Cause() is nil → 500; RF 2: one conflict + one unavailable → 409)", exprString(ctor.Args[0]), fVar.Name()))
			// and the constructor stores its first parameter as the threshold
			if nre := p.Func(rel, "", "newReplicationErrors"); nre != nil {
				okStore := false
				var p0 types.Object
				if len(nre.Decl.Type.Params.List) > 0 && len(nre.Decl.Type.Params.List[0].Names) > 0 {
					p0 = nre.Info().Defs[nre.Decl.Type.Params.List[0].Names[0]]
				}
				ast.Inspect(nre.Body(), func(n ast.Node) bool {
					if kv, ok := n.(*ast.KeyValueExpr); ok {
						if k, ok := kv.Key.(*ast.Ident); ok && k.Name == "threshold" && objOf(nre.Info(), kv.Value) == p0 && p0 != nil {
							okStore = true
						}
					}
					return true
				})
				c.Check(okStore, "threshold-agreement", rel+".newReplicationErrors#stores-threshold", p.Pos(nre.Decl.Pos()), "threshold-not-stored", "newReplicationErrors does not store its first parameter as the threshold")
			}
		}
	}

	if ff != nil {
		runC23Early(c, p, ff)
	}

	// (2) Cause decision tail
	if cf := p.Func(rel, "replicationErrors", "Cause"); cf == nil {
		c.Incomplete("cause-decision", rel+".(*replicationErrors).Cause", "", "function not found")
	} else {
		info := cf.Info()
		// statements after the sort call
		var tail []ast.Stmt
		for i, st := range cf.Decl.Body.List {
			if es, ok := st.(*ast.ExprStmt); ok {
				if call, ok := es.X.(*ast.CallExpr); ok && strings.HasPrefix(funcFullName(calleeOf(info, call)), "sort.") {
					tail = cf.Decl.Body.List[i+1:]
				}
			}
		}
		if tail == nil {
			c.Incomplete("cause-decision", rel+".(*replicationErrors).Cause", p.Pos(cf.Decl.Pos()), "no sort of the expected causes found (most frequent cause must be identified)")
		} else {
			// `exp := expErrs[0]` bound in if-init: resolve exp.count / exp.err textually
			x := newE9(p, cf, func(e ast.Expr, text string) string {
				t := strings.ReplaceAll(text, " ", "")
				rn := namesOf(cf).Recv
				// the most frequent cause: an element [0] of the sorted list, directly or through a local bound to it
				isTop := func(x ast.Expr) bool {
					x = unparen(x)
					if id, ok := x.(*ast.Ident); ok {
						if o := objOf(info, id); o != nil {
							if d, ok := unparenOrNil(singleDef(cf, info, o)).(*ast.IndexExpr); ok {
								x = d
							}
						}
					}
					ix, ok := x.(*ast.IndexExpr)
					return ok && canon(ix.Index) == "0"
				}
				if sel, ok := unparen(e).(*ast.SelectorExpr); ok && isTop(sel.X) {
					switch sel.Sel.Name {
					case "count":
						return "cnt"
					case "err":
						return "RET_DOMINANT"
					}
				}
				switch {
				case t == rn+".threshold":
					return "T"
				case t == "len("+rn+".errs)":
					return "n"
				case t == "errUnavailable":
					return "RET_UNAVAILABLE"
				case t == "nil":
					return "RET_NIL"
				}
				return ""
			})
			n, cx, err := e9Table([]string{"cnt", "n", "T"}, intRange(0, 5),
				func(env map[string]int64) bool { return env["cnt"] <= env["n"] && env["n"] >= 1 },
				func(env map[string]int64) (int64, error) {
					env["RET_DOMINANT"], env["RET_UNAVAILABLE"], env["RET_NIL"] = 1, 2, 0
					v, err := x.evalBody(tail, env)
					return v.i, err
				},
				func(env map[string]int64) int64 {
					switch {
					case env["cnt"] >= env["T"]:
						return 1
					case env["n"] >= env["T"]:
						return 2
					}
					return 0
				})
			c.Stats["assignments_evaluated"] += n
			reportE9(c, "cause-decision", rel+".(*replicationErrors).Cause", p.Pos(cf.Decl.Pos()), cx, err,
				"the decision (dominant cause if count >= threshold, else unavailable if len(errs) >= threshold, else nil) is not what Cause computes")
		}
	}

	// (3) status tables
	type table struct {
		fn    *Fn
		pos   token.Pos
		arms  map[string]string // sentinel -> class
		where string
	}
	var tables []table
	for _, fn := range p.AllFuncs(true) {
		units := append([]*Fn{fn}, p.Lits(fn)...)
		for _, u := range units {
			info := u.Info()
			inspectNoLit(u.Body(), func(n ast.Node) bool {
				sw, ok := n.(*ast.SwitchStmt)
				if !ok || sw.Tag == nil {
					return true
				}
				call, ok := unparen(sw.Tag).(*ast.CallExpr)
				if !ok || !strings.HasSuffix(funcFullName(calleeOf(info, call)), "errors.Cause") {
					return true
				}
				t := table{fn: u, pos: sw.Pos(), arms: map[string]string{}, where: relPkg(u.Pkg.PkgPath) + "." + u.Name}
				sentinels := 0
				for _, cl := range sw.Body.List {
					cc := cl.(*ast.CaseClause)
					class := ""
					for _, st := range cc.Body {
						ast.Inspect(st, func(m ast.Node) bool {
							switch v := m.(type) {
							case *ast.SelectorExpr:
								if k := statusClass(v.Sel.Name); k != "" && class == "" {
									if _, isConst := info.Uses[v.Sel].(*types.Const); isConst {
										class = k
									}
								}
							}
							return true
						})
					}
					if cc.List == nil {
						t.arms["default"] = class
						continue
					}
					for _, e := range cc.List {
						name := exprString(e)
						if strings.HasPrefix(name, "err") {
							sentinels++
						}
						t.arms[name] = class
					}
				}
				if sentinels >= 2 {
					tables = append(tables, t)
				}
				return true
			})
		}
	}
	sort.Slice(tables, func(i, j int) bool { return tables[i].pos < tables[j].pos })
	want := map[string]string{"errNotReady": "retryable", "errUnavailable": "retryable", "errConflict": "conflict"}
	allSentinels := map[string]bool{}
	for _, t := range tables {
		for s := range t.arms {
			if strings.HasPrefix(s, "err") {
				allSentinels[s] = true
			}
		}
	}
	for _, t := range tables {
		for _, s := range []string{"errNotReady", "errUnavailable", "errConflict"} {
			got, has := t.arms[s]
			construct := t.where + "#" + s
			switch {
			case !has:
				c.Bad("status-table", construct, p.Pos(t.pos), "sentinel-falls-to-default:"+s, s+" has no arm in this handler's error switch and is reported through the default arm ("+t.arms["default"]+")")
			case got != want[s]:
				c.Bad("status-table", construct, p.Pos(t.pos), "sentinel-misclassified:"+s+"->"+got, s+" is reported as "+got+" here, the sibling handlers and the property require "+want[s])
			default:
				c.OK("status-table", construct, p.Pos(t.pos), got)
			}
		}
		for s := range allSentinels {
			if _, has := t.arms[s]; !has && want[s] == "" {
				c.Observe("status-table", t.where+"#"+s, p.Pos(t.pos), s+" is handled by a sibling handler but falls to the default arm here")
			}
		}
	}
	c.Stats["status_switches"] += len(tables)

	// (4) request-level cause order
	if wc := p.Func(rel, "writeErrors", "Cause"); wc == nil {
		c.Incomplete("request-cause-order", rel+".(*writeErrors).Cause", "", "function not found")
	} else {
		var order []string
		ast.Inspect(wc.Body(), func(n ast.Node) bool {
			cl, ok := n.(*ast.CompositeLit)
			if !ok || len(order) > 0 {
				return true
			}
			for _, el := range cl.Elts {
				if inner, ok := el.(*ast.CompositeLit); ok {
					for _, kv := range inner.Elts {
						if k, ok := kv.(*ast.KeyValueExpr); ok && exprString(k.Key) == "err" {
							order = append(order, exprString(k.Value))
						}
					}
				}
			}
			return true
		})
		idx := func(s string) int {
			for i, o := range order {
				if o == s {
					return i
				}
			}
			return -1
		}
		okOrder := idx("errConflict") >= 0 && idx("errUnavailable") >= 0 && idx("errNotReady") >= 0 && idx("errUnavailable") < idx("errConflict") && idx("errNotReady") < idx("errConflict")
		// first listed with count > 0 is returned: a range over the list returning on count > 0
		firstWins := false
		ast.Inspect(wc.Body(), func(n ast.Node) bool {
			if r, ok := n.(*ast.RangeStmt); ok {
				for _, st := range r.Body.List {
					if ifs, ok := st.(*ast.IfStmt); ok && strings.Contains(strings.ReplaceAll(exprString(ifs.Cond), " ", ""), ".count>0") {
						if len(ifs.Body.List) == 1 {
							if _, isRet := ifs.Body.List[0].(*ast.ReturnStmt); isRet {
								firstWins = true
							}
						}
					}
				}
			}
			return true
		})
		c.Check(okOrder && firstWins, "request-cause-order", rel+".(*writeErrors).Cause", p.Pos(wc.Decl.Pos()), "conflict-preferred-over-retryable:"+strings.Join(order, ","),
			"writeErrors.Cause must prefer errUnavailable/errNotReady over errConflict (listed order: "+strings.Join(order, ",")+", first-non-zero-wins loop: "+boolStr(firstWins)+")")
	}
}

func unparenOrNil(e ast.Expr) ast.Expr {
	if e == nil {
		return nil
	}
	return unparen(e)
}

// runC23Early: the answer must not depend on the order in which replicas respond. fanoutForward may
// stop waiting early only when every series' outcome can no longer change: it reached the success
// threshold, or its CONFLICT failures alone reached the failure threshold (then the dominant cause is
// settled). Failures of other kinds must not end the wait — a later conflict response could still
// turn a retryable answer into a permanent one. The roles of the counters are taken from how
// fanoutForward updates them, the per-series decision of canReturnEarly is evaluated for all small
// counter values.
func runC23Early(c *Ctx, p *Prog, ff *Fn) {
	const rel, rule = "pkg/receive", "early-return-only-when-determined"
	cre := p.Func(rel, "", "canReturnEarly")
	if cre == nil {
		c.Incomplete(rule, rel+".canReturnEarly", "", "function not found")
		return
	}
	info := ff.Info()
	// roles in fanoutForward
	role := map[types.Object]string{}
	ast.Inspect(ff.Body(), func(n ast.Node) bool {
		switch v := n.(type) {
		case *ast.AssignStmt:
			if len(v.Lhs) == 1 && len(v.Rhs) == 1 {
				if call, ok := unparen(v.Rhs[0]).(*ast.CallExpr); ok {
					if f := calleeOf(info, call); f != nil && f.Name() == "writeQuorum" {
						role[objOf(info, v.Lhs[0])] = "st"
					}
				}
			}
		case *ast.CallExpr:
			if f := calleeOf(info, v); f != nil && f.Name() == "newReplicationErrors" && len(v.Args) > 0 {
				role[objOf(info, v.Args[0])] = "ft"
			}
		case *ast.IncDecStmt:
			ix, ok := unparen(v.X).(*ast.IndexExpr)
			if !ok || v.Tok != token.INC {
				return true
			}
			o := objOf(info, ix.X)
			if o == nil {
				return true
			}
			kind := "f" // counted for every failed response
			for _, g := range guardsOf(p, ff, v) {
				refine(g.Cond, g.Pol, func(atom ast.Expr, t bool) {
					if x, nonNil, ok := nilTest(info, atom); ok && isErrorType(info.TypeOf(x)) && nonNil != t {
						kind = "s" // under err == nil
					}
					if id, ok := unparen(atom).(*ast.Ident); ok && t {
						if d := singleDef(ff, info, objOf(info, id)); d != nil && strings.Contains(canon(d), "isConflict(") {
							kind = "c"
						}
					}
				})
			}
			if prev, seen := role[o]; !seen || prev == "f" {
				role[o] = kind
			}
		}
		return true
	})
	var call *ast.CallExpr
	ast.Inspect(ff.Body(), func(n ast.Node) bool {
		if cl, ok := n.(*ast.CallExpr); ok && calleeOf(info, cl) == cre.Obj && cre.Obj != nil {
			call = cl
		}
		return true
	})
	if call == nil {
		c.Incomplete(rule, rel+".canReturnEarly", p.Pos(ff.Decl.Pos()), "call from fanoutForward not found")
		return
	}
	names := namesOf(cre)
	paramRole := map[string]string{}
	for i, a := range call.Args {
		if r, ok := role[objOf(info, a)]; ok && i < len(names.Params) {
			paramRole[names.Params[i]] = r
		}
	}
	got := map[string]bool{}
	for _, r := range paramRole {
		got[r] = true
	}
	if !got["s"] || !got["c"] || !got["st"] || !got["ft"] {
		c.Incomplete(rule, rel+".canReturnEarly", p.Pos(call.Pos()), fmt.Sprintf("roles of the arguments not recognised (%v)", paramRole))
		return
	}
	var loop *ast.RangeStmt
	for _, st := range cre.Body().List {
		if r, ok := st.(*ast.RangeStmt); ok {
			loop = r
		}
	}
	if loop == nil || loop.Key == nil {
		c.Incomplete(rule, rel+".canReturnEarly", p.Pos(cre.Decl.Pos()), "loop over the series not found")
		return
	}
	key := canon(loop.Key)
	x := newE9(p, cre, func(e ast.Expr, text string) string {
		t := strings.ReplaceAll(text, " ", "")
		if ix, ok := unparen(e).(*ast.IndexExpr); ok && canon(ix.Index) == key {
			return paramRole[canon(ix.X)]
		}
		return paramRole[t]
	})
	atoms := []string{"s", "c", "st", "ft"}
	if got["f"] {
		atoms = append(atoms, "f")
	}
	n, cx, err := e9Table(atoms, intRange(0, 2),
		func(env map[string]int64) bool {
			if env["st"] < 1 || env["ft"] < 1 {
				return false
			}
			if f, ok := env["f"]; ok && env["c"] > f {
				return false
			}
			return true
		},
		func(env map[string]int64) (int64, error) {
			v, err := x.evalBody(loop.Body.List, env)
			if err != nil {
				return 0, err
			}
			if v.isNone() || v == e9Cont {
				return 1, nil // the series does not stop the early return: determined
			}
			return b2i(v.b), nil // `return false`: undetermined
		},
		func(env map[string]int64) int64 { return b2i(env["s"] >= env["st"] || env["c"] >= env["ft"]) })
	c.Stats["assignments_evaluated"] += n
	reportE9(c, rule, rel+".canReturnEarly#per-series", p.Pos(loop.Pos()), cx, err,
		"a series counts as decided although neither its successes reached the success threshold nor its conflict failures the failure threshold (s = successes, c = conflict failures, f = all failures): which answer the request gets then depends on the order of the replica responses still outstanding")
	// after the loop: true
	okTail := false
	if last, ok := cre.Body().List[len(cre.Body().List)-1].(*ast.ReturnStmt); ok && len(last.Results) == 1 && canon(last.Results[0]) == "true" {
		okTail = true
	}
	c.Check(okTail, rule, rel+".canReturnEarly#all-decided", p.Pos(cre.Decl.Pos()), "early-return-shape", "canReturnEarly must answer true exactly when no series is undecided")
}
