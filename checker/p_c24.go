package main

func init() {
	register(&Property{
		ID:    "C24",
		Title: "The remote-write concurrency gate is never exceeded",
		Explain: "E2(a) gate pairing typestate over every user of a gate.Gate-shaped value (methods Start(context.Context) error / Done()) in ./pkg/... ./cmd/... ./internal/...: " +
			"per function (function literals analysed separately, closures handed to tracing.DoInSpan* inlined) a forward dataflow over go/cfg tracks {not-started, start-error-untested, held, held+deferred-Done, released, start-failed}; " +
			"`err != nil` / `err == nil` branches on the variable bound to Start's result move untested→failed/held. Done (called or deferred) is legal only in state held; an exit in state held is a leaked slot. " +
			"This decides the pairing clause (Done only after a successful Start, exactly one Done per successful Start on all paths) which is necessary for 'the limit is never exceeded and waiting requests never crash'; it does not decide the gate implementation itself.",
		Assume: []string{"prometheus/util/gate.Gate and the thanos wrappers in pkg/gate implement a counting semaphore (trusted, exempt from the pairing rule because pairing spans two methods)",
			"tracing.DoInSpan / DoInSpanWithErr / DoWithSpan run their function argument synchronously exactly once (checked by reading; frozen table)"},
		Run: func(c *Ctx) {
			c.Rule("gate-pairing", "Done (called or deferred) only in state 'Start returned nil'; no exit while held without Done; Start's error is tested", 7)
			p := c.Load("pkg/...", "cmd/...", "internal/...")
			if p == nil {
				return
			}
			checkGatePairing(c, p, "gate-pairing")
		},
	})
}
