package main

import (
	"go/ast"
	"strings"
)

func init() {
	register(&Property{
		ID:    "C24",
		Title: "The remote-write concurrency gate is never exceeded",
		Explain: "E2(a) gate pairing typestate over every user of a gate.Gate-shaped value (methods Start(context.Context) error / Done()) in ./pkg/... ./cmd/... ./internal/...: " +
			"per function (function literals analysed separately, closures handed to tracing.DoInSpan* inlined) a forward dataflow over go/cfg tracks {not-started, start-error-untested, held, held+deferred-Done, released, start-failed}; " +
			"`err != nil` / `err == nil` branches on the variable bound to Start's result move untested→failed/held. Done (called or deferred) is legal only in state held; an exit in state held is a leaked slot. " +
			"This decides the pairing clause (Done only after a successful Start, exactly one Done per successful Start on all paths) which is necessary for 'the limit is never exceeded and waiting requests never crash'; it does not decide the gate implementation itself. " +
			"Wiring: Limiter.loadConfig installs the limiting gate under exactly one condition, max_concurrency > 0 (no receiver mode, tenant or other setting in the path condition), and the protobuf and OTLP handlers take their gate from Limiter.WriteGate().",
		Assume: []string{"prometheus/util/gate.Gate and the thanos wrappers in pkg/gate implement a counting semaphore (trusted, exempt from the pairing rule because pairing spans two methods)",
			"tracing.DoInSpan / DoInSpanWithErr / DoWithSpan run their function argument synchronously exactly once (checked by reading; frozen table)"},
		Run: func(c *Ctx) {
			c.Rule("gate-pairing", "Done (called or deferred) only in state 'Start returned nil'; no exit while held without Done; Start's error is tested", 7)
			c.Rule("gate-installed-iff-limit-configured", "the limiting gate replaces the no-op gate whenever max_concurrency > 0, whatever else is configured; both write endpoints use the limiter's gate", 3)
			p := c.Load("pkg/...", "cmd/...", "internal/...")
			if p == nil {
				return
			}
			checkGatePairing(c, p, "gate-pairing")
			runC24Config(c, p)
		},
	})
}

func runC24Config(c *Ctx, p *Prog) {
	const rel, rule = "pkg/receive", "gate-installed-iff-limit-configured"
	fn := p.Func(rel, "Limiter", "loadConfig")
	if fn == nil {
		c.Incomplete(rule, rel+".(*Limiter).loadConfig", "", "function not found")
		return
	}
	info := fn.Info()
	n := 0
	ast.Inspect(fn.Body(), func(nd ast.Node) bool {
		as, ok := nd.(*ast.AssignStmt)
		if !ok || len(as.Lhs) != 1 || len(as.Rhs) != 1 {
			return true
		}
		sel, ok := unparen(as.Lhs[0]).(*ast.SelectorExpr)
		if !ok || sel.Sel.Name != "writeGate" {
			return true
		}
		n++
		var extra []string
		limit := false
		for _, g := range guardsOf(p, fn, as) {
			t := canon(g.Cond)
			var atoms []string
			refine(g.Cond, g.Pol, func(atom ast.Expr, tv bool) {
				if _, _, isNilTest := nilTest(info, atom); isNilTest {
					return // error / nil tests of loading the configuration itself
				}
				a := expandDefText(fn, info, atom)
				if be, ok := unparen(atom).(*ast.BinaryExpr); ok {
					a = expandDefText(fn, info, be.X) + be.Op.String() + expandDefText(fn, info, be.Y)
				}
				if !tv {
					a = "!(" + a + ")"
				}
				atoms = append(atoms, strings.ReplaceAll(a, " ", ""))
			})
			if len(atoms) == 0 {
				if _, _, isNilTest := nilTest(info, g.Cond); !isNilTest {
					atoms = []string{t}
				}
			}
			for _, a := range atoms {
				switch {
				case strings.HasSuffix(a, ".MaxConcurrency>0") || strings.HasSuffix(a, ".MaxConcurrency!=0"):
					limit = true
				default:
					extra = append(extra, a)
				}
			}
		}
		bad := ""
		switch {
		case !limit:
			bad = "the limiting gate is not installed under `max_concurrency > 0`"
		case len(extra) > 0:
			bad = "the limiting gate is installed only if also " + strings.Join(extra, " and ") + ": with that condition false the receiver keeps the no-op gate although a maximum concurrency is configured"
		}
		c.Check(bad == "", rule, rel+".(*Limiter).loadConfig#install", p.Pos(as.Pos()), "gate-install-condition", bad)
		return true
	})
	if n == 0 {
		c.Incomplete(rule, rel+".(*Limiter).loadConfig#install", p.Pos(fn.Decl.Pos()), "no assignment to the write gate found")
	}
	// both endpoints take the gate from the limiter
	for _, h := range [][2]string{{"Handler", "receiveHTTP"}, {"Handler", "receiveOTLPHTTP"}} {
		hf := p.Func(rel, h[0], h[1])
		if hf == nil {
			c.Incomplete(rule, rel+".(*Handler)."+h[1], "", "function not found")
			continue
		}
		ok := false
		ast.Inspect(hf.Body(), func(nd ast.Node) bool {
			if call, isCall := nd.(*ast.CallExpr); isCall {
				if f := calleeOf(hf.Info(), call); f != nil && f.Name() == "WriteGate" {
					ok = true
				}
			}
			return true
		})
		c.Check(ok, rule, rel+".(*Handler)."+h[1]+"#uses-limiter-gate", p.Pos(hf.Decl.Pos()), "endpoint-without-limiter-gate", "the endpoint does not take its gate from Limiter.WriteGate()")
	}
}
