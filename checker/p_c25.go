package main

import (
	"fmt"
	"go/ast"
	"go/token"
	"go/types"
	"sort"
	"strings"
)

func init() {
	register(&Property{
		ID:    "C25",
		Title: "Cap'n Proto replication encoding is lossless",
		Explain: "(1) Source coverage (E6): every exported data field of prompb.TimeSeries, Sample, Histogram, BucketSpan, Exemplar and labelpb.ZLabel is read by the marshal functions. " +
			"(2) Wire coverage: for every field of the generated capnp structs TimeSeries, Sample, Histogram (and both arms of its count / zeroCount unions), BucketSpan, Exemplar, Label and Symbols, the writer calls its setter or New-constructor and the reader calls its getter. " +
			"(3) Stem agreement: on the writer each union arm of the source selects the setter and source getter of the same name (CountInt ↔ SetCountInt ↔ GetCountInt …), every SetX(h.Y) / NewX(len(h.Y)) pairs a capnp field with the source field of the same name; on the reader the integer branch reads CountInt/ZeroCountInt/…Deltas and the float branch CountFloat/ZeroCountFloat/…Counts, Positive… goes to Positive…, Negative… to Negative…. " +
			"(4) Symbol table provenance: label and exemplar-label references are symbols.AddEntry results of the builder that the same call chain hands to marshalSymbols; both builders (BuildInto via Build, BuildIntoSingleTenantWriteRequest) call the same four marshal helpers and emit the symbol table after the series. " +
			"(5) Reused destination: Request.At truncates or overwrites every slice/label field of the caller's *Series on every path to a successful return (the receiver decodes all series of a request into one reused Series).",
		Assume: []string{"value equality for arbitrary inputs and the capnp library are not decided"},
		Run:    runC25,
	})
}

func runC25(c *Ctx) {
	c.Rule("source-fields-marshalled", "every source field is read by the writer", 6)
	c.Rule("wire-fields-written-and-read", "every capnp field has its setter called by the writer and its getter by the reader", 9)
	c.Rule("writer-stems-agree", "setter, source field and union arm names agree", 3)
	c.Rule("reader-stems-agree", "getter and destination field names agree; int/float branches read their own fields", 2)
	c.Rule("symbols-from-same-builder", "references come from the builder whose table is serialised", 3)
	c.Rule("decode-target-reset", "every reused field of the destination is reset before a successful return", 1)
	c.Rule("writer-complete-on-every-path", "no success return in front of a later setter in the capnp writer", 8)
	p := c.Load("pkg/receive/writecapnp", "pkg/store/storepb/prompb", "pkg/store/labelpb")
	if p == nil {
		return
	}
	const rel = "pkg/receive/writecapnp"
	pk := p.Pkg(rel)
	if pk == nil {
		c.Incomplete("source-fields-marshalled", rel, "", "package not loaded")
		return
	}
	var writer, reader []*Fn
	for _, fn := range p.AllFuncs(true) {
		if fn.Pkg != pk || fn.Decl == nil {
			continue
		}
		file := p.Fset.Position(fn.Decl.Pos()).Filename
		switch {
		case strings.HasSuffix(file, "/marshal.go"):
			writer = append(writer, fn)
		case strings.HasSuffix(file, "/write_request.go"):
			reader = append(reader, fn)
		}
	}
	if len(writer) == 0 || len(reader) == 0 {
		c.Incomplete("source-fields-marshalled", rel, "", "marshal.go / write_request.go functions not found")
		return
	}

	// (0) field coverage is counted per function, so it must hold on every successful path: in the writer no
	// `return nil` may sit in front of a later setter / sub-marshaller call of the same function — an early
	// success return ("nothing more to encode") silently leaves those fields at their zero value.
	for _, fn := range writer {
		info := fn.Info()
		if errResultOfFn(fn) < 0 {
			continue
		}
		var last token.Pos
		inspectNoLit(fn.Body(), func(nd ast.Node) bool {
			call, ok := nd.(*ast.CallExpr)
			if !ok {
				return true
			}
			sel, ok := unparen(call.Fun).(*ast.SelectorExpr)
			isSetter := ok && (strings.HasPrefix(sel.Sel.Name, "Set") || strings.HasPrefix(sel.Sel.Name, "New")) && info.Selections[sel] != nil
			isMarshal := false
			if f := calleeOf(info, call); f != nil && f.Pkg() == pk.Types && strings.HasPrefix(f.Name(), "marshal") {
				isMarshal = true
			}
			if (isSetter || isMarshal) && call.Pos() > last {
				last = call.Pos()
			}
			return true
		})
		bad, where := "", p.Pos(fn.Decl.Pos())
		inspectNoLit(fn.Body(), func(nd ast.Node) bool {
			ret, ok := nd.(*ast.ReturnStmt)
			if !ok || len(ret.Results) == 0 || !isNil(info, ret.Results[len(ret.Results)-1]) || ret.Pos() > last {
				return true
			}
			// "the whole input list is empty" is the one legitimate reason: `if len(<slice parameter>) == 0 { return nil }`
			for _, g := range guardsOf(p, fn, ret) {
				if be, ok := unparen(g.Cond).(*ast.BinaryExpr); ok && g.Pol && be.Op == token.EQL {
					if call, ok := unparen(be.X).(*ast.CallExpr); ok && len(call.Args) == 1 && canon(call.Fun) == "len" && canon(be.Y) == "0" {
						if id, ok := unparen(call.Args[0]).(*ast.Ident); ok {
							if v, ok := objOf(info, id).(*types.Var); ok && !v.IsField() && paramWhere(fn, func(string) bool { return true }) != "" {
								for _, pn := range namesOf(fn).Params {
									if pn == id.Name {
										return true
									}
								}
							}
						}
					}
				}
			}
			bad, where ="`return nil` at "+p.Pos(ret.Pos())+" leaves the function before the setter / marshal call at "+p.Pos(last), p.Pos(ret.Pos())
			return true
		})
		c.Check(bad == "", "writer-complete-on-every-path", rel+"."+fn.Name, where, "early-success-return-before-setter", bad+": the fields written after it keep their zero value on that path")
	}

	// (1)
	for _, src := range []struct{ pkg, name string }{
		{"pkg/store/storepb/prompb", "TimeSeries"}, {"pkg/store/storepb/prompb", "Sample"}, {"pkg/store/storepb/prompb", "Histogram"},
		{"pkg/store/storepb/prompb", "BucketSpan"}, {"pkg/store/storepb/prompb", "Exemplar"}, {"pkg/store/labelpb", "ZLabel"},
	} {
		n := p.lookupNamed(thanosMod+"/"+src.pkg, src.name)
		ob := src.pkg + "." + src.name
		if n == nil {
			c.Incomplete("source-fields-marshalled", ob, "", "type not found")
			continue
		}
		reads := fieldReads(p, writer, n)
		for _, f := range structFieldNames(n) {
			_, ok := reads[f]
			c.Check(ok, "source-fields-marshalled", ob+"."+f, "", "source-field-not-marshalled:"+src.name+"."+f,
				fmt.Sprintf("%s.%s is never read by the Cap'n Proto writer: its content is lost when a write request is forwarded over capnp", src.name, f))
		}
	}

	// (2)
	called := func(fns []*Fn) map[string]bool {
		out := map[string]bool{}
		for _, fn := range fns {
			info := fn.Info()
			ast.Inspect(fn.Body(), func(nd ast.Node) bool {
				call, ok := nd.(*ast.CallExpr)
				if !ok {
					return true
				}
				f := calleeOf(info, call)
				if f == nil {
					return true
				}
				sig, _ := f.Type().(*types.Signature)
				if sig == nil || sig.Recv() == nil {
					return true
				}
				rt := sig.Recv().Type()
				if _, isIface := rt.Underlying().(*types.Interface); isIface {
					// interface in this package (spanGetter): credit every struct that implements it
					out["*."+f.Name()] = true
				} else if n := namedOf(rt); n != nil && n.Obj().Pkg() == pk.Types {
					out[n.Obj().Name()+"."+f.Name()] = true
				}
				return true
			})
		}
		return out
	}
	wcalls, rcalls := called(writer), called(reader)
	for _, tn := range []string{"TimeSeries", "Sample", "Histogram", "Histogram_count", "Histogram_zeroCount", "BucketSpan", "Exemplar", "Label", "Symbols"} {
		obj, _ := pk.Types.Scope().Lookup(tn).(*types.TypeName)
		if obj == nil {
			c.Incomplete("wire-fields-written-and-read", rel+"."+tn, "", "generated type not found")
			continue
		}
		ms := types.NewMethodSet(obj.Type())
		var fields []string
		for i := 0; i < ms.Len(); i++ {
			m := ms.At(i).Obj().Name()
			if strings.HasPrefix(m, "Set") && len(m) > 3 {
				fields = append(fields, m[3:])
			}
		}
		sort.Strings(fields)
		var notWritten, notRead []string
		for _, f := range fields {
			if !wcalls[tn+".Set"+f] && !wcalls[tn+".New"+f] {
				notWritten = append(notWritten, f)
			}
			if !rcalls[tn+"."+f] && !rcalls["*."+f] {
				notRead = append(notRead, f)
			}
		}
		if len(fields) == 0 {
			c.Incomplete("wire-fields-written-and-read", rel+"."+tn, "", "no setters found")
			continue
		}
		bad := ""
		if len(notWritten) > 0 {
			bad = "never written: " + strings.Join(notWritten, ", ")
		}
		if len(notRead) > 0 {
			if bad != "" {
				bad += "; "
			}
			bad += "never read back: " + strings.Join(notRead, ", ")
		}
		c.Check(bad == "", "wire-fields-written-and-read", rel+"."+tn, "", "wire-field-unused:"+strings.Join(append(notWritten, notRead...), ","), "capnp "+tn+" fields "+bad)
	}

	// (3) writer stems
	for _, name := range []string{"marshalHistogram", "marshalSamples", "marshalSpans"} {
		fn := p.Func(rel, "", name)
		if fn == nil {
			c.Incomplete("writer-stems-agree", rel+"."+name, "", "function not found")
			continue
		}
		info := fn.Info()
		bad, n := "", 0
		ast.Inspect(fn.Body(), func(nd ast.Node) bool {
			switch v := nd.(type) {
			case *ast.CallExpr:
				sel, ok := unparen(v.Fun).(*ast.SelectorExpr)
				if !ok || len(v.Args) != 1 {
					return true
				}
				f := calleeOf(info, v)
				if f == nil || f.Pkg() != pk.Types {
					return true
				}
				m := sel.Sel.Name
				var stem string
				switch {
				case strings.HasPrefix(m, "Set"):
					stem = m[3:]
				case strings.HasPrefix(m, "New"):
					stem = m[3:]
				default:
					return true
				}
				// the argument's last selected source field / getter
				src := ""
				ast.Inspect(v.Args[0], func(x ast.Node) bool {
					if s, ok := x.(*ast.SelectorExpr); ok {
						src = strings.TrimPrefix(s.Sel.Name, "Get")
						return false
					}
					return true
				})
				if src == "" {
					return true
				}
				n++
				if !strings.EqualFold(src, stem) {
					bad = fmt.Sprintf("%s is filled from %s", m, canon(v.Args[0]))
				}
			case *ast.CaseClause:
				// union arms: case *prompb.Histogram_CountInt: …SetCountInt(h.GetCountInt())
				if len(v.List) != 1 {
					return true
				}
				t := canon(v.List[0])
				i := strings.LastIndex(t, "_")
				if i < 0 {
					return true
				}
				arm := t[i+1:]
				for _, st := range v.Body {
					txt := exprString2(st)
					if !strings.Contains(txt, "Set"+arm+"(") || !strings.Contains(txt, "Get"+arm+"()") {
						bad = "union arm " + arm + " is written as " + txt
					}
				}
			}
			return true
		})
		if n == 0 {
			bad = "no setter call found"
		}
		c.Check(bad == "", "writer-stems-agree", rel+"."+name, p.Pos(fn.Decl.Pos()), "writer-stem-mismatch", bad)
	}
	// the list helpers: marshalInt64List(negativeDeltas, h.NegativeDeltas) etc.
	if fn := p.Func(rel, "", "marshalHistogram"); fn != nil {
		info := fn.Info()
		bad := ""
		ast.Inspect(fn.Body(), func(nd ast.Node) bool {
			call, ok := nd.(*ast.CallExpr)
			if !ok || len(call.Args) != 2 {
				return true
			}
			f := calleeOf(info, call)
			if f == nil || !strings.HasPrefix(f.Name(), "marshal") {
				return true
			}
			dst := expandDefText(fn, info, call.Args[0]) // histogram.NewNegativeDeltas(...)
			srcSel, ok := unparen(call.Args[1]).(*ast.SelectorExpr)
			if !ok {
				return true
			}
			if !strings.Contains(dst, ".New"+srcSel.Sel.Name+"(") {
				bad = fmt.Sprintf("%s is copied into %s", canon(call.Args[1]), dst)
			}
			return true
		})
		c.Check(bad == "", "writer-stems-agree", rel+".marshalHistogram#lists", p.Pos(fn.Decl.Pos()), "writer-list-mismatch", bad)
	}

	// reader stems
	if fn := p.Func(rel, "Request", "readHistogram"); fn == nil {
		c.Incomplete("reader-stems-agree", rel+".(*Request).readHistogram", "", "function not found")
	} else {
		info := fn.Info()
		bad := ""
		// composite literal fields
		ast.Inspect(fn.Body(), func(nd ast.Node) bool {
			cl, ok := nd.(*ast.CompositeLit)
			if !ok {
				return true
			}
			tn := ""
			if n := namedOf(info.TypeOf(cl)); n != nil {
				tn = n.Obj().Name()
			}
			if tn != "Histogram" && tn != "FloatHistogram" {
				return true
			}
			kind := "Int"
			if tn == "FloatHistogram" {
				kind = "Float"
			}
			for _, el := range cl.Elts {
				kv, ok := el.(*ast.KeyValueExpr)
				if !ok {
					continue
				}
				k := canon(kv.Key)
				v := canon(kv.Value)
				want := map[string]string{
					"CounterResetHint": ".ResetHint()", "Count": ".Count().Count" + kind + "()", "Sum": ".Sum()", "Schema": ".Schema()",
					"ZeroThreshold": ".ZeroThreshold()", "ZeroCount": ".ZeroCount().ZeroCount" + kind + "()",
				}[k]
				if want == "" || !strings.Contains(v, want) {
					bad = fmt.Sprintf("%s.%s is read from %s", tn, k, v)
				}
			}
			return true
		})
		// bucket slices: X.<Sign>Buckets[i] = <var>.At(i) where var := src.<Sign>Deltas|Counts()
		ast.Inspect(fn.Body(), func(nd ast.Node) bool {
			as, ok := nd.(*ast.AssignStmt)
			if !ok || len(as.Lhs) != 1 || len(as.Rhs) != 1 {
				return true
			}
			ix, ok := unparen(as.Lhs[0]).(*ast.IndexExpr)
			if !ok {
				return true
			}
			sel, ok := unparen(ix.X).(*ast.SelectorExpr)
			if !ok || !strings.HasSuffix(sel.Sel.Name, "Buckets") {
				return true
			}
			sign := strings.TrimSuffix(sel.Sel.Name, "Buckets")
			isFloat := false
			if n := namedOf(info.TypeOf(sel.X)); n != nil && n.Obj().Name() == "FloatHistogram" {
				isFloat = true
			}
			src := expandDefText(fn, info, as.Rhs[0])
			want := "." + sign + "Deltas()"
			if isFloat {
				want = "." + sign + "Counts()"
			}
			if !strings.Contains(src, want) {
				bad = fmt.Sprintf("%s is filled from %s (want %s)", canon(sel), src, want)
			}
			return true
		})
		// spans: X.PositiveSpans, X.NegativeSpans, err = createSpans(src)
		nSpans := 0
		ast.Inspect(fn.Body(), func(nd ast.Node) bool {
			as, ok := nd.(*ast.AssignStmt)
			if !ok || len(as.Lhs) != 3 || len(as.Rhs) != 1 {
				return true
			}
			if call, ok := unparen(as.Rhs[0]).(*ast.CallExpr); ok {
				if f := calleeOf(info, call); f != nil && f.Name() == "createSpans" {
					nSpans++
					if !strings.HasSuffix(canon(as.Lhs[0]), ".PositiveSpans") || !strings.HasSuffix(canon(as.Lhs[1]), ".NegativeSpans") {
						bad = "createSpans returns (positive, negative) but is assigned to " + canon(as.Lhs[0]) + ", " + canon(as.Lhs[1])
					}
				}
			}
			return true
		})
		if nSpans < 2 && bad == "" {
			bad = "spans are not read in both branches"
		}
		// the branch condition
		okWhich := false
		ast.Inspect(fn.Body(), func(nd ast.Node) bool {
			if is, ok := nd.(*ast.IfStmt); ok {
				t := canon(is.Cond)
				if strings.Contains(t, ".Count().Which()==") && strings.HasSuffix(t, "_countInt") {
					// then-branch builds the integer histogram
					ast.Inspect(is.Body, func(x ast.Node) bool {
						if cl, ok := x.(*ast.CompositeLit); ok {
							if n := namedOf(info.TypeOf(cl)); n != nil && n.Obj().Name() == "Histogram" {
								okWhich = true
							}
						}
						return true
					})
				}
			}
			return true
		})
		if !okWhich && bad == "" {
			bad = "the integer histogram is not built exactly when the count union holds countInt"
		}
		c.Check(bad == "", "reader-stems-agree", rel+".(*Request).readHistogram", p.Pos(fn.Decl.Pos()), "reader-stem-mismatch", bad)
	}
	if fn := p.Func(rel, "", "createSpans"); fn == nil {
		c.Incomplete("reader-stems-agree", rel+".createSpans", "", "function not found")
	} else {
		info := fn.Info()
		ok := false
		ast.Inspect(fn.Body(), func(nd ast.Node) bool {
			if ret, isRet := nd.(*ast.ReturnStmt); isRet && len(ret.Results) == 3 && isNil(info, ret.Results[2]) {
				a, b := expandDefText(fn, info, ret.Results[0]), expandDefText(fn, info, ret.Results[1])
				if strings.Contains(a, ".PositiveSpans()") && strings.Contains(b, ".NegativeSpans()") {
					ok = true
				}
			}
			return true
		})
		c.Check(ok, "reader-stems-agree", rel+".createSpans", p.Pos(fn.Decl.Pos()), "spans-swapped", "createSpans must return (positive spans, negative spans) in that order")
	}

	// (4) symbols
	for _, name := range []string{"marshalLabels"} {
		fn := p.Func(rel, "", name)
		if fn == nil {
			c.Incomplete("symbols-from-same-builder", rel+"."+name, "", "function not found")
			continue
		}
		info := fn.Info()
		var sym types.Object
		for _, f := range fn.Decl.Type.Params.List {
			for _, nm := range f.Names {
				if o := info.Defs[nm]; o != nil && isNamed(o.Type(), "pkg/symboltable", "Builder") {
					sym = o
				}
			}
		}
		bad, n := "", 0
		ast.Inspect(fn.Body(), func(nd ast.Node) bool {
			call, ok := nd.(*ast.CallExpr)
			if !ok || len(call.Args) != 1 {
				return true
			}
			sel, ok := unparen(call.Fun).(*ast.SelectorExpr)
			if !ok || (sel.Sel.Name != "SetName" && sel.Sel.Name != "SetValue") {
				return true
			}
			n++
			inner, ok := unparen(call.Args[0]).(*ast.CallExpr)
			if !ok {
				bad = sel.Sel.Name + " is not given a symbol reference"
				return true
			}
			isel, ok := unparen(inner.Fun).(*ast.SelectorExpr)
			if !ok || isel.Sel.Name != "AddEntry" || sym == nil || objOf(info, isel.X) != sym {
				bad = sel.Sel.Name + " is not given symbols.AddEntry(…) of the builder passed in"
				return true
			}
			want := map[string]string{"SetName": ".Name", "SetValue": ".Value"}[sel.Sel.Name]
			if len(inner.Args) != 1 || !strings.HasSuffix(canon(inner.Args[0]), want) {
				bad = sel.Sel.Name + " references " + canon(inner.Args[0])
			}
			return true
		})
		if n < 2 {
			bad = "name and value references not found"
		}
		c.Check(bad == "", "symbols-from-same-builder", rel+"."+name, p.Pos(fn.Decl.Pos()), "symbol-reference", bad)
	}
	helpers := []string{"marshalLabels", "marshalSamples", "marshalHistograms", "marshalExemplars"}
	for _, spec := range []struct {
		name       string
		symbolsVia string // function in which marshalSymbols is called with the same builder
	}{{"BuildIntoSingleTenantWriteRequest", "BuildIntoSingleTenantWriteRequest"}, {"BuildInto", "Build"}} {
		fn := p.Func(rel, "", spec.name)
		if fn == nil {
			c.Incomplete("symbols-from-same-builder", rel+"."+spec.name, "", "function not found")
			continue
		}
		info := fn.Info()
		bad := ""
		builders := map[types.Object]bool{}
		seen := map[string]bool{}
		var lastSeriesPos token.Pos
		ast.Inspect(fn.Body(), func(nd ast.Node) bool {
			call, ok := nd.(*ast.CallExpr)
			if !ok {
				return true
			}
			f := calleeOf(info, call)
			if f == nil {
				return true
			}
			for _, h := range helpers {
				if f.Name() == h {
					seen[h] = true
					if call.Pos() > lastSeriesPos {
						lastSeriesPos = call.Pos()
					}
					for _, a := range call.Args {
						if !isNamed(info.TypeOf(a), "pkg/symboltable", "Builder") {
							continue
						}
						if o := objOf(info, a); o != nil {
							builders[o] = true
						} else {
							bad = h + " is given a symbol builder of its own (" + canon(a) + "): its references do not index the table that is serialised"
						}
					}
				}
			}
			return true
		})
		for _, h := range helpers {
			if !seen[h] {
				bad = spec.name + " does not call " + h
			}
		}
		if len(builders) != 1 && bad == "" {
			bad = fmt.Sprintf("labels and exemplars are marshalled with %d different symbol builders", len(builders))
		}
		// marshalSymbols with that builder, after the series
		via := p.Func(rel, "", spec.symbolsVia)
		if via == nil {
			bad = spec.symbolsVia + " not found"
		} else if bad == "" {
			vinfo := via.Info()
			okSym := false
			var buildPos token.Pos
			var passed types.Object
			ast.Inspect(via.Body(), func(nd ast.Node) bool {
				call, ok := nd.(*ast.CallExpr)
				if !ok {
					return true
				}
				f := calleeOf(vinfo, call)
				if f == nil {
					return true
				}
				if spec.symbolsVia != spec.name && f.Name() == spec.name {
					buildPos = call.Pos()
					for _, a := range call.Args {
						if o := objOf(vinfo, a); o != nil && isNamed(o.Type(), "pkg/symboltable", "Builder") {
							passed = o
						}
					}
				}
				if f.Name() == "marshalSymbols" && len(call.Args) == 2 {
					o := objOf(vinfo, call.Args[0])
					if spec.symbolsVia == spec.name {
						if builders[o] && call.Pos() > lastSeriesPos {
							okSym = true
						}
					} else if o != nil && o == passed && call.Pos() > buildPos {
						okSym = true
					}
				}
				return true
			})
			if !okSym {
				bad = "the symbol table is not serialised from the same builder after the series were marshalled"
			}
		}
		c.Check(bad == "", "symbols-from-same-builder", rel+"."+spec.name, p.Pos(fn.Decl.Pos()), "symbol-builder-mismatch", bad)
	}

	// (5) reused destination
	if fn := p.Func(rel, "Request", "At"); fn == nil {
		c.Incomplete("decode-target-reset", rel+".(*Request).At", "", "function not found")
	} else {
		info := fn.Info()
		var dst types.Object
		if len(fn.Decl.Type.Params.List) == 1 && len(fn.Decl.Type.Params.List[0].Names) == 1 {
			dst = info.Defs[fn.Decl.Type.Params.List[0].Names[0]]
		}
		sn := p.lookupNamed(thanosMod+"/"+rel, "Series")
		if dst == nil || sn == nil {
			c.Incomplete("decode-target-reset", rel+".(*Request).At", p.Pos(fn.Decl.Pos()), "destination parameter or Series type not found")
		} else {
			fields := structFieldNames(sn)
			var evs []Ev
			for _, f := range fields {
				f := f
				evs = append(evs, Ev{Name: f, MatchNode: func(i *types.Info, n ast.Node) bool {
					switch v := n.(type) {
					case *ast.AssignStmt:
						// t.F = t.F[:0]  /  t.F = nil / t.F = fresh
						for idx, lh := range v.Lhs {
							sel, ok := unparen(lh).(*ast.SelectorExpr)
							if !ok || sel.Sel.Name != f || objOf(i, sel.X) != dst || idx >= len(v.Rhs) {
								continue
							}
							r := unparen(v.Rhs[idx])
							if sl, ok := r.(*ast.SliceExpr); ok {
								if hi, isC := constInt(i, sl.High); isC && hi == 0 {
									return true
								}
								return false
							}
							if call, ok := r.(*ast.CallExpr); ok {
								if id, ok := call.Fun.(*ast.Ident); ok && id.Name == "append" {
									return false
								}
							}
							return true
						}
					case *ast.ExprStmt:
						// builder.Overwrite(&t.F)
						if call, ok := v.X.(*ast.CallExpr); ok {
							if sel, ok := unparen(call.Fun).(*ast.SelectorExpr); ok && sel.Sel.Name == "Overwrite" && len(call.Args) == 1 {
								if u, ok := unparen(call.Args[0]).(*ast.UnaryExpr); ok && u.Op == token.AND {
									if s2, ok := unparen(u.X).(*ast.SelectorExpr); ok && s2.Sel.Name == f && objOf(i, s2.X) == dst {
										return true
									}
								}
							}
						}
					}
					return false
				}})
			}
			e := newE3(p, fn, evs)
			bad, pos := "", p.Pos(fn.Decl.Pos())
			nExits := 0
			for _, ex := range e.Exits() {
				if ex.Panic || ex.Ret == nil || len(ex.Ret.Results) != 1 || !isNil(info, ex.Ret.Results[0]) {
					continue
				}
				nExits++
				for _, f := range fields {
					if ex.Bits[f] != eOK {
						bad, pos = fmt.Sprintf("Series.%s of the destination is not reset on a path to this successful return: a series decoded into a reused Series keeps the %s of the series decoded before it", f, strings.ToLower(f)), ex.Pos
					}
				}
			}
			if nExits == 0 {
				c.Incomplete("decode-target-reset", rel+".(*Request).At", pos, "no successful return found")
			} else {
				c.Check(bad == "", "decode-target-reset", rel+".(*Request).At", pos, "stale-destination-field", bad)
			}
		}
	}
}
