package main

import (
	"fmt"
	"go/ast"
	"go/types"
	"sort"
	"strings"
)

const writev2Path = thanosMod + "/pkg/store/storepb/prompb/io/prometheus/write/v2"

func init() {
	register(&Property{
		ID:    "C26",
		Title: "Remote-write v2 requests are translated faithfully and safely",
		Explain: "(1) E7 guarded index: every index into writev2.Request.Symbols, TimeSeries.LabelsRefs and Exemplar.LabelsRefs in package receive is dominated by the in-bounds edge of a comparison of that index (same expression, conversions stripped, +k offsets handled) with len(container), or is the range key of the container; the index is non-negative (unsigned or counted up from a constant). " +
			"(2) the out-of-range path makes translateV2ToV1 return a non-nil error and handleV2HTTP answers http.Error with StatusBadRequest on that error edge before any forwarding. " +
			"(3) E6 field coverage: every exported field of writev2.TimeSeries/Sample/Exemplar/Histogram/BucketSpan is read by translateV2ToV1/translateV2SpansToV1 except an allow-list with reasons, and both arms of the count / zero_count oneofs are handled by type switches.",
		Assume: []string{"gogo-proto generated Unmarshal produces well-typed Go values; a slice index below len() and >= 0 cannot panic"},
		Run:    runC26,
	})
}

func runC26(c *Ctx) {
	c.Rule("guarded-index", "index into request-controlled tables is dominated by an in-bounds test against len(container)", 4)
	c.Rule("v2-field-coverage", "every exported field of the v2 message types is read by the translator unless allow-listed", 20)
	c.Rule("v2-oneof-arms", "both arms of each oneof are handled", 2)
	c.Rule("v2-bad-ref-is-4xx", "translation error is answered with 400 before forwarding", 1)
	c.Rule("v2-spans-one-to-one", "each v2 bucket span becomes one v1 span with the same offset and length", 1)
	p := c.Load("pkg/receive")
	if p == nil {
		return
	}
	conts := []struct{ typ, field string }{{"Request", "Symbols"}, {"TimeSeries", "LabelsRefs"}, {"Exemplar", "LabelsRefs"}}
	var matchers []func(*types.Info, ast.Expr) string
	for _, ct := range conts {
		matchers = append(matchers, fieldContainer(writev2Path, ct.typ, ct.field))
	}
	// a package-local function parameter that receives one of the containers at some call site
	// is the same container inside that function (one level of parameter passing)
	derived := derivedParamContainers(p, "pkg/receive", matchers)
	isCont := func(info *types.Info, e ast.Expr) string {
		for _, m := range matchers {
			if n := m(info, e); n != "" {
				return n
			}
		}
		if id, ok := unparen(e).(*ast.Ident); ok {
			if v, ok := info.Uses[id].(*types.Var); ok {
				return derived[v]
			}
		}
		return ""
	}
	var guardFns []*Fn
	for _, fn := range p.AllFuncs(true) {
		units := append([]*Fn{fn}, p.Lits(fn)...)
		for _, u := range units {
			n := checkGuardedIndex(c, p, u, "guarded-index", isCont)
			c.Stats["index_sites"] += n
			if n > 0 {
				guardFns = append(guardFns, u)
			}
		}
		c.Stats["functions_analysed"] += len(units)
	}

	// (3) field coverage
	tr := p.Func("pkg/receive", "", "translateV2ToV1")
	sp := p.Func("pkg/receive", "", "translateV2SpansToV1")
	if tr == nil || sp == nil {
		c.Incomplete("v2-field-coverage", "anchor", "", "translateV2ToV1 / translateV2SpansToV1 not found in pkg/receive")
		return
	}
	fns := append([]*Fn{tr, sp}, p.Lits(tr)...)
	allow := map[string]string{
		"TimeSeries.Metadata":       "metric metadata is not ingested by the thanos v1 write path (prompb.TimeSeries has no such field)",
		"TimeSeries.CreatedTimestamp": "created/start timestamps are not ingested by the thanos v1 write path",
		"Sample.StartTimestamp":     "created/start timestamps are not ingested by the thanos v1 write path",
		"Histogram.StartTimestamp":  "created/start timestamps are not ingested by the thanos v1 write path",
	}
	for _, tn := range []string{"TimeSeries", "Sample", "Exemplar", "Histogram", "BucketSpan"} {
		n := p.lookupNamed(writev2Path, tn)
		if n == nil {
			c.Incomplete("v2-field-coverage", "type:"+tn, "", "type not found")
			continue
		}
		reads := fieldReads(p, fns, n)
		for _, f := range structFieldNames(n) {
			key := tn + "." + f
			if why, ok := allow[key]; ok {
				c.Observe("v2-field-coverage", key, reads[f], "allow-listed: "+why)
				continue
			}
			if pos, ok := reads[f]; ok {
				c.OK("v2-field-coverage", key, pos, "")
			} else {
				c.Bad("v2-field-coverage", key, p.Pos(tr.Decl.Pos()), "unread-field:"+key, "field "+key+" of the v2 request is never read by the translator: its content is silently dropped")
			}
		}
	}
	// oneof arms
	hn := p.lookupNamed(writev2Path, "Histogram")
	if hn != nil {
		st := hn.Underlying().(*types.Struct)
		for i := 0; i < st.NumFields(); i++ {
			f := st.Field(i)
			iface, ok := f.Type().Underlying().(*types.Interface)
			if !ok || !strings.HasPrefix(types.TypeString(f.Type(), nil), writev2Path+".isHistogram_") {
				continue
			}
			arms := oneofArms(hn.Obj().Pkg(), iface)
			handled := typeSwitchArms(fns, f.Name())
			var missing []string
			for _, a := range arms {
				if !handled[a.Obj().Name()] {
					missing = append(missing, a.Obj().Name())
				}
			}
			sort.Strings(missing)
			c.Check(len(missing) == 0 && len(arms) >= 2, "v2-oneof-arms", "Histogram."+f.Name(), p.Pos(tr.Decl.Pos()), "unhandled-arms:"+strings.Join(missing, ","),
				"oneof "+f.Name()+" arms not handled by a type switch in the translator: "+strings.Join(missing, ","))
		}
	}
	checkV2ErrorIs4xx(c, p, tr, guardFns, isCont)

	// (4) bucket spans are translated one to one: every input span gives one output span whose fields are the
	// same-named fields of that input span (plain copies or conversions, no arithmetic across spans, no span
	// skipped). Span offsets are relative to the previous span, so dropping or merging spans moves buckets.
	{
		info := sp.Info()
		var loop *ast.RangeStmt
		inspectNoLit(sp.Body(), func(n ast.Node) bool {
			if r, ok := n.(*ast.RangeStmt); ok && loop == nil {
				loop = r
			}
			return true
		})
		bad := ""
		switch {
		case loop == nil || loop.Value == nil:
			bad = "no loop over the input spans with an element variable"
		case canon(loop.X) != namesOf(sp).P(0):
			bad = "the loop ranges over " + canon(loop.X) + ", not over the whole input list"
		default:
			elem := objOf(info, loop.Value)
			lits := 0
			ast.Inspect(loop.Body, func(n ast.Node) bool {
				switch v := n.(type) {
				case *ast.BranchStmt:
					bad = "`" + v.Tok.String() + "` skips input spans"
				case *ast.CompositeLit:
					if !isNamed(info.TypeOf(v), "prompb", "BucketSpan") {
						return true
					}
					lits++
					for _, el := range v.Elts {
						kv, ok := el.(*ast.KeyValueExpr)
						if !ok {
							bad = "unkeyed span literal"
							continue
						}
						val := unparen(kv.Value)
						if call, ok := val.(*ast.CallExpr); ok && len(call.Args) == 1 {
							if tv, ok := info.Types[call.Fun]; ok && tv.IsType() {
								val = unparen(call.Args[0])
							}
						}
						sel, ok := val.(*ast.SelectorExpr)
						if !ok || objOf(info, sel.X) != elem || sel.Sel.Name != canon(kv.Key) {
							bad = "output field " + canon(kv.Key) + " is " + canon(kv.Value) + ", not the input span's own " + canon(kv.Key)
						}
					}
				}
				return true
			})
			if lits != 1 && bad == "" {
				bad = fmt.Sprintf("%d output span literals per input span", lits)
			}
		}
		c.Check(bad == "", "v2-spans-one-to-one", "pkg/receive.translateV2SpansToV1", p.Pos(sp.Decl.Pos()), "span-translation-not-elementwise", bad)
	}
}

// derivedParamContainers: parameters of package-local functions that receive a designated
// container expression as argument at some call site.
func derivedParamContainers(p *Prog, rel string, matchers []func(*types.Info, ast.Expr) string) map[*types.Var]string {
	out := map[*types.Var]string{}
	pk := p.Pkg(rel)
	if pk == nil {
		return out
	}
	info := pk.TypesInfo
	for _, f := range pk.Syntax {
		ast.Inspect(f, func(n ast.Node) bool {
			call, ok := n.(*ast.CallExpr)
			if !ok {
				return true
			}
			callee := calleeOf(info, call)
			if callee == nil || callee.Pkg() != pk.Types {
				return true
			}
			sig := callee.Type().(*types.Signature)
			for i, a := range call.Args {
				if i >= sig.Params().Len() {
					break
				}
				for _, m := range matchers {
					if name := m(info, a); name != "" {
						out[sig.Params().At(i)] = name
					}
				}
			}
			return true
		})
	}
	return out
}

// checkV2ErrorIs4xx: (a) in every function holding a guard on the symbol table, the
// out-of-bounds edge reaches only exits that return a non-nil error; (b) every package-local
// caller chain from those functions up to the HTTP handler tests the error and returns it, and
// (c) the handler answers http.Error(…, 4xx) on the error edge without forwarding the request.
func checkV2ErrorIs4xx(c *Ctx, p *Prog, tr *Fn, guardFns []*Fn, isCont func(*types.Info, ast.Expr) string) {
	rule := "v2-bad-ref-is-4xx"
	// (a)
	errFns := map[*types.Func]bool{}
	for _, fn := range guardFns {
		info := fn.Info()
		construct := relPkg(fn.Pkg.PkgPath) + "." + fn.Name + "#oob-edge"
		spec := FlowSpec[bool]{
			Entry:    false,
			Transfer: func(n ast.Node, s bool) bool { return s },
			Branch: func(cond ast.Expr, truth bool, s bool) bool {
				// the edge on which NO in-bounds fact for the symbol table is established although the
				// opposite edge establishes one is the out-of-bounds edge
				est := func(t bool) bool {
					found := false
					refine(cond, t, func(atom ast.Expr, tt bool) {
						for _, ce := range inBoundsContainers(info, atom, tt) {
							if isCont(info, ce) == "Request.Symbols" {
								found = true
							}
						}
					})
					return found
				}
				if est(!truth) && !est(truth) {
					return true
				}
				return s
			},
			Join:  func(a, b bool) bool { return a || b },
			Equal: func(a, b bool) bool { return a == b },
		}
		res := runFlow(p, fn, spec)
		bad := ""
		nOOB := 0
		for _, ex := range res.Exits() {
			if !ex.State || ex.Panic {
				continue
			}
			nOOB++
			if ex.Ret == nil || len(ex.Ret.Results) == 0 || isNil(info, ex.Ret.Results[len(ex.Ret.Results)-1]) || errResultOfFn(fn) < 0 {
				bad = p.Pos(ex.Pos)
			}
		}
		if errResultOfFn(fn) < 0 {
			c.Bad(rule, construct, p.Pos(fn.Node().Pos()), "no-error-result", "function guards symbol references but has no error result to report an out-of-range reference")
			continue
		}
		if nOOB == 0 {
			c.Bad(rule, construct, p.Pos(fn.Node().Pos()), "no-oob-exit", "no exit is reached from the out-of-bounds edge (guard missing?)")
			continue
		}
		if bad != "" {
			c.Bad(rule, construct, bad, "oob-edge-reaches-success-exit", "a path through the out-of-bounds edge of a symbol-table guard reaches an exit that does not return a non-nil error (bad reference silently accepted or dropped)")
			continue
		}
		c.OK(rule, construct, p.Pos(fn.Node().Pos()), "")
		if fn.Obj != nil {
			errFns[fn.Obj] = true
		}
	}
	// (b),(c) propagate upwards through package-local callers (bounded depth)
	for depth := 0; depth < 4; depth++ {
		next := map[*types.Func]bool{}
		for _, fn := range p.AllFuncs(true) {
			info := fn.Info()
			var targets []*types.Func
			for f := range errFns {
				targets = append(targets, f)
			}
			match := func(i *types.Info, call *ast.CallExpr) bool {
				f := calleeOf(i, call)
				return f != nil && errFns[f]
			}
			hasCall := false
			inspectNoLit(fn.Body(), func(n ast.Node) bool {
				if call, ok := n.(*ast.CallExpr); ok && match(info, call) {
					hasCall = true
				}
				return true
			})
			if !hasCall || (fn.Obj != nil && errFns[fn.Obj]) {
				continue
			}
			_ = targets
			construct := relPkg(fn.Pkg.PkgPath) + "." + fn.Name + "#propagates"
			e := newE3(p, fn, []Ev{
				{Name: "T", Match: match},
				{Name: "H4xx", Match: func(i *types.Info, call *ast.CallExpr) bool {
					if !isCallTo(i, call, "net/http.Error") || len(call.Args) != 3 {
						return false
					}
					tv, ok := i.Types[call.Args[2]]
					if !ok || tv.Value == nil {
						return false
					}
					code := tv.Value.ExactString()
					return len(code) == 3 && code[0] == '4'
				}},
				{Name: "FWD", Match: func(i *types.Info, call *ast.CallExpr) bool {
					f := calleeOf(i, call)
					return f != nil && (f.Name() == "handleV1HTTP" || f.Name() == "handle" || f.Name() == "handleRequest")
				}},
			})
			hasErrRes := errResultOfFn(fn) >= 0
			ok, why, where := true, "", p.Pos(fn.Node().Pos())
			for _, ex := range e.Exits() {
				if ex.Panic {
					continue
				}
				t := ex.Bits["T"]
				if t&(ePend|eUnk) != 0 {
					ok, why, where = false, "the translation error is not tested on a path to this exit "+evBitsString(t), ex.Pos
					break
				}
				if t&eFail == 0 {
					continue
				}
				if t != eFail {
					ok, why, where = false, "exit reachable both with and without a failed translation "+evBitsString(t), ex.Pos
					break
				}
				if hasErrRes {
					if ex.Ret == nil || len(ex.Ret.Results) == 0 || isNil(info, ex.Ret.Results[len(ex.Ret.Results)-1]) {
						ok, why, where = false, "failed translation reaches an exit returning a nil error", ex.Pos
						break
					}
				} else {
					if ex.Bits["H4xx"] != eOK {
						ok, why, where = false, "failed translation reaches an exit without http.Error(…, 4xx): "+evBitsString(ex.Bits["H4xx"]), ex.Pos
						break
					}
				}
				if ex.Bits["FWD"] != eNo {
					ok, why, where = false, "request is forwarded although the translation failed", ex.Pos
					break
				}
			}
			c.Check(ok, rule, construct, where, "translation-error-not-answered-4xx", why)
			if ok && hasErrRes && fn.Obj != nil {
				next[fn.Obj] = true
			}
		}
		if len(next) == 0 {
			break
		}
		errFns = next
	}
}

// errResultOfFn: index of the error result in fn's signature or -1.
func errResultOfFn(fn *Fn) int {
	ft := fn.Type()
	if ft.Results == nil {
		return -1
	}
	idx := 0
	last := -1
	for _, f := range ft.Results.List {
		n := len(f.Names)
		if n == 0 {
			n = 1
		}
		if id, ok := f.Type.(*ast.Ident); ok && id.Name == "error" {
			last = idx + n - 1
		}
		idx += n
	}
	return last
}
