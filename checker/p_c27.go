package main

import (
	"fmt"
	"go/ast"
	"go/token"
	"go/types"
	"strings"
)

func init() {
	register(&Property{
		ID:    "C27",
		Title: "Tenants are routed to the hashring their configuration selects",
		Explain: "(1) E1 lockset: multiHashring.cache is read under mu (>=R) and written under W. " +
			"(2) First match wins: on a cache miss the methods reachable from multiHashring.GetN make exactly ONE pass over m.tenantSets, in index order (a range loop); inside that loop the first matching index i is both cached (m.cache[tenant] = m.hashrings[i]) and used (return m.hashrings[i].GetN(...)), with the same loop key; a set matches iff it is nil (default hashring), an exact hit, or tenantSet.match reports true — no other assignment to the match flag; errors from match return immediately (E4). " +
			"(3) tenantSet.match: the direct-hit fast path requires an exact matcher; inside the pattern loop `true` is returned only under a successful filepath.Match(pattern, tenant) of a glob matcher (range key as pattern); otherwise false. NewMultiHashring appends the hashring and its tenant set in lock-step for every configuration entry (both appends unconditional in the loop body, no continue/break). " +
			"(4) E10: the routing cache has no other writer.",
		Assume: []string{"filepath.Match semantics", "a malformed glob makes match return an error or a match depending on map iteration order (observation O-C27)"},
		Run:    runC27,
	})
}

func runC27(c *Ctx) {
	c.Rule("cache-lockset", "cache read under >=R, written under W", 2)
	c.Rule("first-match-wins", "one in-order pass; first match cached and used with the same index", 4)
	c.Rule("tenant-match", "exact hit needs an exact matcher; true only under a glob match", 2)
	c.Rule("lock-step-config", "hashrings[k] and tenantSets[k] appended together; tenant set created iff the list has entries", 2)
	c.Rule("cache-single-writer", "only the lookup path writes the cache", 1)
	p := c.Load("pkg/receive")
	if p == nil {
		return
	}
	const rel = "pkg/receive"
	cfg := &locksetCfg{Rule: "cache-lockset", Guards: []guardSpec{{rel, "multiHashring", "cache", "mu"}}}
	res := &locksetResult{}
	var methods []*Fn
	for _, fn := range p.AllFuncs(true) {
		if strings.HasPrefix(fn.Name, "(*multiHashring).") {
			methods = append(methods, fn)
			checkLockset(c, p, cfg, fn, lockState{}, res)
		}
	}
	c.Stats["guarded_accesses"] += res.Accesses

	getn := p.Func(rel, "multiHashring", "GetN")
	if getn == nil {
		c.Incomplete("first-match-wins", rel+".(*multiHashring).GetN", "", "function not found")
		return
	}
	// methods of multiHashring reachable from GetN
	reach := map[*types.Func]*Fn{}
	for _, f := range reachableFuncs(p, getn) {
		if strings.HasPrefix(f.Name, "(*multiHashring).") {
			reach[f.Obj] = f
		}
	}
	type loopAt struct {
		fn   *Fn
		loop *ast.RangeStmt
	}
	var loops []loopAt
	for _, f := range reach {
		ast.Inspect(f.Body(), func(n ast.Node) bool {
			if r, ok := n.(*ast.RangeStmt); ok && strings.HasSuffix(canon(r.X), ".tenantSets") {
				loops = append(loops, loopAt{f, r})
			}
			return true
		})
	}
	if len(loops) != 1 {
		pos := p.Pos(getn.Decl.Pos())
		if len(loops) > 1 {
			pos = p.Pos(loops[1].loop.Pos())
		}
		c.Bad("first-match-wins", rel+".(*multiHashring).GetN#single-pass", pos, fmt.Sprintf("passes-over-tenant-sets:%d", len(loops)),
			fmt.Sprintf("the cache-miss lookup makes %d passes over the configured tenant sets; precedence must follow configuration order, which needs exactly one in-order pass (an earlier glob/default entry must win over a later exact entry)", len(loops)))
		for _, r := range []string{"first-match-wins", "first-match-wins", "first-match-wins", "tenant-match", "tenant-match", "lock-step-config", "cache-single-writer"} {
			c.Observe(r, rel+".(*multiHashring).GetN#not-evaluated", pos, "not evaluated: the single in-order pass it depends on was not found")
		}
		return
	}
	c.OK("first-match-wins", rel+".(*multiHashring).GetN#single-pass", p.Pos(loops[0].loop.Pos()), "")
	lf, loop := loops[0].fn, loops[0].loop
	info := lf.Info()
	if loop.Key == nil {
		c.Bad("first-match-wins", rel+"."+lf.Name+"#index", p.Pos(loop.Pos()), "no-index", "the pass over tenantSets does not bind the index")
		return
	}
	// cache store and use with the loop key, inside the loop
	storeOK, useOK := false, false
	var matchVar types.Object
	ast.Inspect(loop.Body, func(n ast.Node) bool {
		switch v := n.(type) {
		case *ast.AssignStmt:
			for i, l := range v.Lhs {
				if ix, ok := unparen(l).(*ast.IndexExpr); ok && strings.HasSuffix(canon(ix.X), ".cache") && i < len(v.Rhs) {
					if rx, ok := unparen(v.Rhs[i]).(*ast.IndexExpr); ok && strings.HasSuffix(canon(rx.X), ".hashrings") && sameObjExpr(info, rx.Index, loop.Key) {
						storeOK = true
						// the guard variable of the store is the match flag
						for _, g := range guardsOf(p, lf, v) {
							if id, ok := unparen(g.Cond).(*ast.Ident); ok && g.Pol && within(v, loop.Body.Pos(), loop.Body.End()) {
								matchVar = objOf(info, id)
							}
						}
					}
				}
			}
		case *ast.ReturnStmt:
			for _, r := range v.Results {
				ast.Inspect(r, func(m ast.Node) bool {
					if ix, ok := m.(*ast.IndexExpr); ok && strings.HasSuffix(canon(ix.X), ".hashrings") && sameObjExpr(info, ix.Index, loop.Key) {
						useOK = true
					}
					return true
				})
			}
		}
		return true
	})
	// any use of hashrings[...] outside the loop with another index?
	foreign := false
	for _, f := range reach {
		ast.Inspect(f.Body(), func(n ast.Node) bool {
			if ix, ok := n.(*ast.IndexExpr); ok && strings.HasSuffix(canon(ix.X), ".hashrings") {
				if !(f == lf && within(ix, loop.Body.Pos(), loop.Body.End()) && sameObjExpr(info, ix.Index, loop.Key)) {
					foreign = true
				}
			}
			return true
		})
	}
	c.Check(storeOK && useOK && !foreign, "first-match-wins", rel+"."+lf.Name+"#cache-and-use-same-index", p.Pos(loop.Pos()), "cached-ring-differs-from-used-ring",
		fmt.Sprintf("the first matching entry must be cached and used with the loop's own index inside the loop (cache store by key: %v, returned ring by key: %v, other hashrings[...] uses: %v)", storeOK, useOK, foreign))
	// the match flag: assignments inside the loop body
	if matchVar == nil {
		c.Incomplete("first-match-wins", rel+"."+lf.Name+"#match-flag", p.Pos(loop.Pos()), "the cache store is not guarded by a match flag")
	} else {
		okFlag, why := true, ""
		ast.Inspect(loop.Body, func(n ast.Node) bool {
			as, ok := n.(*ast.AssignStmt)
			if !ok {
				return true
			}
			for i, l := range as.Lhs {
				if objOf(info, l) != matchVar {
					continue
				}
				if len(as.Lhs) == len(as.Rhs) {
					if v, isC := info.Types[as.Rhs[i]]; isC && v.Value != nil && v.Value.ExactString() == "true" {
						gs := guardsOf(p, lf, as)
						last := ""
						for _, g := range gs {
							if within(as, loop.Body.Pos(), loop.Body.End()) {
								s := strings.ReplaceAll(exprString(g.Cond), " ", "")
								if g.Pol {
									last = s
								}
							}
						}
						if !(strings.HasSuffix(last, "==nil") || strings.Contains(last, "isExactMatcher(")) {
							okFlag, why = false, "the set is declared matching under `"+last+"`"
						}
						continue
					}
					okFlag, why = false, "the match flag is assigned "+exprString(as.Rhs[i])
				} else if call, ok := unparen(as.Rhs[0]).(*ast.CallExpr); ok {
					if f := calleeOf(info, call); f == nil || f.Name() != "match" {
						okFlag, why = false, "the match flag is assigned from "+exprString(call.Fun)
					}
				}
			}
			return true
		})
		c.Check(okFlag, "first-match-wins", rel+"."+lf.Name+"#match-flag", p.Pos(loop.Pos()), "match-flag-set-otherwise", "a tenant set may only match when it is nil, an exact hit, or tenantSet.match says so: "+why)
	}
	checkErrsReturned(c, p, lf, "first-match-wins", "tenantSet.match", func(i *types.Info, call *ast.CallExpr) bool {
		f := calleeOf(i, call)
		return f != nil && f.Name() == "match" && strings.Contains(funcFullName(f), "tenantSet")
	}, nil)

	// (3) tenantSet.match
	if mf := p.Func(rel, "tenantSet", "match"); mf == nil {
		c.Incomplete("tenant-match", rel+".tenantSet.match", "", "function not found")
	} else {
		minfo := mf.Info()
		fastOK := true
		nTrue := 0
		okTrue := true
		why := ""
		ast.Inspect(mf.Body(), func(n ast.Node) bool {
			ret, ok := n.(*ast.ReturnStmt)
			if !ok || len(ret.Results) != 2 {
				return true
			}
			tv, isC := minfo.Types[ret.Results[0]]
			if !isC || tv.Value == nil || tv.Value.ExactString() != "true" {
				return true
			}
			nTrue++
			gs := guardsOf(p, mf, ret)
			inLoop := false
			var rng *ast.RangeStmt
			for par := p.ParentOf(mf.Pkg, ret); par != nil && par != mf.Node(); par = p.ParentOf(mf.Pkg, par) {
				if r, ok := par.(*ast.RangeStmt); ok {
					inLoop, rng = true, r
				}
			}
			if !inLoop {
				// fast path: must require the exact matcher
				has := false
				for _, g := range gs {
					if g.Pol && strings.Contains(exprString(g.Cond), "isExactMatcher(") {
						has = true
					}
				}
				if !has {
					fastOK, why = false, "a direct map hit is accepted without requiring an exact matcher ("+guardsString(gs)+")"
				}
				return true
			}
			// in loop: innermost positive guard is the result of filepath.Match(rangeKey, tenant) inside case Glob
			ok2 := false
			for _, g := range gs {
				if !g.Pol {
					continue
				}
				if id, isID := unparen(g.Cond).(*ast.Ident); isID {
					if o := objOf(minfo, id); o != nil {
						// defined by filepath.Match(pattern, tenant)
						ast.Inspect(mf.Body(), func(m ast.Node) bool {
							if as, isAs := m.(*ast.AssignStmt); isAs && len(as.Rhs) == 1 && len(as.Lhs) == 2 && objOf(minfo, as.Lhs[0]) == o {
								if call, isCall := unparen(as.Rhs[0]).(*ast.CallExpr); isCall && isCallTo(minfo, call, "path/filepath.Match") && len(call.Args) == 2 && rng.Key != nil && sameObjExpr(minfo, call.Args[0], rng.Key) {
									ok2 = true
								}
							}
							return true
						})
					}
				}
			}
			// or: the pattern has no glob metacharacter (`!strings.ContainsAny(pattern, S)` with *, ?, [ and \ in S)
			// and equals the tenant — for such a pattern filepath.Match is string equality
			if !ok2 && rng.Key != nil {
				plain, equal := false, false
				for _, g := range gs {
					cond, pol := unparen(g.Cond), g.Pol
					if u, isNot := cond.(*ast.UnaryExpr); isNot && u.Op == token.NOT {
						cond, pol = unparen(u.X), !pol
					}
					if call, isCall := cond.(*ast.CallExpr); isCall && !pol && isCallTo(minfo, call, "strings.ContainsAny") && len(call.Args) == 2 && sameObjExpr(minfo, call.Args[0], rng.Key) {
						if tv, okc := minfo.Types[call.Args[1]]; okc && tv.Value != nil {
							s := tv.Value.ExactString()
							plain = strings.Contains(s, "*") && strings.Contains(s, "?") && strings.Contains(s, "[") && strings.Contains(s, `\`)
						}
					}
					if be, isBin := cond.(*ast.BinaryExpr); isBin && pol && be.Op == token.EQL {
						if (sameObjExpr(minfo, be.X, rng.Key) && canon(be.Y) == paramWhere(mf, func(t string) bool { return t == "string" })) ||
							(sameObjExpr(minfo, be.Y, rng.Key) && canon(be.X) == paramWhere(mf, func(t string) bool { return t == "string" })) {
							equal = true
						}
					}
				}
				ok2 = plain && equal
			}
			// and within case TenantMatcherGlob
			inGlob := false
			for par := p.ParentOf(mf.Pkg, ret); par != nil && par != mf.Node(); par = p.ParentOf(mf.Pkg, par) {
				if cc, isCC := par.(*ast.CaseClause); isCC {
					for _, e := range cc.List {
						if strings.Contains(exprString(e), "Glob") {
							inGlob = true
						}
					}
				}
			}
			if !ok2 || !inGlob {
				okTrue, why = false, "inside the pattern loop `true` is returned without a successful filepath.Match(pattern, tenant) of a glob matcher"
			}
			return true
		})
		c.Check(fastOK && okTrue && nTrue >= 2, "tenant-match", rel+".tenantSet.match", p.Pos(mf.Decl.Pos()), "match-too-liberal", why)
		// last statement returns false
		last := mf.Decl.Body.List[len(mf.Decl.Body.List)-1]
		lr, isRet := last.(*ast.ReturnStmt)
		okLast := false
		if isRet && len(lr.Results) == 2 {
			if tv, ok := minfo.Types[lr.Results[0]]; ok && tv.Value != nil && tv.Value.ExactString() == "false" {
				okLast = true
			}
		}
		c.Check(okLast, "tenant-match", rel+".tenantSet.match#default-false", p.Pos(last.Pos()), "default-match", "tenantSet.match must report false when no pattern matched")
	}
	// lock-step
	if nm := p.Func(rel, "", "NewMultiHashring"); nm == nil {
		c.Incomplete("lock-step-config", rel+".NewMultiHashring", "", "function not found")
	} else {
		var loop *ast.RangeStmt
		ast.Inspect(nm.Body(), func(n ast.Node) bool {
			if r, ok := n.(*ast.RangeStmt); ok && exprString(r.X) == paramWhere(nm, func(ty string) bool { return ty == "[]receive.HashringConfig" }) {
				loop = r
			}
			return true
		})
		// a hashring is the default exactly when its tenant list has no entry: GetN recognises the default by a
		// nil tenant set, so the set must be created iff len(Tenants) > 0 — an empty but non-nil list
		// (`"tenants": []`) must still give nil.
		if loop != nil && loop.Value != nil {
			info := nm.Info()
			hv := canon(loop.Value)
			var setVar types.Object
			var guard ast.Expr
			unguarded := false
			ast.Inspect(loop.Body, func(n ast.Node) bool {
				as, ok := n.(*ast.AssignStmt)
				if !ok || len(as.Lhs) != 1 || len(as.Rhs) != 1 {
					return true
				}
				call, ok := unparen(as.Rhs[0]).(*ast.CallExpr)
				if !ok {
					return true
				}
				if id, ok := call.Fun.(*ast.Ident); !ok || id.Name != "make" {
					return true
				}
				if _, isMap := info.TypeOf(as.Lhs[0]).Underlying().(*types.Map); !isMap {
					return true
				}
				setVar = objOf(info, as.Lhs[0])
				if ifs, ok := p.ParentOf(nm.Pkg, p.ParentOf(nm.Pkg, as)).(*ast.IfStmt); ok && ifs.Else == nil && ifs.Init == nil {
					guard = ifs.Cond
				} else {
					unguarded = true
				}
				return true
			})
			switch {
			case setVar == nil:
				c.Incomplete("lock-step-config", rel+".NewMultiHashring#default-iff-no-tenants", p.Pos(loop.Pos()), "creation of the tenant set not found")
			case unguarded || guard == nil:
				c.Bad("lock-step-config", rel+".NewMultiHashring#default-iff-no-tenants", p.Pos(loop.Pos()), "tenant-set-always-created", "the tenant set is created for every hashring: none would be recognised as the default")
			default:
				x := newE9(p, nm, func(e ast.Expr, text string) string {
					if canon(e) == "len("+hv+".Tenants)" {
						return "n"
					}
					return ""
				})
				x.AtomCmp = func(e ast.Expr, t string) string {
					switch t {
					case hv + ".Tenants!=nil":
						return "nonnil"
					case hv + ".Tenants==nil":
						return "isnil"
					}
					return ""
				}
				_, cx, err := e9Table([]string{"n", "nonnil"}, []int64{0, 1}, func(env map[string]int64) bool {
					return !(env["nonnil"] == 0 && env["n"] > 0) // a nil list has no entries
				}, func(env map[string]int64) (int64, error) {
					env["isnil"] = 1 - env["nonnil"]
					v, err := x.eval(guard, env)
					return b2i(v.b), err
				}, func(env map[string]int64) int64 { return b2i(env["n"] > 0) })
				reportE9(c, "lock-step-config", rel+".NewMultiHashring#default-iff-no-tenants", p.Pos(guard.Pos()), cx, err,
					"the tenant set of a hashring is created under `"+exprString(guard)+"`, which is not `the tenant list has entries` (n = len(Tenants), nonnil = list is not nil): a hashring with an empty list would not act as the default")
			}
		}
		okLS := false
		if loop != nil {
			nh, nt, skip := 0, 0, false
			for _, st := range loop.Body.List {
				if as, ok := st.(*ast.AssignStmt); ok && len(as.Lhs) == 1 {
					switch {
					case strings.HasSuffix(canon(as.Lhs[0]), ".hashrings"):
						nh++
					case strings.HasSuffix(canon(as.Lhs[0]), ".tenantSets"):
						nt++
					}
				}
			}
			ast.Inspect(loop.Body, func(n ast.Node) bool {
				if b, ok := n.(*ast.BranchStmt); ok && (b.Tok == token.CONTINUE || b.Tok == token.BREAK) {
					// continue inside the inner tenants loop is harmless only if it is an inner loop's; be strict
					skip = true
				}
				return true
			})
			okLS = nh == 1 && nt == 1 && !skip
		}
		c.Check(okLS, "lock-step-config", rel+".NewMultiHashring", p.Pos(nm.Decl.Pos()), "hashrings-and-tenant-sets-out-of-step", "for every configuration entry exactly one hashring and one tenant set must be appended unconditionally")
	}
	// single writer
	writers := map[string]bool{}
	for _, fn := range p.AllFuncs(true) {
		ast.Inspect(fn.Body(), func(n ast.Node) bool {
			if as, ok := n.(*ast.AssignStmt); ok {
				for _, l := range as.Lhs {
					if ix, ok := unparen(l).(*ast.IndexExpr); ok {
						if sel, ok := unparen(ix.X).(*ast.SelectorExpr); ok && cfg.guardFor(fn.Info(), sel) != nil {
							writers[fn.Name] = true
						}
					}
				}
			}
			return true
		})
	}
	okW := len(writers) == 1 && writers[lf.Name]
	c.Check(okW, "cache-single-writer", rel+".multiHashring.cache", p.Pos(loop.Pos()), "extra-cache-writer:"+strings.Join(keysOf(writers), ","), "the routing cache is written by "+strings.Join(keysOf(writers), ", ")+"; only the in-order lookup may write it")
}
