package main

import (
	"go/ast"
	"go/types"
	"strings"
)

func init() {
	register(&Property{
		ID:    "C28",
		Title: "A block is visible in object storage only when all its files are",
		Explain: "E3 edge-sensitive must-precede over go/cfg: (1) in block.upload the Upload of the object named by block.MetaFilename is reachable only after UploadDir(chunks) and UploadFile(index) both returned nil, and after the file statistics were gathered; " +
			"(2) in block.Delete the meta.json delete (when it exists) has succeeded or was skipped before deleteDirRec runs, the deletion-mark delete is reachable only after deleteDirRec returned nil (a tolerated/ignored error class voids the fact), the keep predicate excludes exactly meta.json and the deletion mark, and deleteDirRec returns every per-object delete error (which stops the walk); " +
			"(3) replication uploads meta.json only after the chunk iteration and the index replication succeeded, and ensureObjectReplicated returns the errors of Exists/Get/Upload; " +
			"(4) Shipper.upload writes the rewritten meta.json into the upload directory before block.Upload and returns its result; " +
			"(5) E10: objects of a block are deleted from the bucket (Bucket.Delete) only in block.Delete / deleteDirRec / RemoveMark, and meta.json is uploaded only from the audited functions.",
		Assume: []string{"a single object upload is atomic in the object store", "objstore.UploadDir returns an error if any file failed"},
		Run:    runC28,
	})
}

func runC28(c *Ctx) {
	c.Rule("meta-uploaded-last", "meta.json upload only after chunks and index succeeded", 2)
	c.Rule("delete-order", "meta.json first, data next, deletion mark last; each step's error stops the sequence", 3)
	c.Rule("error-discipline", "storage errors are returned", 3)
	c.Rule("shipper-meta-before-upload", "meta written to the upload dir before block.Upload", 1)
	c.Rule("who-may-touch-block-objects", "audited callers", 5)
	p := c.Load("pkg/...", "cmd/...")
	if p == nil {
		return
	}
	isUpload := bucketMethod("Upload")
	isBktDelete := bucketMethod("Delete")

	// (1) block.upload
	if fn := p.Func("pkg/block", "", "upload"); fn == nil {
		c.Incomplete("meta-uploaded-last", "pkg/block.upload", "", "function not found")
	} else {
		e := newE3(p, fn, []Ev{
			{Name: "stats", Match: callTo("pkg/block.GatherFileStats")},
			{Name: "chunks", Match: func(i *types.Info, call *ast.CallExpr) bool {
				return isCallTo(i, call, "github.com/thanos-io/objstore.UploadDir") && argMentions(fn, call, 3, "ChunksDirname")
			}},
			{Name: "index", Match: func(i *types.Info, call *ast.CallExpr) bool {
				return isCallTo(i, call, "github.com/thanos-io/objstore.UploadFile") && argMentions(fn, call, 3, "IndexFilename")
			}},
			{Name: "meta", Match: func(i *types.Info, call *ast.CallExpr) bool {
				return isUpload(i, call) && argMentions(fn, call, 1, "MetaFilename")
			}},
		})
		metas := e.Calls("meta")
		if len(metas) == 0 {
			c.Incomplete("meta-uploaded-last", "pkg/block.upload#meta", p.Pos(fn.Decl.Pos()), "no upload of meta.json found")
		}
		for _, m := range metas {
			cb, _ := e.Before(m, "chunks")
			ib, _ := e.Before(m, "index")
			sb, _ := e.Before(m, "stats")
			c.Check(cb == eOK && ib == eOK, "meta-uploaded-last", "pkg/block.upload#meta", p.Pos(m.Pos()), "meta-before-data",
				"meta.json is uploaded on a path where the chunks upload is "+evBitsString(cb)+" and the index upload is "+evBitsString(ib)+": a reader could see a block whose files are missing")
			c.Check(sb == eOK, "meta-uploaded-last", "pkg/block.upload#stats-first", p.Pos(m.Pos()), "stats-after-upload", "file statistics are not gathered (successfully) before the uploads "+evBitsString(sb))
		}
		for _, ch := range e.Calls("chunks") {
			sb, _ := e.Before(ch, "stats")
			c.Check(sb == eOK, "meta-uploaded-last", "pkg/block.upload#stats-before-chunks", p.Pos(ch.Pos()), "stats-after-upload", "chunks are uploaded before the file statistics were gathered "+evBitsString(sb))
		}
		checkErrsReturned(c, p, fn, "error-discipline", "upload-steps", func(i *types.Info, call *ast.CallExpr) bool {
			return isCallTo(i, call, "github.com/thanos-io/objstore.UploadDir", "github.com/thanos-io/objstore.UploadFile") || isUpload(i, call)
		}, nil)
	}

	// (2) block.Delete
	if fn := p.Func("pkg/block", "", "Delete"); fn == nil {
		c.Incomplete("delete-order", "pkg/block.Delete", "", "function not found")
	} else {
		e := newE3(p, fn, []Ev{
			{Name: "delmeta", Match: func(i *types.Info, call *ast.CallExpr) bool {
				return isBktDelete(i, call) && argMentions(fn, call, 1, "MetaFilename")
			}},
			{Name: "rec", Match: callTo("pkg/block.deleteDirRec")},
			{Name: "delmark", Match: func(i *types.Info, call *ast.CallExpr) bool {
				return isBktDelete(i, call) && argMentions(fn, call, 1, "DeletionMarkFilename")
			}},
		})
		recs, marks := e.Calls("rec"), e.Calls("delmark")
		if len(recs) == 0 || len(marks) == 0 || len(e.Calls("delmeta")) == 0 {
			c.Incomplete("delete-order", "pkg/block.Delete", p.Pos(fn.Decl.Pos()), "the three deletion steps (meta.json, deleteDirRec, deletion mark) were not all found")
		}
		for _, r := range recs {
			mb, _ := e.Before(r, "delmeta")
			c.Check(mb&^(eNo|eOK) == 0, "delete-order", "pkg/block.Delete#meta-before-data", p.Pos(r.Pos()), "data-deleted-before-meta",
				"the block's data is deleted on a path where the meta.json delete is "+evBitsString(mb)+": the block could still be visible while its files disappear")
			// the keep predicate
			if len(r.Args) >= 5 {
				if lit, ok := unparen(r.Args[4]).(*ast.FuncLit); ok && len(lit.Body.List) == 1 {
					if ret, ok := lit.Body.List[0].(*ast.ReturnStmt); ok && len(ret.Results) == 1 {
						lf := &Fn{Pkg: fn.Pkg, Lit: lit, Name: "Delete$keep"}
						x := newE9(p, lf, func(ex ast.Expr, text string) string { return "" })
						x.AtomCmp = func(ex ast.Expr, text string) string {
							b, ok := unparen(ex).(*ast.BinaryExpr)
							if !ok || b.Op.String() != "==" {
								return ""
							}
							for _, side := range []ast.Expr{b.X, b.Y} {
								if id, ok := unparen(side).(*ast.Ident); ok {
									if o := objOf(fn.Info(), id); o != nil {
										if d := singleDef(fn, fn.Info(), o); d != nil {
											if strings.Contains(exprString(d), "DeletionMarkFilename") {
												return "isMark"
											}
											if strings.Contains(exprString(d), "MetaFilename") {
												return "isMeta"
											}
										}
									}
								}
							}
							return ""
						}
						_, cx, err := e9Table([]string{"isMeta", "isMark"}, []int64{0, 1}, func(env map[string]int64) bool { return env["isMeta"]+env["isMark"] < 2 },
							func(env map[string]int64) (int64, error) { v, err := x.eval(ret.Results[0], env); return b2i(v.b), err },
							func(env map[string]int64) int64 { return b2i(env["isMeta"] == 1 || env["isMark"] == 1) })
						reportE9(c, "delete-order", "pkg/block.Delete#keep-predicate", p.Pos(lit.Pos()), cx, err, "the files spared by the recursive delete are not exactly meta.json and the deletion mark")
					}
				}
			}
		}
		for _, m := range marks {
			rb, _ := e.Before(m, "rec")
			c.Check(rb == eOK, "delete-order", "pkg/block.Delete#mark-last", p.Pos(m.Pos()), "mark-deleted-before-data-gone",
				"the deletion mark is deleted on a path where the recursive data delete is "+evBitsString(rb)+" (not known to have succeeded): an unfinished deletion would lose its mark and leave orphaned files")
		}
	}
	if fn := p.Func("pkg/block", "", "deleteDirRec"); fn == nil {
		c.Incomplete("delete-order", "pkg/block.deleteDirRec", "", "function not found")
	} else {
		n := 0
		for _, u := range append([]*Fn{fn}, p.Lits(fn)...) {
			n += checkErrsReturned(c, p, u, "error-discipline", "per-object-delete", func(i *types.Info, call *ast.CallExpr) bool {
				return isBktDelete(i, call) || isCallTo(i, call, "pkg/block.deleteDirRec")
			}, nil)
		}
		if n == 0 {
			c.Incomplete("error-discipline", "pkg/block.deleteDirRec#per-object-delete", p.Pos(fn.Decl.Pos()), "no per-object delete found")
		}
		// and the walk's own error is returned
		info := fn.Info()
		okRet := false
		for _, st := range fn.Decl.Body.List {
			if r, ok := st.(*ast.ReturnStmt); ok && len(r.Results) == 1 {
				if call, ok := unparen(r.Results[0]).(*ast.CallExpr); ok && bucketMethod("Iter")(info, call) {
					okRet = true
				}
			}
		}
		if !okRet {
			// alternative: err bound and returned
			cnt := checkErrsReturned(c, p, fn, "error-discipline", "iter", bucketMethod("Iter"), nil)
			okRet = cnt > 0
		} else {
			c.OK("error-discipline", "pkg/block.deleteDirRec#iter", p.Pos(fn.Decl.Pos()), "Iter's error is the function's result")
		}
	}

	// (3) replication
	if fn := p.Func("pkg/replicate", "replicationScheme", "ensureBlockIsReplicated"); fn == nil {
		c.Incomplete("meta-uploaded-last", "pkg/replicate.ensureBlockIsReplicated", "", "function not found")
	} else {
		e := newE3(p, fn, []Ev{
			{Name: "chunks", Match: func(i *types.Info, call *ast.CallExpr) bool {
				return bucketMethod("Iter")(i, call) && argMentions(fn, call, 1, "ChunksDirname")
			}},
			{Name: "index", Match: func(i *types.Info, call *ast.CallExpr) bool {
				f := calleeOf(i, call)
				return f != nil && f.Name() == "ensureObjectReplicated" && argMentions(fn, call, 1, "IndexFilename")
			}},
			{Name: "meta", Match: func(i *types.Info, call *ast.CallExpr) bool {
				return isUpload(i, call) && argMentions(fn, call, 1, "MetaFilename")
			}},
		})
		ms := e.Calls("meta")
		if len(ms) == 0 {
			c.Incomplete("meta-uploaded-last", "pkg/replicate.ensureBlockIsReplicated#meta", p.Pos(fn.Decl.Pos()), "no upload of meta.json found")
		}
		for _, m := range ms {
			cb, _ := e.Before(m, "chunks")
			ib, _ := e.Before(m, "index")
			c.Check(cb == eOK && ib == eOK, "meta-uploaded-last", "pkg/replicate.ensureBlockIsReplicated#meta", p.Pos(m.Pos()), "meta-before-data",
				"meta.json is replicated on a path where the chunks iteration is "+evBitsString(cb)+" and the index replication is "+evBitsString(ib))
		}
		// the chunk callback returns replication errors
		for _, lit := range p.Lits(fn) {
			checkErrsReturned(c, p, lit, "error-discipline", "replicate-object", func(i *types.Info, call *ast.CallExpr) bool {
				f := calleeOf(i, call)
				return f != nil && f.Name() == "ensureObjectReplicated"
			}, nil)
		}
	}
	if fn := p.Func("pkg/replicate", "replicationScheme", "ensureObjectReplicated"); fn != nil {
		n := checkErrsReturned(c, p, fn, "error-discipline", "bucket-ops", bucketMethod("Exists", "Get", "Upload"), nil)
		if n < 3 {
			c.Observe("error-discipline", "pkg/replicate.ensureObjectReplicated#bucket-ops", p.Pos(fn.Decl.Pos()), "fewer bucket operations than expected")
		}
	} else {
		c.Incomplete("error-discipline", "pkg/replicate.ensureObjectReplicated", "", "function not found")
	}

	// (4) shipper
	if fn := p.Func("pkg/shipper", "Shipper", "upload"); fn == nil {
		c.Incomplete("shipper-meta-before-upload", "pkg/shipper.(*Shipper).upload", "", "function not found")
	} else {
		e := newE3(p, fn, []Ev{
			{Name: "writemeta", Match: func(i *types.Info, call *ast.CallExpr) bool {
				f := calleeOf(i, call)
				return f != nil && f.Name() == "WriteToDir"
			}},
			{Name: "upload", Match: callTo("pkg/block.Upload", "pkg/block.UploadPromBlock")},
		})
		ups := e.Calls("upload")
		if len(ups) == 0 {
			c.Bad("shipper-meta-before-upload", "pkg/shipper.(*Shipper).upload", p.Pos(fn.Decl.Pos()), "no-block-upload", "Shipper.upload does not end in block.Upload")
		}
		for _, u := range ups {
			wb, _ := e.Before(u, "writemeta")
			isRet := false
			if r, ok := p.ParentOf(fn.Pkg, u).(*ast.ReturnStmt); ok && len(r.Results) == 1 {
				isRet = true
			}
			c.Check(wb == eOK && isRet, "shipper-meta-before-upload", "pkg/shipper.(*Shipper).upload", p.Pos(u.Pos()), "upload-without-rewritten-meta",
				"block.Upload is reachable with the meta rewrite "+evBitsString(wb)+" or its result is not returned directly")
		}
	}

	// (5) who may touch
	sites := 0
	for _, fn := range p.AllFuncs(true) {
		info := fn.Info()
		name := relPkg(fn.Pkg.PkgPath) + "." + fn.Name
		ast.Inspect(fn.Body(), func(n ast.Node) bool {
			call, ok := n.(*ast.CallExpr)
			if !ok {
				return true
			}
			if isBktDelete(info, call) && (strings.HasPrefix(fn.Pkg.PkgPath, thanosMod+"/pkg/block") || strings.HasPrefix(fn.Pkg.PkgPath, thanosMod+"/pkg/compact") ||
				strings.HasPrefix(fn.Pkg.PkgPath, thanosMod+"/pkg/shipper") || strings.HasPrefix(fn.Pkg.PkgPath, thanosMod+"/pkg/replicate") || strings.HasPrefix(fn.Pkg.PkgPath, thanosMod+"/pkg/verifier") || strings.HasPrefix(fn.Pkg.PkgPath, thanosMod+"/cmd/")) {
				sites++
				allow := map[string]string{
					"pkg/block.Delete":       "the ordered block deletion",
					"pkg/block.deleteDirRec": "recursive helper of block.Delete",
					"pkg/block.RemoveMark":   "removes a marker file only",
				}
				if why, ok := allow[name]; ok {
					c.OK("who-may-touch-block-objects", "Bucket.Delete←"+name, p.Pos(call.Pos()), why)
				} else {
					c.Bad("who-may-touch-block-objects", "Bucket.Delete←"+name, p.Pos(call.Pos()), "unlisted-object-delete:"+name, name+" deletes bucket objects directly; block objects may only be removed through block.Delete (ordered) or RemoveMark")
				}
			}
			if isUpload(info, call) && argMentions(fn, call, 1, "MetaFilename") {
				sites++
				allow := map[string]string{
					"pkg/block.upload": "uploads meta.json last",
					"pkg/replicate.(*replicationScheme).ensureBlockIsReplicated": "replicates meta.json last",
				}
				if why, ok := allow[name]; ok {
					c.OK("who-may-touch-block-objects", "meta.json-upload←"+name, p.Pos(call.Pos()), why)
				} else {
					c.Bad("who-may-touch-block-objects", "meta.json-upload←"+name, p.Pos(call.Pos()), "unlisted-meta-upload:"+name, name+" uploads meta.json; only the audited functions may make a block visible")
				}
			}
			return true
		})
	}
	c.Stats["call_sites"] += sites
}
