package main

import (
	"go/ast"
	"go/token"
	"go/types"
	"strings"

	"golang.org/x/tools/go/cfg"
)

func init() {
	register(&Property{
		ID:    "C29",
		Title: "Compaction never loses or invents data, even if it crashes",
		Explain: "E3 in Group.compact: (1) every deleteBlock(source) outside the empty-result branch is reachable only after the loop over the compaction results has run (guarded by the `len(compIDs) == 0` early return) with block.Upload having returned nil at the end of every iteration — sources are marked only when a complete replacement is in the bucket, which is what makes every crash point safe; " +
			"(2) the only other deleteBlock is guarded by len(compIDs) == 0 && meta.Stats.NumSamples == 0; (3) deleteBlock marks the block (block.MarkForDeletion) and never deletes bucket objects itself; " +
			"(4) Syncer.GarbageCollect marks only ids taken from duplicateBlocksFilter.DuplicateIDs() that are neither already marked nor just deleted (E9 on the append guard, provenance of the marked id); (5) E4: errors of upload / mark are returned.",
		Assume: []string{"sample-level equality of the compacted output and what a store serves at each crash point need a model or execution (other technique families)", "block.Upload uploads meta.json last (C28)"},
		Run:    runC29,
	})
}

// wrappedCall: call is `tracing.DoInSpanWithErr(ctx, name, func(...) error { ... inner(...) ... })`
// whose literal calls a function matched by inner, or a direct call matched by inner that is not
// inside a function literal.
func wrappedOrDirect(p *Prog, fn *Fn, inner func(*types.Info, *ast.CallExpr) bool) func(*types.Info, *ast.CallExpr) bool {
	return func(info *types.Info, call *ast.CallExpr) bool {
		if f := calleeOf(info, call); f != nil {
			if idx, ok := syncOnceHelpers[funcFullName(f)]; ok && idx < len(call.Args) {
				if lit, ok := unparen(call.Args[idx]).(*ast.FuncLit); ok {
					found := false
					ast.Inspect(lit.Body, func(n ast.Node) bool {
						if c2, ok := n.(*ast.CallExpr); ok && inner(info, c2) {
							found = true
						}
						return true
					})
					return found
				}
			}
		}
		if !inner(info, call) {
			return false
		}
		for par := p.ParentOf(fn.Pkg, call); par != nil && par != fn.Node(); par = p.ParentOf(fn.Pkg, par) {
			if _, isLit := par.(*ast.FuncLit); isLit {
				return false
			}
		}
		return true
	}
}

func runC29(c *Ctx) {
	c.Rule("sources-marked-after-upload", "deleteBlock only after every result block was uploaded", 2)
	c.Rule("empty-source-guard", "the other deleteBlock only for empty sources of an empty result", 1)
	c.Rule("mark-not-delete", "deleteBlock marks, never deletes", 1)
	c.Rule("gc-only-duplicates", "GarbageCollect marks only unmarked, not-just-deleted duplicates", 2)
	c.Rule("error-discipline", "upload / mark errors returned", 2)
	p := c.Load("pkg/compact")
	if p == nil {
		return
	}
	fn := p.Func("pkg/compact", "Group", "compact")
	if fn == nil {
		c.Incomplete("sources-marked-after-upload", "pkg/compact.(*Group).compact", "", "function not found")
		return
	}
	isUpload := wrappedOrDirect(p, fn, callTo("pkg/block.Upload"))
	isDelete := wrappedOrDirect(p, fn, func(i *types.Info, call *ast.CallExpr) bool {
		f := calleeOf(i, call)
		return f != nil && f.Name() == "deleteBlock" && strings.Contains(funcFullName(f), "compact.Group")
	})
	e := newE3(p, fn, []Ev{{Name: "upload", Match: isUpload}, {Name: "delete", Match: isDelete}})
	uploads, deletes := e.Calls("upload"), e.Calls("delete")
	if len(uploads) == 0 || len(deletes) == 0 {
		c.Incomplete("sources-marked-after-upload", "pkg/compact.(*Group).compact", p.Pos(fn.Decl.Pos()), "upload or deleteBlock call not found")
		return
	}
	// the upload loop: range over the result ids containing the upload
	var upLoop *ast.RangeStmt
	for par := p.ParentOf(fn.Pkg, uploads[0]); par != nil && par != fn.Node(); par = p.ParentOf(fn.Pkg, par) {
		if r, ok := par.(*ast.RangeStmt); ok {
			upLoop = r
			break
		}
	}
	if upLoop == nil {
		c.Incomplete("sources-marked-after-upload", "pkg/compact.(*Group).compact#upload-loop", p.Pos(uploads[0].Pos()), "the upload is not inside a loop over the result blocks")
		return
	}
	resultIDs := exprString(upLoop.X)
	// per iteration: at every back edge of the loop the upload has succeeded
	perIter := true
	where := p.Pos(upLoop.Pos())
	for _, b := range e.res.G.Blocks {
		if !e.res.Seen[b] {
			continue
		}
		for _, s := range b.Succs {
			if s.Kind == cfg.KindRangeLoop && s.Stmt == ast.Stmt(upLoop) && blockInsideNode(b, upLoop.Body) {
				st := e.res.BlockOut(b)
				if st.bits[e.idx("upload")] != eOK {
					perIter = false
					if len(b.Nodes) > 0 {
						where = p.Pos(b.Nodes[len(b.Nodes)-1].Pos())
					}
				}
			}
		}
	}
	c.Check(perIter, "sources-marked-after-upload", "pkg/compact.(*Group).compact#every-result-uploaded", where, "iteration-without-upload",
		"an iteration of the loop over the compaction results can finish without block.Upload having returned nil")
	nMain := 0
	for _, d := range deletes {
		gs := guardsOf(p, fn, d)
		emptyBranch := false
		for _, g := range gs {
			if g.Pol && strings.ReplaceAll(exprString(g.Cond), " ", "") == "len("+resultIDs+")==0" {
				emptyBranch = true
			}
		}
		if emptyBranch {
			// (2)
			hasNoSamples := false
			for _, g := range gs {
				if g.Pol && strings.HasSuffix(strings.ReplaceAll(exprString(g.Cond), " ", ""), ".Stats.NumSamples==0") {
					hasNoSamples = true
				}
			}
			c.Check(hasNoSamples, "empty-source-guard", "pkg/compact.(*Group).compact#delete-empty-source", p.Pos(d.Pos()), "non-empty-source-deleted",
				"a source block is marked in the empty-result branch without the guard NumSamples == 0 ("+guardsString(gs)+")")
			continue
		}
		nMain++
		ub, _ := e.Before(d, "upload")
		nonEmpty := false
		for _, g := range gs {
			if !g.Pol && strings.ReplaceAll(exprString(g.Cond), " ", "") == "len("+resultIDs+")==0" {
				nonEmpty = true
			}
		}
		after := d.Pos() > upLoop.End()
		ok := ub&^(eNo|eOK) == 0 && ub&eOK != 0 && nonEmpty && after && perIter
		c.Check(ok, "sources-marked-after-upload", "pkg/compact.(*Group).compact#delete-sources", p.Pos(d.Pos()), "sources-marked-before-replacement-uploaded",
			"source blocks are marked for deletion on a path where the upload of the result is "+evBitsString(ub)+" (after the upload loop: "+boolStr(after)+", non-empty result guaranteed: "+boolStr(nonEmpty)+"): a crash or upload failure here leaves the sources hidden without a replacement")
	}
	if nMain == 0 {
		c.Bad("sources-marked-after-upload", "pkg/compact.(*Group).compact#delete-sources", p.Pos(fn.Decl.Pos()), "sources-never-marked", "the compacted sources are never marked for deletion")
	}
	checkErrsReturned(c, p, fn, "error-discipline", "upload", isUpload, nil)
	// the empty-result branch marks empty sources best-effort (logged, not returned): excluded by position
	checkErrsReturned(c, p, fn, "error-discipline", "mark-sources", func(i *types.Info, call *ast.CallExpr) bool {
		return isDelete(i, call) && call.Pos() > upLoop.End()
	}, nil)

	// (3)
	if db := p.Func("pkg/compact", "Group", "deleteBlock"); db == nil {
		c.Incomplete("mark-not-delete", "pkg/compact.(*Group).deleteBlock", "", "function not found")
	} else {
		marks, dels := 0, 0
		ast.Inspect(db.Body(), func(n ast.Node) bool {
			if call, ok := n.(*ast.CallExpr); ok {
				if isCallTo(db.Info(), call, "pkg/block.MarkForDeletion") {
					marks++
				}
				if isCallTo(db.Info(), call, "pkg/block.Delete") || bucketMethod("Delete")(db.Info(), call) {
					dels++
				}
			}
			return true
		})
		c.Check(marks >= 1 && dels == 0, "mark-not-delete", "pkg/compact.(*Group).deleteBlock", p.Pos(db.Decl.Pos()), "sources-deleted-not-marked",
			"deleteBlock must only mark the source (readers keep it for the delete delay) and never remove bucket objects")
		checkErrsReturned(c, p, db, "error-discipline", "mark", callTo("pkg/block.MarkForDeletion"), nil)
	}

	// (4)
	if gc := p.Func("pkg/compact", "Syncer", "GarbageCollect"); gc == nil {
		c.Incomplete("gc-only-duplicates", "pkg/compact.(*Syncer).GarbageCollect", "", "function not found")
	} else {
		ginfo := gc.Info()
		var mark *ast.CallExpr
		ast.Inspect(gc.Body(), func(n ast.Node) bool {
			if call, ok := n.(*ast.CallExpr); ok && isCallTo(ginfo, call, "pkg/block.MarkForDeletion") {
				mark = call
			}
			return true
		})
		if mark == nil || len(mark.Args) < 4 {
			c.Incomplete("gc-only-duplicates", "pkg/compact.(*Syncer).GarbageCollect#mark", p.Pos(gc.Decl.Pos()), "MarkForDeletion call not found")
			return
		}
		// the marked id ranges over a slice that is only appended from a range over DuplicateIDs()
		var markLoop *ast.RangeStmt
		for par := p.ParentOf(gc.Pkg, mark); par != nil && par != gc.Node(); par = p.ParentOf(gc.Pkg, par) {
			if r, ok := par.(*ast.RangeStmt); ok {
				markLoop = r
				break
			}
		}
		okProv := false
		var app *ast.AssignStmt
		var srcLoop *ast.RangeStmt
		if markLoop != nil && markLoop.Value != nil && sameObjExpr(ginfo, mark.Args[3], markLoop.Value) {
			listObj := objOf(ginfo, markLoop.X)
			ast.Inspect(gc.Body(), func(n ast.Node) bool {
				as, ok := n.(*ast.AssignStmt)
				if !ok || len(as.Lhs) != 1 || objOf(ginfo, as.Lhs[0]) != listObj || as.Tok != token.ASSIGN {
					return true
				}
				if call, ok := unparen(as.Rhs[0]).(*ast.CallExpr); ok {
					if id, ok := call.Fun.(*ast.Ident); ok && id.Name == "append" {
						app = as
					}
				}
				return true
			})
			if app != nil {
				for par := p.ParentOf(gc.Pkg, app); par != nil && par != gc.Node(); par = p.ParentOf(gc.Pkg, par) {
					if r, ok := par.(*ast.RangeStmt); ok {
						srcLoop = r
						break
					}
				}
				if srcLoop != nil {
					src := unparen(srcLoop.X)
					if id, ok := src.(*ast.Ident); ok {
						if o := objOf(ginfo, id); o != nil {
							if d := singleDef(gc, ginfo, o); d != nil {
								src = unparen(d)
							}
						}
					}
					call := unparen(app.Rhs[0]).(*ast.CallExpr)
					if strings.HasSuffix(exprString(src), ".DuplicateIDs()") && len(call.Args) == 2 && srcLoop.Value != nil && sameObjExpr(ginfo, call.Args[1], srcLoop.Value) {
						okProv = true
					}
				}
			}
		}
		c.Check(okProv, "gc-only-duplicates", "pkg/compact.(*Syncer).GarbageCollect#id-provenance", p.Pos(mark.Pos()), "marks-non-duplicate",
			"the id marked by GarbageCollect is not drawn exclusively from duplicateBlocksFilter.DuplicateIDs()")
		if app != nil {
			gs := guardsOf(p, gc, app)
			x := newE9(p, gc, func(ex ast.Expr, text string) string {
				t := strings.ReplaceAll(text, " ", "")
				switch {
				case strings.HasPrefix(t, "deletionMarkMap["):
					return "marked"
				case strings.HasPrefix(t, "justDeletedBlocks["):
					return "justDeleted"
				}
				return ""
			})
			n, cx, err := e9Table([]string{"marked", "justDeleted"}, []int64{0, 1}, nil,
				func(env map[string]int64) (int64, error) { b, err := x.evalGuards(gs, env); return b2i(b), err },
				func(env map[string]int64) int64 { return b2i(env["marked"] == 0 && env["justDeleted"] == 0) })
			c.Stats["assignments_evaluated"] += n
			reportE9(c, "gc-only-duplicates", "pkg/compact.(*Syncer).GarbageCollect#exclusions", p.Pos(app.Pos()), cx, err,
				"a duplicate is queued for marking under ("+guardsString(gs)+"), not exactly `not already marked && not just deleted`")
		}
		checkErrsReturned(c, p, gc, "error-discipline", "gc-mark", callTo("pkg/block.MarkForDeletion"), nil)
	}
}

func blockInsideNode(b *cfg.Block, n ast.Node) bool {
	if len(b.Nodes) > 0 {
		return within(b.Nodes[0], n.Pos(), n.End())
	}
	if b.Stmt != nil {
		return within(b.Stmt, n.Pos(), n.End()) || b.Stmt.Pos() >= n.Pos() && b.Stmt.End() <= n.End()
	}
	return false
}
