package main

import (
	"fmt"
	"go/ast"
	"go/token"
	"strings"
)

func init() {
	register(&Property{
		ID:    "C30",
		Title: "Compaction planning is safe and converges",
		Explain: "Structural necessary conditions of the safety clauses only. (1) Blocks marked no-compact never enter a plan: the overlap selection and the tombstone rule run on the list from which marked blocks were removed, and selectMetas returns only sub-slices that lie strictly between marked blocks (the cut index moves past every marked block). " +
			"(2) Every multi-block plan has at least two blocks: each slice returned by selectMetas is guarded by len(…) > 1, and selectOverlappingMetas adds the preceding block at the first overlap. " +
			"(3) The newest block is not planned by the range rule: selectMetas is called on the list without its last element. " +
			"(4) A range group fits one aligned range: splitByRange's range start, interpreted over the integer domain for every small (MinTime incl. negative, range size), is the aligned start t0 with t0 <= MinTime < t0 + tr; a block enters the group only while MaxTime <= t0 + tr and a first block that does not fit is skipped.",
		Assume: []string{"convergence of repeated planning and applying, and the interplay with vertical compaction, are properties of histories and are not decided"},
		Run:    runC30,
	})
}

func runC30(c *Ctx) {
	c.Rule("no-compact-never-planned", "marked blocks filtered / cut around", 3)
	c.Rule("multi-block-plans-have-two", "len > 1 guards; first overlap adds the previous block", 2)
	c.Rule("newest-block-not-range-planned", "selectMetas sees the list without its last block", 1)
	c.Rule("range-group-fits-one-range", "aligned t0; members end within t0+tr", 2)
	p := c.Load("pkg/compact")
	if p == nil {
		return
	}
	const rel = "pkg/compact"
	if fn := p.Func(rel, "tsdbBasedPlanner", "plan"); fn == nil {
		c.Incomplete("no-compact-never-planned", rel+".(*tsdbBasedPlanner).plan", "", "function not found")
	} else {
		info := fn.Info()
		construct := rel + ".(*tsdbBasedPlanner).plan"
		var pn []string
		for _, f := range fn.Decl.Type.Params.List {
			for _, nm := range f.Names {
				pn = append(pn, nm.Name)
			}
		}
		if len(pn) != 2 {
			c.Incomplete("no-compact-never-planned", construct, p.Pos(fn.Decl.Pos()), "unexpected signature")
			return
		}
		pMarked, pMetas := pn[0], pn[1]
		bind := shapeBind{}
		// the filtered list
		okFilter := false
		ast.Inspect(fn.Body(), func(nd ast.Node) bool {
			rs, ok := nd.(*ast.RangeStmt)
			if !ok || canon(rs.X) != pMetas || len(rs.Body.List) != 2 {
				return true
			}
			is, ok1 := rs.Body.List[0].(*ast.IfStmt)
			as, ok2 := rs.Body.List[1].(*ast.AssignStmt)
			if ok1 && ok2 && is.Init != nil && strings.Contains(stmtText(p, is.Init), ":="+pMarked+"[") && len(is.Body.List) == 1 && stmtText(p, is.Body.List[0]) == "continue" &&
				prefixShape("§kept=append(§kept,", stmtText(p, as), bind) {
				okFilter = true
			}
			return true
		})
		overlapOnFiltered, tombOnFiltered := false, false
		ast.Inspect(fn.Body(), func(nd ast.Node) bool {
			switch v := nd.(type) {
			case *ast.CallExpr:
				if f := calleeOf(info, v); f != nil && f.Name() == "selectOverlappingMetas" && len(v.Args) == 1 && bind["§kept"] != "" && canon(v.Args[0]) == bind["§kept"] {
					overlapOnFiltered = true
				}
			case *ast.ForStmt:
				if v.Init != nil && bind["§kept"] != "" && strings.Contains(stmtText(p, v.Init), "len("+bind["§kept"]+")-1") {
					// returns only elements of the filtered list
					ok := true
					ast.Inspect(v.Body, func(x ast.Node) bool {
						if ret, isRet := x.(*ast.ReturnStmt); isRet && len(ret.Results) == 2 && !isNil(info, ret.Results[0]) {
							if !containsShape("§kept[§ti]", stmtText(p, ret.Results[0]), bind) {
								ok = false
							}
						}
						return true
					})
					tombOnFiltered = ok
				}
			}
			return true
		})
		c.Check(okFilter && overlapOnFiltered, "no-compact-never-planned", construct+"#overlap", p.Pos(fn.Decl.Pos()), "marked-block-in-overlap-plan",
			"overlapping blocks must be selected from the list without no-compact marked blocks")
		c.Check(okFilter && tombOnFiltered, "no-compact-never-planned", construct+"#tombstones", p.Pos(fn.Decl.Pos()), "marked-block-in-tombstone-plan",
			"the tombstone rule must pick its block from the list without no-compact marked blocks")
		// (3)
		trimPos, callPos, callArg := token.NoPos, token.NoPos, ""
		ast.Inspect(fn.Body(), func(nd ast.Node) bool {
			switch v := nd.(type) {
			case *ast.AssignStmt:
				if stmtText(p, v) == pMetas+"="+pMetas+"[:len("+pMetas+")-1]" {
					trimPos = v.Pos()
				}
			case *ast.CallExpr:
				if f := calleeOf(info, v); f != nil && f.Name() == "selectMetas" && len(v.Args) == 3 {
					callPos, callArg = v.Pos(), canon(v.Args[2])
				}
			}
			return true
		})
		c.Check(trimPos != token.NoPos && callPos > trimPos && callArg == pMetas, "newest-block-not-range-planned", construct, p.Pos(fn.Decl.Pos()), "newest-block-planned",
			"the range rule must not see the newest block (selectMetas must be called after the last element was cut off)")
	}
	if fn := p.Func(rel, "", "selectMetas"); fn == nil {
		c.Incomplete("no-compact-never-planned", rel+".selectMetas", "", "function not found")
	} else {
		info := fn.Info()
		construct := rel + ".selectMetas"
		// the cut loop
		var cut *ast.RangeStmt
		ast.Inspect(fn.Body(), func(nd ast.Node) bool {
			if rs, ok := nd.(*ast.RangeStmt); ok && rs.Key != nil && len(rs.Body.List) == 3 {
				if _, isAs := rs.Body.List[2].(*ast.AssignStmt); isAs && matchShape("§last=§i+1", stmtText(p, rs.Body.List[2]), shapeBind{"§i": canon(rs.Key)}) {
					cut = rs
				}
			}
			return true
		})
		bad := ""
		if cut == nil {
			bad = "the loop that cuts a group around marked blocks was not found"
		} else {
			cb := shapeBind{"§i": canon(cut.Key)}
			body := cut.Body.List
			ok := len(body) == 3
			if ok {
				is0, a := body[0].(*ast.IfStmt)
				is1, b := body[1].(*ast.IfStmt)
				as2, cc := body[2].(*ast.AssignStmt)
				ok = a && b && cc &&
					is0.Init != nil && containsShape(":=§marked[", stmtText(p, is0.Init), cb) && strings.HasPrefix(stmtText(p, is0.Cond), "!") && stmtText(p, is0.Body) == "{continue}" &&
					matchShape("len(§p[§last:§i])>1", stmtText(p, is1.Cond), cb) && matchShape("{return §p[§last:§i]}", strings.Replace(stmtText(p, is1.Body), "{return", "{return ", 1), cb) &&
					matchShape("§last=§i+1", stmtText(p, as2), cb)
			}
			if !ok {
				bad = "the group is not cut as: unmarked → continue; marked → return p[lastExcluded:i] if it has more than one block, then lastExcluded = i+1"
			}
		}
		c.Check(bad == "", "no-compact-never-planned", construct+"#cut", p.Pos(fn.Decl.Pos()), "marked-block-in-range-plan", bad)
		// (2) every non-nil return guarded by len(...) > 1 of the returned slice
		nRet, badRet := 0, ""
		ast.Inspect(fn.Body(), func(nd ast.Node) bool {
			ret, ok := nd.(*ast.ReturnStmt)
			if !ok || len(ret.Results) != 1 || isNil(info, ret.Results[0]) {
				return true
			}
			nRet++
			want := "len(" + stmtText(p, ret.Results[0]) + ")>1"
			if is, ok := enclosingIf(p, fn, ret); !ok || stmtText(p, is.Cond) != want {
				badRet = "a group is returned without the test " + want
			}
			return true
		})
		if nRet == 0 {
			badRet = "no group is ever returned"
		}
		c.Check(badRet == "", "multi-block-plans-have-two", construct, p.Pos(fn.Decl.Pos()), "single-block-range-plan", badRet)
	}
	if fn := p.Func(rel, "", "selectOverlappingMetas"); fn == nil {
		c.Incomplete("multi-block-plans-have-two", rel+".selectOverlappingMetas", "", "function not found")
	} else {
		ok := false
		ast.Inspect(fn.Body(), func(nd ast.Node) bool {
			is, isIf := nd.(*ast.IfStmt)
			ob := shapeBind{}
			if !isIf || !matchShape("len(§ov)==0", stmtText(p, is.Cond), ob) || len(is.Body.List) != 1 {
				return true
			}
			if matchShape("§ov=append(§ov,§metas[§i])", stmtText(p, is.Body.List[0]), ob) {
				ok = true
			}
			return true
		})
		c.Check(ok, "multi-block-plans-have-two", rel+".selectOverlappingMetas", p.Pos(fn.Decl.Pos()), "single-block-overlap-plan",
			"at the first overlap the block it overlaps with must be added too (an overlap plan has at least two blocks)")
	}

	// (4)
	if fn := p.Func(rel, "", "splitByRange"); fn == nil {
		c.Incomplete("range-group-fits-one-range", rel+".splitByRange", "", "function not found")
	} else {
		construct := rel + ".splitByRange"
		// names by role: the membership test `m.MaxTime > t0 + tr` gives the window start and the range size
		nb := shapeBind{}
		var alignStmts []ast.Stmt
		var alignPos ast.Node
		ast.Inspect(fn.Body(), func(nd ast.Node) bool {
			f, ok := nd.(*ast.ForStmt)
			if !ok || len(alignStmts) > 0 {
				return true
			}
			for i, st := range f.Body.List {
				is, ok := st.(*ast.IfStmt)
				if !ok || !matchShape("§m.MaxTime>§t0+§tr", stmtText(p, is.Cond), nb) || !strings.Contains(stmtText(p, is.Body), "continue") {
					continue
				}
				for _, prev := range f.Body.List[:i] {
					if strings.Contains(stmtText(p, prev), nb["§t0"]+"=") {
						alignStmts = append(alignStmts, prev)
						if alignPos == nil {
							alignPos = prev
						}
					}
				}
			}
			return true
		})
		var align ast.Node = alignPos
		if align == nil {
			c.Incomplete("range-group-fits-one-range", construct+"#alignment", p.Pos(fn.Decl.Pos()), "alignment computation not found")
		} else {
			viol, runs := "", 0
			unknown := map[string]bool{}
			for tr := int64(1); tr <= 4 && viol == ""; tr++ {
				for mn := int64(-9); mn <= 9 && viol == ""; mn++ {
					li := &lenInterp{p: p, fn: fn, info: fn.Info(), slices: map[string]bool{},
						atoms: func(t string) string {
							if strings.HasSuffix(t, ".MinTime") {
								return "mn"
							}
							return ""
						}, check: func(lenState, ast.Node) string { return "" }}
					out := li.run(alignStmts, lenState{v: map[string]int64{"mn": mn, nb["§tr"]: tr, nb["§t0"]: 0}})
					runs++
					for _, u := range li.unknown {
						unknown[u] = true
					}
					for _, s := range out {
						t0 := s.v[nb["§t0"]]
						if ((t0%tr)+tr)%tr != 0 || !(t0 <= mn && mn < t0+tr) {
							viol = fmt.Sprintf("MinTime=%d range=%d → t0=%d is not the aligned range start containing the block's start", mn, tr, t0)
						}
					}
				}
			}
			c.Stats["abstract_runs"] += runs
			switch {
			case len(unknown) > 0:
				c.Incomplete("range-group-fits-one-range", construct+"#alignment", p.Pos(align.Pos()), "statement forms not understood: "+strings.Join(keysOf(unknown), "; "))
			case viol != "":
				c.Bad("range-group-fits-one-range", construct+"#alignment", p.Pos(align.Pos()), "range-start-misaligned", viol)
			default:
				c.OK("range-group-fits-one-range", construct+"#alignment", p.Pos(align.Pos()), fmt.Sprintf("%d abstract runs", runs))
			}
		}
		// membership
		skipFirst, stopAtEnd := false, false
		mb := shapeBind{}
		ast.Inspect(fn.Body(), func(nd ast.Node) bool {
			is, ok := nd.(*ast.IfStmt)
			if !ok {
				return true
			}
			t := stmtText(p, is.Cond)
			if matchShape("§m.MaxTime>§t0+§tr", t, mb) && strings.Contains(stmtText(p, is.Body), "continue") {
				skipFirst = true
			}
			if matchShape("§metas[§i].MaxTime>§t0+§tr", t, mb) && stmtText(p, is.Body) == "{break}" {
				stopAtEnd = true
			}
			return true
		})
		c.Check(skipFirst && stopAtEnd, "range-group-fits-one-range", construct+"#membership", p.Pos(fn.Decl.Pos()), "group-exceeds-range",
			"a block that ends after t0+tr must neither start nor join a group")
	}
}
