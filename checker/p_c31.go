package main

import (
	"go/ast"
	"go/types"
	"strings"
)

func init() {
	register(&Property{
		ID:    "C31",
		Title: "Duplicate-block filter hides only blocks fully covered by one other block",
		Explain: "(1) contains(s1, s2) is summarised (boolean-shape extraction) to ALL a in s2 . ANY e in s1 . a == e and compared with that specification on every small model. " +
			"(2) In filterGroup a block is recorded as duplicate only on the true edge of contains(parent.Compaction.Sources, child.Compaction.Sources) where parent ranges over the covering set — one single kept block must contain all of the child's sources; a union of several blocks' sources does not count — and the covering set grows only by children that were not recorded as duplicates. " +
			"(3) The visiting order is a total order: more sources first, ULID as tie-break (E9 truth table of the sort comparator), so the result does not depend on listing order. " +
			"(4) Concurrency independence: the shared metas map is modified in exactly one goroutine (the collector), workers talk to it only through the duplicates channel, duplicateIDs is written under the mutex, and blocks are compared only within their compaction group (GroupKey).",
		Assume: []string{"the covering-set argument itself (that visiting by descending source count finds a covering block whenever one exists) is not decided"},
		Run:    runC31,
	})
}

func runC31(c *Ctx) {
	c.Rule("contains-is-subset-test", "contains(s1,s2) = ALL a in s2. ANY e in s1. a==e", 1)
	c.Rule("duplicate-only-if-single-block-covers", "duplicate iff one kept block contains all sources", 2)
	c.Rule("visit-order-total", "sources descending, ULID tie-break", 1)
	c.Rule("filter-concurrency-discipline", "single writer of metas; group-local comparison", 3)
	p := c.Load("pkg/block")
	if p == nil {
		return
	}
	const rel = "pkg/block"
	maxD := 2
	if c.Tier == "thorough" {
		maxD = 3
	}

	// (1)
	if fn := p.Func(rel, "", "contains"); fn == nil {
		c.Incomplete("contains-is-subset-test", rel+".contains", "", "function not found")
	} else {
		var names []string
		for _, f := range fn.Decl.Type.Params.List {
			for _, nm := range f.Names {
				names = append(names, nm.Name)
			}
		}
		if len(names) != 2 {
			c.Incomplete("contains-is-subset-test", rel+".contains", p.Pos(fn.Decl.Pos()), "unexpected signature")
		} else {
			cls := bfClassifier{
				Atom: func(t string) (string, bool) {
					t = strings.ReplaceAll(t, " ", "")
					switch {
					case strings.Contains(t, ".Compare(") && strings.HasSuffix(t, ")==0"):
						return "eq", false
					case strings.Contains(t, ".Compare(") && strings.HasSuffix(t, ")!=0"):
						return "eq", true
					case strings.Contains(t, "=="):
						return "eq", false
					case strings.Contains(t, "!="):
						return "eq", true
					}
					return "", false
				},
				Domain: func(t string) string {
					switch t {
					case names[0]:
						return "P"
					case names[1]:
						return "C"
					}
					return ""
				},
			}
			f, x := extractBF(p, fn, 0, cls)
			c.Stats["loops_summarised"] += x.NLoops
			if len(x.errs) > 0 {
				c.Incomplete("contains-is-subset-test", rel+".contains", p.Pos(fn.Decl.Pos()), "shape not recognised: "+strings.Join(x.errs, "; "))
			} else {
				// the atom mentions both bound variables; the extractor orders them outermost first
				spec := sAll("a", "C", nil, sAny("e", "P", nil, sAtom("eq", "a", "e")))
				n, cx := bfEquivalent(f, spec, maxD)
				c.Stats["models_compared"] += n
				if cx != "" {
					c.Bad("contains-is-subset-test", rel+".contains", p.Pos(fn.Decl.Pos()), "shape:"+f.String(), "extracted "+f.String()+" differs from "+spec.String()+": "+cx)
				} else {
					c.OK("contains-is-subset-test", rel+".contains", p.Pos(fn.Decl.Pos()), f.String())
				}
			}
		}
	}

	fg := p.Func(rel, "DefaultDeduplicateFilter", "filterGroup")
	if fg == nil {
		c.Incomplete("duplicate-only-if-single-block-covers", rel+".(*DefaultDeduplicateFilter).filterGroup", "", "function not found")
	} else {
		info := fg.Info()
		construct := rel + ".(*DefaultDeduplicateFilter).filterGroup"
		// (2) the duplicates append
		var dupAppend *ast.AssignStmt
		ast.Inspect(fg.Body(), func(nd ast.Node) bool {
			as, ok := nd.(*ast.AssignStmt)
			if !ok || len(as.Rhs) != 1 || len(as.Lhs) != 1 {
				return true
			}
			call, ok := unparen(as.Rhs[0]).(*ast.CallExpr)
			if !ok || len(call.Args) != 2 {
				return true
			}
			if id, ok := call.Fun.(*ast.Ident); ok && id.Name == "append" && canon(call.Args[0]) == canon(as.Lhs[0]) && strings.HasSuffix(canon(call.Args[1]), ".ULID") {
				dupAppend = as
			}
			return true
		})
		if dupAppend == nil {
			c.Incomplete("duplicate-only-if-single-block-covers", construct+"#decision", p.Pos(fg.Decl.Pos()), "no place where a block id is recorded as duplicate")
		} else {
			dupCall := unparen(dupAppend.Rhs[0]).(*ast.CallExpr)
			childULID := unparen(dupCall.Args[1]).(*ast.SelectorExpr)
			child := objOf(info, childULID.X)
			bad := "the duplicate decision is not guarded by contains(<kept block's sources>, <this block's sources>)"
			var keptSlice types.Object
			for _, g := range guardsOf(p, fg, dupAppend) {
				refine(g.Cond, g.Pol, func(atom ast.Expr, t bool) {
					call, ok := unparen(atom).(*ast.CallExpr)
					if !ok || !t || len(call.Args) != 2 {
						return
					}
					if f := calleeOf(info, call); f == nil || f.Name() != "contains" {
						return
					}
					parentTxt := expandDefText(fg, info, call.Args[0])
					childTxt := expandDefText(fg, info, call.Args[1])
					if child == nil || childTxt != child.Name()+".Compaction.Sources" {
						bad = "the second argument of contains is " + childTxt + ", not the sources of the block being decided"
						return
					}
					if !strings.HasSuffix(parentTxt, ".Compaction.Sources") {
						bad = "the block's sources are tested against " + parentTxt + " (" + types.TypeString(info.TypeOf(call.Args[0]), nil) + "), not against the sources of one single kept block: sources that are only covered by several blocks together would hide the block"
						return
					}
					// parent is the value variable of a range over a slice of kept blocks
					pname := strings.TrimSuffix(parentTxt, ".Compaction.Sources")
					found := false
					ast.Inspect(fg.Body(), func(x ast.Node) bool {
						rs, ok := x.(*ast.RangeStmt)
						if !ok || rs.Value == nil || canon(rs.Value) != pname {
							return true
						}
						if rs.Body.Pos() <= call.Pos() && call.End() <= rs.Body.End() {
							found = true
							keptSlice = objOf(info, rs.X)
						}
						return true
					})
					if !found || keptSlice == nil {
						bad = "the candidate covering block " + pname + " does not range over a set of kept blocks"
						return
					}
					bad = ""
				})
			}
			c.Check(bad == "", "duplicate-only-if-single-block-covers", construct+"#decision", p.Pos(dupAppend.Pos()), "duplicate-without-single-cover", bad)
			// the covering set grows only by non-duplicates: appended after the parent loop, with the child
			bad2 := ""
			if keptSlice == nil {
				bad2 = "covering set not identified"
			} else {
				n := 0
				ast.Inspect(fg.Body(), func(nd ast.Node) bool {
					as, ok := nd.(*ast.AssignStmt)
					if !ok || len(as.Lhs) != 1 || objOf(info, as.Lhs[0]) != keptSlice || len(as.Rhs) != 1 {
						return true
					}
					call, ok := unparen(as.Rhs[0]).(*ast.CallExpr)
					if !ok {
						return true
					}
					n++
					if id, ok := call.Fun.(*ast.Ident); !ok || id.Name != "append" || len(call.Args) != 2 || objOf(info, call.Args[0]) != keptSlice || objOf(info, call.Args[1]) != child {
						bad2 = "the covering set is modified by " + canon(as.Rhs[0])
						return true
					}
					// not reachable on the duplicate path: the duplicate branch terminates (continue) before it
					if as.Pos() < dupAppend.Pos() {
						bad2 = "the block joins the covering set before it was compared with the kept blocks"
					}
					// the duplicate branch must leave the iteration of the child loop: `continue <childLoop>`
					// (or a plain continue when the decision is taken directly in the child loop) or return
					blk, _ := p.ParentOf(fg.Pkg, dupAppend).(*ast.BlockStmt)
					leaves := false
					if blk != nil && len(blk.List) > 0 {
						switch last := blk.List[len(blk.List)-1].(type) {
						case *ast.ReturnStmt:
							leaves = true
						case *ast.BranchStmt:
							if last.Tok.String() == "continue" {
								// which loop does it continue?
								var target ast.Node
								if last.Label != nil {
									ast.Inspect(fg.Body(), func(x ast.Node) bool {
										if ls, ok := x.(*ast.LabeledStmt); ok && ls.Label.Name == last.Label.Name {
											target = ls.Stmt
										}
										return true
									})
								} else {
									for par := p.ParentOf(fg.Pkg, last); par != nil; par = p.ParentOf(fg.Pkg, par) {
										if _, ok := par.(*ast.RangeStmt); ok {
											target = par
											break
										}
										if _, ok := par.(*ast.ForStmt); ok {
											target = par
											break
										}
									}
								}
								if rs, ok := target.(*ast.RangeStmt); ok && rs.Value != nil && objOf(info, rs.Value) == child {
									leaves = true
								}
							}
						}
					}
					if !leaves {
						bad2 = "a block recorded as duplicate can still reach the statement that adds it to the covering set"
					}
					return true
				})
				if n == 0 {
					bad2 = "kept blocks are never added to the covering set"
				}
			}
			c.Check(bad2 == "", "duplicate-only-if-single-block-covers", construct+"#covering-set", p.Pos(fg.Decl.Pos()), "covering-set-growth", bad2)
		}

		// (3) comparator
		var less *Fn
		for _, lit := range p.Lits(fg) {
			if mentionsCall(lit.Body(), "Compare") {
				less = lit
			}
		}
		if less == nil {
			c.Incomplete("visit-order-total", construct+"#less", p.Pos(fg.Decl.Pos()), "sort comparator not found")
		} else {
			x := newE9(p, less, func(e ast.Expr, text string) string {
				t := strings.ReplaceAll(text, " ", "")
				switch {
				case strings.HasPrefix(t, "len(") && strings.Contains(t, "[i]") && strings.HasSuffix(t, ".Sources)"):
					return "il"
				case strings.HasPrefix(t, "len(") && strings.Contains(t, "[j]") && strings.HasSuffix(t, ".Sources)"):
					return "jl"
				}
				return ""
			})
			x.AtomCmp = func(e ast.Expr, t string) string {
				if strings.Contains(t, "[i].ULID.Compare(") && strings.Contains(t, "[j].ULID)") && strings.HasSuffix(t, "<0") {
					return "ult"
				}
				if strings.Contains(t, "[j].ULID.Compare(") && strings.Contains(t, "[i].ULID)") && strings.HasSuffix(t, ">0") {
					return "ult"
				}
				return ""
			}
			n, cx, err := e9Table([]string{"il", "jl", "ult"}, intRange(0, 2), func(env map[string]int64) bool { return env["ult"] <= 1 },
				func(env map[string]int64) (int64, error) {
					v, err := x.evalBody(less.Lit.Body.List, env)
					return b2i(v.b), err
				},
				func(env map[string]int64) int64 {
					return b2i(env["il"] > env["jl"] || (env["il"] == env["jl"] && env["ult"] == 1))
				})
			c.Stats["assignments_evaluated"] += n
			reportE9(c, "visit-order-total", construct+"#less", p.Pos(less.Lit.Pos()), cx, err, "blocks are not visited by (number of sources descending, ULID ascending): with equal source counts the outcome would depend on the listing order")
		}
	}

	// (4)
	if fn := p.Func(rel, "DefaultDeduplicateFilter", "Filter"); fn == nil {
		c.Incomplete("filter-concurrency-discipline", rel+".(*DefaultDeduplicateFilter).Filter", "", "function not found")
	} else {
		info := fn.Info()
		construct := rel + ".(*DefaultDeduplicateFilter).Filter"
		var metas types.Object
		i := 0
		for _, f := range fn.Decl.Type.Params.List {
			for _, nm := range f.Names {
				if i == 1 {
					metas = info.Defs[nm]
				}
				i++
			}
		}
		// writers of metas: delete(metas, …) or metas[…] = …
		writers := map[*ast.FuncLit]int{}
		outside := 0
		lits := p.Lits(fn)
		enclosing := func(n ast.Node) *ast.FuncLit {
			var best *ast.FuncLit
			for _, l := range lits {
				if l.Lit.Body.Pos() <= n.Pos() && n.End() <= l.Lit.Body.End() {
					if best == nil || l.Lit.Pos() > best.Pos() {
						best = l.Lit
					}
				}
			}
			return best
		}
		ast.Inspect(fn.Body(), func(nd ast.Node) bool {
			isWrite := false
			switch v := nd.(type) {
			case *ast.CallExpr:
				if id, ok := v.Fun.(*ast.Ident); ok && id.Name == "delete" && len(v.Args) == 2 && objOf(info, v.Args[0]) == metas {
					isWrite = true
				}
			case *ast.AssignStmt:
				for _, lh := range v.Lhs {
					if ix, ok := unparen(lh).(*ast.IndexExpr); ok && objOf(info, ix.X) == metas {
						isWrite = true
					}
				}
			}
			if isWrite {
				if l := enclosing(nd); l != nil {
					writers[l]++
				} else {
					outside++
				}
			}
			return true
		})
		bad := ""
		switch {
		case metas == nil:
			bad = "metas parameter not found"
		case len(writers) != 1 || outside != 0:
			bad = "the shared metas map is modified from more than one place while the workers run"
		default:
			for l := range writers {
				// the literal is started once (not inside a loop)
				for par := p.ParentOf(fn.Pkg, l); par != nil; par = p.ParentOf(fn.Pkg, par) {
					switch par.(type) {
					case *ast.ForStmt, *ast.RangeStmt:
						bad = "the goroutine that modifies metas is started in a loop (several concurrent writers of one map)"
					}
				}
			}
		}
		c.Check(bad == "", "filter-concurrency-discipline", construct+"#single-writer", p.Pos(fn.Decl.Pos()), "metas-multi-writer", bad)
		// duplicateIDs written under mu
		okMu := false
		for _, l := range lits {
			list := l.Lit.Body.List
			for i, st := range list {
				as, ok := st.(*ast.AssignStmt)
				if !ok || len(as.Lhs) != 1 || !strings.HasSuffix(canon(as.Lhs[0]), ".duplicateIDs") {
					continue
				}
				if i > 0 && i+1 < len(list) && strings.HasSuffix(exprString2(list[i-1]), ".mu.Lock()") && strings.HasSuffix(exprString2(list[i+1]), ".mu.Unlock()") {
					okMu = true
				}
			}
		}
		c.Check(okMu, "filter-concurrency-discipline", construct+"#duplicate-ids-locked", p.Pos(fn.Decl.Pos()), "duplicate-ids-unlocked", "duplicateIDs must be published under the filter's mutex (DuplicateIDs reads it concurrently)")
		// grouping key
		okKey := false
		ast.Inspect(fn.Body(), func(nd ast.Node) bool {
			if as, ok := nd.(*ast.AssignStmt); ok && len(as.Rhs) == 1 && strings.HasSuffix(canon(as.Rhs[0]), ".Thanos.GroupKey()") {
				k := objOf(info, as.Lhs[0])
				ast.Inspect(fn.Body(), func(x ast.Node) bool {
					if ix, ok := x.(*ast.IndexExpr); ok && objOf(info, ix.Index) == k && k != nil {
						okKey = true
					}
					return true
				})
			}
			return true
		})
		c.Check(okKey, "filter-concurrency-discipline", construct+"#group-key", p.Pos(fn.Decl.Pos()), "group-key", "blocks must be partitioned by Thanos.GroupKey() before they are compared (blocks of different streams never cover each other)")
	}
}
