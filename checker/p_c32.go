package main

import (
	"go/ast"
	"go/types"
	"strings"
)

func init() {
	register(&Property{
		ID:    "C32",
		Title: "Blocks are deleted only when retention and delays allow it",
		Explain: "E9 guard predicates: for each destructive call the path condition (enclosing branches plus negated early-exit guards, local definitions resolved, time API linearised in milliseconds) is compared on every assignment of its atoms from a boundary-rich domain with the specification: " +
			"(1) ApplyRetentionPolicyByResolution marks iff retention != 0 && now > MaxTime + retention, with a lossless MaxTime conversion, the retention looked up by the block's own resolution and the marked id being the block's own id; " +
			"(2) DeleteMarkedBlocks deletes iff now - DeletionTime(s) > deleteDelay, on the mark's own id; " +
			"(3) BestEffortCleanAbortedPartialUploads deletes iff the id is not marked for deletion && now - lastModified > PartialUploadThresholdAge, where lastModified is the NEWEST modification time of the block's objects (the fold in getOldestModifiedTime is compared with a max-fold); " +
			"(4) E10 who-may-call: block.Delete and block.MarkForDeletion are only called from the audited functions.",
		Assume: []string{"the wall clock; ULID-time fallback when listing attributes fails is outside the property's quantifier (observation)"},
		Run:    runC32,
	})
}

func runC32(c *Ctx) {
	c.Rule("retention-guard", "mark iff retention != 0 && now > maxTime + retention (lossless ms conversion)", 2)
	c.Rule("delete-delay-guard", "delete iff now - deletionTime > deleteDelay", 1)
	c.Rule("partial-upload-guard", "delete iff !marked && now - newest(lastModified) > threshold", 2)
	c.Rule("who-may-delete", "audited callers of block.Delete / block.MarkForDeletion", 10)
	p := c.Load("pkg/...", "cmd/...")
	if p == nil {
		return
	}
	times := []int64{0, 1, 999, 1000, 1001, 1499, 1500, 1501, 1999, 2000, 2001, 2500, 3000, 3001, 4000}
	durs := []int64{0, 1, 500, 1000, 1001, 2000}

	// (1) retention
	if fn := p.Func("pkg/compact", "", "ApplyRetentionPolicyByResolution"); fn == nil {
		c.Incomplete("retention-guard", "pkg/compact.ApplyRetentionPolicyByResolution", "", "function not found")
	} else {
		info := fn.Info()
		var mark *ast.CallExpr
		ast.Inspect(fn.Body(), func(n ast.Node) bool {
			if call, ok := n.(*ast.CallExpr); ok && isCallTo(info, call, "pkg/block.MarkForDeletion") {
				mark = call
			}
			return true
		})
		if mark == nil {
			c.Incomplete("retention-guard", "pkg/compact.ApplyRetentionPolicyByResolution#mark", p.Pos(fn.Decl.Pos()), "no MarkForDeletion call")
		} else {
			gs := guardsOf(p, fn, mark)
			// the loop: for id, m := range metas
			var loop *ast.RangeStmt
			for par := p.ParentOf(fn.Pkg, mark); par != nil && par != fn.Node(); par = p.ParentOf(fn.Pkg, par) {
				if r, ok := par.(*ast.RangeStmt); ok {
					loop = r
				}
			}
			var retObj types.Object
			x := newE9(p, fn, func(e ast.Expr, text string) string {
				t := strings.ReplaceAll(text, " ", "")
				switch {
				case strings.HasSuffix(t, ".MaxTime"):
					return "maxT"
				case strings.HasPrefix(t, "retentionByResolution["):
					return "ret"
				}
				if id, ok := unparen(e).(*ast.Ident); ok && retObj != nil && objOf(info, id) == retObj {
					return "ret"
				}
				return ""
			})
			// the retention variable: defined from the map lookup
			ast.Inspect(fn.Body(), func(n ast.Node) bool {
				if as, ok := n.(*ast.AssignStmt); ok && len(as.Lhs) == 1 && len(as.Rhs) == 1 {
					if ix, ok := unparen(as.Rhs[0]).(*ast.IndexExpr); ok && strings.Contains(exprString(ix.X), "retentionByResolution") {
						retObj = objOf(info, as.Lhs[0])
						// key must be the same block's resolution
						okKey := loop != nil && loop.Value != nil && strings.Contains(exprString(ix.Index), exprString(loop.Value)+".Thanos.Downsample.Resolution")
						c.Check(okKey, "retention-guard", "pkg/compact.ApplyRetentionPolicyByResolution#retention-by-own-resolution", p.Pos(ix.Pos()), "retention-of-other-resolution",
							"the retention is not looked up by the resolution of the block being judged ("+exprString(ix.Index)+")")
					}
				}
				return true
			})
			n, cx, err := e9TableD([]string{"now", "maxT", "ret"}, map[string][]int64{"now": times, "maxT": times, "ret": durs}, nil,
				func(env map[string]int64) (int64, error) { b, err := x.evalGuards(gs, env); return b2i(b), err },
				func(env map[string]int64) int64 { return b2i(env["ret"] != 0 && env["now"] > env["maxT"]+env["ret"]) })
			c.Stats["assignments_evaluated"] += n
			reportE9(c, "retention-guard", "pkg/compact.ApplyRetentionPolicyByResolution#mark", p.Pos(mark.Pos()), cx, err,
				"the condition under which a block is marked ("+guardsString(gs)+") differs from `retention != 0 && now > MaxTime(ms) + retention`")
			// marked id is the loop key
			okID := loop != nil && loop.Key != nil && len(mark.Args) >= 4 && sameObjExpr(info, mark.Args[3], loop.Key)
			c.Check(okID, "retention-guard", "pkg/compact.ApplyRetentionPolicyByResolution#own-id", p.Pos(mark.Pos()), "marks-other-block", "the id passed to MarkForDeletion is not the id of the block whose MaxTime was judged")
		}
	}

	// (2) delete delay
	if fn := p.Func("pkg/compact", "BlocksCleaner", "DeleteMarkedBlocks"); fn == nil {
		c.Incomplete("delete-delay-guard", "pkg/compact.(*BlocksCleaner).DeleteMarkedBlocks", "", "function not found")
	} else {
		info := fn.Info()
		var del *ast.CallExpr
		ast.Inspect(fn.Body(), func(n ast.Node) bool {
			if call, ok := n.(*ast.CallExpr); ok && isCallTo(info, call, "pkg/block.Delete") {
				del = call
			}
			return true
		})
		if del == nil {
			c.Incomplete("delete-delay-guard", "pkg/compact.(*BlocksCleaner).DeleteMarkedBlocks#delete", p.Pos(fn.Decl.Pos()), "no block.Delete call")
		} else {
			gs := guardsOf(p, fn, del)
			// drop guards that do not concern time (ctx.Err() != nil → return)
			var tg []guardCond
			for _, g := range gs {
				if !strings.Contains(exprString(g.Cond), "ctx.Err()") {
					tg = append(tg, g)
				}
			}
			x := newE9(p, fn, func(e ast.Expr, text string) string {
				t := strings.ReplaceAll(text, " ", "")
				switch {
				case strings.HasSuffix(t, ".DeletionTime"):
					return "dt"
				case strings.HasSuffix(t, ".deleteDelay"):
					return "delay"
				}
				return ""
			})
			n, cx, err := e9TableD([]string{"now", "dt", "delay"}, map[string][]int64{"now": times, "dt": {0, 1, 2, 3}, "delay": durs}, nil,
				func(env map[string]int64) (int64, error) { b, err := x.evalGuards(tg, env); return b2i(b), err },
				func(env map[string]int64) int64 { return b2i(env["now"]-env["dt"]*1000 > env["delay"]) })
			c.Stats["assignments_evaluated"] += n
			reportE9(c, "delete-delay-guard", "pkg/compact.(*BlocksCleaner).DeleteMarkedBlocks#delete", p.Pos(del.Pos()), cx, err,
				"the condition under which a marked block is deleted ("+guardsString(tg)+") differs from `now - DeletionTime > deleteDelay`")
			okID := len(del.Args) >= 4 && strings.HasSuffix(exprString(del.Args[3]), ".ID")
			c.Check(okID, "delete-delay-guard", "pkg/compact.(*BlocksCleaner).DeleteMarkedBlocks#own-id", p.Pos(del.Pos()), "deletes-other-block", "the deleted id is not the deletion mark's own id")
		}
	}

	// (3) partial uploads
	if fn := p.Func("pkg/compact", "", "BestEffortCleanAbortedPartialUploads"); fn == nil {
		c.Incomplete("partial-upload-guard", "pkg/compact.BestEffortCleanAbortedPartialUploads", "", "function not found")
	} else {
		info := fn.Info()
		var del *ast.CallExpr
		ast.Inspect(fn.Body(), func(n ast.Node) bool {
			if call, ok := n.(*ast.CallExpr); ok && isCallTo(info, call, "pkg/block.Delete") {
				del = call
			}
			return true
		})
		var lmCallee *types.Func
		if del == nil {
			c.Incomplete("partial-upload-guard", "pkg/compact.BestEffortCleanAbortedPartialUploads#delete", p.Pos(fn.Decl.Pos()), "no block.Delete call")
		} else {
			gs := guardsOf(p, fn, del)
			var tg []guardCond
			for _, g := range gs {
				// `if err != nil { log }` is not an exit; only exits are returned by guardsOf
				tg = append(tg, g)
			}
			x := newE9(p, fn, func(e ast.Expr, text string) string {
				t := strings.ReplaceAll(text, " ", "")
				switch {
				case strings.HasPrefix(t, "deletionMarkBlocks["):
					return "marked"
				case t == "PartialUploadThresholdAge":
					return "thr"
				}
				if call, ok := unparen(e).(*ast.CallExpr); ok {
					if f := calleeOf(info, call); f != nil && strings.Contains(strings.ToLower(f.Name()), "modifiedtime") {
						lmCallee = f
						return "lm"
					}
				}
				return ""
			})
			// comma-ok lookups: `_, ok := deletionMarkBlocks[id]` — resolve `ok` through its definition
			n, cx, err := e9TableD([]string{"now", "lm", "thr", "marked"}, map[string][]int64{"now": times, "lm": times, "thr": durs, "marked": {0, 1}}, nil,
				func(env map[string]int64) (int64, error) { b, err := x.evalGuards(tg, env); return b2i(b), err },
				func(env map[string]int64) int64 { return b2i(env["marked"] == 0 && env["now"]-env["lm"] > env["thr"]) })
			c.Stats["assignments_evaluated"] += n
			reportE9(c, "partial-upload-guard", "pkg/compact.BestEffortCleanAbortedPartialUploads#delete", p.Pos(del.Pos()), cx, err,
				"the condition under which a partial upload is deleted ("+guardsString(tg)+") differs from `!markedForDeletion && now - lastModified > PartialUploadThresholdAge`")
		}
		// the modification time is the newest one over the block's objects
		var lmFn *Fn
		if lmCallee != nil {
			lmFn = p.findFuncDecl(lmCallee)
		}
		if lmFn == nil {
			lmFn = p.Func("pkg/compact", "", "getOldestModifiedTime")
		}
		if lmFn == nil {
			c.Incomplete("partial-upload-guard", "pkg/compact.lastModified#newest", "", "the function computing the block's modification time was not found")
		} else {
			linfo := lmFn.Info()
			// accumulator = the variable returned on the success path; fold site = assignment acc = v inside a callback
			found := false
			for _, lit := range p.Lits(lmFn) {
				ast.Inspect(lit.Body(), func(n ast.Node) bool {
					as, ok := n.(*ast.AssignStmt)
					if !ok || len(as.Lhs) != 1 || len(as.Rhs) != 1 {
						return true
					}
					acc := objOf(linfo, as.Lhs[0])
					val := objOf(linfo, as.Rhs[0])
					if acc == nil || val == nil || acc.Parent() == val.Parent() {
						return true // accumulator lives outside the callback
					}
					if types.TypeString(acc.Type(), nil) != "time.Time" {
						return true
					}
					found = true
					gs := guardsOf(p, lit, as)
					x := newE9(p, lit, func(e ast.Expr, text string) string {
						if id, ok := unparen(e).(*ast.Ident); ok {
							switch objOf(linfo, id) {
							case acc:
								return "acc"
							case val:
								return "v"
							}
						}
						if strings.ReplaceAll(text, " ", "") == "ok" {
							return "okAttr"
						}
						return ""
					})
					nn, cx, err := e9TableD([]string{"acc", "v", "okAttr"}, map[string][]int64{"acc": {0, 1, 2, 3}, "v": {1, 2, 3}, "okAttr": {1}}, nil,
						func(env map[string]int64) (int64, error) { b, err := x.evalGuards(gs, env); return b2i(b), err },
						func(env map[string]int64) int64 { return b2i(env["v"] > env["acc"]) })
					c.Stats["assignments_evaluated"] += nn
					reportE9(c, "partial-upload-guard", relPkg(lmFn.Pkg.PkgPath)+"."+lmFn.Name+"#newest-modification-fold", p.Pos(as.Pos()), cx, err,
						"the block's modification time is not the maximum over its objects (update condition: "+guardsString(gs)+"): a block that is still being written could be judged by an old object")
					return true
				})
			}
			if !found {
				c.Incomplete("partial-upload-guard", relPkg(lmFn.Pkg.PkgPath)+"."+lmFn.Name+"#newest-modification-fold", p.Pos(lmFn.Decl.Pos()), "no fold over object modification times found")
			}
		}
	}

	// (4) who may call
	whoMayCall(c, p, "who-may-delete", "block.Delete", map[string]string{
		"pkg/compact.(*BlocksCleaner).DeleteMarkedBlocks":  "guarded by the delete delay (rule delete-delay-guard)",
		"pkg/compact.BestEffortCleanAbortedPartialUploads": "guarded by the partial-upload threshold (rule partial-upload-guard)",
		"pkg/verifier.BackupAndDelete":                     "operator-invoked repair tool after a successful backup",
		"pkg/verifier.BackupAndDeleteDownloaded":           "operator-invoked repair tool after a successful backup",
	}, "pkg/block.Delete")
	whoMayCall(c, p, "who-may-delete", "block.MarkForDeletion", map[string]string{
		"pkg/compact.ApplyRetentionPolicyByResolution": "retention (rule retention-guard)",
		"pkg/compact.(*Syncer).GarbageCollect":         "duplicate blocks (C29/C31)",
		"pkg/compact.RepairIssue347":                   "source of a repaired block, after the repaired block was uploaded",
		"pkg/compact.(*Group).deleteBlock":             "sources of a compacted block (C29)",
		"pkg/api/blocks.(*BlocksAPI).markBlock":        "operator request through the blocks API",
		"pkg/verifier.BackupAndDelete":                 "operator-invoked repair tool",
		"pkg/verifier.BackupAndDeleteDownloaded":       "operator-invoked repair tool",
		"cmd/thanos.registerBucketMarkBlock":           "operator command `tools bucket mark`",
		"cmd/thanos.registerBucketRewrite":             "operator command `tools bucket rewrite`, after the rewritten block was uploaded",
	}, "pkg/block.MarkForDeletion")
}
