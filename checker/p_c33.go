package main

import (
	"go/ast"
	"go/token"
	"go/types"
	"sort"
	"strings"
)

func init() {
	register(&Property{
		ID:    "C33",
		Title: "The compactor does nothing destructive on an incomplete view",
		Explain: "(1) BaseFetcher.fetch: the nil-error return is reachable only with len(metaErrs) == 0 (E9 on its path condition) and every filter error is returned (E4). " +
			"(2) fetchMetadata: the error switch tolerates exactly the two sentinels (not found, corrupted) and its default arm records the error in metaErrs; the meta cache is replaced only under len(metaErrs) == 0. " +
			"In loadMeta the sentinels classify soundly: ErrorSyncMetaCorrupted may only wrap the error of a call that does not consume the bucket's reader (taint from Bucket.Get through reader/decoder constructors; a read failure of the object stream must stay a plain error and make the view incomplete), ErrorSyncMetaNotFound only under IsObjNotFoundErr. " +
			"(3) IgnoreDeletionMarkFilter.Filter and GatherNoCompactionMarkFilter.Filter: a ReadMarker error is tolerated only for ErrorMarkerNotFound / ErrorUnmarshalMarker, otherwise it is stored in the variable the worker returns, the error of eg.Wait() is returned, and the filter's maps are published only after eg.Wait() succeeded (E3). " +
			"(4) Syncer.SyncMetas assigns blocks/partial only on the nil-error edge and returns the error otherwise. " +
			"(5) In BucketCompactor.Compact and compactMainFn every destructive step (DeleteMarkedBlocks, GarbageCollect, handing groups to workers, downsampleBucket, ApplyRetentionPolicyByResolution, cleanPartialMarked) is reachable only after the most recent SyncMetas returned nil (E3).",
		Assume: []string{"the periodic cleanPartialMarked goroutine acts on the last successful sync's partial set by design (not covered)"},
		Run:    runC33,
	})
}

func runC33(c *Ctx) {
	c.Rule("incomplete-view-is-error", "fetch returns nil only with no meta errors; filter errors returned", 2)
	c.Rule("meta-error-classification", "only the two sentinels are tolerated; sound classification in loadMeta; cache refresh only on a complete view", 4)
	c.Rule("marker-errors-propagate", "marker read errors other than not-found/unmarshal fail the filter", 4)
	c.Rule("sync-state-on-success", "SyncMetas publishes only on success", 2)
	c.Rule("destructive-after-sync", "destructive steps only after the latest SyncMetas succeeded", 6)
	p := c.Load("pkg/block", "pkg/compact", "cmd/thanos")
	if p == nil {
		return
	}

	// (1) fetch
	if fn := p.Func("pkg/block", "BaseFetcher", "fetch"); fn == nil {
		c.Incomplete("incomplete-view-is-error", "pkg/block.(*BaseFetcher).fetch", "", "function not found")
	} else {
		info := fn.Info()
		n := 0
		inspectNoLit(fn.Body(), func(nd ast.Node) bool {
			ret, ok := nd.(*ast.ReturnStmt)
			if !ok || len(ret.Results) != 3 || !isNil(info, ret.Results[2]) {
				return true
			}
			n++
			gs := guardsOf(p, fn, ret)
			x := newE9(p, fn, func(e ast.Expr, text string) string {
				t := strings.ReplaceAll(text, " ", "")
				if strings.HasPrefix(t, "len(") && strings.HasSuffix(t, ".metaErrs)") {
					return "nerr"
				}
				if id, ok := unparen(e).(*ast.Ident); ok && id.Name == "err" {
					return "err"
				}
				return ""
			})
			_, cx, err := e9Table([]string{"nerr", "err"}, []int64{0, 1, 2}, func(env map[string]int64) bool { return env["nerr"] > 0 },
				func(env map[string]int64) (int64, error) { b, err := x.evalGuards(gs, env); return b2i(b), err },
				func(env map[string]int64) int64 { return 0 })
			reportE9(c, "incomplete-view-is-error", "pkg/block.(*BaseFetcher).fetch#success-return", p.Pos(ret.Pos()), cx, err,
				"a nil error is returned although meta.json load errors were recorded (path condition: "+guardsString(gs)+"): callers would act on an incomplete view")
			return true
		})
		if n == 0 {
			c.Incomplete("incomplete-view-is-error", "pkg/block.(*BaseFetcher).fetch#success-return", p.Pos(fn.Decl.Pos()), "no `return ..., nil` found")
		}
		checkErrsReturned(c, p, fn, "incomplete-view-is-error", "filter", func(i *types.Info, call *ast.CallExpr) bool {
			sel, ok := unparen(call.Fun).(*ast.SelectorExpr)
			return ok && sel.Sel.Name == "Filter" && len(call.Args) >= 2
		}, nil)
	}

	// (2) fetchMetadata switch + cache
	if fn := p.Func("pkg/block", "BaseFetcher", "fetchMetadata"); fn == nil {
		c.Incomplete("meta-error-classification", "pkg/block.(*BaseFetcher).fetchMetadata", "", "function not found")
	} else {
		info := fn.Info()
		found := false
		ast.Inspect(fn.Body(), func(nd ast.Node) bool {
			sw, ok := nd.(*ast.SwitchStmt)
			if !ok || sw.Tag == nil {
				return true
			}
			call, ok := unparen(sw.Tag).(*ast.CallExpr)
			if !ok || !strings.HasSuffix(funcFullName(calleeOf(info, call)), "errors.Cause") {
				return true
			}
			found = true
			var tolerated []string
			defaultRecords := false
			hasDefault := false
			for _, cl := range sw.Body.List {
				cc := cl.(*ast.CaseClause)
				if cc.List == nil {
					hasDefault = true
					for _, st := range cc.Body {
						ast.Inspect(st, func(m ast.Node) bool {
							if cl2, ok := m.(*ast.CallExpr); ok {
								if sel, ok := unparen(cl2.Fun).(*ast.SelectorExpr); ok && sel.Sel.Name == "Add" && strings.HasSuffix(exprString(sel.X), ".metaErrs") {
									defaultRecords = true
								}
							}
							return true
						})
					}
					continue
				}
				for _, e := range cc.List {
					tolerated = append(tolerated, exprString(e))
				}
			}
			sort.Strings(tolerated)
			okSet := strings.Join(tolerated, ",") == "ErrorSyncMetaCorrupted,ErrorSyncMetaNotFound"
			c.Check(okSet && hasDefault && defaultRecords, "meta-error-classification", "pkg/block.(*BaseFetcher).fetchMetadata#error-switch", p.Pos(sw.Pos()), "tolerated:"+strings.Join(tolerated, ","),
				"the meta load error switch must tolerate exactly ErrorSyncMetaNotFound and ErrorSyncMetaCorrupted and record every other error in metaErrs (tolerated: "+strings.Join(tolerated, ",")+", default records: "+boolStr(defaultRecords)+")")
			return true
		})
		if !found {
			c.Incomplete("meta-error-classification", "pkg/block.(*BaseFetcher).fetchMetadata#error-switch", p.Pos(fn.Decl.Pos()), "switch errors.Cause(err) not found")
		}
		// cache refresh guarded
		nAssign := 0
		inspectNoLit(fn.Body(), func(nd ast.Node) bool {
			as, ok := nd.(*ast.AssignStmt)
			if !ok || len(as.Lhs) != 1 || canon(as.Lhs[0]) != "f.cached" {
				return true
			}
			nAssign++
			gs := guardsOf(p, fn, as)
			x := newE9(p, fn, func(e ast.Expr, text string) string {
				t := strings.ReplaceAll(text, " ", "")
				if strings.HasPrefix(t, "len(") && strings.HasSuffix(t, ".metaErrs)") {
					return "nerr"
				}
				if id, ok := unparen(e).(*ast.Ident); ok && id.Name == "err" {
					return "err"
				}
				return ""
			})
			_, cx, err := e9Table([]string{"nerr", "err"}, []int64{0, 1, 2}, func(env map[string]int64) bool { return env["nerr"] > 0 },
				func(env map[string]int64) (int64, error) { b, err := x.evalGuards(gs, env); return b2i(b), err },
				func(env map[string]int64) int64 { return 0 })
			reportE9(c, "meta-error-classification", "pkg/block.(*BaseFetcher).fetchMetadata#cache-refresh", p.Pos(as.Pos()), cx, err, "the meta cache is replaced although the view is incomplete")
			return true
		})
		if nAssign == 0 {
			c.Observe("meta-error-classification", "pkg/block.(*BaseFetcher).fetchMetadata#cache-refresh", p.Pos(fn.Decl.Pos()), "no assignment to f.cached")
		}
	}
	// loadMeta classification
	if fn := p.Func("pkg/block", "BaseFetcher", "loadMeta"); fn == nil {
		c.Incomplete("meta-error-classification", "pkg/block.(*BaseFetcher).loadMeta", "", "function not found")
	} else {
		info := fn.Info()
		// stream taint
		tainted := map[types.Object]bool{}
		isTaintedExpr := func(e ast.Expr) bool { return false }
		isTaintedExpr = func(e ast.Expr) bool {
			e = unparen(e)
			switch v := e.(type) {
			case *ast.Ident:
				return tainted[objOf(info, v)]
			case *ast.CallExpr:
				// constructor over a tainted stream yields a tainted object unless it returns bytes/string
				res := false
				for _, a := range v.Args {
					if isTaintedExpr(a) {
						res = true
					}
				}
				if sel, ok := unparen(v.Fun).(*ast.SelectorExpr); ok && isTaintedExpr(sel.X) {
					res = true
				}
				if res {
					if tv, ok := info.Types[v]; ok {
						ts := types.TypeString(tv.Type, nil)
						if strings.HasPrefix(ts, "([]byte") || ts == "[]byte" || ts == "string" {
							return false
						}
					}
				}
				return res
			case *ast.SelectorExpr:
				return isTaintedExpr(v.X)
			case *ast.UnaryExpr:
				return isTaintedExpr(v.X)
			}
			return false
		}
		for pass := 0; pass < 3; pass++ {
			inspectNoLit(fn.Body(), func(nd ast.Node) bool {
				as, ok := nd.(*ast.AssignStmt)
				if !ok || len(as.Rhs) != 1 {
					return true
				}
				call, ok := unparen(as.Rhs[0]).(*ast.CallExpr)
				if !ok {
					return true
				}
				if bucketMethod("Get", "GetRange")(info, call) || isTaintedExpr(call) {
					if tv, ok := info.Types[call]; ok {
						first := tv.Type
						if tup, isTup := tv.Type.(*types.Tuple); isTup && tup.Len() > 0 {
							first = tup.At(0).Type()
						}
						ts := types.TypeString(first, nil)
						if ts != "[]byte" && ts != "string" {
							if o := objOf(info, as.Lhs[0]); o != nil {
								tainted[o] = true
							}
						}
					}
				}
				return true
			})
		}
		nSent := 0
		inspectNoLit(fn.Body(), func(nd ast.Node) bool {
			ret, ok := nd.(*ast.ReturnStmt)
			if !ok || len(ret.Results) != 2 {
				return true
			}
			txt := exprString(ret.Results[1])
			var sentinel string
			switch {
			case strings.Contains(txt, "ErrorSyncMetaCorrupted"):
				sentinel = "ErrorSyncMetaCorrupted"
			case strings.Contains(txt, "ErrorSyncMetaNotFound"):
				sentinel = "ErrorSyncMetaNotFound"
			default:
				return true
			}
			nSent++
			construct := "pkg/block.(*BaseFetcher).loadMeta#" + sentinel
			// the innermost enclosing if whose condition tests an error
			var ifs *ast.IfStmt
			for par := p.ParentOf(fn.Pkg, ret); par != nil && par != fn.Node(); par = p.ParentOf(fn.Pkg, par) {
				if v, ok := par.(*ast.IfStmt); ok && within(ret, v.Body.Pos(), v.Body.End()) {
					ifs = v
					break
				}
			}
			if ifs == nil {
				c.Bad("meta-error-classification", construct, p.Pos(ret.Pos()), "unconditional-sentinel", sentinel+" is returned unconditionally")
				return true
			}
			if sentinel == "ErrorSyncMetaNotFound" {
				ok := strings.Contains(exprString(ifs.Cond), "IsObjNotFoundErr(")
				c.Check(ok, "meta-error-classification", construct, p.Pos(ret.Pos()), "not-found-misclassified", "ErrorSyncMetaNotFound is returned under `"+exprString(ifs.Cond)+"`, not under IsObjNotFoundErr(err)")
				return true
			}
			// corrupted: find the call whose error is tested
			var src *ast.CallExpr
			if as, ok := ifs.Init.(*ast.AssignStmt); ok && len(as.Rhs) == 1 {
				src, _ = unparen(as.Rhs[0]).(*ast.CallExpr)
			} else if x, nonNil, k := nilTest(info, ifs.Cond); k && nonNil {
				// err assigned by the preceding statement
				if blk, ok := p.ParentOf(fn.Pkg, ifs).(*ast.BlockStmt); ok {
					for i, st := range blk.List {
						if st == ast.Stmt(ifs) && i > 0 {
							if as, ok := blk.List[i-1].(*ast.AssignStmt); ok && len(as.Rhs) == 1 {
								for _, l := range as.Lhs {
									if objOf(info, l) == objOf(info, x) {
										src, _ = unparen(as.Rhs[0]).(*ast.CallExpr)
									}
								}
							}
						}
					}
				}
			}
			if src == nil {
				c.Incomplete("meta-error-classification", construct, p.Pos(ret.Pos()), "cannot identify the call whose error is classified as corrupted")
				return true
			}
			consumes := isTaintedExpr(src)
			for _, a := range src.Args {
				if isTaintedExpr(a) {
					consumes = true
				}
			}
			c.Check(!consumes, "meta-error-classification", construct, p.Pos(ret.Pos()), "stream-read-error-classified-corrupted:"+exprString(src.Fun),
				"the error of "+exprString(src.Fun)+"(...), which reads the object stream obtained from Bucket.Get, is classified as ErrorSyncMetaCorrupted: a transfer failure would be taken for a corrupted (partial) block instead of making the view incomplete")
			return true
		})
		if nSent < 2 {
			c.Incomplete("meta-error-classification", "pkg/block.(*BaseFetcher).loadMeta#sentinels", p.Pos(fn.Decl.Pos()), "expected returns of both sentinels")
		}
	}

	// (3) marker filters
	for _, f := range [][3]string{{"pkg/block", "IgnoreDeletionMarkFilter", "Filter"}, {"pkg/compact", "GatherNoCompactionMarkFilter", "Filter"}} {
		fn := p.Func(f[0], f[1], f[2])
		construct := f[0] + ".(*" + f[1] + ").Filter"
		if fn == nil {
			c.Incomplete("marker-errors-propagate", construct, "", "function not found")
			continue
		}
		info := fn.Info()
		handled := false
		for _, lit := range p.Lits(fn) {
			var rm *ast.CallExpr
			inspectNoLit(lit.Body(), func(nd ast.Node) bool {
				if call, ok := nd.(*ast.CallExpr); ok && strings.HasSuffix(funcFullName(calleeOf(info, call)), "metadata.ReadMarker") {
					rm = call
				}
				return true
			})
			if rm == nil {
				continue
			}
			handled = true
			found, _, body := failEdgeTerminates(p, lit, rm)
			if !found {
				c.Bad("marker-errors-propagate", construct+"#read-marker", p.Pos(rm.Pos()), "marker-error-untested", "the error of ReadMarker is not tested")
				continue
			}
			var tolerated []string
			var stored types.Object
			for _, st := range body.List {
				switch v := st.(type) {
				case *ast.IfStmt:
					cond := strings.ReplaceAll(exprString(v.Cond), " ", "")
					if i := strings.Index(cond, "=="); i >= 0 && strings.Contains(cond, "errors.Cause(") && terminates(v.Body.List) {
						tolerated = append(tolerated, cond[i+2:])
					} else if strings.Contains(cond, "errors.Is(") && terminates(v.Body.List) {
						tolerated = append(tolerated, cond)
					}
				case *ast.AssignStmt:
					if len(v.Lhs) == 1 && len(v.Rhs) == 1 {
						if id, ok := unparen(v.Rhs[0]).(*ast.Ident); ok && id.Name == "err" {
							stored = objOf(info, v.Lhs[0])
						}
					}
				case *ast.ReturnStmt:
					if len(v.Results) == 1 && !isNil(info, v.Results[0]) {
						stored = types.Universe.Lookup("error") // returned directly
					}
				}
			}
			sort.Strings(tolerated)
			okTol := true
			for _, t := range tolerated {
				if t != "metadata.ErrorMarkerNotFound" && t != "metadata.ErrorUnmarshalMarker" {
					okTol = false
				}
			}
			// the stored variable is what the worker returns
			returned := stored != nil && stored == types.Universe.Lookup("error")
			if !returned && stored != nil {
				ast.Inspect(lit.Body(), func(nd ast.Node) bool {
					if r, ok := nd.(*ast.ReturnStmt); ok && len(r.Results) == 1 && objOf(info, r.Results[0]) == stored {
						returned = true
					}
					return true
				})
			}
			c.Check(okTol && returned, "marker-errors-propagate", construct+"#read-marker", p.Pos(rm.Pos()), "marker-error-tolerated:"+strings.Join(tolerated, ","),
				"a marker read error other than not-found / unmarshal must reach the worker's return value (tolerated: "+strings.Join(tolerated, ",")+", propagated: "+boolStr(returned)+"): otherwise a storage fault makes a marked block look unmarked")
		}
		if !handled {
			c.Incomplete("marker-errors-propagate", construct+"#read-marker", p.Pos(fn.Decl.Pos()), "no ReadMarker call in a worker literal")
		}
		// eg.Wait error returned, maps published after it succeeded
		isWait := func(i *types.Info, call *ast.CallExpr) bool {
			return funcFullName(calleeOf(i, call)) == "(golang.org/x/sync/errgroup.Group).Wait"
		}
		checkErrsReturned(c, p, fn, "marker-errors-propagate", "eg.Wait", isWait, nil)
		recv := recvObj(fn)
		e := newE3(p, fn, []Ev{{Name: "wait", Match: isWait}})
		pubOK, nPub := true, 0
		wherePub := p.Pos(fn.Decl.Pos())
		inspectNoLit(fn.Body(), func(nd ast.Node) bool {
			as, ok := nd.(*ast.AssignStmt)
			if !ok {
				return true
			}
			for _, l := range as.Lhs {
				if sel, ok := unparen(l).(*ast.SelectorExpr); ok {
					if id, ok := unparen(sel.X).(*ast.Ident); ok && objOf(info, id) == recv && strings.HasSuffix(strings.ToLower(sel.Sel.Name), "map") {
						nPub++
						if b, _ := e.Before(as, "wait"); b != eOK {
							pubOK, wherePub = false, p.Pos(as.Pos())
						}
					}
				}
			}
			return true
		})
		c.Check(pubOK && nPub > 0, "marker-errors-propagate", construct+"#publish-after-wait", wherePub, "map-published-before-workers-succeeded", "the filter's marker map is published before eg.Wait() returned nil (or is never published)")
	}

	// (4) SyncMetas
	if fn := p.Func("pkg/compact", "Syncer", "SyncMetas"); fn == nil {
		c.Incomplete("sync-state-on-success", "pkg/compact.(*Syncer).SyncMetas", "", "function not found")
	} else {
		info := fn.Info()
		isFetch := func(i *types.Info, call *ast.CallExpr) bool {
			sel, ok := unparen(call.Fun).(*ast.SelectorExpr)
			if !ok {
				return false
			}
			if sel.Sel.Name == "Do" && strings.HasSuffix(exprString(sel.X), ".g") {
				return true
			}
			return sel.Sel.Name == "Fetch" && p.ParentOf(fn.Pkg, call) != nil && func() bool {
				for par := p.ParentOf(fn.Pkg, call); par != nil && par != fn.Node(); par = p.ParentOf(fn.Pkg, par) {
					if _, isLit := par.(*ast.FuncLit); isLit {
						return false
					}
				}
				return true
			}()
		}
		e := newE3(p, fn, []Ev{{Name: "fetch", Match: isFetch}})
		recv := recvObj(fn)
		ok, n := true, 0
		where := p.Pos(fn.Decl.Pos())
		inspectNoLit(fn.Body(), func(nd ast.Node) bool {
			as, isAs := nd.(*ast.AssignStmt)
			if !isAs {
				return true
			}
			for _, l := range as.Lhs {
				if sel, isSel := unparen(l).(*ast.SelectorExpr); isSel {
					if id, isID := unparen(sel.X).(*ast.Ident); isID && objOf(info, id) == recv && (sel.Sel.Name == "blocks" || sel.Sel.Name == "partial") {
						n++
						if b, _ := e.Before(as, "fetch"); b != eOK {
							ok, where = false, p.Pos(as.Pos())
						}
					}
				}
			}
			return true
		})
		c.Check(ok && n >= 2, "sync-state-on-success", "pkg/compact.(*Syncer).SyncMetas#publish", where, "state-published-on-failed-sync", "blocks/partial are assigned on a path where the fetch did not succeed")
		checkErrsReturned(c, p, fn, "sync-state-on-success", "fetch", isFetch, nil)
	}

	// (5) destructive steps
	isSync := func(i *types.Info, call *ast.CallExpr) bool {
		f := calleeOf(i, call)
		return f != nil && f.Name() == "SyncMetas"
	}
	destructive := func(i *types.Info, call *ast.CallExpr) string {
		f := calleeOf(i, call)
		if f != nil {
			switch f.Name() {
			case "DeleteMarkedBlocks", "GarbageCollect", "ApplyRetentionPolicyByResolution", "BestEffortCleanAbortedPartialUploads":
				return f.Name()
			}
		}
		if id, ok := unparen(call.Fun).(*ast.Ident); ok && (id.Name == "downsampleBucket" || id.Name == "cleanPartialMarked") {
			return id.Name
		}
		return ""
	}
	checkUnit := func(u *Fn, construct string) int {
		info := u.Info()
		e := newE3(p, u, []Ev{{Name: "sync", Match: isSync}})
		n := 0
		report := func(name string, node ast.Node) {
			n++
			b, reached := e.Before(node, "sync")
			if !reached {
				return
			}
			c.Check(b == eOK, "destructive-after-sync", construct+"#"+name, p.Pos(node.Pos()), "destructive-step-without-successful-sync:"+name,
				name+" is reachable with the latest SyncMetas "+evBitsString(b)+": the step would act on a stale or incomplete view of the bucket")
		}
		inspectNoLit(u.Body(), func(nd ast.Node) bool {
			switch v := nd.(type) {
			case *ast.CallExpr:
				if name := destructive(info, v); name != "" {
					report(name, v)
				}
			case *ast.SendStmt:
				if strings.Contains(strings.ToLower(exprString(v.Chan)), "groupchan") {
					report("send-group-to-workers", v)
				}
			}
			return true
		})
		return n
	}
	if fn := p.Func("pkg/compact", "BucketCompactor", "Compact"); fn == nil {
		c.Incomplete("destructive-after-sync", "pkg/compact.(*BucketCompactor).Compact", "", "function not found")
	} else if checkUnit(fn, "pkg/compact.(*BucketCompactor).Compact") < 3 {
		c.Incomplete("destructive-after-sync", "pkg/compact.(*BucketCompactor).Compact#steps", p.Pos(fn.Decl.Pos()), "fewer destructive steps found than expected (cleaner, garbage collection, group hand-off)")
	}
	// compactMainFn in cmd/thanos: the literal assigned to compactMainFn
	if run := p.Func("cmd/thanos", "", "runCompact"); run == nil {
		c.Incomplete("destructive-after-sync", "cmd/thanos.runCompact", "", "function not found")
	} else {
		var mainLit *ast.FuncLit
		ast.Inspect(run.Body(), func(nd ast.Node) bool {
			if as, ok := nd.(*ast.AssignStmt); ok && len(as.Lhs) == 1 && len(as.Rhs) == 1 && exprString(as.Lhs[0]) == "compactMainFn" {
				mainLit, _ = as.Rhs[0].(*ast.FuncLit)
			}
			return true
		})
		if mainLit == nil {
			c.Incomplete("destructive-after-sync", "cmd/thanos.runCompact#compactMainFn", p.Pos(run.Decl.Pos()), "compactMainFn literal not found")
		} else if checkUnit(&Fn{Pkg: run.Pkg, Lit: mainLit, Name: "runCompact$compactMainFn"}, "cmd/thanos.runCompact$compactMainFn") < 3 {
			c.Incomplete("destructive-after-sync", "cmd/thanos.runCompact$compactMainFn#steps", p.Pos(mainLit.Pos()), "fewer destructive steps found than expected")
		}
	}
	_ = token.NoPos
}
