package main

import (
	"fmt"
	"go/ast"
	"go/constant"
	"go/token"
	"strings"
	"time"
)

func init() {
	register(&Property{
		ID:    "C34",
		Title: "Compactor and store-gateway delays keep data queryable",
		Explain: "Wiring only. (1) IgnoreDeletionMarkFilter.Filter removes a block from the synced set exactly when now − DeletionTime > delay (E9 with the time API linearised; any other condition on the path — e.g. the mark's details — is enumerated as a free boolean and must not make a younger mark hide its block). " +
			"(2) Wherever a process builds both the ignore-deletion-mark filter and the blocks cleaner (compact, tools bucket cleanup/retention), the filter's delay is strictly smaller than the cleaner's for every positive flag value and both come from the same flag (E9 on the two argument expressions); the store gateway hands its flag to the filter unmodified. " +
			"(3) Defaults: the store's --ignore-deletion-marks-delay default is strictly smaller than the compactor's --delete-delay default (parsed from the flag declarations). " +
			"The compactor marks sources only after the replacement block is uploaded (decided under C29).",
		Assume: []string{"the protocol property itself — interleavings of independent processes, sync lag, clock skew — needs a model and is not decided; the static check pins the parameters such a model would assume"},
		Run:    runC34,
	})
}

func runC34(c *Ctx) {
	c.Rule("filter-hides-iff-older-than-delay", "hide iff now - DeletionTime > delay", 1)
	c.Rule("hide-before-delete", "filter delay < cleaner delay, same flag", 2)
	c.Rule("store-flag-unmodified", "store passes its flag value unchanged", 1)
	c.Rule("default-delays-ordered", "store default < compactor default", 1)
	p := c.Load("pkg/block", "cmd/thanos")
	if p == nil {
		return
	}

	// (1)
	if fn := p.Func("pkg/block", "IgnoreDeletionMarkFilter", "Filter"); fn == nil {
		c.Incomplete("filter-hides-iff-older-than-delay", "pkg/block.(*IgnoreDeletionMarkFilter).Filter", "", "function not found")
	} else {
		construct := "pkg/block.(*IgnoreDeletionMarkFilter).Filter"
		var host *Fn
		var del *ast.CallExpr
		for _, f := range append([]*Fn{fn}, p.Lits(fn)...) {
			inspectNoLit(f.Body(), func(nd ast.Node) bool {
				if call, ok := nd.(*ast.CallExpr); ok {
					if id, ok := call.Fun.(*ast.Ident); ok && id.Name == "delete" && len(call.Args) == 2 && canon(call.Args[0]) == "metas" {
						host, del = f, call
					}
				}
				return true
			})
		}
		if del == nil {
			c.Incomplete("filter-hides-iff-older-than-delay", construct, p.Pos(fn.Decl.Pos()), "no removal from the synced metas found")
		} else {
			// conditions between the successful read of the mark and the removal
			var tg []guardCond
			for _, g := range guardsOf(p, host, del) {
				t := canon(g.Cond)
				if strings.Contains(t, "err") || strings.Contains(t, "ctx.") {
					continue // read errors are handled before (continue) and are not part of the decision
				}
				tg = append(tg, g)
			}
			x := newE9(p, host, func(e ast.Expr, text string) string {
				t := strings.ReplaceAll(text, " ", "")
				switch {
				case strings.HasSuffix(t, ".DeletionTime"):
					return "dt"
				case strings.HasSuffix(t, ".delay"):
					return "delay"
				}
				return ""
			})
			x.AtomCmp = func(e ast.Expr, t string) string {
				// a comparison that does not involve the deletion time or the delay: a free boolean
				if !strings.Contains(t, "DeletionTime") && !strings.Contains(t, ".delay") {
					return "other"
				}
				return ""
			}
			times := []int64{0, 999, 1000, 1001, 1500, 2000, 2001, 3000, 3001, 4000}
			n, cx, err := e9TableD([]string{"now", "dt", "delay", "other"}, map[string][]int64{"now": times, "dt": {0, 1, 2, 3}, "delay": {0, 1, 500, 1000, 1001, 2000}, "other": {0, 1}}, nil,
				func(env map[string]int64) (int64, error) { b, err := x.evalGuards(tg, env); return b2i(b), err },
				func(env map[string]int64) int64 { return b2i(env["now"]-env["dt"]*1000 > env["delay"]) })
			c.Stats["assignments_evaluated"] += n
			reportE9(c, "filter-hides-iff-older-than-delay", construct, p.Pos(del.Pos()), cx, err,
				"a marked block is hidden under ("+guardsString(tg)+"), which differs from `now − DeletionTime > delay`: a block whose replacement a reader has not seen yet could disappear from its view")
		}
	}

	// (2)
	nBoth := 0
	var cmdFns []*Fn
	for _, fn := range p.AllFuncs(true) {
		if strings.HasSuffix(fn.Pkg.PkgPath, "cmd/thanos") && fn.Decl != nil {
			cmdFns = append(cmdFns, fn)
			cmdFns = append(cmdFns, p.Lits(fn)...)
		}
	}
	for _, fn := range cmdFns {
		if strings.HasSuffix(p.Fset.Position(fn.Node().Pos()).Filename, "_test.go") {
			continue
		}
		info := fn.Info()
		var filterArg, cleanerArg ast.Expr
		inspectNoLit(fn.Body(), func(nd ast.Node) bool {
			call, ok := nd.(*ast.CallExpr)
			if !ok {
				return true
			}
			f := calleeOf(info, call)
			if f == nil {
				return true
			}
			switch f.Name() {
			case "NewIgnoreDeletionMarkFilter":
				if len(call.Args) >= 3 {
					filterArg = call.Args[2]
				}
			case "NewBlocksCleaner":
				if len(call.Args) >= 4 {
					cleanerArg = call.Args[3]
				}
			}
			return true
		})
		if filterArg == nil || cleanerArg == nil {
			continue
		}
		nBoth++
		construct := "cmd/thanos." + fn.Name
		// both expressions are evaluated over one atom, the delete-delay flag value; any other
		// quantity in either of them fails the evaluation (different sources)
		atom := func(e ast.Expr, text string) string {
			t := strings.ReplaceAll(text, " ", "")
			if strings.HasSuffix(t, "deleteDelay") || strings.HasSuffix(t, ".deleteDelay)") {
				return "d"
			}
			return ""
		}
		x := newE9(p, fn, atom)
		bad := ""
		for d := int64(1); d <= 6 && bad == ""; d++ {
			env := map[string]int64{"d": d}
			fv, err1 := x.eval(filterArg, env)
			cv, err2 := x.eval(cleanerArg, env)
			switch {
			case err1 != nil:
				bad = "not understood: " + err1.Error()
			case err2 != nil:
				bad = "not understood: " + err2.Error()
			case !(fv.i < cv.i):
				bad = fmt.Sprintf("with --delete-delay=%d the compactor stops seeing a marked block after %d and deletes it after %d: it must be hidden from planning strictly before it is deleted", d, fv.i, cv.i)
			case cv.i != d:
				bad = fmt.Sprintf("the cleaner's delay is %d for --delete-delay=%d", cv.i, d)
			}
		}
		if strings.HasPrefix(bad, "not understood") {
			c.Incomplete("hide-before-delete", construct, p.Pos(filterArg.Pos()), bad)
		} else {
			c.Check(bad == "", "hide-before-delete", construct, p.Pos(filterArg.Pos()), "hide-not-before-delete", bad)
		}
	}
	if nBoth == 0 {
		c.Incomplete("hide-before-delete", "cmd/thanos", "", "no function builds both the deletion-mark filter and the blocks cleaner")
	}

	// store
	okStore, nStore := false, 0
	for _, fn := range p.AllFuncs(true) {
		if !strings.HasSuffix(fn.Pkg.PkgPath, "cmd/thanos") || !strings.HasSuffix(p.Fset.Position(fn.Node().Pos()).Filename, "/store.go") {
			continue
		}
		info := fn.Info()
		inspectNoLit(fn.Body(), func(nd ast.Node) bool {
			call, ok := nd.(*ast.CallExpr)
			if !ok {
				return true
			}
			if f := calleeOf(info, call); f != nil && f.Name() == "NewIgnoreDeletionMarkFilter" && len(call.Args) >= 3 {
				nStore++
				t := canon(call.Args[2])
				okStore = t == "time.Duration(conf.ignoreDeletionMarksDelay)" || strings.HasSuffix(t, ".ignoreDeletionMarksDelay") || strings.HasSuffix(t, ".ignoreDeletionMarksDelay)")
				if _, isBin := unparen(call.Args[2]).(*ast.BinaryExpr); isBin {
					okStore = false
				}
			}
			return true
		})
	}
	if nStore == 0 {
		c.Incomplete("store-flag-unmodified", "cmd/thanos/store.go", "", "the store does not build the deletion-mark filter")
	} else {
		c.Check(okStore, "store-flag-unmodified", "cmd/thanos/store.go#NewIgnoreDeletionMarkFilter", "", "store-delay-modified", "the store gateway must hand --ignore-deletion-marks-delay to the filter unchanged")
	}

	// (3) defaults
	defaults := map[string]string{}
	if pk := p.Pkg("cmd/thanos"); pk != nil {
		for _, file := range pk.Syntax {
			name := p.Fset.Position(file.Pos()).Filename
			if strings.HasSuffix(name, "_test.go") {
				continue
			}
			ast.Inspect(file, func(nd ast.Node) bool {
				call, ok := nd.(*ast.CallExpr)
				if !ok || len(call.Args) != 1 {
					return true
				}
				sel, ok := unparen(call.Fun).(*ast.SelectorExpr)
				if !ok || sel.Sel.Name != "Default" {
					return true
				}
				// the receiver chain starts with Flag("<name>", …)
				var flagName string
				ast.Inspect(sel.X, func(x ast.Node) bool {
					if c2, ok := x.(*ast.CallExpr); ok {
						if s2, ok := unparen(c2.Fun).(*ast.SelectorExpr); ok && s2.Sel.Name == "Flag" && len(c2.Args) >= 1 {
							if tv, ok := pk.TypesInfo.Types[c2.Args[0]]; ok && tv.Value != nil && tv.Value.Kind() == constant.String {
								flagName = constant.StringVal(tv.Value)
							}
						}
					}
					return true
				})
				if tv, ok := pk.TypesInfo.Types[call.Args[0]]; ok && tv.Value != nil && tv.Value.Kind() == constant.String && flagName != "" {
					key := flagName + "@" + name[strings.LastIndex(name, "/")+1:]
					defaults[key] = constant.StringVal(tv.Value)
				}
				return true
			})
		}
	}
	storeD, okS := defaults["ignore-deletion-marks-delay@store.go"]
	compD, okC := defaults["delete-delay@compact.go"]
	if !okS || !okC {
		c.Incomplete("default-delays-ordered", "cmd/thanos#defaults", "", fmt.Sprintf("flag defaults not found (store %v, compactor %v)", okS, okC))
	} else {
		sd, e1 := parseModelDuration(storeD)
		cd, e2 := parseModelDuration(compD)
		switch {
		case e1 != nil || e2 != nil:
			c.Incomplete("default-delays-ordered", "cmd/thanos#defaults", "", "defaults not parseable: "+storeD+", "+compD)
		default:
			c.Check(sd < cd, "default-delays-ordered", "cmd/thanos#defaults", "", "defaults-not-ordered",
				fmt.Sprintf("the store hides marked blocks after %s but the compactor deletes them after %s: with the defaults a store gateway could still list a block that is already gone", storeD, compD))
		}
	}
	_ = token.NoPos
}

// parseModelDuration parses Go durations plus the d/w/y units of prometheus/common/model.
func parseModelDuration(s string) (time.Duration, error) {
	if d, err := time.ParseDuration(s); err == nil {
		return d, nil
	}
	mult := map[byte]time.Duration{'d': 24 * time.Hour, 'w': 7 * 24 * time.Hour, 'y': 365 * 24 * time.Hour}
	if len(s) >= 2 {
		if m, ok := mult[s[len(s)-1]]; ok {
			var n int64
			if _, err := fmt.Sscanf(s[:len(s)-1], "%d", &n); err == nil {
				return time.Duration(n) * m, nil
			}
		}
	}
	return 0, fmt.Errorf("unparseable duration %q", s)
}
