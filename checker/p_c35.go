package main

import (
	"fmt"
	"go/ast"
	"go/token"
	"go/types"
	"strings"
)

func init() {
	register(&Property{
		ID:    "C35",
		Title: "The shipper uploads every eligible block completely, at least once",
		Explain: "In Shipper.Sync: (1) every append to meta.Uploaded (the 'seen complete in the bucket' record) is justified on its path by one of: the id was already recorded (positive hasUploaded lookup), Bucket.Exists(meta.json) returned true with a nil error, or s.upload returned nil (E3); " +
			"(2) the nil return is reachable only with uploadErrs == 0 && len(failedBlocks) == 0 (E9 on its path condition) and every `continue` that skips a block is one of the enumerated reasons (already uploaded, empty block, compacted block with uploadCompacted off, exists in bucket, failed upload that was counted in uploadErrs); " +
			"(3) errors of Exists and of the overlap check return immediately (E4); " +
			"(4) result integrity: in the shipper and block upload path no deferred function assigns a function's named error result except under `err == nil` (a cleanup must not overwrite the upload error), and Shipper.upload returns block.Upload's result.",
		Assume: []string{"crash atomicity of the local shipper meta file is not decided", "completeness of what block.Upload wrote is C28"},
		Run:    runC35,
	})
}

// deferOverwritesResult reports deferred literals in fn that assign the named error result
// without an `err == nil` (or equivalent) guard.
func deferOverwritesResult(p *Prog, fn *Fn) []ast.Node {
	ft := fn.Type()
	if ft.Results == nil {
		return nil
	}
	info := fn.Info()
	var named []types.Object
	for _, f := range ft.Results.List {
		if id, ok := f.Type.(*ast.Ident); ok && id.Name == "error" {
			for _, nm := range f.Names {
				if o := info.Defs[nm]; o != nil {
					named = append(named, o)
				}
			}
		}
	}
	if len(named) == 0 {
		return nil
	}
	isNamed := func(e ast.Expr) bool {
		o := objOf(info, e)
		for _, n := range named {
			if o == n {
				return true
			}
		}
		return false
	}
	var bad []ast.Node
	inspectNoLit(fn.Body(), func(n ast.Node) bool {
		d, ok := n.(*ast.DeferStmt)
		if !ok {
			return true
		}
		lit, ok := d.Call.Fun.(*ast.FuncLit)
		if !ok {
			return true
		}
		ast.Inspect(lit.Body, func(m ast.Node) bool {
			as, ok := m.(*ast.AssignStmt)
			if !ok || as.Tok != token.ASSIGN {
				return true
			}
			for _, l := range as.Lhs {
				if !isNamed(l) {
					continue
				}
				// guarded by err == nil / returnErr == nil somewhere above inside the literal?
				guarded := false
				for par := p.ParentOf(fn.Pkg, as); par != nil && par != ast.Node(lit); par = p.ParentOf(fn.Pkg, par) {
					if ifs, ok := par.(*ast.IfStmt); ok {
						pol := within(as, ifs.Body.Pos(), ifs.Body.End())
						refine(ifs.Cond, pol, func(atom ast.Expr, t bool) {
							if x, nonNil, k := nilTest(info, atom); k && isNamed(x) && nonNil != t {
								guarded = true
							}
						})
						// if-init assignment form `if err = f(); err != nil` is itself the overwrite
						if ifs.Init == ast.Stmt(as) {
							guarded = false
						}
					}
				}
				// merging forms keep the old error: err = merr.Err(), errors.Wrap(err, ...), multierror append
				rhs := ""
				if len(as.Rhs) == 1 {
					rhs = exprString(as.Rhs[0])
				}
				keepsOld := false
				if len(as.Rhs) == 1 {
					ast.Inspect(as.Rhs[0], func(q ast.Node) bool {
						if id, ok := q.(*ast.Ident); ok && isNamed(id) {
							keepsOld = true
						}
						return true
					})
				}
				if !guarded && !keepsOld {
					_ = rhs
					bad = append(bad, as)
				}
			}
			return true
		})
		return true
	})
	return bad
}

func runC35(c *Ctx) {
	c.Rule("recorded-only-when-seen-complete", "append to meta.Uploaded only after hasUploaded / Exists true / upload nil", 3)
	c.Rule("nil-only-when-all-synced", "nil return only with no upload errors and no failed blocks; skips enumerated", 4)
	c.Rule("sync-error-discipline", "Exists / overlap errors returned", 2)
	c.Rule("result-not-overwritten", "no deferred overwrite of the error result; upload's result returned", 2)
	p := c.Load("pkg/shipper", "pkg/block")
	if p == nil {
		return
	}
	fn := p.Func("pkg/shipper", "Shipper", "Sync")
	if fn == nil {
		c.Incomplete("recorded-only-when-seen-complete", "pkg/shipper.(*Shipper).Sync", "", "function not found")
		return
	}
	info := fn.Info()
	isUploadCall := func(i *types.Info, call *ast.CallExpr) bool {
		f := calleeOf(i, call)
		return f != nil && f.Name() == "upload" && strings.Contains(funcFullName(f), "shipper.Shipper")
	}
	isExists := func(i *types.Info, call *ast.CallExpr) bool {
		return bucketMethod("Exists")(i, call) && argMentions(fn, call, 1, "MetaFilename")
	}
	e := newE3(p, fn, []Ev{{Name: "upload", Match: isUploadCall}, {Name: "exists", Match: isExists}})
	// the Exists result variable
	var existsOK types.Object
	inspectNoLit(fn.Body(), func(n ast.Node) bool {
		if as, ok := n.(*ast.AssignStmt); ok && len(as.Rhs) == 1 && len(as.Lhs) == 2 {
			if call, ok := unparen(as.Rhs[0]).(*ast.CallExpr); ok && isExists(info, call) {
				existsOK = objOf(info, as.Lhs[0])
			}
		}
		return true
	})
	nApp := 0
	inspectNoLit(fn.Body(), func(n ast.Node) bool {
		as, ok := n.(*ast.AssignStmt)
		if !ok || len(as.Lhs) != 1 || !strings.HasSuffix(canon(as.Lhs[0]), ".Uploaded") {
			return true
		}
		call, ok := unparen(as.Rhs[0]).(*ast.CallExpr)
		if !ok {
			return true
		}
		if id, ok := call.Fun.(*ast.Ident); !ok || id.Name != "append" {
			return true
		}
		construct := fmt.Sprintf("pkg/shipper.(*Shipper).Sync#record[%d]", nApp)
		nApp++
		gs := guardsOf(p, fn, as)
		why := ""
		for _, g := range gs {
			if !g.Pol {
				continue
			}
			// positive hasUploaded lookup
			if id, ok := unparen(g.Cond).(*ast.Ident); ok {
				if o := objOf(info, id); o != nil {
					if o == existsOK {
						if b, _ := e.Before(as, "exists"); b == eOK {
							why = "Exists(meta.json) returned true"
						}
					} else if g.Init != nil {
						if ias, ok := g.Init.(*ast.AssignStmt); ok && len(ias.Rhs) == 1 {
							if ix, ok := unparen(ias.Rhs[0]).(*ast.IndexExpr); ok && strings.Contains(strings.ToLower(exprString(ix.X)), "uploaded") {
								why = "already recorded"
							}
						}
					}
				}
			}
		}
		if why == "" {
			if b, _ := e.Before(as, "upload"); b == eOK {
				why = "upload returned nil"
			}
		}
		c.Check(why != "", "recorded-only-when-seen-complete", construct, p.Pos(as.Pos()), "recorded-without-evidence",
			"a block is recorded as uploaded on a path where it was neither recorded before, nor seen complete in the bucket, nor uploaded successfully (guards: "+guardsString(gs)+")")
		return true
	})
	if nApp == 0 {
		c.Incomplete("recorded-only-when-seen-complete", "pkg/shipper.(*Shipper).Sync#record", p.Pos(fn.Decl.Pos()), "no append to meta.Uploaded found")
	}

	// (2) nil return
	nNil := 0
	inspectNoLit(fn.Body(), func(n ast.Node) bool {
		ret, ok := n.(*ast.ReturnStmt)
		if !ok || len(ret.Results) != 2 || !isNil(info, ret.Results[1]) {
			return true
		}
		nNil++
		gs := guardsOf(p, fn, ret)
		x := newE9(p, fn, func(ex ast.Expr, text string) string {
			t := strings.ReplaceAll(text, " ", "")
			switch {
			case t == "uploadErrs":
				return "uerr"
			case t == "len(failedBlocks)":
				return "nfail"
			case t == "err" || strings.Contains(t, "skipCorruptedBlocks") || strings.Contains(t, "errors.Is("):
				return "other"
			}
			return ""
		})
		_, cx, err := e9Table([]string{"uerr", "nfail", "other"}, []int64{0, 1, 2}, func(env map[string]int64) bool { return env["uerr"] > 0 || env["nfail"] > 0 },
			func(env map[string]int64) (int64, error) { b, err := x.evalGuards(gs, env); return b2i(b), err },
			func(env map[string]int64) int64 { return 0 })
		reportE9(c, "nil-only-when-all-synced", "pkg/shipper.(*Shipper).Sync#nil-return", p.Pos(ret.Pos()), cx, err,
			"Sync can return nil although uploads failed or blocks were unreadable (path condition: "+guardsString(gs)+"): the caller would believe every eligible block is in the bucket")
		return true
	})
	if nNil == 0 {
		c.Incomplete("nil-only-when-all-synced", "pkg/shipper.(*Shipper).Sync#nil-return", p.Pos(fn.Decl.Pos()), "no nil return found")
	}
	// skips
	nCont := 0
	inspectNoLit(fn.Body(), func(n ast.Node) bool {
		br, ok := n.(*ast.BranchStmt)
		if !ok || br.Tok != token.CONTINUE {
			return true
		}
		construct := fmt.Sprintf("pkg/shipper.(*Shipper).Sync#skip[%d]", nCont)
		nCont++
		gs := guardsOf(p, fn, br)
		reason := ""
		// innermost positive guards
		var pos []string
		for _, g := range gs {
			if g.Pol {
				pos = append(pos, strings.ReplaceAll(exprString(g.Cond), " ", ""))
			}
		}
		joined := strings.Join(pos, "&&")
		switch {
		case strings.Contains(joined, "uploaded") && !strings.Contains(joined, "err"):
			reason = "already uploaded"
		case strings.Contains(joined, "NumSamples==0"):
			reason = "empty block"
		case strings.Contains(joined, "Compaction.Level>1") && strings.Contains(joined, "!s.uploadCompacted"):
			reason = "compacted block, uploadCompacted off"
		case existsOK != nil && strings.HasSuffix(joined, existsOK.Name()):
			reason = "exists in bucket"
		}
		if reason == "" {
			// failed upload must be counted
			if blk, ok := p.ParentOf(fn.Pkg, br).(*ast.BlockStmt); ok {
				for _, st := range blk.List {
					if inc, ok := st.(*ast.IncDecStmt); ok && exprString(inc.X) == "uploadErrs" && inc.Tok == token.INC {
						if b, _ := e.Before(inc, "upload"); b == eFail {
							reason = "failed upload counted in uploadErrs"
						}
					}
				}
			}
		}
		c.Check(reason != "", "nil-only-when-all-synced", construct, p.Pos(br.Pos()), "unexplained-skip:"+joined,
			"a block is skipped without being uploaded or counted as failed under "+guardsString(gs)+": it would never reach the bucket while Sync reports success")
		return true
	})

	// (3)
	checkErrsReturned(c, p, fn, "sync-error-discipline", "exists", isExists, nil)
	checkErrsReturned(c, p, fn, "sync-error-discipline", "overlap-check", func(i *types.Info, call *ast.CallExpr) bool {
		f := calleeOf(i, call)
		return f != nil && f.Name() == "IsOverlapping"
	}, nil)

	// (4)
	nFns := 0
	for _, f := range p.AllFuncs(true) {
		nFns++
		for _, b := range deferOverwritesResult(p, f) {
			c.Bad("result-not-overwritten", relPkg(f.Pkg.PkgPath)+"."+f.Name+"#deferred-assign", p.Pos(b.Pos()), "deferred-overwrite-of-error-result",
				"a deferred function assigns the named error result unconditionally: when the cleanup succeeds it replaces the function's real error with nil")
		}
	}
	c.OK("result-not-overwritten", "pkg/shipper+pkg/block#deferred-assign-sweep", "", fmt.Sprintf("%d functions swept", nFns))
	c.Stats["functions_analysed"] += nFns
	if up := p.Func("pkg/shipper", "Shipper", "upload"); up != nil {
		ok := false
		for _, st := range up.Decl.Body.List {
			if r, isRet := st.(*ast.ReturnStmt); isRet && len(r.Results) == 1 {
				if call, isCall := unparen(r.Results[0]).(*ast.CallExpr); isCall && isCallTo(up.Info(), call, "pkg/block.Upload", "pkg/block.UploadPromBlock") {
					ok = true
				}
			}
		}
		if !ok {
			// or bound, tested and returned
			ok = checkErrsReturned(c, p, up, "result-not-overwritten", "block-upload", callTo("pkg/block.Upload", "pkg/block.UploadPromBlock"), nil) > 0
		} else {
			c.OK("result-not-overwritten", "pkg/shipper.(*Shipper).upload#returns-upload-result", p.Pos(up.Decl.Pos()), "")
		}
	} else {
		c.Incomplete("result-not-overwritten", "pkg/shipper.(*Shipper).upload", "", "function not found")
	}
}
