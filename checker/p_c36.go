package main

import (
	"fmt"
	"go/ast"
	"go/types"
	"strings"
)

func init() {
	register(&Property{
		ID:    "C36",
		Title: "Raw downsampling aggregates are exact",
		Explain: "(1) Aggregate stem agreement: in aggrChunkBuilder.add every b.apps[AggrX].Append(t, …aggr.x…) pairs a slot with the aggregator field of the same name; in downsampleFloatAggrBatch every do(AggrX, … .y) uses the audited re-aggregation field (count→sum of counts, sum→sum, min→min, max→max) and the counter path reads and writes AggrCounter. " +
			"(2) floatAggregator: add updates count, sum and total unconditionally, lowers min only under s.v < a.min and raises max only under s.v > a.max, each with s.v; reset re-initialises exactly count, sum, min (+MaxFloat64) and max (−MaxFloat64) and leaves the cross-window counter state alone. " +
			"(3) Window arithmetic (E9 over small integers): currentWindow(t, r) is the last timestamp of the r-aligned window containing t; downsampleRawLoop extends a batch by exactly the samples with t <= that window end (for-scan or sort.Search form), so a window is never split across batches; downsampleBatch starts a new window exactly when s.t > nextT, emits the previous one first and caps the window end at the batch's last timestamp. " +
			"(4) NaN / stale samples never enter a batch (the append is guarded by the IsNaN tests). " +
			"(5) The querier reads each aggregate from the sub-chunk of the same name (decided under C04).",
		Assume: []string{"float arithmetic, totals and chunk sizing heuristics are not decided"},
		Run:    runC36,
	})
}

var c36Stems = []string{"count", "sum", "min", "max", "counter"}

func c36StemOfConst(name string) string {
	n := strings.ToLower(strings.TrimPrefix(name, "Aggr"))
	for _, s := range c36Stems {
		if n == s {
			return s
		}
	}
	return ""
}

func runC36(c *Ctx) {
	c.Rule("raw-aggregate-stems", "slot and aggregator field agree", 5)
	c.Rule("reaggregation-stems", "re-aggregation uses the audited field per aggregate", 5)
	c.Rule("float-aggregator-updates", "add/reset update the right fields under the right guards", 2)
	c.Rule("window-arithmetic", "window end, batch extension and window switch", 3)
	c.Rule("nan-excluded", "NaN and stale samples are not aggregated", 1)
	p := c.Load("pkg/compact/downsample")
	if p == nil {
		return
	}
	const rel = "pkg/compact/downsample"

	// (1) raw stems
	if fn := p.Func(rel, "aggrChunkBuilder", "add"); fn == nil {
		c.Incomplete("raw-aggregate-stems", rel+".(*aggrChunkBuilder).add", "", "function not found")
	} else {
		info := fn.Info()
		seen := map[string]bool{}
		ast.Inspect(fn.Body(), func(nd ast.Node) bool {
			call, ok := nd.(*ast.CallExpr)
			if !ok || len(call.Args) != 2 {
				return true
			}
			sel, ok := unparen(call.Fun).(*ast.SelectorExpr)
			if !ok || sel.Sel.Name != "Append" {
				return true
			}
			ix, ok := unparen(sel.X).(*ast.IndexExpr)
			if !ok {
				return true
			}
			cn, _ := info.Uses[identOf(ix.Index)].(*types.Const)
			if cn == nil {
				return true
			}
			slot := c36StemOfConst(cn.Name())
			if slot == "" {
				return true
			}
			seen[slot] = true
			field := ""
			ast.Inspect(call.Args[1], func(x ast.Node) bool {
				if s, ok := x.(*ast.SelectorExpr); ok {
					field = strings.ToLower(s.Sel.Name)
				}
				return true
			})
			c.Check(field == slot, "raw-aggregate-stems", fmt.Sprintf("%s.(*aggrChunkBuilder).add#%s", rel, slot), p.Pos(call.Pos()), "slot-field-mismatch",
				fmt.Sprintf("the %s aggregate is filled from the aggregator's %q", slot, field))
			if canon(call.Args[0]) != "t" && !strings.HasSuffix(canon(call.Args[0]), "t") {
				c.Bad("raw-aggregate-stems", fmt.Sprintf("%s.(*aggrChunkBuilder).add#%s-time", rel, slot), p.Pos(call.Pos()), "aggregate-timestamp", "the aggregate sample is not written at the window timestamp")
			}
			return true
		})
		for _, s := range c36Stems {
			if !seen[s] {
				c.Bad("raw-aggregate-stems", fmt.Sprintf("%s.(*aggrChunkBuilder).add#%s", rel, s), p.Pos(fn.Decl.Pos()), "aggregate-not-written", "the "+s+" aggregate is never appended")
			}
		}
	}
	// re-aggregation
	if fn := p.Func(rel, "", "downsampleFloatAggrBatch"); fn == nil {
		c.Incomplete("reaggregation-stems", rel+".downsampleFloatAggrBatch", "", "function not found")
	} else {
		info := fn.Info()
		allowed := map[string]string{"count": "sum", "sum": "sum", "min": "min", "max": "max"}
		seen := map[string]bool{}
		ast.Inspect(fn.Body(), func(nd ast.Node) bool {
			call, ok := nd.(*ast.CallExpr)
			if !ok || len(call.Args) != 2 {
				return true
			}
			if id, ok := call.Fun.(*ast.Ident); !ok || id.Name != "do" {
				return true
			}
			cn, _ := info.Uses[identOf(call.Args[0])].(*types.Const)
			lit, isLit := unparen(call.Args[1]).(*ast.FuncLit)
			if cn == nil || !isLit {
				return true
			}
			slot := c36StemOfConst(cn.Name())
			field := ""
			ast.Inspect(lit.Body, func(x ast.Node) bool {
				if ret, ok := x.(*ast.ReturnStmt); ok && len(ret.Results) == 1 {
					if s, ok := unparen(ret.Results[0]).(*ast.SelectorExpr); ok {
						field = strings.ToLower(s.Sel.Name)
					}
				}
				return true
			})
			seen[slot] = true
			c.Check(allowed[slot] != "" && field == allowed[slot], "reaggregation-stems", rel+".downsampleFloatAggrBatch#"+slot, p.Pos(call.Pos()), "reaggregation-field",
				fmt.Sprintf("re-aggregating %s takes the aggregator's %q (want %q)", slot, field, allowed[slot]))
			return true
		})
		for s := range allowed {
			if !seen[s] {
				c.Bad("reaggregation-stems", rel+".downsampleFloatAggrBatch#"+s, p.Pos(fn.Decl.Pos()), "aggregate-not-reaggregated", "the "+s+" aggregate is not re-aggregated")
			}
		}
		// counter path
		getsCounter, writesCounter, otherIdx := false, 0, ""
		ast.Inspect(fn.Body(), func(nd ast.Node) bool {
			switch v := nd.(type) {
			case *ast.CallExpr:
				if sel, ok := unparen(v.Fun).(*ast.SelectorExpr); ok && sel.Sel.Name == "Get" && len(v.Args) == 1 && canon(v.Args[0]) == "AggrCounter" {
					getsCounter = true
				}
				if sel, ok := unparen(v.Fun).(*ast.SelectorExpr); ok && sel.Sel.Name == "Append" {
					if ix, ok := unparen(sel.X).(*ast.IndexExpr); ok {
						if canon(ix.Index) == "AggrCounter" {
							writesCounter++
						} else {
							otherIdx = canon(ix.Index)
						}
					}
				}
			}
			return true
		})
		c.Check(getsCounter && writesCounter >= 3 && otherIdx == "", "reaggregation-stems", rel+".downsampleFloatAggrBatch#counter", p.Pos(fn.Decl.Pos()), "counter-path",
			fmt.Sprintf("the counter path must read AggrCounter (found=%v) and append only to the AggrCounter slot (appends=%d, other slot %q)", getsCounter, writesCounter, otherIdx))
	}

	// (2) floatAggregator
	if fn := p.Func(rel, "floatAggregator", "add"); fn == nil {
		c.Incomplete("float-aggregator-updates", rel+".(*floatAggregator).add", "", "function not found")
	} else {
		var top []string
		bad := ""
		ab := shapeBind{}
		for _, st := range fn.Decl.Body.List {
			switch v := st.(type) {
			case *ast.AssignStmt:
				top = append(top, stmtText(p,v))
			case *ast.IncDecStmt:
				top = append(top, canon(v.X)+v.Tok.String())
			case *ast.IfStmt:
				t := canon(v.Cond)
				if len(v.Body.List) == 1 && v.Else == nil {
					body := strings.ReplaceAll(stmtText(p,v.Body.List[0]), " ", "")
					switch {
					case strings.HasSuffix(body, ".min=s.v") || strings.Contains(body, ".min="):
						if !matchShape("§s.v<§a.min", t, ab) || !matchShape("{§a.min=§s.v}", "{"+body+"}", ab) {
							bad = "min is updated by `" + body + "` under `" + t + "`"
						} else {
							top = append(top, "min-ok")
						}
					case strings.Contains(body, ".max="):
						if !matchShape("§s.v>§a.max", t, ab) || !matchShape("{§a.max=§s.v}", "{"+body+"}", ab) {
							bad = "max is updated by `" + body + "` under `" + t + "`"
						} else {
							top = append(top, "max-ok")
						}
					}
				}
			}
		}
		joined := strings.ReplaceAll(strings.Join(top, ";"), " ", "")
		for _, want := range []string{"§a.sum+=§s.v", "§a.count++", "§a.total++", "min-ok", "max-ok", "§a.last=§s.v"} {
			found := false
			for _, part := range strings.Split(joined, ";") {
				if part == want || (strings.HasPrefix(want, "§") && matchShape(want, part, ab)) {
					found = true
				}
			}
			if !found && bad == "" {
				bad = "missing unconditional update `" + want + "`"
			}
		}
		c.Check(bad == "", "float-aggregator-updates", rel+".(*floatAggregator).add", p.Pos(fn.Decl.Pos()), "aggregator-update", bad)
	}
	if fn := p.Func(rel, "floatAggregator", "reset"); fn == nil {
		c.Incomplete("float-aggregator-updates", rel+".(*floatAggregator).reset", "", "function not found")
	} else {
		got := map[string]string{}
		for _, st := range fn.Decl.Body.List {
			if as, ok := st.(*ast.AssignStmt); ok && len(as.Lhs) == 1 && len(as.Rhs) == 1 {
				got[canon(as.Lhs[0])] = canon(as.Rhs[0])
			}
		}
		rn := "a"
		if fn.Decl.Recv != nil && len(fn.Decl.Recv.List) == 1 && len(fn.Decl.Recv.List[0].Names) == 1 {
			rn = fn.Decl.Recv.List[0].Names[0].Name
		}
		want := map[string]string{rn + ".count": "0", rn + ".sum": "0", rn + ".min": "math.MaxFloat64", rn + ".max": "-math.MaxFloat64"}
		bad := ""
		for k, v := range want {
			if got[k] != v {
				bad = fmt.Sprintf("%s is reset to %q (want %s)", k, got[k], v)
			}
		}
		for k := range got {
			if _, ok := want[k]; !ok {
				bad = k + " is reset although it carries state across windows"
			}
		}
		c.Check(bad == "", "float-aggregator-updates", rel+".(*floatAggregator).reset", p.Pos(fn.Decl.Pos()), "aggregator-reset", bad)
	}

	// (3) window arithmetic
	if fn := p.Func(rel, "", "currentWindow"); fn == nil {
		c.Incomplete("window-arithmetic", rel+".currentWindow", "", "function not found")
	} else {
		var names []string
		for _, f := range fn.Decl.Type.Params.List {
			for _, nm := range f.Names {
				names = append(names, nm.Name)
			}
		}
		if len(names) != 2 {
			c.Incomplete("window-arithmetic", rel+".currentWindow", p.Pos(fn.Decl.Pos()), "unexpected signature")
		} else {
			x := newE9(p, fn, func(e ast.Expr, text string) string {
				switch strings.TrimSpace(text) {
				case names[0]:
					return "t"
				case names[1]:
					return "r"
				}
				return ""
			})
			n, cx, err := e9Table([]string{"t", "r"}, intRange(0, 9), func(env map[string]int64) bool { return env["r"] >= 1 && env["r"] <= 4 },
				func(env map[string]int64) (int64, error) { v, err := x.evalBody(fn.Decl.Body.List, env); return v.i, err },
				func(env map[string]int64) int64 { return (env["t"]/env["r"])*env["r"] + env["r"] - 1 })
			c.Stats["assignments_evaluated"] += n
			reportE9(c, "window-arithmetic", rel+".currentWindow", p.Pos(fn.Decl.Pos()), cx, err, "currentWindow is not the last timestamp of the aligned window containing t")
		}
	}
	if fn := p.Func(rel, "", "downsampleRawLoop"); fn == nil {
		c.Incomplete("window-arithmetic", rel+".downsampleRawLoop", "", "function not found")
	} else {
		info := fn.Info()
		construct := rel + ".downsampleRawLoop#batch-extension"
		// curW := currentWindow(data[j-1].t, resolution)
		var curW types.Object
		ast.Inspect(fn.Body(), func(nd ast.Node) bool {
			if as, ok := nd.(*ast.AssignStmt); ok && len(as.Rhs) == 1 && len(as.Lhs) == 1 {
				if call, ok := unparen(as.Rhs[0]).(*ast.CallExpr); ok {
					if f := calleeOf(info, call); f != nil && f.Name() == "currentWindow" && len(call.Args) == 2 && strings.HasSuffix(canon(call.Args[0]), "-1].t") {
						curW = objOf(info, as.Lhs[0])
					}
				}
			}
			return true
		})
		if curW == nil {
			c.Incomplete("window-arithmetic", construct, p.Pos(fn.Decl.Pos()), "the window end of the batch's last sample is not computed with currentWindow(data[j-1].t, …)")
		} else {
			// form (a): for ; j < len(data) && data[j].t <= curW; j++ {}
			// form (b): sort.Search(n, func(i int) bool { return X[i].t > curW })
			var pred ast.Expr
			inWindow := true
			ast.Inspect(fn.Body(), func(nd ast.Node) bool {
				switch v := nd.(type) {
				case *ast.ForStmt:
					if v.Cond != nil && len(v.Body.List) == 0 && mentionsObj(info, v.Cond, curW) {
						refine(v.Cond, true, func(atom ast.Expr, t bool) {
							if t && mentionsObj(info, atom, curW) {
								pred, inWindow = atom, true
							}
						})
					}
				case *ast.CallExpr:
					if f := calleeOf(info, v); f != nil && f.Pkg() != nil && f.Pkg().Path() == "sort" && f.Name() == "Search" && len(v.Args) == 2 {
						if lit, ok := unparen(v.Args[1]).(*ast.FuncLit); ok && len(lit.Body.List) == 1 {
							if ret, ok := lit.Body.List[0].(*ast.ReturnStmt); ok && len(ret.Results) == 1 && mentionsObj(info, ret.Results[0], curW) {
								pred, inWindow = ret.Results[0], false
							}
						}
					}
				}
				return true
			})
			if pred == nil {
				c.Incomplete("window-arithmetic", construct, p.Pos(fn.Decl.Pos()), "no scan that extends the batch to the end of its last window (for-scan or sort.Search) found")
			} else {
				x := newE9(p, fn, func(e ast.Expr, text string) string {
					t := strings.ReplaceAll(text, " ", "")
					switch {
					case t == curW.Name():
						return "w"
					case strings.HasSuffix(t, "].t"):
						return "t"
					}
					return ""
				})
				n, cx, err := e9Table([]string{"t", "w"}, intRange(0, 3), nil,
					func(env map[string]int64) (int64, error) { v, err := x.eval(pred, env); return b2i(v.b), err },
					func(env map[string]int64) int64 {
						if inWindow {
							return b2i(env["t"] <= env["w"])
						}
						return b2i(env["t"] > env["w"])
					})
				c.Stats["assignments_evaluated"] += n
				reportE9(c, "window-arithmetic", construct, p.Pos(pred.Pos()), cx, err,
					"the batch is not extended by exactly the samples with t <= window end (the end is inclusive): a sample on the last millisecond of a window would be aggregated in the next batch, splitting the window into two output samples")
			}
		}
	}
	if fn := p.Func(rel, "", "downsampleBatch"); fn == nil {
		c.Incomplete("window-arithmetic", rel+".downsampleBatch", "", "function not found")
	} else {
		bad := "window switch not found"
		wb := shapeBind{}
		ast.Inspect(fn.Body(), func(nd ast.Node) bool {
			is, ok := nd.(*ast.IfStmt)
			if !ok || !matchShape("§s.t>§nextT", canon(is.Cond), wb) {
				return true
			}
			var order []string
			for _, st := range is.Body.List {
				t := strings.ReplaceAll(stmtText(p,st), " ", "")
				switch {
				case prefixShape("§add(§nextT,", t, wb):
					order = append(order, "emit")
				case strings.HasSuffix(t, ".reset()"):
					order = append(order, "reset")
				case prefixShape("§nextT=min(", t, wb) && containsShape("currentWindow(§s.t,§resolution)", t, wb) && containsShape("§lastT", strings.SplitN(t, "currentWindow(", 2)[len(strings.SplitN(t, "currentWindow(", 2))-1], shapeBind{}):
					order = append(order, "next")
				case strings.HasPrefix(t, "nextT="):
					order = append(order, "next?"+t)
				}
				if inner, ok := st.(*ast.IfStmt); ok && matchShape("§nextT!=-1", canon(inner.Cond), wb) && len(inner.Body.List) == 1 && prefixShape("§add(§nextT,", stmtText(p, inner.Body.List[0]), wb) {
					order = append(order, "emit")
				}
			}
			if strings.Join(order, ",") == "emit,reset,next" {
				bad = ""
			} else {
				bad = "on a window switch the steps are [" + strings.Join(order, ",") + "], want [emit previous window, reset, next window end = min(currentWindow(s.t), lastT)]"
			}
			return true
		})
		// every sample is added after the switch
		addsAll := false
		ast.Inspect(fn.Body(), func(nd ast.Node) bool {
			if rs, ok := nd.(*ast.RangeStmt); ok && len(rs.Body.List) >= 2 {
				if matchShape("§aggr.add(§s)", stmtText(p, rs.Body.List[len(rs.Body.List)-1]), shapeBind{}) {
					addsAll = true
				}
			}
			return true
		})
		if bad == "" && !addsAll {
			bad = "not every sample of the batch is added to the aggregator"
		}
		c.Check(bad == "", "window-arithmetic", rel+".downsampleBatch", p.Pos(fn.Decl.Pos()), "window-switch", bad)
	}

	// (4) NaN
	if fn := p.Func(rel, "", "downsampleRawLoop"); fn != nil {
		info := fn.Info()
		ok, n := false, 0
		// the batch is whatever is handed to the batch function (a func-typed parameter)
		var batch types.Object
		ast.Inspect(fn.Body(), func(nd ast.Node) bool {
			if call, isCall := nd.(*ast.CallExpr); isCall && len(call.Args) >= 1 {
				if id, isId := unparen(call.Fun).(*ast.Ident); isId {
					if v, isVar := objOf(info, id).(*types.Var); isVar {
						if _, isSig := v.Type().Underlying().(*types.Signature); isSig && batch == nil {
							batch = objOf(info, call.Args[0])
						}
					}
				}
			}
			return true
		})
		ast.Inspect(fn.Body(), func(nd ast.Node) bool {
			as, isAs := nd.(*ast.AssignStmt)
			if !isAs || len(as.Rhs) != 1 || batch == nil {
				return true
			}
			call, isCall := unparen(as.Rhs[0]).(*ast.CallExpr)
			if !isCall || len(call.Args) != 2 || objOf(info, call.Args[0]) != batch {
				return true
			}
			if id, isId := call.Fun.(*ast.Ident); !isId || id.Name != "append" {
				return true
			}
			n++
			el := canon(call.Args[1])
			nanV, nanH := false, false
			for _, g := range guardsOf(p, fn, as) {
				// `if s.fh != nil && math.IsNaN(s.fh.Sum) { continue }`: its negation is what we need
				// (not a histogram, or a histogram whose sum is a number)
				if !g.Pol {
					if t := canon(g.Cond); t == el+".fh!=nil&&math.IsNaN("+el+".fh.Sum)" || t == "math.IsNaN("+el+".fh.Sum)&&"+el+".fh!=nil" {
						nanH = true
					}
				}
				refine(g.Cond, g.Pol, func(atom ast.Expr, t bool) {
					if c2, isC := unparen(atom).(*ast.CallExpr); isC && !t {
						if f := calleeOf(info, c2); f != nil && f.Name() == "IsNaN" && len(c2.Args) == 1 {
							switch canon(c2.Args[0]) {
							case el + ".v":
								nanV = true
							case el + ".fh.Sum":
								nanH = true
							}
						}
					}
				})
			}
			ok = nanV && nanH
			return true
		})
		c.Check(ok && n == 1, "nan-excluded", rel+".downsampleRawLoop", p.Pos(fn.Decl.Pos()), "nan-aggregated", "samples enter the batch without passing the IsNaN tests (stale markers and NaN must not count)")
	}
}
