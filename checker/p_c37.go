package main

import (
	"fmt"
	"go/ast"
	"go/token"
	"strings"
)

func init() {
	register(&Property{
		ID:    "C37",
		Title: "Downsampled counters preserve the raw counter's increase",
		Explain: "Structural necessary conditions only. (1) Counter update, raw aggregator (integer-domain interpretation of floatAggregator.add over all small (total, last, counter, value)): the first sample sets the counter, a value below the previous one adds the value itself (reset), any other adds the difference. " +
			"(2) Counter update, read side (E9 over the path conditions of ApplyCounterResetsSeriesIterator.Next): totalV grows by v − lastV exactly when the timestamp advanced and v >= lastV, by v exactly when the timestamp advanced and v < lastV, and a sample that repeats the last timestamp only replaces lastV (the chunk's true last raw value) — the same reset rule as the aggregator (sibling agreement). " +
			"(3) Chunk bracketing: every counter chunk written by downsampleFloatBatch and downsampleFloatAggrBatch starts with the first raw value at its own timestamp and ends with the last raw value at the timestamp of the last emitted window, which is what lets the iterator see resets that fall between chunks.",
		Assume: []string{"numeric equality of the reconstructed increase over arbitrary series and two downsampling levels is not decided"},
		Run:    runC37,
	})
}

func runC37(c *Ctx) {
	c.Rule("aggregator-counter-update", "first sets; drop adds value; otherwise adds difference", 1)
	c.Rule("iterator-counter-update", "same reset rule on the read side; repeated timestamp replaces lastV", 3)
	c.Rule("counter-chunk-bracketing", "first raw value first, last raw value last", 2)
	c.Rule("aggregator-fresh-per-chunk", "each downsampleBatch call gets its own aggregator", 4)
	p := c.Load("pkg/compact/downsample")
	if p == nil {
		return
	}
	const rel = "pkg/compact/downsample"

	// (1)
	if fn := p.Func(rel, "floatAggregator", "add"); fn == nil {
		c.Incomplete("aggregator-counter-update", rel+".(*floatAggregator).add", "", "function not found")
	} else {
		// field names by role come from the struct; receiver and parameter names from the declaration
		rn, pn := "a", "s"
		if r := fn.Decl.Recv; r != nil && len(r.List) == 1 && len(r.List[0].Names) == 1 {
			rn = r.List[0].Names[0].Name
		}
		if ps := fn.Decl.Type.Params; ps != nil && len(ps.List) == 1 && len(ps.List[0].Names) == 1 {
			pn = ps.List[0].Names[0].Name
		}
		atoms := func(t string) string {
			if t == pn+".v" {
				return "v"
			}
			if f, ok := strings.CutPrefix(t, rn+"."); ok {
				switch f {
				case "total", "last", "counter", "resets", "sum", "count", "min", "max":
					return f
				}
			}
			return ""
		}
		viol, runs := "", 0
		unknown := map[string]bool{}
		for total := int64(0); total <= 1 && viol == ""; total++ {
			for last := int64(0); last <= 3 && viol == ""; last++ {
				for counter := int64(0); counter <= 3 && viol == ""; counter++ {
					for v := int64(0); v <= 4 && viol == ""; v++ {
						li := &lenInterp{p: p, fn: fn, info: fn.Info(), slices: map[string]bool{}, atoms: atoms, check: func(lenState, ast.Node) string { return "" }}
						out := li.run(fn.Decl.Body.List, lenState{v: map[string]int64{"total": total, "last": last, "counter": counter, "v": v, "resets": 0, "sum": 0, "count": 0, "min": 9, "max": -9}})
						runs++
						for _, u := range li.unknown {
							unknown[u] = true
						}
						want := v
						if total > 0 {
							if v < last {
								want = counter + v
							} else {
								want = counter + v - last
							}
						}
						for _, s := range out {
							if got := s.v["counter"]; got != want {
								viol = fmt.Sprintf("samples so far=%d last=%d counter=%d value=%d → counter %d, want %d", total, last, counter, v, got, want)
							}
							if s.v["last"] != v {
								viol = fmt.Sprintf("the last value is not remembered (value=%d, last=%d)", v, s.v["last"])
							}
						}
					}
				}
			}
		}
		c.Stats["abstract_runs"] += runs
		switch {
		case len(unknown) > 0:
			c.Incomplete("aggregator-counter-update", rel+".(*floatAggregator).add", p.Pos(fn.Decl.Pos()), "statement forms not understood: "+strings.Join(keysOf(unknown), "; "))
		case viol != "":
			c.Bad("aggregator-counter-update", rel+".(*floatAggregator).add", p.Pos(fn.Decl.Pos()), "counter-update", viol)
		default:
			c.OK("aggregator-counter-update", rel+".(*floatAggregator).add", p.Pos(fn.Decl.Pos()), fmt.Sprintf("%d abstract runs", runs))
		}
	}

	// (2)
	if fn := p.Func(rel, "ApplyCounterResetsSeriesIterator", "Next"); fn == nil {
		c.Incomplete("iterator-counter-update", rel+".(*ApplyCounterResetsSeriesIterator).Next", "", "function not found")
	} else {
		construct := rel + ".(*ApplyCounterResetsSeriesIterator).Next"
		atom := func(e ast.Expr, text string) string {
			switch strings.ReplaceAll(text, " ", "") {
			case "t":
				return "t"
			case "v":
				return "v"
			case "it.lastT":
				return "lastT"
			case "it.lastV":
				return "lastV"
			case "it.total":
				return "total"
			}
			return ""
		}
		type site struct {
			as   *ast.AssignStmt
			kind string
		}
		var sites []site
		ast.Inspect(fn.Body(), func(nd ast.Node) bool {
			as, ok := nd.(*ast.AssignStmt)
			if !ok {
				return true
			}
			t := stmtText(p, as)
			switch {
			case t == "it.totalV+=v-it.lastV":
				sites = append(sites, site{as, "diff"})
			case t == "it.totalV+=v":
				sites = append(sites, site{as, "reset"})
			case t == "it.lastV=v":
				sites = append(sites, site{as, "true-last"})
			case strings.HasPrefix(t, "it.totalV") && t != "it.totalV=v":
				sites = append(sites, site{as, "?" + t})
			}
			return true
		})
		seen := map[string]bool{}
		for _, s := range sites {
			if strings.HasPrefix(s.kind, "?") {
				c.Bad("iterator-counter-update", construct+"#other", p.Pos(s.as.Pos()), "unknown-counter-update", "the running total is updated by `"+s.kind[1:]+"`")
				continue
			}
			seen[s.kind] = true
			var gs []guardCond
			for _, g := range guardsOf(p, fn, s.as) {
				t := canon(g.Cond)
				// only the conditions over (t, v, lastT, lastV, total)
				if mentions(t, "it.lastT") || mentions(t, "it.lastV") || mentions(t, "it.total") {
					gs = append(gs, g)
				}
			}
			x := newE9(p, fn, atom)
			n, cx, err := e9Table([]string{"t", "v", "lastT", "lastV", "total"}, intRange(0, 2), func(env map[string]int64) bool { return env["total"] <= 1 },
				func(env map[string]int64) (int64, error) { b, err := x.evalGuards(gs, env); return b2i(b), err },
				func(env map[string]int64) int64 {
					started := env["total"] != 0
					adv := env["t"] > env["lastT"]
					switch s.kind {
					case "diff":
						return b2i(started && adv && env["v"] >= env["lastV"])
					case "reset":
						return b2i(started && adv && env["v"] < env["lastV"])
					default:
						return b2i(started && !adv && env["t"] == env["lastT"])
					}
				})
			c.Stats["assignments_evaluated"] += n
			reportE9(c, "iterator-counter-update", construct+"#"+s.kind, p.Pos(s.as.Pos()), cx, err,
				"the read side applies `"+stmtText(p, s.as)+"` under conditions that differ from the aggregator's reset rule ("+guardsString(gs)+")")
		}
		for _, k := range []string{"diff", "reset", "true-last"} {
			if !seen[k] {
				c.Bad("iterator-counter-update", construct+"#"+k, p.Pos(fn.Decl.Pos()), "counter-update-missing", "the "+k+" update of the running total was not found")
			}
		}
	}

	// (2b) every chunk's counter starts from its own first raw value: the aggregator handed to
	// downsampleBatch is created for that call (reset() keeps total/last/counter on purpose, so a
	// shared aggregator would carry the previous chunks' counter into the next chunk while the
	// reading iterator anchors each chunk at its first raw value)
	{
		n := 0
		for _, fn := range p.AllFuncs(true) {
			if fn.Decl == nil || !strings.HasSuffix(fn.Pkg.PkgPath, rel) || strings.HasSuffix(p.Fset.Position(fn.Decl.Pos()).Filename, "_test.go") {
				continue
			}
			info := fn.Info()
			ast.Inspect(fn.Body(), func(nd ast.Node) bool {
				call, ok := nd.(*ast.CallExpr)
				if !ok || len(call.Args) != 4 {
					return true
				}
				if f := calleeOf(info, call); f == nil || f.Name() != "downsampleBatch" {
					return true
				}
				n++
				arg := unparen(call.Args[2])
				fresh := false
				switch v := arg.(type) {
				case *ast.UnaryExpr:
					if _, isLit := unparen(v.X).(*ast.CompositeLit); isLit && v.Op == token.AND {
						fresh = true
					}
				case *ast.CallExpr:
					if f := calleeOf(info, v); f != nil && strings.HasPrefix(f.Name(), "new") {
						fresh = true
					}
				}
				c.Check(fresh, "aggregator-fresh-per-chunk", fmt.Sprintf("%s.%s#downsampleBatch[%d]", rel, fn.Name, n-1), p.Pos(call.Pos()), "aggregator-shared-across-chunks",
					"downsampleBatch is given the aggregator "+canon(arg)+" that outlives the call: floatAggregator.reset keeps the running counter, so the next chunk's counter values continue the previous chunk's instead of starting from the chunk's own first raw value")
				return true
			})
		}
		if n == 0 {
			c.Incomplete("aggregator-fresh-per-chunk", rel+"#downsampleBatch", "", "no call of downsampleBatch found")
		}
	}

	// (3)
	for _, spec := range []struct{ fn, firstT, firstV, lastV string }{
		{"downsampleFloatBatch", "batch[0].t", "batch[0].v", "batch[len(batch)-1].v"},
		{"downsampleFloatAggrBatch", "(*buf)[0].t", "(*buf)[0].v", "it.lastV"},
	} {
		fn := p.Func(rel, "", spec.fn)
		construct := rel + "." + spec.fn
		if fn == nil {
			c.Incomplete("counter-chunk-bracketing", construct, "", "function not found")
			continue
		}
		// appends to the counter slot, in source order, relative to the downsampleBatch call
		type app struct {
			pos  token.Pos
			args string
		}
		var apps []app
		var batchPos token.Pos
		var lastTName string
		ast.Inspect(fn.Body(), func(nd ast.Node) bool {
			switch v := nd.(type) {
			case *ast.AssignStmt:
				if len(v.Rhs) == 1 && strings.HasPrefix(stmtText(p, v.Rhs[0]), "downsampleBatch(") && len(v.Lhs) == 1 {
					// the counter one is the last such call
					batchPos, lastTName = v.Pos(), canon(v.Lhs[0])
				}
			case *ast.CallExpr:
				if sel, ok := unparen(v.Fun).(*ast.SelectorExpr); ok && sel.Sel.Name == "Append" && len(v.Args) == 2 {
					if ix, ok := unparen(sel.X).(*ast.IndexExpr); ok && canon(ix.Index) == "AggrCounter" {
						if _, inLit := p.ParentOf(fn.Pkg, v).(*ast.ExprStmt); inLit {
							apps = append(apps, app{v.Pos(), stmtText(p, v.Args[0]) + "," + stmtText(p, v.Args[1])})
						}
					}
				}
			}
			return true
		})
		bad := ""
		var before, after []app
		for _, a := range apps {
			// appends inside the window callback are not brackets
			inCallback := false
			for _, l := range p.Lits(fn) {
				if l.Lit.Body.Pos() <= a.pos && a.pos < l.Lit.Body.End() {
					inCallback = true
				}
			}
			if inCallback {
				continue
			}
			if a.pos < batchPos {
				before = append(before, a)
			} else {
				after = append(after, a)
			}
		}
		switch {
		case batchPos == token.NoPos:
			bad = "the windows of the counter are not produced by downsampleBatch with its last timestamp kept"
		case len(before) != 1 || before[0].args != spec.firstT+","+spec.firstV:
			bad = fmt.Sprintf("the counter chunk does not start with the first raw value at its timestamp (found %v)", before)
		case len(after) != 1 || after[0].args != lastTName+","+spec.lastV:
			bad = fmt.Sprintf("the counter chunk does not end with the last raw value at the last window's timestamp (found %v)", after)
		}
		c.Check(bad == "", "counter-chunk-bracketing", construct, p.Pos(fn.Decl.Pos()), "counter-brackets", bad)
	}
}
