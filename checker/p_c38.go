package main

import (
	"fmt"
	"go/ast"
	"go/types"
	"strings"
)

func init() {
	register(&Property{
		ID:    "C38",
		Title: "Re-downsampling aggregates conserves totals",
		Explain: "Structural necessary conditions only. (1) Each aggregate is re-aggregated with the function that conserves it: the count by summing the counts, the sum by summing, the minimum by taking the minimum, the maximum by taking the maximum (downsampleFloatAggrBatch's do(AggrX, …) pairs, audited table). " +
			"(2) genericAggregate reads the sub-chunks of exactly the aggregate it writes (chk.Get(at) ↔ ab.chunks[at] / ab.apps[at]), skips an input chunk only when that aggregate does not exist in it, expands every sample of the others into the batch, and appends f(a) at the window timestamp. " +
			"(3) downsampleBatch adds every sample of the batch to the aggregator exactly once, emits each window before resetting, and never emits a timestamp beyond the batch's last one (shared with C36, evaluated there). " +
			"(4) In downsampleAggr the output chunk's MinTime/MaxTime come from the emitted timestamps.",
		Assume: []string{"numeric conservation itself (float sums, min/max) is arithmetic over runtime data and is not decided"},
		Run:    runC38,
	})
}

func runC38(c *Ctx) {
	c.Rule("conserving-reaggregation", "count←Σcount, sum←Σsum, min←min, max←max", 4)
	c.Rule("generic-aggregate-reads-what-it-writes", "same aggregate read and written; only missing aggregates skipped", 2)
	c.Rule("every-sample-aggregated-once", "downsampleBatch adds each sample once and emits before reset", 1)
	c.Rule("every-input-chunk-consumed", "the aggregate loop runs until no input chunk is left", 1)
	p := c.Load("pkg/compact/downsample")
	if p == nil {
		return
	}
	const rel = "pkg/compact/downsample"
	if fn := p.Func(rel, "", "downsampleFloatAggrBatch"); fn == nil {
		c.Incomplete("conserving-reaggregation", rel+".downsampleFloatAggrBatch", "", "function not found")
	} else {
		info := fn.Info()
		allowed := map[string]string{"count": "sum", "sum": "sum", "min": "min", "max": "max"}
		seen := map[string]bool{}
		ast.Inspect(fn.Body(), func(nd ast.Node) bool {
			call, ok := nd.(*ast.CallExpr)
			if !ok || len(call.Args) != 2 {
				return true
			}
			if id, ok := call.Fun.(*ast.Ident); !ok || id.Name != "do" {
				return true
			}
			cn, _ := info.Uses[identOf(call.Args[0])].(*types.Const)
			lit, isLit := unparen(call.Args[1]).(*ast.FuncLit)
			if cn == nil || !isLit {
				return true
			}
			slot := c36StemOfConst(cn.Name())
			field := ""
			ast.Inspect(lit.Body, func(x ast.Node) bool {
				if ret, ok := x.(*ast.ReturnStmt); ok && len(ret.Results) == 1 {
					if s, ok := unparen(ret.Results[0]).(*ast.SelectorExpr); ok {
						field = strings.ToLower(s.Sel.Name)
					}
				}
				return true
			})
			seen[slot] = true
			c.Check(allowed[slot] != "" && field == allowed[slot], "conserving-reaggregation", rel+".downsampleFloatAggrBatch#"+slot, p.Pos(call.Pos()), "non-conserving-function",
				fmt.Sprintf("the %s aggregate of already downsampled data is combined with the aggregator's %q; conserving the series' total needs %q", slot, field, allowed[slot]))
			return true
		})
		for s := range allowed {
			if !seen[s] {
				c.Bad("conserving-reaggregation", rel+".downsampleFloatAggrBatch#"+s, p.Pos(fn.Decl.Pos()), "aggregate-dropped", "the "+s+" aggregate is not carried to the coarser resolution")
			}
		}
	}
	if fn := p.Func(rel, "", "genericAggregate"); fn == nil {
		c.Incomplete("generic-aggregate-reads-what-it-writes", rel+".genericAggregate", "", "function not found")
	} else {
		info := fn.Info()
		var at types.Object
		if len(fn.Decl.Type.Params.List) > 0 && len(fn.Decl.Type.Params.List[0].Names) > 0 {
			at = info.Defs[fn.Decl.Type.Params.List[0].Names[0]]
		}
		bad, reads, writes := "", 0, 0
		ast.Inspect(fn.Body(), func(nd ast.Node) bool {
			switch v := nd.(type) {
			case *ast.CallExpr:
				if sel, ok := unparen(v.Fun).(*ast.SelectorExpr); ok && sel.Sel.Name == "Get" && len(v.Args) == 1 && isNamed(info.TypeOf(v.Args[0]), "downsample", "AggrType") {
					reads++
					if objOf(info, v.Args[0]) != at {
						bad = "the input chunks are read for aggregate " + canon(v.Args[0]) + " instead of the one being written"
					}
				}
			case *ast.IndexExpr:
				t := canon(v.X)
				if strings.HasSuffix(t, ".apps") || strings.HasSuffix(t, ".chunks") {
					writes++
					if objOf(info, v.Index) != at {
						bad = "the result is written to slot " + canon(v.Index) + " instead of the aggregate that was read"
					}
				}
			}
			return true
		})
		if reads == 0 || writes == 0 {
			bad = "reading or writing of the aggregate not found"
		}
		c.Check(bad == "" && at != nil, "generic-aggregate-reads-what-it-writes", rel+".genericAggregate#slot", p.Pos(fn.Decl.Pos()), "aggregate-slot-mismatch", bad)
		// only ErrAggrNotExist skips an input chunk
		okSkip := false
		ast.Inspect(fn.Body(), func(nd ast.Node) bool {
			rs, ok := nd.(*ast.RangeStmt)
			if !ok || canon(rs.X) != "chks" {
				return true
			}
			skips := 0
			okOnly := true
			ast.Inspect(rs.Body, func(x ast.Node) bool {
				if br, ok := x.(*ast.BranchStmt); ok && br.Tok.String() == "continue" {
					skips++
					if is, ok := enclosingIf(p, fn, br); !ok || canon(is.Cond) != "err==ErrAggrNotExist" {
						okOnly = false
					}
				}
				return true
			})
			expands := strings.Contains(stmtText(p, rs.Body), "expandXorChunkIterator(")
			okSkip = skips == 1 && okOnly && expands
			return true
		})
		c.Check(okSkip, "generic-aggregate-reads-what-it-writes", rel+".genericAggregate#inputs", p.Pos(fn.Decl.Pos()), "input-chunk-skipped",
			"an input chunk may be skipped only when it does not carry the aggregate; every other chunk's samples must be expanded into the batch")
	}
	// every input chunk is handed to the aggregation: the loop runs until no input chunk is left
	if fn := p.Func(rel, "", "downsampleAggrLoop"); fn == nil {
		c.Incomplete("every-input-chunk-consumed", rel+".downsampleAggrLoop", "", "function not found")
	} else {
		bad := "no loop that consumes the input chunks was found"
		ast.Inspect(fn.Body(), func(nd ast.Node) bool {
			f, ok := nd.(*ast.ForStmt)
			if !ok {
				return true
			}
			b := shapeBind{}
			if f.Cond == nil || f.Init != nil || f.Post != nil || !matchShape("len(§chks)>0", stmtText(p, f.Cond), b) {
				bad = "the loop over the input chunks does not run `for len(chunks) > 0`: chunks left over when it stops (e.g. a remainder of a division into equally sized parts) are silently dropped, and with them their counts and sums"
				return true
			}
			var take, cut, use bool
			for _, st := range f.Body.List {
				t := stmtText(p, st)
				switch {
				case matchShape("§part:=§chks[:§j]", t, b):
					take = true
				case matchShape("§chks=§chks[§j:]", t, b):
					cut = true
				}
			}
			if take {
				for _, st := range f.Body.List {
					if containsShape("(§part,", stmtText(p, st), b) {
						use = true
					}
				}
			}
			switch {
			case !take || !cut:
				bad = "the loop does not take the next part as chunks[:j] and continue with chunks[j:]"
			case !use:
				bad = "the part taken from the input is not handed to the aggregation"
			default:
				bad = ""
			}
			return true
		})
		c.Check(bad == "", "every-input-chunk-consumed", rel+".downsampleAggrLoop", p.Pos(fn.Decl.Pos()), "input-chunks-left-over", bad)
	}
	if fn := p.Func(rel, "", "downsampleBatch"); fn == nil {
		c.Incomplete("every-sample-aggregated-once", rel+".downsampleBatch", "", "function not found")
	} else {
		adds, inLoop := 0, false
		ast.Inspect(fn.Body(), func(nd ast.Node) bool {
			if rs, ok := nd.(*ast.RangeStmt); ok && canon(rs.X) == "data" {
				for _, st := range rs.Body.List {
					if strings.HasSuffix(stmtText(p, st), ".add(s)") {
						inLoop = true
						// nothing before it may leave the iteration
						ast.Inspect(rs.Body, func(x ast.Node) bool {
							switch b := x.(type) {
							case *ast.BranchStmt:
								if b.Pos() < st.Pos() {
									inLoop = false
								}
							case *ast.ReturnStmt:
								if b.Pos() < st.Pos() {
									inLoop = false
								}
							}
							return true
						})
					}
				}
			}
			if call, ok := nd.(*ast.CallExpr); ok && strings.HasSuffix(stmtText(p, call), ".add(s)") {
				adds++
			}
			return true
		})
		c.Check(adds == 1 && inLoop, "every-sample-aggregated-once", rel+".downsampleBatch", p.Pos(fn.Decl.Pos()), "sample-not-aggregated-once",
			fmt.Sprintf("every sample of the batch must be added to the aggregator exactly once, unconditionally in the loop (add sites: %d)", adds))
	}
}
