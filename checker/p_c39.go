package main

import (
	"fmt"
	"go/ast"
	"go/constant"
	"go/token"
	"go/types"
	"strings"
)

func init() {
	register(&Property{
		ID:    "C39",
		Title: "Aggregate chunk encoding round-trips",
		Explain: "(1) Arity agreement: the number of AggrType constants equals the length of every fixed-size array that is indexed by aggregate type (EncodeAggrChunk's parameter, the builder's chunks/apps, dedup's iterator arrays), loops written AggrCount..AggrCounter span the first to the last constant, and AggrType.String names every constant. " +
			"(2) Writer terms: for an absent aggregate the encoder emits only uvarint(0); for a present one uvarint(len(data)), one encoding byte and the data, in that order (structural, append-style construction). " +
			"(3) Reader terms: Get consumes the uvarint (n bytes) and, for a present entry, exactly len+1 bytes in both slice expressions; it reports ErrAggrNotExist exactly for a zero length at the requested index, and its size test, evaluated (E9) over small (n, length, remaining bytes), rejects exactly n < 1 or a present entry with fewer than len+1 bytes left — it does not demand bytes after the zero length of an absent aggregate, which the writer does not emit. " +
			"(4) The slice expressions that depend on the length are dominated by that size test.",
		Assume: []string{"content equality of sub-chunks is not decided", "an encoder that pre-computes its buffer size instead of appending is reported as not understood and needs re-confirmation"},
		Run:    runC39,
	})
}

func runC39(c *Ctx) {
	c.Rule("aggregate-arity-agreement", "arrays, loops and String() agree with the AggrType constants", 6)
	c.Rule("encoder-entry-terms", "absent: uvarint(0); present: uvarint(len), encoding byte, data", 1)
	c.Rule("decoder-entry-terms", "reader consumes what the writer wrote; absent ↔ ErrAggrNotExist", 3)
	p := c.Load("pkg/compact/downsample", "pkg/dedup")
	if p == nil {
		return
	}
	const rel = "pkg/compact/downsample"
	pk := p.Pkg(rel)
	if pk == nil {
		c.Incomplete("aggregate-arity-agreement", rel, "", "package not loaded")
		return
	}
	// constants
	var consts []string
	first, last := "", ""
	maxV := int64(-1)
	sc := pk.Types.Scope()
	for _, n := range sc.Names() {
		cn, ok := sc.Lookup(n).(*types.Const)
		if !ok || !isNamed(cn.Type(), "downsample", "AggrType") {
			continue
		}
		consts = append(consts, n)
		v, _ := constant.Int64Val(cn.Val())
		if v == 0 {
			first = n
		}
		if v > maxV {
			maxV, last = v, n
		}
	}
	nAggr := int64(len(consts))
	if nAggr == 0 || maxV != nAggr-1 {
		c.Incomplete("aggregate-arity-agreement", rel+".AggrType", "", fmt.Sprintf("AggrType constants not contiguous from 0 (%d constants, max %d)", nAggr, maxV))
		return
	}
	// arrays indexed by aggregate type: every array type [N]T with T a chunk/appender/iterator type in the two packages
	seenArr := 0
	for _, prel := range []string{rel, "pkg/dedup"} {
		pkk := p.Pkg(prel)
		if pkk == nil {
			continue
		}
		for _, file := range pkk.Syntax {
			if isGenerated(p.Fset.Position(file.Pos()).Filename) || strings.HasSuffix(p.Fset.Position(file.Pos()).Filename, "_test.go") {
				continue
			}
			ast.Inspect(file, func(nd ast.Node) bool {
				at, ok := nd.(*ast.ArrayType)
				if !ok || at.Len == nil {
					return true
				}
				et := types.TypeString(pkk.TypesInfo.TypeOf(at.Elt), nil)
				if !strings.Contains(et, "chunkenc.Chunk") && !strings.Contains(et, "chunkenc.Appender") && !strings.Contains(et, "chunkenc.Iterator") {
					return true
				}
				n, isC := constInt(pkk.TypesInfo, at.Len)
				if !isC {
					return true
				}
				seenArr++
				c.Check(n == nAggr, "aggregate-arity-agreement", fmt.Sprintf("%s#array@%s", prel, enclosingDeclName(file, at.Pos())), p.Pos(at.Pos()), "array-length-differs",
					fmt.Sprintf("an array indexed by aggregate type has %d slots but there are %d aggregate types", n, nAggr))
				return true
			})
		}
	}
	if seenArr == 0 {
		c.Incomplete("aggregate-arity-agreement", rel+"#arrays", "", "no aggregate-indexed array found")
	}
	// loops first..last
	nLoops := 0
	for _, fn := range p.AllFuncs(true) {
		if fn.Decl == nil || !(strings.HasSuffix(fn.Pkg.PkgPath, rel) || strings.HasSuffix(fn.Pkg.PkgPath, "pkg/dedup")) {
			continue
		}
		info := fn.Info()
		ast.Inspect(fn.Body(), func(nd ast.Node) bool {
			f, ok := nd.(*ast.ForStmt)
			if !ok || f.Init == nil || f.Cond == nil {
				return true
			}
			as, ok := f.Init.(*ast.AssignStmt)
			if !ok || len(as.Rhs) != 1 || !isNamed(info.TypeOf(as.Rhs[0]), "downsample", "AggrType") {
				return true
			}
			be, _ := unparen(f.Cond).(*ast.BinaryExpr)
			if be == nil {
				return true
			}
			var hi int64
			hiOK := false
			if cl, ok := unparen(be.Y).(*ast.CallExpr); ok && len(cl.Args) == 1 {
				// len(<array indexed by aggregate type>)
				if id, ok := cl.Fun.(*ast.Ident); ok && id.Name == "len" {
					if at, ok := info.TypeOf(cl.Args[0]).Underlying().(*types.Array); ok {
						hi, hiOK = at.Len(), true
					}
				}
			} else {
				hi, hiOK = constInt(info, be.Y)
			}
			if !hiOK {
				return true // bounded by a variable (Get's `i <= t`): not a loop over all aggregates
			}
			nLoops++
			lo, loOK := constInt(info, as.Rhs[0])
			// the start may skip aggregates handled separately (dedup treats the count first); the end must be the last one
			okLoop := loOK && lo >= 0 && ((be.Op == token.LEQ && hi == nAggr-1) || (be.Op == token.LSS && hi == nAggr))
			c.Check(okLoop, "aggregate-arity-agreement", fmt.Sprintf("%s.%s#loop[%d]", relPkg(fn.Pkg.PkgPath), fn.Name, nLoops-1), p.Pos(f.Pos()), "aggregate-loop-bounds",
				fmt.Sprintf("a loop over the aggregate types does not span %s..%s", first, last))
			return true
		})
	}
	// String()
	if fn := p.Func(rel, "AggrType", "String"); fn == nil {
		c.Incomplete("aggregate-arity-agreement", rel+".(AggrType).String", "", "function not found")
	} else {
		info := fn.Info()
		named := map[string]bool{}
		ast.Inspect(fn.Body(), func(nd ast.Node) bool {
			if cc, ok := nd.(*ast.CaseClause); ok {
				for _, e := range cc.List {
					if id, ok := unparen(e).(*ast.Ident); ok {
						if cn, ok := info.Uses[id].(*types.Const); ok {
							named[cn.Name()] = true
						}
					}
				}
			}
			return true
		})
		var missing []string
		for _, cn := range consts {
			if !named[cn] {
				missing = append(missing, cn)
			}
		}
		c.Check(len(missing) == 0, "aggregate-arity-agreement", rel+".(AggrType).String", p.Pos(fn.Decl.Pos()), "aggregate-unnamed:"+strings.Join(missing, ","), "aggregate types without a name: "+strings.Join(missing, ", "))
	}

	// (2) encoder
	if fn := p.Func(rel, "", "EncodeAggrChunk"); fn == nil {
		c.Incomplete("encoder-entry-terms", rel+".EncodeAggrChunk", "", "function not found")
	} else {
		info := fn.Info()
		var loop *ast.RangeStmt
		for _, st := range fn.Decl.Body.List {
			if rs, ok := st.(*ast.RangeStmt); ok && loop == nil {
				loop = rs
			}
		}
		bad := ""
		if loop == nil || loop.Value == nil {
			bad = "no loop over the sub-chunks"
		} else {
			cv := canon(loop.Value)
			// terms appended to the output, in order, split by the nil branch
			term := func(e ast.Expr) string {
				t := expandDefText(fn, info, e)
				t = strings.TrimSuffix(t, "...")
				switch {
				case strings.Contains(t, "PutUvarint(") && strings.Contains(t, ",0)"):
					return "uvarint(0)"
				case strings.Contains(t, "PutUvarint(") && strings.Contains(t, "len("+cv+".Bytes())"):
					return "uvarint(len)"
				case t == "byte("+cv+".Encoding())":
					return "enc"
				case t == cv+".Bytes()":
					return "data"
				}
				return "?" + t
			}
			collect := func(list []ast.Stmt) []string {
				var out []string
				for _, st := range list {
					as, ok := st.(*ast.AssignStmt)
					if !ok || len(as.Rhs) != 1 {
						continue
					}
					call, ok := unparen(as.Rhs[0]).(*ast.CallExpr)
					if !ok || len(call.Args) != 2 {
						continue
					}
					if id, ok := call.Fun.(*ast.Ident); ok && id.Name == "append" {
						arg := call.Args[1]
						// buf[:n] → the uvarint just put
						if sl, ok := unparen(arg).(*ast.SliceExpr); ok && sl.High != nil {
							out = append(out, term(sl.High))
							continue
						}
						out = append(out, term(arg))
					}
				}
				return out
			}
			var absent, present []string
			sawNil := false
			var rest []ast.Stmt
			for i, st := range loop.Body.List {
				if is, ok := st.(*ast.IfStmt); ok && canon(is.Cond) == cv+"==nil" && terminates(is.Body.List) {
					sawNil = true
					absent = collect(is.Body.List)
					rest = loop.Body.List[i+1:]
					break
				}
			}
			present = collect(rest)
			// the absent branch taken under more than `c == nil`: a present aggregate is written as absent
			widened := ""
			for _, st := range loop.Body.List {
				is, ok := st.(*ast.IfStmt)
				if !ok || sawNil {
					continue
				}
				be, ok := unparen(is.Cond).(*ast.BinaryExpr)
				if !ok || be.Op != token.LOR {
					continue
				}
				var others []string
				hasNil := false
				var flat func(e ast.Expr)
				flat = func(e ast.Expr) {
					if b, ok := unparen(e).(*ast.BinaryExpr); ok && b.Op == token.LOR {
						flat(b.X)
						flat(b.Y)
						return
					}
					if canon(e) == cv+"==nil" {
						hasNil = true
					} else {
						others = append(others, canon(e))
					}
				}
				flat(is.Cond)
				if hasNil && len(others) > 0 && strings.Join(collect(is.Body.List), ",") == "uvarint(0)" {
					widened = strings.Join(others, " || ")
				}
			}
			switch {
			case widened != "":
				bad = "a present (non-nil) aggregate is written as the zero-length absent marker when `" + widened + "`: Get then reports ErrAggrNotExist for an aggregate that was handed to the encoder"
			case !sawNil:
				bad = "the encoder is not built by appending per entry with an `if c == nil` branch (not understood; re-confirm that it emits uvarint(len), encoding byte, data per present entry and uvarint(0) per absent one)"
			case strings.Join(absent, ",") != "uvarint(0)":
				bad = "an absent aggregate is written as [" + strings.Join(absent, ",") + "], want [uvarint(0)]"
			case strings.Join(present, ",") != "uvarint(len),enc,data":
				bad = "a present aggregate is written as [" + strings.Join(present, ",") + "], want [uvarint(len),enc,data]"
			}
		}
		if strings.Contains(bad, "not understood") {
			c.Incomplete("encoder-entry-terms", rel+".EncodeAggrChunk", p.Pos(fn.Decl.Pos()), bad)
		} else {
			c.Check(bad == "", "encoder-entry-terms", rel+".EncodeAggrChunk", p.Pos(fn.Decl.Pos()), "encoder-terms", bad)
		}
	}

	// (3) reader
	if fn := p.Func(rel, "AggrChunk", "Get"); fn == nil {
		c.Incomplete("decoder-entry-terms", rel+".(AggrChunk).Get", "", "function not found")
	} else {
		info := fn.Info()
		construct := rel + ".(AggrChunk).Get"
		var loop *ast.ForStmt
		for _, st := range fn.Decl.Body.List {
			if f, ok := st.(*ast.ForStmt); ok {
				loop = f
			}
		}
		if loop == nil {
			c.Incomplete("decoder-entry-terms", construct, p.Pos(fn.Decl.Pos()), "no loop over the entries")
			return
		}
		// l, n := binary.Uvarint(b)
		var lObj, nObj types.Object
		var guard *ast.IfStmt
		for _, st := range loop.Body.List {
			switch v := st.(type) {
			case *ast.AssignStmt:
				if len(v.Lhs) == 2 && len(v.Rhs) == 1 {
					if call, ok := unparen(v.Rhs[0]).(*ast.CallExpr); ok {
						if f := calleeOf(info, call); f != nil && f.Name() == "Uvarint" {
							lObj, nObj = objOf(info, v.Lhs[0]), objOf(info, v.Lhs[1])
						}
					}
				}
			case *ast.IfStmt:
				if guard == nil && lObj != nil && terminates(v.Body.List) && mentionsObj(info, v.Cond, nObj) {
					guard = v
				}
			}
		}
		if lObj == nil || guard == nil {
			c.Incomplete("decoder-entry-terms", construct+"#size-test", p.Pos(loop.Pos()), "length read or size test not found")
		} else {
			x := newE9(p, fn, func(e ast.Expr, text string) string {
				t := strings.ReplaceAll(text, " ", "")
				switch {
				case t == nObj.Name():
					return "n"
				case t == lObj.Name():
					return "l"
				case strings.HasPrefix(t, "len(") && strings.Contains(t, "["+nObj.Name()+":]"):
					return "rest"
				}
				return ""
			})
			n, cx, err := e9Table([]string{"n", "l", "rest"}, intRange(0, 3), nil,
				func(env map[string]int64) (int64, error) { v, err := x.eval(guard.Cond, env); return b2i(v.b), err },
				func(env map[string]int64) int64 {
					return b2i(env["n"] < 1 || (env["l"] > 0 && env["rest"] < env["l"]+1))
				})
			c.Stats["assignments_evaluated"] += n
			reportE9(c, "decoder-entry-terms", construct+"#size-test", p.Pos(guard.Pos()), cx, err,
				"the size test differs from: n < 1, or a present entry (length > 0) with fewer than length+1 bytes left — an absent aggregate is only its zero length, nothing follows it (the trailing one has no byte after it)")
		}
		// consumption: b = b[n:], then for present: x = b[:l+1]; b = b[l+1:]
		var slices []string
		ast.Inspect(loop.Body, func(nd ast.Node) bool {
			if sl, ok := nd.(*ast.SliceExpr); ok {
				if _, inCond := p.ParentOf(fn.Pkg, sl).(*ast.CallExpr); inCond {
					return true // len(b[n:]) inside the size test
				}
				lo, hi := "", ""
				if sl.Low != nil {
					lo = canon(stripConvDeep(info, sl.Low))
				}
				if sl.High != nil {
					hi = canon(stripConvDeep(info, sl.High))
				}
				slices = append(slices, "["+lo+":"+hi+"]")
			}
			return true
		})
		ln, nn := "", ""
		if lObj != nil {
			ln, nn = lObj.Name(), nObj.Name()
		}
		want := "[" + nn + ":],[:" + ln + "+1],[" + ln + "+1:]"
		c.Check(strings.Join(slices, ",") == want, "decoder-entry-terms", construct+"#consumption", p.Pos(loop.Pos()), "decoder-consumption",
			"the reader advances by "+strings.Join(slices, ",")+", want "+want+" (the uvarint, then encoding byte + data)")
		// ErrAggrNotExist exactly for l == 0 at i == t
		okAbsent := false
		ast.Inspect(loop.Body, func(nd ast.Node) bool {
			is, ok := nd.(*ast.IfStmt)
			if !ok || lObj == nil || canon(is.Cond) != lObj.Name()+"==0" {
				return true
			}
			if len(is.Body.List) == 2 {
				inner, ok1 := is.Body.List[0].(*ast.IfStmt)
				br, ok2 := is.Body.List[1].(*ast.BranchStmt)
				if ok1 && ok2 && br.Tok == token.CONTINUE && len(inner.Body.List) == 1 {
					if ret, ok := inner.Body.List[0].(*ast.ReturnStmt); ok && len(ret.Results) == 2 && canon(ret.Results[1]) == "ErrAggrNotExist" {
						ct := canon(inner.Cond)
						if be, ok := unparen(inner.Cond).(*ast.BinaryExpr); ok && be.Op == token.EQL && strings.Contains(ct, "t") {
							okAbsent = true
						}
					}
				}
			}
			return true
		})
		c.Check(okAbsent, "decoder-entry-terms", construct+"#absent", p.Pos(loop.Pos()), "absent-not-reported",
			"a zero length at the requested index must yield ErrAggrNotExist, and a zero length before it must be skipped")
	}
}

// stripConvDeep removes conversions inside an arithmetic expression: int(l)+1 → l+1.
func stripConvDeep(info *types.Info, e ast.Expr) ast.Expr {
	e = unparen(e)
	switch v := e.(type) {
	case *ast.BinaryExpr:
		return &ast.BinaryExpr{X: stripConvDeep(info, v.X), Op: v.Op, Y: stripConvDeep(info, v.Y)}
	case *ast.CallExpr:
		if tv, ok := info.Types[v.Fun]; ok && tv.IsType() && len(v.Args) == 1 {
			return stripConvDeep(info, v.Args[0])
		}
	}
	return e
}

func enclosingDeclName(file *ast.File, pos token.Pos) string {
	for _, d := range file.Decls {
		if d.Pos() <= pos && pos < d.End() {
			switch v := d.(type) {
			case *ast.FuncDecl:
				return fnDisplayName(v)
			case *ast.GenDecl:
				for _, sp := range v.Specs {
					if sp.Pos() <= pos && pos < sp.End() {
						if ts, ok := sp.(*ast.TypeSpec); ok {
							// field name inside a struct
							name := ts.Name.Name
							ast.Inspect(ts, func(n ast.Node) bool {
								if f, ok := n.(*ast.Field); ok && f.Pos() <= pos && pos < f.End() && len(f.Names) > 0 {
									name += "." + f.Names[0].Name
								}
								return true
							})
							return name
						}
					}
				}
			}
		}
	}
	return "?"
}
