package main

import (
	"fmt"
	"go/ast"
	"go/types"
	"strings"

	"golang.org/x/tools/go/cfg"
)

func init() {
	register(&Property{
		ID:    "C40",
		Title: "Offline deduplication of downsampled chunks keeps every aggregate sample",
		Explain: "Exclusive ownership of look-ahead iterators. boundedSeriesIterator.Next advances its inner iterator BEFORE testing the upper bound, so when it reports ValNone at maxt it has consumed one sample it did not emit (premise checked: the inner Next() call precedes the `t <= maxt` test). " +
			"Therefore the inner iterator must not be used again after the wrapper is exhausted. Rule (whole-repository sweep over every call of dedup.NewBoundedSeriesIterator): the first argument must be a value created in the calling function (a local variable defined from a call), not one that outlives the call (struct field, array/slice element, captured variable) and is wrapped again by a later call.",
		Assume: []string{"penalty-dedup results themselves are not decided"},
		Run: func(c *Ctx) {
			c.Rule("bounded-iterator-owns-inner", "argument of NewBoundedSeriesIterator is a fresh local iterator", 3)
			c.Rule("every-sample-appended", "the copy loop appends every yielded sample", 1)
			c.Rule("lookahead-premise", "boundedSeriesIterator.Next consumes before testing the bound", 1)
			pats := []string{"pkg/dedup", "pkg/query", "pkg/compact"}
			if c.Tier == "thorough" {
				pats = []string{"pkg/...", "cmd/..."}
			}
			p := c.Load(pats...)
			if p == nil {
				return
			}
			sites := callSitesOf(p, "pkg/dedup.NewBoundedSeriesIterator")
			c.Stats["call_sites"] += len(sites)
			for _, s := range sites {
				info := s.Fn.Info()
				construct := relPkg(s.Fn.Pkg.PkgPath) + "." + s.Fn.Name
				if len(s.Call.Args) < 1 {
					continue
				}
				arg := unparen(s.Call.Args[0])
				kind, desc := "", ""
				switch v := arg.(type) {
				case *ast.Ident:
					o := objOf(info, v)
					if vr, ok := o.(*types.Var); ok && !vr.IsField() {
						// local defined in this function from a call / composite?
						if d := singleDef(s.Fn, info, o); d != nil {
							if _, isCall := unparen(d).(*ast.CallExpr); isCall {
								kind = "fresh"
							} else {
								kind, desc = "persistent", "local:"+exprString(d)
								if _, isLit := unparen(d).(*ast.CompositeLit); isLit {
									kind = "fresh"
								}
								if u, isAddr := unparen(d).(*ast.UnaryExpr); isAddr {
									if _, isLit := unparen(u.X).(*ast.CompositeLit); isLit {
										kind = "fresh"
									}
								}
							}
						} else if isParamOf(s.Fn, o) {
							kind, desc = "persistent", "parameter:"+v.Name
						} else {
							// assigned on several paths: every definition must be a call / literal
							all := true
							n := 0
							ast.Inspect(s.Fn.Body(), func(nd ast.Node) bool {
								if as, ok := nd.(*ast.AssignStmt); ok && len(as.Lhs) == len(as.Rhs) {
									for i, l := range as.Lhs {
										if objOf(info, l) == o {
											n++
											r := unparen(as.Rhs[i])
											if _, isCall := r.(*ast.CallExpr); !isCall {
												if u, isAddr := r.(*ast.UnaryExpr); !isAddr || func() bool { _, isLit := unparen(u.X).(*ast.CompositeLit); return !isLit }() {
													all = false
												}
											}
										}
									}
								}
								return true
							})
							if all && n > 0 {
								kind = "fresh"
							} else {
								kind, desc = "persistent", "local-with-non-fresh-definition:"+v.Name
							}
						}
					} else {
						kind, desc = "persistent", "non-local:"+v.Name
					}
				case *ast.IndexExpr:
					kind, desc = "persistent", "element:"+normalizeIndex(exprString(v))
				case *ast.SelectorExpr:
					kind, desc = "persistent", "field:"+exprString(v)
				case *ast.CallExpr:
					kind = "fresh"
				default:
					kind, desc = "persistent", fmt.Sprintf("%T", arg)
				}
				if kind == "fresh" {
					c.OK("bounded-iterator-owns-inner", construct, p.Pos(s.Call.Pos()), "")
				} else {
					c.Bad("bounded-iterator-owns-inner", construct, p.Pos(s.Call.Pos()), "rewrapped-persistent-iterator:"+desc,
						"NewBoundedSeriesIterator wraps "+exprString(arg)+", which outlives this call: the wrapper consumes one sample beyond maxt before stopping, so the next wrapper created over the same iterator starts one sample late (the first sample of every later output chunk is lost)")
				}
			}
			// every sample the iterator yields is re-encoded: in toChunk's copy loop Append is executed on
			// every path through the loop body (no conditional skip)
			if tc := p.Func("pkg/dedup", "aggrChunkIterator", "toChunk"); tc == nil {
				c.Incomplete("every-sample-appended", "pkg/dedup.(*aggrChunkIterator).toChunk", "", "function not found")
			} else {
				var loop *ast.ForStmt
				ast.Inspect(tc.Body(), func(n ast.Node) bool {
					if f, ok := n.(*ast.ForStmt); ok && f.Cond != nil && strings.Contains(exprString(f.Cond), ".Next()") && loop == nil {
						loop = f
					}
					return true
				})
				if loop == nil {
					c.Incomplete("every-sample-appended", "pkg/dedup.(*aggrChunkIterator).toChunk#copy-loop", p.Pos(tc.Decl.Pos()), "copy loop `for it.Next() != ValNone` not found")
				} else {
					isAppend := func(n ast.Node) bool {
						found := false
						inspectNoLit(n, func(x ast.Node) bool {
							if call, ok := x.(*ast.CallExpr); ok {
								if sel, ok := unparen(call.Fun).(*ast.SelectorExpr); ok && sel.Sel.Name == "Append" {
									found = true
								}
							}
							return true
						})
						return found
					}
					spec := FlowSpec[bool]{
						Entry:    false,
						Transfer: func(n ast.Node, s bool) bool { return s || isAppend(n) },
						BlockEntry: func(b *cfg.Block, s bool) bool {
							if b.Kind == cfg.KindForBody && b.Stmt == ast.Stmt(loop) {
								return false
							}
							return s
						},
						Join:  func(a, b bool) bool { return a && b },
						Equal: func(a, b bool) bool { return a == b },
					}
					r := runFlow(p, tc, spec)
					ok := true
					where := p.Pos(loop.Pos())
					for _, b := range r.G.Blocks {
						if !r.Seen[b] {
							continue
						}
						for _, s := range b.Succs {
							if s.Kind == cfg.KindForLoop && s.Stmt == ast.Stmt(loop) && blockInsideNode(b, loop.Body) {
								if !r.BlockOut(b) {
									ok = false
									if len(b.Nodes) > 0 {
										where = p.Pos(b.Nodes[len(b.Nodes)-1].Pos())
									}
								}
							}
						}
					}
					c.Check(ok, "every-sample-appended", "pkg/dedup.(*aggrChunkIterator).toChunk#copy-loop", where, "sample-skipped-in-copy-loop",
						"an iteration of the copy loop can finish without appending the sample the iterator yielded: that aggregate sample is dropped from the output chunk while the count aggregate (encoded elsewhere) keeps it")
				}
			}
			// premise
			if next := p.Func("pkg/dedup", "boundedSeriesIterator", "Next"); next == nil {
				c.Incomplete("lookahead-premise", "pkg/dedup.(*boundedSeriesIterator).Next", "", "function not found")
			} else {
				var innerNext, boundTest ast.Node
				ast.Inspect(next.Body(), func(n ast.Node) bool {
					switch v := n.(type) {
					case *ast.CallExpr:
						if sel, ok := unparen(v.Fun).(*ast.SelectorExpr); ok && sel.Sel.Name == "Next" && innerNext == nil {
							innerNext = v
						}
					case *ast.BinaryExpr:
						if strings.HasSuffix(exprString(v.Y), ".maxt") && boundTest == nil {
							boundTest = v
						}
					}
					return true
				})
				if innerNext != nil && boundTest != nil && innerNext.Pos() < boundTest.Pos() {
					c.OK("lookahead-premise", "pkg/dedup.(*boundedSeriesIterator).Next", p.Pos(next.Decl.Pos()), "inner Next precedes the maxt test: look-ahead of one sample")
				} else {
					c.Observe("lookahead-premise", "pkg/dedup.(*boundedSeriesIterator).Next", p.Pos(next.Decl.Pos()), "the look-ahead premise no longer holds syntactically; the ownership rule may be stricter than needed")
					c.OK("lookahead-premise", "pkg/dedup.(*boundedSeriesIterator).Next#changed", p.Pos(next.Decl.Pos()), "")
				}
			}
		},
	})
}

func isParamOf(fn *Fn, o types.Object) bool {
	ft := fn.Type()
	if ft.Params == nil {
		return false
	}
	for _, f := range ft.Params.List {
		for _, nm := range f.Names {
			if fn.Info().Defs[nm] == o {
				return true
			}
		}
	}
	return false
}

// normalizeIndex replaces the index by a dot so that the descriptor is stable: a.iters[at] -> a.iters[·]
func normalizeIndex(s string) string {
	if i := strings.LastIndex(s, "["); i >= 0 && strings.HasSuffix(s, "]") {
		return s[:i] + "[·]"
	}
	return s
}
