package main

import (
	"fmt"
	"go/ast"
	"strings"
)

func init() {
	register(&Property{
		ID:    "C41",
		Title: "Splitting a query by interval evaluates every step exactly once",
		Explain: "Structural lemmas, checked for both copies of the splitter (internal/cortex/querier/queryrange and pkg/queryfrontend). (1) nextIntervalBoundary(t, step, interval), interpreted over the integer domain for every small (t, step, interval): the result is t plus a whole number of steps, lies in the interval that contains t, and the next step after it lies in a later interval — so [start, boundary] holds exactly the evaluation timestamps of that interval and boundary+step is the first timestamp of a later one. " +
			"(2) The range-query loop starts at the request's start, ends while start < end, advances to boundary+step, builds [start, boundary], and closes the last sub-query at the request's end exactly when boundary+step >= end (E9) — with `>` the timestamp equal to the end would be evaluated by no sub-query. " +
			"(3) Label/series requests are split into consecutive ranges [start, min(start+interval, end)] advancing by the interval.",
		Assume: []string{"that these lemmas imply the partition of the evaluation timestamps is an induction on the loop, argued in DESIGN.md, not mechanised", "sub-query execution and merging are not decided"},
		Run:    runC41,
	})
}

func runC41(c *Ctx) {
	c.Rule("interval-boundary-lemmas", "aligned, same interval, next step crosses", 2)
	c.Rule("range-split-loop", "start/advance/clamp of the sub-query loop", 2)
	c.Rule("label-split-loop", "consecutive ranges of one interval", 1)
	p := c.Load("internal/cortex/querier/queryrange", "pkg/queryfrontend")
	if p == nil {
		return
	}
	for _, rel := range []string{"internal/cortex/querier/queryrange", "pkg/queryfrontend"} {
		// (1)
		if fn := p.Func(rel, "", "nextIntervalBoundary"); fn == nil {
			c.Incomplete("interval-boundary-lemmas", rel+".nextIntervalBoundary", "", "function not found")
		} else {
			var names []string
			for _, f := range fn.Decl.Type.Params.List {
				for _, nm := range f.Names {
					names = append(names, nm.Name)
				}
			}
			list := fn.Decl.Body.List
			var retExpr ast.Expr
			if len(list) > 0 {
				if ret, ok := list[len(list)-1].(*ast.ReturnStmt); ok && len(ret.Results) == 1 {
					retExpr = ret.Results[0]
					list = list[:len(list)-1]
				}
			}
			construct := rel + ".nextIntervalBoundary"
			if len(names) != 3 || retExpr == nil {
				c.Incomplete("interval-boundary-lemmas", construct, p.Pos(fn.Decl.Pos()), "unexpected signature or no final return")
			} else {
				maxT := int64(14)
				if c.Tier == "thorough" {
					maxT = 40
				}
				viol, runs := "", 0
				unknown := map[string]bool{}
				for iv := int64(1); iv <= 6 && viol == ""; iv++ {
					for step := int64(1); step <= 5 && viol == ""; step++ {
						for t := int64(0); t <= maxT && viol == ""; t++ {
							li := &lenInterp{p: p, fn: fn, info: fn.Info(), slices: map[string]bool{},
								atoms: func(string) string { return "" }, check: func(lenState, ast.Node) string { return "" }}
							init := lenState{v: map[string]int64{names[0]: t, names[1]: step, names[2]: iv * 1000000}}
							out := li.run(list, init)
							runs++
							for _, u := range li.unknown {
								unknown[u] = true
							}
							for _, s := range out {
								nb, ok := li.evalInt(retExpr, s)
								if !ok {
									unknown["return value"] = true
									continue
								}
								nextStart := (t/iv + 1) * iv
								switch {
								case nb < t || (nb-t)%step != 0:
									viol = fmt.Sprintf("t=%d step=%d interval=%d → %d is not t plus a whole number of steps", t, step, iv, nb)
								case nb >= nextStart:
									viol = fmt.Sprintf("t=%d step=%d interval=%d → %d lies beyond the interval of t (next interval starts at %d): a sub-query would span two intervals", t, step, iv, nb, nextStart)
								case nb+step < nextStart:
									viol = fmt.Sprintf("t=%d step=%d interval=%d → %d: the next step %d is still inside the same interval, so the sub-query ends too early and the interval is split", t, step, iv, nb, nb+step)
								}
							}
						}
					}
				}
				c.Stats["abstract_runs"] += runs
				switch {
				case len(unknown) > 0:
					c.Incomplete("interval-boundary-lemmas", construct, p.Pos(fn.Decl.Pos()), "statement forms not understood: "+strings.Join(keysOf(unknown), "; "))
				case viol != "":
					c.Bad("interval-boundary-lemmas", construct, p.Pos(fn.Decl.Pos()), "boundary-lemma", viol)
				default:
					c.OK("interval-boundary-lemmas", construct, p.Pos(fn.Decl.Pos()), fmt.Sprintf("%d abstract runs", runs))
				}
			}
		}

		// (2)
		fn := p.Func(rel, "", "splitQuery")
		if fn == nil {
			c.Incomplete("range-split-loop", rel+".splitQuery", "", "function not found")
			continue
		}
		construct := rel + ".splitQuery"
		var loop *ast.ForStmt
		ast.Inspect(fn.Body(), func(nd ast.Node) bool {
			if f, ok := nd.(*ast.ForStmt); ok && f.Post != nil && strings.Contains(stmtText(p, f.Post), "nextIntervalBoundary(") {
				loop = f
			}
			return true
		})
		if loop == nil {
			c.Incomplete("range-split-loop", construct, p.Pos(fn.Decl.Pos()), "range-query loop not found")
		} else {
			bad := ""
			lb := shapeBind{}
			post := stmtText(p, loop.Post)
			if !matchShape("§start=nextIntervalBoundary(§start,§r.GetStep(),§interval)+§r.GetStep()", post, lb) {
				bad = "the loop advances by `" + post + "`, want boundary + step"
			}
			if loop.Cond == nil || !matchShape("§start<§r.GetEnd()", canon(loop.Cond), lb) {
				bad = "the loop condition is not start < end"
			}
			startOK := false
			if loop.Init != nil && matchShape("§start:=§r.GetStart()", stmtText(p, loop.Init), lb) {
				startOK = true
			}
			if loop.Init == nil {
				// `if start := r.GetStart(); …` around it
				for par := p.ParentOf(fn.Pkg, loop); par != nil; par = p.ParentOf(fn.Pkg, par) {
					if is, ok := par.(*ast.IfStmt); ok && is.Init != nil && matchShape("§start:=§r.GetStart()", stmtText(p, is.Init), lb) {
						startOK = true
					}
				}
			}
			if !startOK && bad == "" {
				bad = "the first sub-query does not start at the request's start"
			}
			var endDef, clamp, build bool
			var clampCond ast.Expr
			for _, st := range loop.Body.List {
				t := stmtText(p, st)
				switch {
				case matchShape("§end:=nextIntervalBoundary(§start,§r.GetStep(),§interval)", t, lb):
					endDef = true
				case strings.HasPrefix(t, "if"):
					if is, ok := st.(*ast.IfStmt); ok && len(is.Body.List) == 1 && matchShape("§end=§r.GetEnd()", stmtText(p, is.Body.List[0]), lb) {
						clamp, clampCond = true, is.Cond
					}
				case containsShape(".WithStartEnd(§start,§end)", t, lb):
					build = true
				}
			}
			switch {
			case bad != "":
			case !endDef:
				bad = "a sub-query does not end at nextIntervalBoundary(start, step, interval)"
			case !clamp:
				bad = "the last sub-query is not closed at the request's end"
			case !build:
				bad = "sub-queries are not built as [start, end]"
			}
			c.Check(bad == "", "range-split-loop", construct+"#shape", p.Pos(loop.Pos()), "split-loop-shape", bad)
			if clampCond != nil {
				x := newE9(p, fn, func(e ast.Expr, text string) string {
					switch strings.ReplaceAll(text, " ", "") {
					case lb["§end"]:
						return "end"
					case lb["§r"] + ".GetStep()":
						return "step"
					case lb["§r"] + ".GetEnd()":
						return "qend"
					}
					return ""
				})
				n, cx, err := e9Table([]string{"end", "step", "qend"}, intRange(0, 4), func(env map[string]int64) bool { return env["step"] >= 1 },
					func(env map[string]int64) (int64, error) { v, err := x.eval(clampCond, env); return b2i(v.b), err },
					func(env map[string]int64) int64 { return b2i(env["end"]+env["step"] >= env["qend"]) })
				c.Stats["assignments_evaluated"] += n
				reportE9(c, "range-split-loop", construct+"#clamp", p.Pos(clampCond.Pos()), cx, err,
					"the last sub-query must be closed at the request's end exactly when boundary + step >= end: otherwise the timestamp equal to the end is evaluated by no sub-query (or a sub-query ends before the request does)")
			}
		}

		// (3) only the thanos frontend splits label/series requests
		if rel == "pkg/queryfrontend" {
			var lloop *ast.ForStmt
			ast.Inspect(fn.Body(), func(nd ast.Node) bool {
				if f, ok := nd.(*ast.ForStmt); ok && f.Post != nil && !strings.Contains(stmtText(p, f.Post), "nextIntervalBoundary(") {
					lloop = f
				}
				return true
			})
			if lloop == nil {
				c.Incomplete("label-split-loop", construct+"#labels", p.Pos(fn.Decl.Pos()), "label/series split loop not found")
			} else {
				bad := ""
				sb := shapeBind{}
				if !matchShape("§start:=§r.GetStart()", stmtText(p, lloop.Init), sb) || !matchShape("§start<§r.GetEnd()", canon(lloop.Cond), sb) {
					bad = "the split does not run from the request's start while start < end"
				}
				if pt := stmtText(p, lloop.Post); !matchShape("§start=§start+§dur", pt, sb) && !matchShape("§start+=§dur", pt, sb) {
					bad = "the split advances by `" + pt + "`, want one interval"
				}
				okEnd, okBuild := false, false
				for _, st := range lloop.Body.List {
					t := stmtText(p, st)
					if matchShape("§end:=min(§start+§dur,§r.GetEnd())", t, sb) {
						okEnd = true
					}
					if containsShape(".WithStartEnd(§start,§end)", t, sb) {
						okBuild = true
					}
				}
				if bad == "" && (!okEnd || !okBuild) {
					bad = "ranges are not built as [start, min(start+interval, end)]"
				}
				// dur is the interval in milliseconds
				durOK := false
				ast.Inspect(fn.Body(), func(nd ast.Node) bool {
					if as, ok := nd.(*ast.AssignStmt); ok && matchShape("§dur:=int64(§interval/time.Millisecond)", stmtText(p, as), sb) {
						durOK = true
					}
					return true
				})
				if bad == "" && !durOK {
					bad = "the step of the split is not the interval in milliseconds"
				}
				c.Check(bad == "", "label-split-loop", construct+"#labels", p.Pos(lloop.Pos()), "label-split-shape", bad)
			}
		}
	}
}
